#!/venv/bin/python
"""usage: register_survey.py <survey log>...  -- (re)builds the survey-derived known findings of C18..C23.

Lines: "<prop> seed<n> <bucket> ||| <message>".  Rule: per function -- if the observed failures span two or more
(kind, argument type, precision band, argument class) combinations the function is covered by `acc:function:` and
`gross:function:`; a function with a single failing combination is registered as that exact bucket, so that a different
failure of the same function is still reported."""
import json, re, collections, sys
d = json.load(open('/verif/known_findings.json'))
d['findings'] = [x for x in d['findings'] if not x.get('survey')]
by = collections.defaultdict(lambda: collections.defaultdict(list))
exc = collections.defaultdict(list)
for fn in sys.argv[1:]:
    for l in open(fn):
        m = re.match(r'(C\d\d) seed\d+ (\S+) \|\|\| (.*)', l)
        if not m:
            continue
        prop, bucket, msg = m.groups()
        parts = bucket.split(':')
        if parts[0] == 'exception':
            exc[(prop, bucket)].append(msg.strip())
            continue
        if parts[0] not in ('acc', 'gross'):
            continue
        if parts[-1] == 'gross':
            parts = ['gross'] + parts[1:-1]
        kind, name, ty = parts[0], parts[1], parts[2]
        by[(prop, kind, name, ty)][':'.join(parts[3:])].append(msg.strip())
new = 0
for (prop, bucket), msgs in sorted(exc.items()):
    d['findings'].append({'id': '%s-exc-%s' % (prop, bucket.split(':', 1)[1].replace('@', '-').replace(':', '-')), 'property': prop,
                          'status': 'known', 'bucket_prefix': bucket, 'scope': 'bucket', 'survey': True,
                          'what': "undocumented exception escaping from a special function: " + msgs[0][:200]})
    new += 1
# per function: all failing buckets over kinds / argument types / classes
perfn = collections.defaultdict(set)
for (prop, kind, name, ty), classes in by.items():
    for cls in classes:
        perfn[(prop, name)].add((kind, ty, cls))
for (prop, name), combos in sorted(perfn.items()):
    msgs = []
    for (kind, ty, cls) in sorted(combos):
        msgs += by[(prop, kind, name, ty)][cls]
    n = len(msgs)
    e = {'property': prop, 'status': 'known', 'scope': 'bucket', 'survey': True}
    if len(combos) >= 2:
        for kind in sorted(set(k for k, _, _ in combos) | {'acc', 'gross'}):
            e2 = dict(e)
            e2['id'] = '%s-%s-%s' % (prop, kind, name)
            e2['bucket_prefix'] = '%s:%s:' % (kind, name)
            e2['what'] = ("%s misses the 2^(8-p) relative accuracy bound in several argument classes / types (%s; multi-seed survey, %d "
                          "cases; '%s' = %s); e.g. %s" % (name, ', '.join(sorted('%s:%s:%s' % c for c in combos))[:300], n, kind,
                                                          'result has (almost) no correct bits' if kind == 'gross' else 'error of a few to many ulp',
                                                          msgs[0][:220]))
            d['findings'].append(e2)
            new += 1
    else:
        kind, ty, cls = list(combos)[0]
        e['id'] = '%s-%s-%s-%s-%s' % (prop, kind, name, ty, cls.replace(':', '-'))
        e['bucket'] = '%s:%s:%s:%s' % (kind, name, ty, cls)
        e['what'] = "%s (%s arguments, class %s): %s (multi-seed survey, %d case(s)); e.g. %s" % (
            name, 'complex' if ty == 'cplx' else 'real', cls,
            'result has (almost) no correct bits' if kind == 'gross' else 'misses the 2^(8-p) relative accuracy bound', n, msgs[0][:240])
        d['findings'].append(e)
        new += 1
json.dump(d, open('/verif/known_findings.json', 'w'), indent=1)
print(new, "survey entries")
