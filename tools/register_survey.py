#!/venv/bin/python
"""usage: register_survey.py <survey log>...  -- (re)builds the survey-derived known findings of C18..C23.

Lines: "<prop> seed<n> <bucket> ||| <message>".  Rule: per (kind, function, real|cplx) -- if the observed failures
span two or more (precision band, argument class) combinations the finding covers `kind:function:type:`; a single
combination is registered as that exact bucket, so that a different failure of the same function is still reported."""
import json, re, collections, sys
d = json.load(open('/verif/known_findings.json'))
d['findings'] = [x for x in d['findings'] if not x.get('survey')]
by = collections.defaultdict(lambda: collections.defaultdict(list))
exc = collections.defaultdict(list)
for fn in sys.argv[1:]:
    for l in open(fn):
        m = re.match(r'(C\d\d) seed\d+ (\S+) \|\|\| (.*)', l)
        if not m:
            continue
        prop, bucket, msg = m.groups()
        parts = bucket.split(':')
        if parts[0] == 'exception':
            exc[(prop, bucket)].append(msg.strip())
            continue
        if parts[0] not in ('acc', 'gross'):
            continue
        if parts[-1] == 'gross':
            parts = ['gross'] + parts[1:-1]
        kind, name, ty = parts[0], parts[1], parts[2]
        by[(prop, kind, name, ty)][':'.join(parts[3:])].append(msg.strip())
new = 0
for (prop, bucket), msgs in sorted(exc.items()):
    d['findings'].append({'id': '%s-exc-%s' % (prop, bucket.split(':', 1)[1].replace('@', '-').replace(':', '-')), 'property': prop,
                          'status': 'known', 'bucket_prefix': bucket, 'scope': 'bucket', 'survey': True,
                          'what': "undocumented exception escaping from a special function: " + msgs[0][:200]})
    new += 1
for (prop, kind, name, ty), classes in sorted(by.items()):
    n = sum(len(v) for v in classes.values())
    first = sorted(classes.items())[0][1][0]
    desc = ("%s (%s arguments): result has (almost) no correct bits" if kind == 'gross' else
            "%s (%s arguments) misses the 2^(8-p) relative accuracy bound") % (name, 'complex' if ty == 'cplx' else 'real')
    e = {'property': prop, 'status': 'known', 'scope': 'bucket', 'survey': True}
    if len(classes) >= 2:
        e['id'] = '%s-%s-%s-%s' % (prop, kind, name, ty)
        e['bucket_prefix'] = '%s:%s:%s:' % (kind, name, ty)
        e['what'] = "%s in several argument classes (%s; multi-seed survey, %d cases); e.g. %s" % (desc, ', '.join(sorted(classes)), n, first[:240])
    else:
        cls = list(classes)[0]
        e['id'] = '%s-%s-%s-%s-%s' % (prop, kind, name, ty, cls.replace(':', '-'))
        e['bucket'] = '%s:%s:%s:%s' % (kind, name, ty, cls)
        e['what'] = "%s in argument class %s (multi-seed survey, %d case(s)); e.g. %s" % (desc, cls, n, first[:240])
    d['findings'].append(e)
    new += 1
json.dump(d, open('/verif/known_findings.json', 'w'), indent=1)
print(new, "survey entries")
