#!/venv/bin/python
"""usage: register_survey.py <survey log>...  -- adds function-level known findings for C18..C23 accuracy buckets"""
import json, re, collections, sys
d = json.load(open('/verif/known_findings.json'))
have = set(x['id'] for x in d['findings'])
by = collections.defaultdict(list)
for fn in sys.argv[1:]:
    for l in open(fn):
        m = re.match(r'(C\d\d) seed\d+ (acc|gross|exception):([^: ]+)[^|]*\|\|\| (.*)', l)
        if not m:
            continue
        prop, kind, name, msg = m.groups()
        bucket = l.split()[2]
        if kind == 'acc' and bucket.endswith(':gross'):
            bucket = bucket[:-6]
        if kind == 'acc' and (l.split()[2].endswith(':gross') or bucket.startswith('gross:')):
            kind, name = 'gross', bucket.split(':', 1)[1]
        by[(prop, kind, name)].append(msg.strip())
new = 0
for (prop, kind, name), msgs in sorted(by.items()):
    if kind == 'exception':
        fid = '%s-exc-%s' % (prop, name.replace('@', '-'))
        e = {'id': fid, 'property': prop, 'status': 'known', 'bucket_prefix': 'exception:' + name, 'scope': 'bucket',
             'what': "undocumented exception escaping from a special function: " + msgs[0][:200]}
    elif kind == 'gross':
        fid = '%s-gross-%s' % (prop, name.replace(':', '-'))
        e = {'id': fid, 'property': prop, 'status': 'known', 'bucket': 'gross:' + name, 'scope': 'bucket',
             'what': "%s: result has (almost) no correct bits in this argument class (multi-seed survey, %d case(s)); first: %s" % (name.split(':')[0], len(msgs), msgs[0][:260])}
    else:
        fid = '%s-acc-%s' % (prop, name)
        e = {'id': fid, 'property': prop, 'status': 'known', 'bucket_prefix': 'acc:%s:' % name, 'scope': 'bucket',
             'what': "%s misses the 2^(8-p) relative accuracy bound for some generated arguments (multi-seed survey, %d case(s)); first: %s" % (name, len(msgs), msgs[0][:260])}
    if fid not in have:
        d['findings'].append(e)
        new += 1
        print("new:", fid)
json.dump(d, open('/verif/known_findings.json', 'w'), indent=1)
print(new, "new entries")
