#!/bin/sh
# usage: tools/fullpass.sh <seed> [tier]  -> one line per check (rc, summary); violations listed underneath
S="$1"; T="${2:-quick}"
HERE="$(cd "$(dirname "$0")/.." && pwd)"
for ID in $(/venv/bin/python -c "import json; print(' '.join(c['property_id'] for c in json.load(open('$HERE/MANIFEST.json'))['checks']))"); do
  VERIF_SEED=$S VERIF_EVIDENCE_DIR="$HERE/out/fullpass-ev" "$HERE/vf" check "$ID" --tier "$T" > "$HERE/out/fp.$$.log" 2>&1
  RC=$?
  echo "seed$S $ID rc=$RC $(grep -E "^$ID $T:" "$HERE/out/fp.$$.log" | cut -c1-150)"
  [ "$RC" != 0 ] && grep -E "^VIOLATION|bucket=|HARNESS|Error" "$HERE/out/fp.$$.log" | cut -c1-400
done
rm -f "$HERE/out/fp.$$.log"
