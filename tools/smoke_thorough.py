#!/venv/bin/python
"""Smoke test of the thorough tier: for every registered check, every distinct shard name of shards('thorough') is driven for
3 generated cases (gen_case with tier='thorough' + check_case).  Only looks for harness errors; run via ./vf-style env."""
import importlib, json, os, sys, time, traceback
H = os.path.dirname(os.path.dirname(os.path.abspath(__file__)))
from vfw import core
ids = sys.argv[1:] or [c["property_id"] for c in json.load(open(os.path.join(H, "MANIFEST.json")))["checks"]]
bad = 0
for pid in ids:
    m = importlib.import_module("vfw.props.%s" % pid)
    names = []
    for s, n in m.shards("thorough"):
        if s not in names:
            names.append(s)
    t0 = time.time()
    for s in names:
        if s.startswith("exh") or hasattr(m, "custom_shard") and m.custom_shard.__code__.co_argcount and s.split(":")[0] in ("exh", "scan", "switch", "enum"):
            continue
        try:
            coll = core.drive(m, s, 12345, 3, "thorough")
        except BaseException:
            bad += 1
            print(pid, s, "HARNESS ERROR\n", traceback.format_exc()[-1500:])
    print(pid, "ok: %d shard kinds, %.1fs" % (len(names), time.time() - t0), flush=True)
print("problems:", bad)
