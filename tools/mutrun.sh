#!/bin/sh
# usage: tools/mutrun.sh <patch.diff | "sed:<file>:<sed-expr>"> <ID> [<ID> ...]
# Applies a change to a scratch worktree of /repo (never /repo itself), runs the quick checks of the given
# properties against it (evidence redirected to out/mut-evidence), prints the outcome, removes the worktree.
HERE="$(cd "$(dirname "$0")/.." && pwd)"
SPEC="$1"; shift
WT="/tmp/vfmut.$$"
git -C /repo worktree add -q --detach "$WT" HEAD || exit 2
case "$SPEC" in
  sed:*) F=$(echo "$SPEC" | cut -d: -f2); E=$(echo "$SPEC" | cut -d: -f3-); sed -i "$E" "$WT/$F" ;;
  *) git -C "$WT" apply "$SPEC" || { echo "patch does not apply"; git -C /repo worktree remove --force "$WT"; exit 2; } ;;
esac
git -C "$WT" diff --stat | tail -1
for ID in "$@"; do
  VERIF_REPO="$WT" VERIF_EVIDENCE_DIR="$HERE/out/mut-evidence" VERIF_NOSHRINK="${VERIF_NOSHRINK-1}" "$HERE/vf" check "$ID" --tier "${TIER:-quick}" > "$HERE/out/mut.$$.log" 2>&1
  RC=$?
  NV=$(grep -c '^VIOLATION' "$HERE/out/mut.$$.log")
  echo "== $ID rc=$RC violations=$NV :: $(grep -m1 -A1 '^VIOLATION' "$HERE/out/mut.$$.log" | tail -1 | cut -c1-220)"
  [ "$RC" = 2 ] && tail -5 "$HERE/out/mut.$$.log"
  rm -f "$HERE/out/mut.$$.log"
done
git -C /repo worktree remove --force "$WT"
