#!/bin/sh
# usage: tools/confirm_seed.sh <src-dir with patch.diff demo.py meta.json> <seed-name> <check IDs...>
# Confirms a seeded change in a scratch worktree (tests pass with it, demo fails with / passes without it),
# runs the given checks against it, and stores it under seeded/<seed-name>/.
HERE="$(cd "$(dirname "$0")/.." && pwd)"
SRC="$1"; NAME="$2"; shift 2
PATCH="$SRC/patch.diff"; [ -f "$SRC/patch.rebased.diff" ] && PATCH="$SRC/patch.rebased.diff"
WT="/tmp/vfseed.$$"
git -C /repo worktree add -q --detach "$WT" HEAD || exit 2
cd "$WT"
/venv/bin/python "$SRC/demo.py" >/dev/null 2>&1; D0=$?
git apply "$PATCH" || { echo "patch does not apply"; cd /; git -C /repo worktree remove --force "$WT"; exit 2; }
/venv/bin/python "$SRC/demo.py" >/dev/null 2>&1; D1=$?
T=$(timeout 1500 /venv/bin/python -m pytest -q -p no:cacheprovider --timeout=600 mpmath/tests 2>&1 | tail -1)
cd "$HERE"
RES=""
for ID in "$@"; do
  VERIF_REPO="$WT" VERIF_EVIDENCE_DIR="$HERE/out/mut-evidence" VERIF_NOSHRINK=1 "$HERE/vf" check "$ID" --tier quick > "$HERE/out/seed.$$.log" 2>&1
  RC=$?
  B=$(grep -m1 -A1 '^VIOLATION' "$HERE/out/seed.$$.log" | tail -1 | sed 's/ ::.*//' | sed 's/^ *//')
  RES="$RES $ID:rc=$RC($B)"
done
rm -f "$HERE/out/seed.$$.log"
git -C /repo worktree remove --force "$WT"
echo "$NAME: demo_without=$D0 demo_with=$D1 tests='$T' checks:$RES"
mkdir -p "$HERE/seeded/$NAME"
cp "$PATCH" "$HERE/seeded/$NAME/patch.diff"; cp "$SRC/demo.py" "$HERE/seeded/$NAME/demo.py"
/venv/bin/python - "$SRC/meta.json" "$HERE/seeded/$NAME/meta.json" "$D0" "$D1" "$T" "$RES" <<'PY'
import json, sys
src, dst, d0, d1, t, res = sys.argv[1:7]
m = json.load(open(src))
m["confirmed"] = {"demo_exit_without_patch": int(d0), "demo_exit_with_patch": int(d1), "existing_tests_with_patch": t,
                  "ran": "tools/confirm_seed.sh (scratch worktree of /repo HEAD, serial pytest, demo, quick checks with VERIF_REPO=<worktree>)",
                  "checks": res.strip()}
json.dump(m, open(dst, "w"), indent=1)
PY
