#!/venv/bin/python
"""usage: addfinding.py <id> <property> <fixed|known> <commit-subject-substring|-> <what> <replay.json> [bucket] [region]"""
import json, sys, subprocess
fid, prop, status, csub, what, rp = sys.argv[1:7]
bucket = sys.argv[7] if len(sys.argv) > 7 else None
region = sys.argv[8] if len(sys.argv) > 8 else None
d = json.load(open('/verif/known_findings.json'))
e = {"id": fid, "property": prop, "status": status}
if csub != "-":
    for l in subprocess.check_output(['git', '-C', '/repo', 'log', '--format=%h %s']).decode().splitlines():
        if csub in l:
            e["commit"] = l.split()[0]
            break
    else:
        sys.exit("commit not found")
pay = json.load(open(rp))
e["what"] = ("fixed: " if status == "fixed" else "") + "property=%s %s" % (prop, what) if status == "fixed" else what
e["witness"] = pay["case"] if "case" in pay else pay
if status == "known":
    e["bucket"] = bucket or pay.get("bucket")
    if region:
        e["region"] = region
    else:
        e["scope"] = "bucket"
d["findings"] = [x for x in d["findings"] if x["id"] != fid] + [e]
json.dump(d, open('/verif/known_findings.json', 'w'), indent=1)
print("added", fid)
