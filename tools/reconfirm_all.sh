#!/bin/sh
# Re-confirms every seeded change against the current /repo HEAD and the current checks (same check IDs as recorded).
HERE="$(cd "$(dirname "$0")/.." && pwd)"
for D in "$HERE"/seeded/*/; do
  NAME=$(basename "$D")
  IDS=$(/venv/bin/python -c "import json,re; print(' '.join(re.findall(r'(C\d\d):rc', json.load(open('$D/meta.json'))['confirmed']['checks'])))")
  rm -rf /tmp/reconf_src; mkdir -p /tmp/reconf_src; cp "$D"/patch.diff "$D"/demo.py "$D"/meta.json /tmp/reconf_src/
  "$HERE/tools/confirm_seed.sh" /tmp/reconf_src "$NAME" $IDS | cut -c1-300
done
rm -rf /tmp/reconf_src
