#!/venv/bin/python
"""Regenerates MANIFEST.json from the registry below (run from /verif)."""
import json, os, importlib, sys
HERE = os.path.dirname(os.path.dirname(os.path.abspath(__file__)))
sys.path.insert(0, HERE)
os.environ.setdefault("VERIF_HOME", HERE)
props = [json.loads(l) for l in open(os.path.join(HERE, "properties.jsonl"))]
checks = []
na = []
NA_REASONS = {}
for p in props:
    pid = p["id"]
    modpath = os.path.join(HERE, "vfw", "props", pid + ".py")
    if not os.path.exists(modpath):
        na.append({"property_id": pid, "reason": NA_REASONS.get(pid, "check not built yet (work in progress; will be claimed when its quick tier passes the sensitivity protocol of DESIGN.md 3.8)")})
        continue
    m = importlib.import_module("vfw.props." + pid)
    if getattr(m, "NOT_CLAIMED", None):
        na.append({"property_id": pid, "reason": m.NOT_CLAIMED})
        continue
    checks.append({
        "property_id": pid,
        "quick_cmd": "./vf check %s --tier quick" % pid,
        "thorough_cmd": "./vf check %s --tier thorough" % pid,
        "evidence_file": "evidence/%s.json" % pid,
        "replay_cmd_template": "./vf replay %s {path}" % pid,
        "engine": "vfw",
        "level_claimed": {"category": getattr(m, "LEVEL", "exploration"),
                          "text": getattr(m, "LEVEL_TEXT", "Generated-input search (Hypothesis, seeded, sharded over 16 processes) against an explicit independent oracle; the property held on every generated case. Not a proof of absence."),
                          "design_ref": "DESIGN.md section 5, " + pid},
        "level_note": "; ".join(getattr(m, "ASSUMPTIONS", [])) or "CPython, Hypothesis",
        "technique": getattr(m, "TECHNIQUE", "property-based testing (Hypothesis) against an exact oracle"),
    })
man = {
    "version": 1,
    "setup_cmd": "./vf setup",
    "hooks": {"guard": "MPMATH_VERIF", "enable": "no source hooks are needed: fault injection and work budgets use sys.settrace/sys.monitoring from the harness; checks import /repo's working tree directly (pure Python, PYTHONPATH=/repo)",
              "baseline_off_cmd": "cd /repo && /venv/bin/python -m pytest -q -p no:cacheprovider --timeout=900 mpmath/tests",
              "source_commits": [], "add_only": True},
    "engines": [{"name": "vfw", "path": "vfw/", "serves_properties": [c["property_id"] for c in checks],
                 "kind_free_text": "property-based testing: Hypothesis-driven structural generators, collect-mode oracles (exact rationals, MPFR/MPC via ctypes, frozen mpmath 1.3.0 at 2p+64 bits, identities), exhaustive small sub-domains, trace-based fault injection, replay files"}],
    "checks": checks,
    "not_applicable": na,
    "notes": "VERIF_SEED selects the Hypothesis seeds (shard i uses VERIF_SEED*1009+i). Exit 2 = harness error/inconclusive, never a violation. Replay files of new violations are written under out/replay/<id>/; committed regression cases live in replay/<id>/ and known_findings.json.",
}
json.dump(man, open(os.path.join(HERE, "MANIFEST.json"), "w"), indent=1)
print("checks:", len(checks), "not_applicable:", len(na))
