#!/bin/sh
# usage: tools/survey.sh <ID> <seed> [tier]   -> prints "bucket ||| message" lines of every violation bucket (no shrinking)
ID="$1"; S="$2"; T="${3:-quick}"
HERE="$(cd "$(dirname "$0")/.." && pwd)"
VERIF_SEED=$S VERIF_NOSHRINK=1 VERIF_EVIDENCE_DIR="$HERE/out/survey-ev" "$HERE/vf" check "$ID" --tier "$T" 2>&1 | grep "^   bucket=" | sed "s/^   bucket=//; s/ :: / ||| /" | cut -c1-700
