#!/bin/sh
# usage: tools/thoroughpass.sh <seed> <ID>...   -> thorough tier of the given checks, one summary line each
S="$1"; shift
HERE="$(cd "$(dirname "$0")/.." && pwd)"
for ID in "$@"; do
  VERIF_SEED=$S VERIF_NOSHRINK=1 VERIF_EVIDENCE_DIR="$HERE/out/thorough-ev" "$HERE/vf" check "$ID" --tier thorough > "$HERE/out/tp.$ID.log" 2>&1
  RC=$?
  echo "thorough seed$S $ID rc=$RC $(grep -E "^$ID thorough:" "$HERE/out/tp.$ID.log" | cut -c1-150)"
  [ "$RC" != 0 ] && grep -E "^VIOLATION|bucket=|HARNESS|Error" "$HERE/out/tp.$ID.log" | cut -c1-400
done
