"""Catalogue of public mp-context callables with argument templates.

spec letters (one per positional argument):
  z  real or complex, moderate magnitude          x  real, moderate magnitude
  p  positive real                                 u  real in (-1, 1)          U  real in (0, 1)
  w  real > 1                                      n  integer 0..12            N  integer -6..12
  k  integer 1..8                                  q  nome: real or complex, |q| < 0.8
  m  elliptic parameter: real < 1 or complex       t  real in a wide range (|t| up to 1e3)
  L  list of 0..3 z                                j  theta index 1..4         K  string kind for ellipfun
cost: f (< 1 ms at 53 bits), m (1-30 ms), s (slower)
family: which accuracy property the function belongs to (C12, C18..C23, C25) or None
"""
from . import exact, gen
from .exact import fzero, raw_json as J, raw_unjson as U

# name: (spec, cost, family)
FUNCS = {
    # ---- elementary (C12)
    "exp": ("z", "f", "C12"), "ln": ("z", "f", "C12"), "log": ("z", "f", "C12"), "log10": ("z", "f", "C12"),
    "sqrt": ("z", "f", "C12"), "cbrt": ("z", "f", "C12"), "root": ("zk", "f", "C12"), "power": ("zz", "f", "C12"),
    "sin": ("z", "f", "C12"), "cos": ("z", "f", "C12"), "tan": ("z", "f", "C12"), "sec": ("z", "f", "C12"),
    "csc": ("z", "f", "C12"), "cot": ("z", "f", "C12"), "sinh": ("z", "f", "C12"), "cosh": ("z", "f", "C12"),
    "tanh": ("z", "f", "C12"), "sech": ("z", "f", "C12"), "csch": ("z", "f", "C12"), "coth": ("z", "f", "C12"),
    "asin": ("z", "f", "C12"), "acos": ("z", "f", "C12"), "atan": ("z", "f", "C12"), "asec": ("z", "f", "C12"),
    "acsc": ("z", "f", "C12"), "acot": ("z", "f", "C12"), "asinh": ("z", "f", "C12"), "acosh": ("z", "f", "C12"),
    "atanh": ("z", "f", "C12"), "asech": ("z", "f", "C12"), "acsch": ("z", "f", "C12"), "acoth": ("z", "f", "C12"),
    "atan2": ("xx", "f", "C12"), "hypot": ("xx", "f", "C12"), "arg": ("z", "f", "C12"), "sinpi": ("z", "f", "C12"),
    "cospi": ("z", "f", "C12"), "expj": ("z", "f", "C12"), "expjpi": ("z", "f", "C12"), "log1p": ("z", "f", "C12"),
    "expm1": ("z", "f", "C12"), "powm1": ("zz", "f", "C12"), "sinc": ("z", "f", "C12"), "sincpi": ("z", "f", "C12"),
    "fabs": ("z", "f", None), "sign": ("z", "f", None), "re": ("z", "f", None), "im": ("z", "f", None),
    "conj": ("z", "f", None), "floor": ("z", "f", None), "ceil": ("z", "f", None), "nint": ("z", "f", None),
    "frac": ("z", "f", None), "degrees": ("x", "f", None), "radians": ("x", "f", None), "fmod": ("xp", "f", None),
    "fib": ("z", "f", "C25"), "fibonacci": ("z", "f", "C25"),
    # ---- gamma family (C18)
    "gamma": ("z", "f", "C18"), "rgamma": ("z", "f", "C18"), "loggamma": ("z", "f", "C18"), "factorial": ("z", "f", "C18"),
    "fac": ("z", "f", "C18"), "fac2": ("z", "m", "C18"), "beta": ("zz", "m", "C18"), "binomial": ("zz", "m", "C18"),
    "rf": ("zz", "m", "C18"), "ff": ("zz", "m", "C18"), "digamma": ("z", "f", "C18"), "psi": ("nz", "m", "C18"),
    "polygamma": ("nz", "m", "C18"), "harmonic": ("z", "f", "C18"), "barnesg": ("z", "m", "C18"),
    "superfac": ("z", "m", "C18"), "hyperfac": ("z", "m", "C18"), "gammaprod": ("LL", "m", "C18"),
    # ---- zeta family (C19)
    "zeta": ("z", "m", "C19"), "altzeta": ("z", "m", "C19"), "polylog": ("zu", "m", "C19"), "lerchphi": ("uzp", "s", "C19"),
    "bernpoly": ("nz", "m", "C19"), "eulerpoly": ("nz", "m", "C19"), "stieltjes": ("n", "s", "C19"),
    "primezeta": ("w", "s", "C19"), "siegeltheta": ("t", "m", "C19"), "siegelz": ("t", "m", "C19"),
    "riemannr": ("p", "m", "C19"), "bernoulli": ("n", "f", "C25"), "hurwitz": ("zp", "m", "C19"),
    "clsin": ("kx", "m", None), "clcos": ("kx", "m", None), "polyexp": ("nx", "m", None), "secondzeta": ("w", "s", None),
    # ---- error functions and exponential integrals (C20)
    "erf": ("z", "f", "C20"), "erfc": ("z", "f", "C20"), "erfi": ("z", "m", "C20"), "erfinv": ("u", "m", "C20"),
    "npdf": ("x", "f", "C20"), "ncdf": ("x", "f", "C20"), "ei": ("z", "f", "C20"), "e1": ("z", "f", "C20"),
    "expint": ("Nz", "m", "C20"), "li": ("p", "m", "C20"), "si": ("z", "m", "C20"), "ci": ("z", "m", "C20"),
    "shi": ("z", "m", "C20"), "chi": ("z", "m", "C20"), "fresnels": ("z", "m", "C20"), "fresnelc": ("z", "m", "C20"),
    "gammainc": ("zp", "m", "C20"), "betainc": ("ppUU", "m", "C20"),
    # ---- Bessel etc (C21)
    "besselj": ("vz", "m", "C21"), "bessely": ("vz", "m", "C21"), "besseli": ("vz", "m", "C21"), "besselk": ("vz", "m", "C21"),
    "hankel1": ("vz", "m", "C21"), "hankel2": ("vz", "m", "C21"), "airyai": ("z", "m", "C21"), "airybi": ("z", "m", "C21"),
    "struveh": ("vz", "m", "C21"), "struvel": ("vz", "m", "C21"), "ber": ("Np", "m", "C21"), "bei": ("Np", "m", "C21"),
    "ker": ("Np", "m", "C21"), "kei": ("Np", "m", "C21"), "scorergi": ("z", "s", "C21"), "scorerhi": ("z", "s", "C21"),
    "coulombf": ("nxp", "s", "C21"), "coulombg": ("nxp", "s", "C21"), "angerj": ("xz", "s", "C21"),
    "webere": ("xz", "s", "C21"), "lommels1": ("xxp", "s", "C21"), "lommels2": ("xxp", "s", "C21"),
    "besseljzero": ("nk", "s", "C21"), "besselyzero": ("nk", "s", "C21"), "airyaizero": ("k", "s", "C21"),
    "airybizero": ("k", "s", "C21"), "j0": ("z", "m", "C21"), "j1": ("z", "m", "C21"),
    # ---- hypergeometric & orthogonal polynomials (C22)
    "hyp0f1": ("xz", "m", "C22"), "hyp1f1": ("xxz", "m", "C22"), "hyp1f2": ("xxxz", "m", "C22"),
    "hyp2f0": ("xxu", "m", "C22"), "hyp2f1": ("xxxu", "m", "C22"), "hyp2f2": ("xxxxz", "m", "C22"),
    "hyp2f3": ("xxxxxz", "m", "C22"), "hyp3f2": ("xxxxxu", "m", "C22"), "hyperu": ("xxp", "s", "C22"),
    "whitm": ("xxp", "s", "C22"), "whitw": ("xxp", "s", "C22"), "legendre": ("Nx", "m", "C22"),
    "legenp": ("Nnu", "m", "C22"), "legenq": ("nnu", "s", "C22"), "chebyt": ("nx", "m", "C22"), "chebyu": ("nx", "m", "C22"),
    "jacobi": ("nxxx", "m", "C22"), "gegenbauer": ("npx", "m", "C22"), "hermite": ("nz", "m", "C22"),
    "laguerre": ("nxz", "m", "C22"), "spherharm": ("nnxx", "s", "C22"), "pcfd": ("xz", "s", "C22"), "pcfu": ("xz", "s", "C22"),
    "pcfv": ("xx", "s", "C22"), "pcfw": ("xx", "s", "C22"), "appellf1": ("xxxxuu", "s", "C22"),
    # ---- elliptic, theta, ... (C23)
    "ellipk": ("m", "m", "C23"), "ellipe": ("m", "m", "C23"), "ellipf": ("xm", "s", "C23"), "ellippi": ("um", "s", "C23"),
    "elliprf": ("ppp", "m", "C23"), "elliprc": ("pp", "m", "C23"), "elliprj": ("pppp", "s", "C23"),
    "elliprd": ("ppp", "m", "C23"), "elliprg": ("ppp", "s", "C23"), "agm": ("pp", "f", "C23"),
    "jtheta": ("jzq", "m", "C23"), "ellipfun": ("KxU", "s", "C23"), "kleinj": ("Z", "s", "C23"), "eta": ("Z", "m", "C23"),
    "lambertw": ("z", "m", "C23"), "qp": ("uq", "m", "C23"), "qgamma": ("pU", "s", "C23"),
    # ---- number theoretic (C25)
    "eulernum": ("n", "m", "C25"), "stirling1": ("nn", "m", "C25"), "stirling2": ("nn", "m", "C25"), "bell": ("n", "m", "C25"),
    "primepi": ("p", "m", "C25"), "mangoldt": ("k", "f", "C25"), "cyclotomic": ("kx", "m", "C25"),
}

CONSTANTS = ["pi", "e", "ln2", "ln10", "phi", "degree", "euler", "catalan", "apery", "khinchin", "glaisher",
             "twinprime", "mertens"]


def names(cost="fms", family=None):
    out = []
    for k, (spec, c, fam) in sorted(FUNCS.items()):
        if c in cost and (family is None or fam == family):
            out.append(k)
    return out


def gen_arg(d, letter, p, long_bits=0):
    """JSON-able argument: ["mpf", raw] | ["mpc", [raw, raw]] | ["int", n] | ["str", s] | ["list", [...]]
    long_bits > 0 forces mantissas of about that many bits (arguments carrying more bits than p)."""
    def real(lo=None, hi=None, positive=False):
        bc = long_bits or d.choice([1, 3, 10, 24, p, p + 1, 2 * p])
        bc = max(1, bc)
        m = (1 << (bc - 1)) | d.bits(min(bc - 1, 64)) << max(0, bc - 1 - 64) | d.bits(min(bc - 1, 30)) | (1 if long_bits else 0)
        top = d.int(-6, 5)
        s = 0 if positive else d.int(0, 1)
        return exact.mk(s, m, top - m.bit_length())
    if letter == "z":
        if d.int(0, 2) == 0:
            return ["mpc", [J(real()), J(real())]]
        return ["mpf", J(real())]
    if letter == "Z":      # upper half plane
        re = real()
        im = real(positive=True)
        im = (0, im[1], im[2] + 2, im[3]) if im[2] + im[3] < -1 else im
        return ["mpc", [J(re), J(im)]]
    if letter == "x":
        return ["mpf", J(real())]
    if letter == "t":
        r = real()
        return ["mpf", J((r[0], r[1], r[2] + d.int(0, 8), r[3]))]
    if letter == "p":
        return ["mpf", J(real(positive=True))]
    if letter in ("u", "U", "w"):
        bc = long_bits or d.choice([3, 10, 24, p, p + 1])
        m = (1 << (bc - 1)) | d.bits(min(bc - 1, 62)) | (1 if long_bits else 0)
        r = exact.mk(0 if letter != "u" else d.int(0, 1), m, -m.bit_length() - d.int(0, 3))
        if letter == "w":
            r = exact.mk(0, m | (1 << (m.bit_length() + 1)), -m.bit_length())     # in (2, 3) roughly
        return ["mpf", J(r)]
    if letter == "m":
        if d.int(0, 3) == 0:
            return ["mpc", [J(real()), J(real())]]
        r = real()
        if not r[0] and r[2] + r[3] > 0:
            r = (r[0], r[1], -r[3] - 1, r[3])
        return ["mpf", J(r)]
    if letter == "q":
        bc = long_bits or d.choice([3, 10, p])
        m = (1 << (bc - 1)) | d.bits(min(bc - 1, 62)) | (1 if long_bits else 0)
        r = exact.mk(d.int(0, 1), m, -m.bit_length() - d.int(1, 3))
        if d.int(0, 2) == 0:
            m2 = (1 << (bc - 1)) | d.bits(min(bc - 1, 62))
            return ["mpc", [J(r), J(exact.mk(d.int(0, 1), m2, -m2.bit_length() - d.int(1, 3)))]]
        return ["mpf", J(r)]
    if letter == "n":
        return ["int", d.int(0, 12)]
    if letter == "N":
        return ["int", d.int(-6, 12)]
    if letter == "v":
        # order / degree of a Bessel-type function: integer, half-integer, integer +- 2^-k, or a general real
        k = d.weighted([(4, "int"), (2, "half"), (3, "near"), (3, "real")])
        n = d.int(-6, 12)
        if k == "int":
            return ["int", n]
        if k == "half":
            return ["mpf", J(exact.mk(1 if n < 0 else 0, 2 * abs(n) + 1, -1))]
        if k == "near":
            kk = d.choice([8, 18, 20, 30, 40, 60, 100]) if d.bool() else d.int(2, 2 * p)
            m = (abs(n) << kk) + d.choice([1, -1]) if n else 1
            return ["mpf", J(exact.mk(1 if n < 0 else 0, m, -kk))]
        return ["mpf", J(real())]
    if letter == "k":
        return ["int", d.int(1, 8)]
    if letter == "j":
        return ["int", d.int(1, 4)]
    if letter == "K":
        return ["str", d.choice(["sn", "cn", "dn", "ns", "nc", "nd", "sc", "sd", "cd", "cs", "ds", "dc"])]
    if letter == "L":
        return ["list", [gen_arg(d, "p", p, long_bits) for _ in range(d.int(0, 3))]]
    raise ValueError(letter)


def gen_args(d, name, p, long_bits=0):
    spec = FUNCS[name][0]
    return [gen_arg(d, ch, p, long_bits) for ch in spec]


def build_arg(ctx, a):
    ty, v = a
    if ty == "mpf":
        return ctx.make_mpf(U(v))
    if ty == "mpc":
        return ctx.make_mpc((U(v[0]), U(v[1])))
    if ty in ("int", "str"):
        return v
    if ty == "list":
        return [build_arg(ctx, x) for x in v]
    raise ValueError(ty)


def build_args(ctx, args):
    return [build_arg(ctx, a) for a in args]


def arg_maxbits(args):
    mb = 0
    for ty, v in args:
        if ty == "mpf":
            mb = max(mb, v[3])
        elif ty == "mpc":
            mb = max(mb, v[0][3], v[1][3])
        elif ty == "list":
            mb = max(mb, arg_maxbits(v))
    return mb


DOCUMENTED_EXC = None


def documented_exceptions():
    """exception types that mpmath documents for domain errors, poles and non-convergence"""
    global DOCUMENTED_EXC
    if DOCUMENTED_EXC is None:
        import mpmath
        DOCUMENTED_EXC = (ValueError, ZeroDivisionError, mpmath.libmp.NoConvergence, NotImplementedError,
                          mpmath.libmp.ComplexResult, OverflowError, TypeError)
    return DOCUMENTED_EXC
