"""O1 -- exact reference arithmetic on raw mpf tuples, written independently of
mpmath's ``_normalize``.  Everything here is integer / Fraction arithmetic of CPython.

A raw mpf is (sign, man, exp, bc).  Specials are compared *by value* with the
encodings below (copied from the documentation of libmpf, they are data, not code).
"""
from fractions import Fraction
from math import isqrt

fzero = (0, 0, 0, 0)
finf = (0, 0, -456, -2)
fninf = (1, 0, -789, -3)
fnan = (0, 0, -123, -1)
SPECIALS = (fzero, finf, fninf, fnan)
MODES = "nfcdu"


def is_special(t):
    return t[1] == 0


def is_finite(t):
    return t[1] != 0 or t == fzero


def canonical_problem(t):
    """Return None if raw tuple t is canonical, else a string saying why not."""
    if not isinstance(t, tuple) or len(t) != 4:
        return "not a 4-tuple: %r" % (t,)
    sign, man, exp, bc = t
    for name, v in (("sign", sign), ("man", man), ("exp", exp), ("bc", bc)):
        if type(v) is not int and not (name == "man" and type(v).__name__ == "mpz"):
            if isinstance(v, bool) or not isinstance(v, int):
                return "%s has type %s" % (name, type(v).__name__)
    if man == 0:
        if t in SPECIALS:
            return None
        return "zero mantissa but not a special encoding: %r" % (t,)
    if sign not in (0, 1):
        return "sign %r" % (sign,)
    if man < 0:
        return "negative mantissa"
    if not man & 1:
        return "even mantissa"
    if bc != man.bit_length():
        return "bc %r != bit_length %r" % (bc, man.bit_length())
    return None


def mk(sign, man, exp):
    """Canonical raw tuple of (-1)^sign * man * 2^exp (man >= 0)."""
    if man == 0:
        return fzero
    tz = (man & -man).bit_length() - 1
    man >>= tz
    return (sign, man, exp + tz, man.bit_length())


def from_int(n):
    return mk(1 if n < 0 else 0, abs(n), 0)


def to_fraction(t):
    sign, man, exp, bc = t
    assert man != 0 or t == fzero, t
    v = Fraction(man * (1 << exp)) if exp >= 0 else Fraction(man, 1 << -exp)
    return -v if sign else v


def to_man_exp(t):
    """signed integer mantissa and exponent"""
    sign, man, exp, bc = t
    return (-man if sign else man), exp


def _round_q(sign, q, sticky, e, p, rnd):
    """value = (-1)^sign * (q + theta) * 2^e, theta in [0,1), theta>0 iff sticky.
    Round to p bits."""
    if q == 0:
        if not sticky:
            return fzero
        raise ValueError("q=0 with sticky: caller must provide enough bits")
    extra = q.bit_length() - p
    if extra <= 0:
        if not sticky:
            return mk(sign, q, e)
        # need more bits: scale so that extra >= 1 (theta unknown) -> caller's duty
        raise ValueError("not enough bits for rounding")
    low = q & ((1 << extra) - 1)
    hi = q >> extra
    inexact = bool(low) or sticky
    if inexact:
        if rnd == "n":
            half = 1 << (extra - 1)
            if low > half or (low == half and (sticky or (hi & 1))):
                hi += 1
        elif rnd == "d":
            pass
        elif rnd == "u":
            hi += 1
        elif rnd == "f":
            if sign:
                hi += 1
        elif rnd == "c":
            if not sign:
                hi += 1
        else:
            raise ValueError(rnd)
    return mk(sign, hi, e + extra)


def round_rational(num, den, p, rnd, e=0):
    """Correctly rounded p-bit value of (num/den) * 2^e  (den > 0)."""
    if num == 0:
        return fzero
    sign = 0
    if num < 0:
        sign = 1
        num = -num
    s = p + 2 - (num.bit_length() - den.bit_length())
    if s >= 0:
        q, r = divmod(num << s, den)
    else:
        q, r = divmod(num, den << -s)
    return _round_q(sign, q, r != 0, e - s, p, rnd)


def round_fraction(v, p, rnd):
    return round_rational(v.numerator, v.denominator, p, rnd)


def round_dyadic(m, e, p, rnd):
    """Correctly rounded p-bit value of m * 2^e (m signed int)."""
    if m == 0:
        return fzero
    sign = 0
    if m < 0:
        sign = 1
        m = -m
    if m.bit_length() <= p:
        return mk(sign, m, e)
    return _round_q(sign, m << 2, False, e - 2, p, rnd)


def round_raw(t, p, rnd):
    if is_special(t):
        return t
    m, e = to_man_exp(t)
    return round_dyadic(m, e, p, rnd)


def add_exact(s, t):
    """exact sum of two finite raws as (m, e)"""
    ms, es = to_man_exp(s)
    mt, et = to_man_exp(t)
    if ms == 0:
        return mt, et
    if mt == 0:
        return ms, es
    e = min(es, et)
    return (ms << (es - e)) + (mt << (et - e)), e


def mul_exact(s, t):
    ms, es = to_man_exp(s)
    mt, et = to_man_exp(t)
    if ms == 0 or mt == 0:
        return 0, 0
    return ms * mt, es + et


def sqrt_round(t, p, rnd):
    """correctly rounded sqrt of a positive finite raw"""
    sign, man, exp, bc = t
    assert man and not sign
    if exp & 1:
        man <<= 1
        exp -= 1
    # want isqrt with >= p+2 bits: man << 2k with bit_length >= 2p+4
    k = max(0, (2 * p + 6 - man.bit_length() + 1) // 2)
    mm = man << (2 * k)
    q = isqrt(mm)
    sticky = q * q != mm
    return _round_q(0, q, sticky, exp // 2 - k, p, rnd)


def cmp_exact(s, t):
    """-1,0,1 comparing finite raws exactly (safe for astronomically distant exponents)"""
    if s[1] and t[1]:
        if s[0] != t[0]:
            return -1 if s[0] else 1
        a, b = s[2] + s[3], t[2] + t[3]
        if a != b:
            r = 1 if a > b else -1
            return -r if s[0] else r
    elif s[1] == 0 and t[1] == 0:
        return 0
    elif s[1] == 0:
        return 1 if t[0] else -1
    else:
        return -1 if s[0] else 1
    ms, es = to_man_exp(s)
    mt, et = to_man_exp(t)
    e = min(es, et)
    a = ms << (es - e)
    b = mt << (et - e)
    return (a > b) - (a < b)


def ulp_distance(t, ref_fraction, p):
    """|t - ref| in units of 2^(exponent of ref's top bit - p + 1)  (Fraction)"""
    v = to_fraction(t)
    if ref_fraction == 0:
        return Fraction(0) if v == 0 else Fraction(10**9)
    a = abs(ref_fraction)
    # top bit exponent of a
    k = a.numerator.bit_length() - a.denominator.bit_length()
    if Fraction(2) ** k > a:
        k -= 1
    ulp = Fraction(2) ** (k - p + 1)
    return abs(v - ref_fraction) / ulp


def raw_json(t):
    """JSON-able form of a raw tuple"""
    if t is None:
        return None
    return [int(t[0]), hex(int(t[1])), int(t[2]), int(t[3])]


def raw_unjson(j):
    if j is None:
        return None
    return (j[0], int(j[1], 16), j[2], j[3])


def raw_str(t):
    if t == fzero:
        return "0"
    if t == finf:
        return "+inf"
    if t == fninf:
        return "-inf"
    if t == fnan:
        return "nan"
    s = "%s%#x*2^%d" % ("-" if t[0] else "", t[1], t[2])
    if len(s) > 120:
        s = s[:50] + "...(%d bits)..." % t[3] + s[-40:]
    return s


def add_round(s, t, p, rnd, sub=False):
    """correctly rounded s + t (or s - t) for finite raws, safe for astronomically distant
    exponents (never materialises the gap)."""
    if sub:
        t = (1 - t[0], t[1], t[2], t[3]) if t[1] else t
    if s[1] == 0:
        return round_raw(t, p, rnd)
    if t[1] == 0:
        return round_raw(s, p, rnd)
    # make s the operand with the higher top bit
    if t[2] + t[3] > s[2] + s[3]:
        s, t = t, s
    ssign, sman, sexp, sbc = s
    tsign, tman, texp, tbc = t
    k = max(0, p + 2 - sbc)
    if texp + tbc <= sexp - k - 1:
        # |t| < 2^(sexp-k-1): value = (sman<<k  +/- theta) * 2^(sexp-k), 0 < theta < 1/2
        q = sman << k
        if tsign == ssign:
            return _round_q(ssign, q, True, sexp - k, p, rnd)
        return _round_q(ssign, q - 1, True, sexp - k, p, rnd)
    m, e = add_exact(s, t)
    return round_dyadic(m, e, p, rnd)
