"""C02 -- basic real arithmetic is correctly rounded in every rounding mode.

Oracle O1: exact integer/rational arithmetic (vfw.exact), raw-tuple equality required."""
import itertools
from fractions import Fraction

from .. import exact, gen
from ..core import R
from ..exact import fzero, finf, fninf, fnan, raw_json as J, raw_unjson as U

ID = "C02"
LEVEL = "exploration"
CASE_TIMEOUT = 30.0          # each case is a micro/milli-second integer kernel
HANG_IS_VIOLATION = True
RULE = ("Cases = (entry point, operand raw bit patterns, precision, rounding mode) built by the structural "
        "generators of vfw/gen.py (mantissa classes: all-ones, 2^k+1, exact ties, tie+-1, prec-relative lengths; "
        "second operand drawn relative to the first with exponent offsets 0,+-1,+-99..102,+-(p+3..5), top-bit "
        "distances p+2..p+6, cancellation, exact multiples). Entry points: libmp kernels in all five modes, "
        "mpf operators with mixed int/float operands at the context precision, fadd/fsub/fmul/fdiv/fneg with "
        "prec=/dps=/rounding=/exact=, mpf() constructors, mpmathify(Fraction), fsum/fdot. Oracle: exact "
        "rational result rounded by an independent integer routine; raw tuples must be identical. "
        "Non-trivial = the exact result does not fit in p bits, or is an exact tie, or the operands' exponents "
        "differ by more than 100, or an exact quotient/perfect square/sum longer than p bits, or special-value "
        "rule; distinct = distinct SHA-1 of the JSON case. The shard 'exh' enumerates a finite small domain "
        "completely (reported in exhaustive_blocks).")
ASSUMPTIONS = ["CPython int/Fraction arithmetic and math.isqrt are correct",
               "the reference rounding routine vfw/exact.py (60 lines, independent of mpmath's normalize)"]

BIN_OPS = ["add", "sub", "mul", "div"]


def shards(tier):
    if tier == "quick":
        n = 9000
        exh = [("exh:%s:0/1" % op, 1) for op in ("add", "sub", "mul", "div", "sqrt")]
        return exh + [("kernel", n)] * 5 + [("api", n)] * 3 + [("fkw", n)] * 2 + [("sum", 3000)]
    n = 120000
    exh = [("exh:%s:%d/8" % (op, i), 1) for op in ("add", "sub", "mul", "div") for i in range(8)] + [("exh:sqrt:0/1", 1)]
    return exh + [("kernel", n)] * 6 + [("api", n)] * 4 + [("fkw", n)] * 3 + [("sum", 40000)] * 2


# ------------------------------------------------------------------------------------------ generation

def _operand_typed(d, p, allow=("mpf", "int", "float")):
    """returns (type, json payload, raw value)"""
    ty = d.choice(allow)
    if ty == "mpf":
        r = gen.mpf_any(d, p, maxbits=1500, huge=False)
        return ["mpf", J(r)]
    if ty == "int":
        k = d.weighted([(3, "small"), (3, "big"), (1, "zero")])
        if k == "zero":
            n = 0
        elif k == "small":
            n = d.int(-1100, 1100)
        else:
            m, _ = gen.mantissa(d, p, maxbits=600)
            n = m << d.int(0, 40)
            if d.bool():
                n = -n
        return ["int", str(n)]
    f = gen.pyfloat(d)
    return ["float", f.hex()]


def gen_case(d, shard, tier):
    maxbits = 4096 if tier == "quick" else 12000
    if shard == "kernel":
        p = gen.prec(d, 1, 4096 if tier == "quick" else 20000)
        rnd = gen.rnd(d)
        op = d.weighted([(8, "add"), (6, "sub"), (5, "mul"), (6, "div"), (4, "sqrt"), (1, "neg"), (1, "abs"),
                         (1, "pos"), (2, "from_man_exp"), (1, "from_int"), (2, "from_rational"), (1, "from_float"),
                         (2, "mul_int"), (2, "rdiv_int")])
        c = {"layer": "libmp", "op": op, "p": p, "rnd": rnd}
        if op in ("add", "sub"):
            a = gen.mpf_any(d, p, maxbits)
            c["a"] = J(a)
            c["b"] = J(gen.mpf_relative(d, a, p, maxbits) if a[1] else gen.mpf_any(d, p, maxbits))
            if d.bool():
                c["a"], c["b"] = c["b"], c["a"]
        elif op in ("mul", "div"):
            a = gen.mpf_any(d, p, maxbits)
            c["a"] = J(a)
            if op == "div" and a[1] and d.int(0, 3) == 0:
                # exact quotients and near-exact ones
                q, _ = gen.mantissa(d, p, 300)
                b = exact.mk(d.int(0, 1), q, d.int(-50, 50))
                a2 = exact.mk(a[0], a[1] * q + d.choice([0, 0, 1, -1]) * d.int(0, 1), a[2])
                c["a"] = J(a2 if a2[1] else a)
                c["b"] = J(b)
                d.label("div:exactish")
            else:
                c["b"] = J(gen.mpf_any(d, p, maxbits))
        elif op == "sqrt":
            k = d.weighted([(4, "any"), (3, "square"), (3, "square_pm")])
            if k == "any":
                a = gen.mpf_any(d, p, maxbits)
                if a[1]:
                    a = (0,) + a[1:]
            else:
                m, _ = gen.mantissa(d, p, 1500)
                m = m * m
                if k == "square_pm":
                    m += d.choice([-1, 1, 2, -2])
                a = exact.mk(0, max(m, 1), 2 * d.int(-600, 600) + (d.int(0, 1) if k == "square_pm" else 0))
            d.label("sqrt:" + k)
            c["a"] = J(a)
        elif op in ("neg", "abs", "pos"):
            c["a"] = J(gen.mpf_any(d, p, maxbits))
        elif op == "from_man_exp":
            m, mc = gen.mantissa(d, p, maxbits)
            d.label("m:" + mc)
            if d.bool():
                m <<= d.int(0, 70)      # even mantissas
            if d.int(0, 20) == 0:
                m = 0
            c["man"] = str(-m if d.bool() else m)
            c["exp"] = gen.exponent(d, m.bit_length())[0]
        elif op == "from_int":
            m, mc = gen.mantissa(d, p, maxbits)
            c["n"] = str((-1) ** d.int(0, 1) * (m << d.int(0, 100)) if d.int(0, 20) else 0)
        elif op == "from_rational":
            a, _ = gen.mantissa(d, p, 800)
            b, _ = gen.mantissa(d, p, 800)
            if d.int(0, 4) == 0:
                b = 1 << d.int(0, 100)
            if d.int(0, 20) == 0:
                a = 0
            c["num"] = str(-a if d.bool() else a)
            c["den"] = str(b)
        elif op == "from_float":
            c["f"] = gen.pyfloat(d).hex()
        elif op in ("mul_int", "rdiv_int"):
            c["a"] = J(gen.mpf_any(d, p, 1500))
            m, _ = gen.mantissa(d, p, 400)
            n = d.choice([0, 1, -1, 2, 3, 1023, 1024, 1025, m, -m, m << 7])
            c["n"] = str(n)
        c["cls"] = "libmp:%s:%s" % (op, rnd)
        return c
    if shard == "api":
        p = gen.prec(d, 1, 2000)
        op = d.weighted([(5, "add"), (5, "sub"), (5, "mul"), (5, "div"), (2, "neg"), (2, "abs"), (2, "pos"),
                         (2, "sqrt"), (3, "ctor")])
        c = {"layer": "mp", "op": op, "p": p}
        # the context's rounding cell (what the operators read); nearest is the public default, the other modes
        # are what code sharing the context machinery (e.g. interval helpers) relies on
        c["rnd"] = "n" if d.int(0, 2) else gen.rnd(d)
        if op in BIN_OPS:
            x = _operand_typed(d, p)
            y = _operand_typed(d, p)
            if x[0] != "mpf" and y[0] != "mpf":
                x = _operand_typed(d, p, ("mpf",))
            c["x"], c["y"] = x, y
            c["cls"] = "mp:%s:%s,%s" % (op, x[0], y[0])
        elif op == "ctor":
            kind = d.choice(["int", "float", "mpf", "manexp", "raw4", "fraction", "mpmathify_fraction"])
            c["kind"] = kind
            if kind in ("int", "float", "mpf"):
                c["x"] = _operand_typed(d, p, (kind,))
            elif kind in ("manexp", "raw4"):
                m, _ = gen.mantissa(d, p, 1500)
                if kind == "manexp":
                    if d.bool():
                        m <<= d.int(0, 9)
                    if d.bool():
                        m = -m
                    c["man"] = str(m)
                    c["exp"] = d.int(-200, 200)
                else:
                    c["raw"] = J(exact.mk(d.int(0, 1), m, d.int(-200, 200)))
            else:
                a, _ = gen.mantissa(d, p, 600)
                b, _ = gen.mantissa(d, p, 600)
                c["num"] = str(-a if d.bool() else a)
                c["den"] = str(b)
            c["cls"] = "mp:ctor:" + kind
        else:
            x = _operand_typed(d, p, ("mpf",))
            if op == "sqrt" and d.int(0, 3):
                r = U(x[1])
                if r[1]:
                    x = ["mpf", J((0,) + tuple(r[1:]))]
            c["x"] = x
            c["cls"] = "mp:" + op
        return c
    if shard == "fkw":
        p = gen.prec(d, 1, 2000)
        op = d.choice(["fadd", "fsub", "fmul", "fdiv", "fneg"])
        c = {"layer": "fkw", "op": op, "p": p}
        c["x"] = _operand_typed(d, p)
        c["y"] = _operand_typed(d, p)
        mode = d.weighted([(4, "prec"), (2, "dps"), (3, "exact"), (2, "precinf"), (2, "ctx"), (1, "dpsinf")])
        c["mode"] = mode
        if mode == "prec":
            c["kp"] = gen.prec(d, 1, 2000)
        elif mode == "dps":
            c["kd"] = d.int(1, 400)
        if mode in ("exact", "precinf", "dpsinf"):
            # keep the exact result materialisable
            for k in ("x", "y"):
                if c[k][0] == "mpf":
                    r = U(c[k][1])
                    if r[1] and abs(r[2]) > 5000:
                        c[k] = ["mpf", J((r[0], r[1], r[2] % 5000, r[3]))]
        c["rnd"] = gen.rnd(d) if d.int(0, 4) else None
        c["cls"] = "fkw:%s:%s:%s" % (op, mode, c["rnd"])
        return c
    if shard == "sum":
        p = gen.prec(d, 2, 600)
        kind = d.choice(["fsum", "fsum", "fdot", "fsum_abs", "fsum_sq"])
        n = d.int(1, 40)
        base = d.int(-300, 300)
        fb = p if kind in ("fsum", "fsum_abs") else max(1, p // 2)
        terms = []
        for i in range(n):
            if kind == "fdot":
                pair = []
                for _ in range(2):
                    bc = d.int(1, fb)
                    m = (1 << (bc - 1)) | d.bits(bc - 1)
                    top = d.int(0, max(0, (p - 1) // 2 - 1))
                    pair.append(J(exact.mk(d.int(0, 1), m, base + top - bc)))
                terms.append(pair)
            else:
                bc = d.int(1, fb)
                m = (1 << (bc - 1)) | d.bits(bc - 1)
                span = (p - 1) if kind != "fsum_sq" else max(0, (p - 1) // 2 - 1)
                top = d.int(0, max(0, span - 1))
                terms.append(J(exact.mk(d.int(0, 1), m, base + top - bc)))
            if d.int(0, 30) == 0:
                terms.append(J(fzero) if kind != "fdot" else [J(fzero), J(fzero)])
        return {"layer": "sum", "op": kind, "p": p, "terms": terms, "cls": "sum:" + kind}
    raise ValueError(shard)


# ------------------------------------------------------------------------------------------ oracle

def _cls(t):
    """class of a raw for the special-value table: 'nan','+inf','-inf','0','+','-'"""
    if t == fnan:
        return "nan"
    if t == finf:
        return "+inf"
    if t == fninf:
        return "-inf"
    if t == fzero:
        return "0"
    return "-" if t[0] else "+"


_F = {"nan": float("nan"), "+inf": float("inf"), "-inf": float("-inf"), "0": 0.0, "+": 1.0, "-": -1.0}


def expected_binary(op, a, b, p, rnd):
    """expected raw result, or the string 'ZeroDivisionError'.  p == 0 means exact."""
    ca, cb = _cls(a), _cls(b)
    if op == "div" and cb == "0":
        return "ZeroDivisionError"
    if a[1] == 0 or b[1] == 0:
        if op in ("add", "sub") and a[1] == 0 and b[1] == 0 or ca in ("nan", "+inf", "-inf") or cb in ("nan", "+inf", "-inf") \
                or op in ("mul", "div"):
            # IEEE-style special-value rules, modelled with Python floats on sign classes
            fa, fb = _F[ca], _F[cb]
            r = {"add": lambda: fa + fb, "sub": lambda: fa - fb, "mul": lambda: fa * fb,
                 "div": lambda: fa / fb}[op]()
            if r != r:
                return fnan
            if r == float("inf"):
                return finf
            if r == float("-inf"):
                return fninf
            if r == 0:
                return fzero
            raise AssertionError("unreachable special table")
        # one operand zero, other finite nonzero, add/sub
        t = b if a[1] == 0 else a
        if op == "sub" and a[1] == 0:
            t = (1 - t[0],) + tuple(t[1:])
        return exact.round_raw(t, p, rnd) if p else t
    if op in ("add", "sub"):
        if p:
            return exact.add_round(a, b, p, rnd, sub=(op == "sub"))
        bb = b if op == "add" else (1 - b[0],) + tuple(b[1:])
        m, e = exact.add_exact(a, bb)
        return exact.mk(1 if m < 0 else 0, abs(m), e)
    if op == "mul":
        m, e = exact.mul_exact(a, b)
        if p:
            return exact.round_dyadic(m, e, p, rnd)
        return exact.mk(1 if m < 0 else 0, abs(m), e)
    if op == "div":
        ma, ea = exact.to_man_exp(a)
        mb, eb = exact.to_man_exp(b)
        if mb < 0:
            ma, mb = -ma, -mb
        if not p:
            raise ValueError("exact division")
        return exact.round_rational(ma, mb, p, rnd, ea - eb)
    raise ValueError(op)


def expected_unary(op, a, p, rnd):
    if op == "pos":
        return exact.round_raw(a, p, rnd) if p else a
    if op == "neg":
        if a == fnan or a == fzero:
            return a
        if a == finf:
            return fninf
        if a == fninf:
            return finf
        t = (1 - a[0],) + tuple(a[1:])
        return exact.round_raw(t, p, rnd) if p else t
    if op == "abs":
        if a == fninf:
            return finf
        if a[1] == 0:
            return a
        t = (0,) + tuple(a[1:])
        return exact.round_raw(t, p, rnd) if p else t
    if op == "sqrt":
        if a == fnan or a == finf or a == fzero:
            return a
        if a == fninf or a[0]:
            return "ComplexResult"
        return exact.sqrt_round(a, p, rnd)
    raise ValueError(op)


def _nontrivial_bin(op, a, b, p, res):
    if a[1] == 0 or b[1] == 0:
        return a[1] == 0 and b[1] == 0 or exact.is_special(a) and a != fzero or (exact.is_special(b) and b != fzero)
    if abs(a[2] - b[2]) > 100:
        return True
    if op in ("add", "sub"):
        if abs((a[2] + a[3]) - (b[2] + b[3])) > 2 * p + max(a[3], b[3]) + 70:
            return True
        m, e = exact.add_exact(a, b if op == "add" else (1 - b[0],) + tuple(b[1:]))
        return abs(m).bit_length() - ((abs(m) & -abs(m)).bit_length() - 1 if m else 0) > p
    if op == "mul":
        m = a[1] * b[1]
        return m.bit_length() > p
    if op == "div":
        return True
    return False


def _mp():
    import mpmath
    return mpmath


def _typed(mpm, spec):
    ty, v = spec
    if ty == "mpf":
        return mpm.mp.make_mpf(U(v)), U(v)
    if ty == "int":
        n = int(v)
        return n, exact.from_int(n)
    f = float.fromhex(v)
    return f, _float_raw(f)


def _float_raw(f):
    if f != f:
        return fnan
    if f == float("inf"):
        return finf
    if f == float("-inf"):
        return fninf
    if f == 0:
        return fzero
    fr = Fraction(f)
    n, dd = fr.numerator, fr.denominator
    return exact.mk(1 if n < 0 else 0, abs(n), -(dd.bit_length() - 1))


def _cmp(res, bucket, got, want, what):
    if isinstance(want, str):
        if got != want:
            res.bad(bucket, "%s: expected %s, got %s" % (what, want, got if isinstance(got, str) else exact.raw_str(got)))
        return
    if isinstance(got, str):
        res.bad(bucket, "%s: raised %s, expected %s" % (what, got, exact.raw_str(want)))
        return
    prob = exact.canonical_problem(got)
    if prob:
        res.bad(bucket + ":noncanonical", "%s: %s" % (what, prob))
        return
    if tuple(got) != tuple(want):
        res.bad(bucket, "%s: got %s, correctly rounded value is %s" % (what, exact.raw_str(got), exact.raw_str(want)))


def _call(fn, *a, **k):
    """returns raw result or the name of a documented exception"""
    import mpmath
    try:
        r = fn(*a, **k)
    except ZeroDivisionError:
        return "ZeroDivisionError"
    except mpmath.libmp.ComplexResult:
        return "ComplexResult"
    except OverflowError:
        return "OverflowError"
    if hasattr(r, "_mpf_"):
        return r._mpf_
    if hasattr(r, "_mpc_"):
        return "complex"
    return r


def check_case(c):
    mpm = _mp()
    libmp = mpm.libmp
    res = R()
    layer = c["layer"]
    res.cls = c.get("cls", layer)
    if layer == "libmp":
        op, p, rnd = c["op"], c["p"], c["rnd"]
        if op in BIN_OPS:
            a, b = U(c["a"]), U(c["b"])
            fn = {"add": libmp.mpf_add, "sub": libmp.mpf_sub, "mul": libmp.mpf_mul, "div": libmp.mpf_div}[op]
            got = _call(fn, a, b, p, rnd)
            want = expected_binary(op, a, b, p, rnd)
            res.nontrivial = _nontrivial_bin(op, a, b, p, got)
            _cmp(res, "libmp:%s:%s" % (op, rnd), got, want,
                 "mpf_%s(%s, %s, %d, %r)" % (op, exact.raw_str(a), exact.raw_str(b), p, rnd))
        elif op in ("neg", "abs", "pos", "sqrt"):
            a = U(c["a"])
            fn = getattr(libmp, "mpf_" + op)
            got = _call(fn, a, p, rnd)
            want = expected_unary(op, a, p, rnd)
            res.nontrivial = a[3] > p or op == "sqrt"
            _cmp(res, "libmp:%s:%s" % (op, rnd), got, want, "mpf_%s(%s, %d, %r)" % (op, exact.raw_str(a), p, rnd))
        elif op == "from_man_exp":
            m, e = int(c["man"]), c["exp"]
            got = _call(libmp.from_man_exp, m, e, p, rnd)
            want = exact.round_dyadic(m, e, p, rnd)
            res.nontrivial = abs(m).bit_length() > p
            _cmp(res, "libmp:from_man_exp:" + rnd, got, want, "from_man_exp(%#x, %d, %d, %r)" % (m, e, p, rnd))
        elif op == "from_int":
            n = int(c["n"])
            got = _call(libmp.from_int, n, p, rnd)
            want = exact.round_dyadic(n, 0, p, rnd)
            res.nontrivial = abs(n).bit_length() > p
            _cmp(res, "libmp:from_int:" + rnd, got, want, "from_int(%#x, %d, %r)" % (n, p, rnd))
        elif op == "from_rational":
            n, q = int(c["num"]), int(c["den"])
            got = _call(libmp.from_rational, n, q, p, rnd)
            want = exact.round_rational(n, q, p, rnd)
            res.nontrivial = True
            _cmp(res, "libmp:from_rational:" + rnd, got, want, "from_rational(%d, %d, %d, %r)" % (n, q, p, rnd))
        elif op == "from_float":
            f = float.fromhex(c["f"])
            got = _call(libmp.from_float, f, p, rnd)
            want = exact.round_raw(_float_raw(f), p, rnd)
            res.nontrivial = p < 53
            _cmp(res, "libmp:from_float:" + rnd, got, want, "from_float(%r, %d, %r)" % (f, p, rnd))
        elif op in ("mul_int", "rdiv_int"):
            a, n = U(c["a"]), int(c["n"])
            if op == "mul_int":
                got = _call(libmp.mpf_mul_int, a, n, p, rnd)
                want = expected_binary("mul", a, exact.from_int(n), p, rnd)
            else:
                got = _call(libmp.mpf_rdiv_int, n, a, p, rnd)
                want = expected_binary("div", exact.from_int(n), a, p, rnd)
            res.nontrivial = a[1] != 0 and n != 0
            _cmp(res, "libmp:%s:%s" % (op, rnd), got, want, "mpf_%s(%s, %d, %d, %r)" % (op, exact.raw_str(a), n, p, rnd))
        return res

    mp = mpm.mp
    if layer == "mp":
        op, p = c["op"], c["p"]
        mp.prec = p
        rnd = c.get("rnd", "n")
        mp._prec_rounding[1] = rnd
        try:
            if op in BIN_OPS:
                x, xr = _typed(mpm, c["x"])
                y, yr = _typed(mpm, c["y"])
                import operator
                f = {"add": operator.add, "sub": operator.sub, "mul": operator.mul, "div": operator.truediv}[op]
                got = _call(f, x, y)
                want = expected_binary(op, xr, yr, p, rnd)
                res.nontrivial = _nontrivial_bin(op, xr, yr, p, got)
                _cmp(res, "mp:%s:%s,%s:%s" % (op, c["x"][0], c["y"][0], rnd), got, want,
                     "%r %s %r at prec %d" % (c["x"], op, c["y"], p))
            elif op == "ctor":
                kind = c["kind"]
                if kind in ("int", "float", "mpf"):
                    x, xr = _typed(mpm, c["x"])
                    got = _call(mp.mpf, x)
                    want = exact.round_raw(xr, p, rnd)
                    res.nontrivial = xr[3] > p
                elif kind == "manexp":
                    m, e = int(c["man"]), c["exp"]
                    got = _call(mp.mpf, (m, e))
                    want = exact.round_dyadic(m, e, p, rnd)
                    res.nontrivial = abs(m).bit_length() > p
                elif kind == "raw4":
                    r = U(c["raw"])
                    got = _call(mp.mpf, r)
                    want = exact.round_raw(r, p, rnd)
                    res.nontrivial = r[3] > p
                else:
                    fr = Fraction(int(c["num"]), int(c["den"]))
                    if kind == "fraction":
                        got = _call(mp.mpf, fr)
                    else:
                        got = _call(mp.mpmathify, fr)
                    want = exact.round_fraction(fr, p, rnd)
                    res.nontrivial = True
                _cmp(res, "mp:ctor:%s:%s" % (kind, rnd), got, want, "mpf ctor %s at prec %d" % (kind, p))
            else:
                x, xr = _typed(mpm, c["x"])
                import operator
                if op == "sqrt":
                    got = _call(mp.sqrt, x)
                    want = expected_unary("sqrt", xr, p, rnd)
                    if want == "ComplexResult":
                        want = "complex"
                else:
                    f = {"neg": operator.neg, "abs": abs, "pos": operator.pos}[op]
                    got = _call(f, x)
                    want = expected_unary(op, xr, p, rnd)
                res.nontrivial = xr[3] > p or op == "sqrt"
                _cmp(res, "mp:%s:%s" % (op, rnd), got, want, "%s(%r) at prec %d" % (op, c["x"], p))
        finally:
            mp.prec = 53
            mp._prec_rounding[1] = "n"
        return res

    if layer == "fkw":
        op, p = c["op"], c["p"]
        mp.prec = p
        try:
            x, xr = _typed(mpm, c["x"])
            y, yr = _typed(mpm, c["y"])
            kw = {}
            mode = c["mode"]
            ep = p
            if mode == "prec":
                kw["prec"] = ep = c["kp"]
            elif mode == "dps":
                kw["dps"] = c["kd"]
                ep = _dps_to_prec(c["kd"])
            elif mode == "exact":
                kw["exact"] = True
                ep = 0
            elif mode == "precinf":
                kw["prec"] = mp.inf
                ep = 0
            elif mode == "dpsinf":
                kw["dps"] = mp.inf
                ep = 0
            rnd = c["rnd"] or "n"
            if c["rnd"]:
                kw["rounding"] = c["rnd"]
            bop = {"fadd": "add", "fsub": "sub", "fmul": "mul", "fdiv": "div"}.get(op)
            if op == "fneg":
                got = _call(mp.fneg, x, **kw)
                want = expected_unary("neg", xr, ep, rnd)
                res.nontrivial = xr[3] > ep > 0
            else:
                if bop == "div" and ep == 0:
                    # exact division is not a defined operation; skip
                    res.rejected = True
                    return res
                got = _call(getattr(mp, op), x, y, **kw)
                want = expected_binary(bop, xr, yr, ep, rnd)
                res.nontrivial = True
            _cmp(res, "fkw:%s:%s:%s" % (op, mode, rnd), got, want, "%s(%r, %r, %r) ctx prec %d" % (op, c["x"], c["y"], kw, p))
        finally:
            mp.prec = 53
        return res

    if layer == "sum":
        p, kind = c["p"], c["op"]
        mp.prec = p
        try:
            if kind == "fdot":
                A = [mp.make_mpf(U(t[0])) for t in c["terms"]]
                B = [mp.make_mpf(U(t[1])) for t in c["terms"]]
                tot = Fraction(0)
                for t in c["terms"]:
                    tot += exact.to_fraction(U(t[0])) * exact.to_fraction(U(t[1]))
                got = _call(mp.fdot, A, B)
            else:
                T = [mp.make_mpf(U(t)) for t in c["terms"]]
                vals = [exact.to_fraction(U(t)) for t in c["terms"]]
                if kind == "fsum":
                    tot = sum(vals, Fraction(0))
                    got = _call(mp.fsum, T)
                elif kind == "fsum_abs":
                    tot = sum((abs(v) for v in vals), Fraction(0))
                    got = _call(mp.fsum, T, absolute=True)
                else:
                    tot = sum((v * v for v in vals), Fraction(0))
                    got = _call(mp.fsum, T, squared=True)
            want = exact.round_fraction(tot, p, "n")
            res.nontrivial = len(c["terms"]) > 2
            _cmp(res, "sum:" + kind, got, want, "%s of %d terms at prec %d" % (kind, len(c["terms"]), p))
        finally:
            mp.prec = 53
        return res

    if layer == "exh":
        return exh_replay(c, res)
    raise ValueError(layer)


def _dps_to_prec(n):
    # documented formula: prec = max(1, round((dps+1) * log2(10)))
    import math
    return max(1, int(round((int(n) + 1) * 3.3219280948873626)))


# ------------------------------------------------------------------------------------------ exhaustive

EXH = {"quick": (4, 4, 6), "thorough": (6, 6, 8)}


def exh_values(MB, E):
    vals = [fzero]
    for m in range(1, 1 << MB, 2):
        for e in range(-E, E + 1):
            vals.append((0, m, e, m.bit_length()))
            vals.append((1, m, e, m.bit_length()))
    return vals


def custom_shard(shard, seed, n, tier):
    """shards named exh:<op>:<i>/<k> enumerate a finite domain completely: all operands m*2^e with m odd
    < 2^MB, |e| <= E (and zero), all precisions 1..P, all five modes."""
    if not shard.startswith("exh:"):
        return None
    import mpmath
    from ..core import Collector
    libmp = mpmath.libmp
    _, op, part = shard.split(":")
    i, k = map(int, part.split("/"))
    MB, E, P = EXH[tier]
    vals = exh_values(MB, E)
    coll = Collector()
    res = R()
    res.cls = "exh:" + op
    cnt = 0
    if op == "sqrt":
        for a in vals[i::k]:
            if a[0] == 0 and a[1]:
                for p in range(1, P + 6):
                    for rnd in "nfcdu":
                        cnt += 1
                        got = libmp.mpf_sqrt(a, p, rnd)
                        want = exact.sqrt_round(a, p, rnd)
                        if got != want and len(res.violations) < 10:
                            res.bad("exh:sqrt:" + rnd, "mpf_sqrt(%s,%d,%r) = %s, expected %s" % (
                                exact.raw_str(a), p, rnd, exact.raw_str(got), exact.raw_str(want)))
    else:
        fn = {"add": libmp.mpf_add, "sub": libmp.mpf_sub, "mul": libmp.mpf_mul, "div": libmp.mpf_div}[op]
        for a in vals[i::k]:
            for b in vals:
                if op == "div" and b == fzero:
                    continue
                for p in range(1, P + 1):
                    for rnd in "nfcdu":
                        cnt += 1
                        got = fn(a, b, p, rnd)
                        want = expected_binary(op, a, b, p, rnd)
                        if got != want and len(res.violations) < 10:
                            res.bad("exh:%s:%s" % (op, rnd), "mpf_%s(%s,%s,%d,%r) = %s, expected %s" % (
                                op, exact.raw_str(a), exact.raw_str(b), p, rnd, exact.raw_str(got),
                                exact.raw_str(want)))
    res.n = cnt
    res.nontrivial = True
    case = {"layer": "exh", "op": op, "part": part, "tier": tier, "MB": MB, "E": E, "P": P}
    coll.add(case, res)
    out = coll.export()
    out["exhaustive_blocks"] = [{"block": shard, "cases": cnt, "complete": True,
                                 "domain": "operands {0} u {+-m*2^e: m odd < 2^%d, |e| <= %d}, prec 1..%d, modes nfcdu" % (MB, E, P)}]
    return out


def exh_replay(c, res):
    """replay of an exhaustive block = run it again"""
    out = custom_shard("exh:%s:%s" % (c["op"], c["part"]), 0, 1, c.get("tier", "quick"))
    for bucket, lst in out["viol"].items():
        for sz, case, msg in lst:
            res.bad(bucket, msg)
    return res
