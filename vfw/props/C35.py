"""C35 -- integer relation results are genuine relations (pslq, findpoly, identify)."""
import math
import re
from fractions import Fraction
from math import isqrt, gcd

from .. import exact, gen
from ..core import R
from ..exact import raw_json as J, raw_unjson as U

ID = "C35"
LEVEL = "exploration"
CASE_TIMEOUT = 120.0
RULE = (
    "pslq: vectors of length 2..8 made of random p-bit reals, small Python ints and known constants (pi, e, logs, square "
    "and cube roots, acot values, euler, catalan, zeta(3)), optionally multiplied by a common 2^k (|k| <= 20); relation "
    "classes: none, planted (one entry is -(sum c_k x_k)/c_j computed exactly / at 3p+164 bits and rounded to p bits, "
    "coefficient height 1..10^6, also height == maxcoeff and maxcoeff-1) and natural (log 6 = log 2 + log 3, "
    "phi = (1+sqrt 5)/2, Machin-type acot formulas, sqrt 8 = 2 sqrt 2); tol omitted or (16+j) 2^(-k-4) for 3 <= k < p, "
    "maxcoeff omitted or 2..10^12, maxsteps omitted or 1..5000; p in 53..300 (a few 30..52, where the documented "
    "ValueError is expected).  Oracle: a returned c is a list of Python ints of length n, not all zero, max|c_k| < maxcoeff "
    "(strict, as the docstring says), and, with exact rational arithmetic on the values actually passed, "
    "|sum c_k x_k| <= tol ||x||_2 (1+2^-30) + sum|c_k| 2^-(p+57) (||x||_2+1) (the second term is the truncation of the "
    "inputs to p+60 fixed-point bits; tol is the value passed or 2^-int(0.75 p)).  Completeness: when a relation with "
    "height h <= 100 exists, n <= 5, h < maxcoeff, maxsteps >= 1000, -log2 tol >= 2 n log2(2 maxcoeff) + 30, "
    "p >= -log2 tol + log2(n h) + 10, p >= 4 n log2(2h) + 30, no entry is smaller than 2^-20 ||x|| and the real entries are "
    "generic (mantissas from a SHA-256 stream of a drawn seed, or constants; Hypothesis' structured integers have "
    "accidental near-relations), the result must not "
    "be None and must annihilate the 3p+164-bit values (residual <= 2^-2p sum|c_k x_k|).  findpoly: x = root of a "
    "generated integer polynomial of degree 1..6 (exact bisection to 3p+64 bits), rational, (a+b sqrt c)/d, "
    "sqrt a + sqrt b, (a + cbrt b)/c, a transcendental constant or a random real; n in 1..6 (8 rarely); result is a list "
    "of ints of length 2..n+1, not all zero, max|c| < maxcoeff, |P(x)| <= the pslq bound for (1, x, .., x^deg) plus "
    "sum|c_k||x|^k 2^(2-p) for the rounded powers; completeness under the same margin (vector length n+1, 2^-10 <= |x|^n "
    "<= 2^20; for roots of generated polynomials additionally the polynomial is certified irreducible (irreducible modulo a "
    "prime) or maxcoeff exceeds Mignotte's bound 2^d ||Q||_2 for the height of its factors -- PSLQ locks onto the minimal "
    "polynomial and cannot see past it when that is rejected by maxcoeff; likewise for pslq the non-planted entries are "
    "pairwise distinct (one-dimensional relation lattice) or maxcoeff > 3 ||c||_2): P must vanish at the high precision root.  identify: x = rational, q*constant, sqrt q, exp q, log q, "
    "(a+b sqrt c)/d, rational linear combinations, products of rational powers, and exp/sqrt/log/inverse/square of "
    "such, 1/32 <= |x| <= 8, constants as strings (also compound expressions like 'pi/4') or dicts with values in "
    "[1/2, 4], tol omitted (eps^0.7) or 2^-k (30 <= k <= p-8), maxcoeff 30..10^4, full True/False; every returned string "
    "(ints wrapped as mpf, as the docstring warns about integer division) evaluated with the reference library at "
    "3p+164 bits differs from x by at most 2^20 tol max(1,|x|) (2^20 bounds the condition number of the inverse "
    "transformations on this domain).  None is accepted.  mp.prec is unchanged after each call.  Non-trivial = a "
    "planted/natural relation recovered, a polynomial of degree >= 2 returned, or a non-rational identify result.")
ASSUMPTIONS = ["exact rational arithmetic of CPython (fractions)",
               "the frozen reference mpmath 1.3.0 (mpref) evaluates constants, roots, exp and log correctly at 3p+164 bits",
               "first-order condition bound 2^20 for identify's inverse transformations on the restricted domain"]
TECHNIQUE = "property-based testing (Hypothesis), exact rational oracle and high precision reference evaluation"

F = exact.to_fraction

CONST = {"pi": "pi", "e": "e", "ln2": "log(2)", "ln3": "log(3)", "ln5": "log(5)", "ln6": "log(6)", "ln10": "log(10)",
         "sqrt2": "sqrt(2)", "sqrt3": "sqrt(3)", "sqrt5": "sqrt(5)", "sqrt8": "sqrt(8)", "phi": "phi", "euler": "euler",
         "catalan": "catalan", "apery": "zeta(3)", "cbrt2": "cbrt(2)", "pi4": "pi/4", "acot2": "acot(2)",
         "acot3": "acot(3)", "acot5": "acot(5)", "acot7": "acot(7)", "acot239": "acot(239)"}
INDEP = ["pi", "e", "ln2", "ln3", "sqrt2", "sqrt3", "sqrt5", "euler", "catalan", "apery", "cbrt2", "ln5"]
# independent of every family used in NATURAL (logs of integers, pi and acot values, sqrt 2): adding them keeps the
# lattice of relations one-dimensional
SAFE_EXTRA = ["e", "euler", "catalan", "apery", "cbrt2", "sqrt3", "sqrt5"]
NATURAL = [
    (["ln2", "ln3", "ln6"], [1, 1, -1]),
    (["ln2", "ln5", "ln10"], [1, 1, -1]),
    (["sqrt2", "sqrt8"], [2, -1]),
    (["pi4", "acot2", "acot3"], [1, -1, -1]),
    (["pi4", "acot5", "acot239"], [1, -4, 1]),
    (["pi4", "acot3", "acot7"], [1, -2, -1]),
    (["pi", "acot5", "acot239"], [1, -16, 4]),
    (["pi", "pi4"], [1, -4]),
]
# identify: base constants (strings as identify evaluates them); values all in [1/2, 4]
ID_ATOMIC = ["pi", "e", "log(2)", "sqrt(2)", "catalan", "euler", "phi", "log(3)", "sqrt(3)", "zeta(3)"]
ID_COMPOUND = ["pi/4", "pi+1", "e/2", "sqrt(2)+1", "pi**2/4", "2*log(2)", "e-1", "1/log(2)"]


def shards(tier):
    k = 1 if tier == "quick" else 25
    return ([("pslq", 2200 * k)] * 5 + [("findpoly", 2000 * k)] * 4 + [("identify", 400 * k)] * 7)


# ------------------------------------------------------------------------------------------------ generation

def _prec(d):
    k = d.weighted([(5, "low"), (5, "mid"), (3, "high"), (1, "edge")])
    if k == "low":
        return d.int(53, 90)
    if k == "mid":
        return d.int(91, 180)
    if k == "high":
        return d.int(181, 300)
    return d.choice([53, 54, 64, 100, 128, 200, 256, 300])


def _rand_real(d, p):
    """raw p-bit number with magnitude in [2^-3, 2^3)"""
    m = (1 << (p - 1)) | d.bits(p - 1)
    return exact.mk(d.int(0, 1), m, d.int(-3, 2) - p + 1)


def _generic_real(d, p):
    """raw p-bit number with magnitude in [2^-3, 2^3) whose mantissa bits are a fixed pseudo-random function (SHA-256)
    of a drawn 64-bit seed: Hypothesis prefers structured integers (long runs of zero bits), which are numbers with
    accidental near-relations; the completeness clause is about generic reals"""
    import hashlib
    seed = d.bits(64)
    bits = 0
    i = 0
    while bits.bit_length() < p + 256:
        bits = (bits << 256) | int.from_bytes(hashlib.sha256(b"%d:%d" % (seed, i)).digest(), "big")
        i += 1
    m = (1 << (p - 1)) | (bits & ((1 << (p - 1)) - 1))
    return exact.mk(d.int(0, 1), m, d.int(-3, 2) - p + 1)


def _tol(d, p, lo=3, hi=None):
    hi = p - 1 if hi is None else hi
    return [d.int(lo, max(lo, hi)), d.int(0, 15), d.choice(["float", "mpf"])]


def _coeffs(d, n, h):
    """n ints in [-h, h], at least one of modulus h, sparse sometimes"""
    c = [d.int(-h, h) for _ in range(n)]
    if d.int(0, 3) == 0:
        for i in range(n):
            if d.bool():
                c[i] = 0
    c[d.int(0, n - 1)] = d.choice([-h, h])
    return c


def _gen_pslq(d, tier):
    kind = d.weighted([(8, "planted"), (5, "complete"), (4, "none"), (3, "natural")])
    p = _prec(d)
    if d.int(0, 60) == 0:
        p = d.int(30, 52)
    c = {"kind": "pslq", "p": p, "rel": None, "tol": None, "maxcoeff": None, "maxsteps": None, "scale": 0,
         "generic": True}
    if kind == "complete":
        # the regime in which the relation has to be found
        n = d.int(2, 5)
        h = d.choice([1, 2, 3, 5, 10, 30, 100]) if d.bool() else d.int(1, 100)
        p = max(p, 53)
        mc = d.choice([None, h + 1, h + 1, h + 2, 2 * h + 1, 10 * h, 1000])
        mce = 1000 if mc is None else mc
        need = int(2 * n * math.log2(2 * mce) + 30) + 1
        tolbits = need + d.int(0, 40)
        p = max(p, int(tolbits / 0.75) + 2, tolbits + int(math.log2(n * h)) + 12, int(4 * n * math.log2(2 * h)) + 31)
        p = min(p, 300)
        c["p"] = p
        if d.bool():
            c["tol"] = None
        else:
            tb = d.int(need, max(need, p - int(math.log2(n * h)) - 12))
            c["tol"] = [tb, 0, d.choice(["float", "mpf"])]
        c["maxcoeff"] = mc
        c["maxsteps"] = d.choice([1000, 2000, 10000])
        if d.int(0, 3) == 0:
            names, rel = d.choice(NATURAL)
            names, rel = list(names), list(rel)
            while len(names) < n and d.bool():
                e = d.choice(SAFE_EXTRA)
                if e not in names:
                    names.append(e)
                    rel.append(0)
            perm = list(range(len(names)))
            for i in range(len(perm) - 1, 0, -1):
                j = d.int(0, i)
                perm[i], perm[j] = perm[j], perm[i]
            c["items"] = [["const", names[i]] for i in perm]
            c["rel"] = [rel[i] for i in perm]
            c["cls"] = "pslq:complete:natural"
            return c
        rel = _coeffs(d, n, h)
        j = d.int(0, n - 1)
        if rel[j] == 0:
            rel[j] = d.choice([-1, 1]) * d.int(1, h)
        if not any(rel[i] for i in range(n) if i != j):
            rel[(j + 1) % n] = d.choice([-1, 1]) * d.int(1, h)
        items = []
        for i in range(n):
            if i == j:
                items.append(["planted"])
            elif d.int(0, 3) == 0:
                items.append(["const", d.choice(INDEP)])
            else:
                items.append(["raw", J(_generic_real(d, p))])
        c["items"] = items
        c["rel"] = rel
        if d.int(0, 3) == 0:
            c["scale"] = d.int(-20, 20)
        c["cls"] = "pslq:complete:planted"
        return c
    n = d.int(2, 8)
    c["tol"] = None if d.int(0, 2) == 0 else _tol(d, p)
    c["maxsteps"] = d.choice([None, None, 1, 5, 20, 100, 1000, 5000])
    if kind == "natural":
        names, rel = d.choice(NATURAL)
        names, rel = list(names), list(rel)
        while len(names) < n and d.int(0, 2):
            e = d.choice(SAFE_EXTRA)
            if e not in names:
                names.append(e)
                rel.append(0)
        perm = list(range(len(names)))
        for i in range(len(perm) - 1, 0, -1):
            j = d.int(0, i)
            perm[i], perm[j] = perm[j], perm[i]
        c["items"] = [["const", names[i]] for i in perm]
        c["rel"] = [rel[i] for i in perm]
        c["maxcoeff"] = d.choice([None, None, 2, 3, 5, 17, 100, 10 ** 6])
        c["cls"] = "pslq:natural"
        return c
    scale = d.int(-20, 20) if d.int(0, 3) == 0 else 0
    c["scale"] = scale
    items = []
    for i in range(n):
        t = d.weighted([(6, "raw"), (3, "const"), (1 if scale == 0 else 0, "int")])
        if t == "raw":
            if d.int(0, 2) == 0:
                items.append(["raw", J(_rand_real(d, p))])
                c["generic"] = False
            else:
                items.append(["raw", J(_generic_real(d, p))])
        elif t == "const":
            items.append(["const", d.choice(list(CONST))])
        else:
            v = d.int(1, 20) * d.choice([-1, 1])
            items.append(["int", str(v)])
    if kind == "planted":
        h = d.choice([1, 2, 3, 7, 10, 99, 100, 999, 1000, 10 ** 4, 10 ** 6, 10 ** 9]) if d.bool() else d.int(1, 2000)
        rel = _coeffs(d, n, h)
        j = d.int(0, n - 1)
        if rel[j] == 0:
            rel[j] = d.choice([-1, 1]) * d.int(1, h)
        if not any(rel[i] for i in range(n) if i != j):
            rel[(j + 1) % n] = d.choice([-1, 1]) * d.int(1, h)
        items[j] = ["planted"]
        c["rel"] = rel
        c["maxcoeff"] = d.choice([None, h, h, h + 1, h + 1, max(2, h - 1), 2 * h + 1, 10 * h, 10 ** 12])
        if c["maxcoeff"] is not None and c["maxcoeff"] < 2:
            c["maxcoeff"] = 2
        c["cls"] = "pslq:planted"
    else:
        c["maxcoeff"] = d.choice([None, 2, 3, 10, 100, 1000, 10 ** 4, 10 ** 6, 10 ** 9, 10 ** 12])
        c["cls"] = "pslq:none"
    c["items"] = items
    return c


def _gen_poly_root(d):
    deg = d.int(1, 6)
    h = d.choice([1, 2, 3, 5, 10, 30, 100])
    co = [d.int(-h, h) for _ in range(deg + 1)]
    if d.int(0, 2) == 0:
        for i in range(1, deg):
            if d.bool():
                co[i] = 0
    lead = d.int(1, h)
    co[deg] = lead
    co[0] = -d.int(1, h)              # Q(0) < 0 < Q(+inf): a positive root exists
    return ["root", co, d.bool()]


def _gen_findpoly(d, tier):
    p = _prec(d)
    form = d.weighted([(8, "root"), (2, "rational"), (3, "sqrtcomb"), (2, "sqrt2sum"), (2, "cbrt"), (2, "transc"),
                       (2, "raw")])
    if form == "root":
        xs = _gen_poly_root(d)
        deg = len(xs[1]) - 1
    elif form == "rational":
        xs = ["rational", d.int(-200, 200), d.int(1, 200)]
        if d.int(0, 20) == 0:
            xs[1] = 0
        deg = 1
    elif form == "sqrtcomb":
        xs = ["sqrtcomb", d.int(-9, 9), d.int(1, 9) * d.choice([-1, 1]), d.choice([2, 3, 5, 6, 7, 10, 11, 13]),
              d.int(1, 6)]
        deg = 2
    elif form == "sqrt2sum":
        a = d.choice([2, 3, 5, 6, 7])
        b = d.choice([v for v in (2, 3, 5, 6, 7, 10) if v != a])
        xs = ["sqrt2sum", a, b]
        deg = 4
    elif form == "cbrt":
        xs = ["cbrt", d.int(-4, 4), d.choice([2, 3, 4, 5, 6, 7]), d.int(1, 3)]
        deg = 3
    elif form == "transc":
        xs = ["transc", d.choice(["pi", "e", "ln2", "euler", "catalan", "apery"])]
        deg = 0
    else:
        xs = ["raw", J(_rand_real(d, p))]
        deg = 0
    mode = d.weighted([(5, "complete"), (4, "free")]) if deg else "free"
    c = {"kind": "findpoly", "p": p, "x": xs, "tol": None, "maxcoeff": None, "maxsteps": None}
    if mode == "complete":
        n = min(6, deg + d.choice([0, 0, 1, 2]))
        hh = _height(_known_poly(xs))
        mc = d.choice([None, hh + 1, hh + 1, 2 * hh + 1, 10 * hh, 1000, 10 ** 4])
        if mc is not None and mc <= hh:
            mc = hh + 1
        mce = 1000 if mc is None else mc
        if mce <= hh:
            mc = mce = hh + 1
        need = int(2 * (n + 1) * math.log2(2 * mce) + 30) + 1
        tolbits = need + d.int(0, 30)
        p = max(p, int(tolbits / 0.75) + 2, tolbits + int(math.log2((n + 1) * hh)) + 12,
                int(4 * (n + 1) * math.log2(2 * hh)) + 31)
        p = min(p, 300)
        c["p"] = p
        if d.bool():
            c["tol"] = [d.int(need, max(need, p - int(math.log2((n + 1) * hh)) - 12)), 0, d.choice(["float", "mpf"])]
        c["maxcoeff"] = mc
        c["maxsteps"] = d.choice([1000, 3000, 10000])
        c["n"] = n
        c["cls"] = "findpoly:complete:%s" % form
    else:
        c["n"] = d.choice([1, 2, 3, 4, 5, 6, 6, 8]) if d.bool() else max(1, deg + d.int(-2, 1))
        c["tol"] = None if d.bool() else _tol(d, p, 8)
        c["maxcoeff"] = d.choice([None, None, 2, 10, 100, 10 ** 4, 10 ** 6, 10 ** 10])
        c["maxsteps"] = d.choice([None, None, 5, 50, 500, 3000])
        c["cls"] = "findpoly:free:%s" % form
    return c


def _q(d, lo_num=1, hi_num=24, hi_den=12):
    return ["q", d.int(lo_num, hi_num), d.int(1, hi_den)]


def _sq(d, small=True):
    n = d.int(-12, 12) if small else d.int(-40, 40)
    return ["q", n, d.int(1, 12)]


def _gen_identify(d, tier):
    p = _prec(d)
    if p > 200 and d.bool():
        p = d.int(53, 160)
    nconst = d.weighted([(4, 0), (6, 1), (4, 2), (1, 3)])
    style = d.weighted([(6, "list"), (3, "dict"), (2, "compound")])
    consts = []
    pool = list(ID_ATOMIC)
    if style == "compound" and nconst == 0:
        nconst = 1
    for i in range(nconst):
        s = pool.pop(d.int(0, len(pool) - 1))
        consts.append(s)
    if style == "compound":
        consts[0] = d.choice(ID_COMPOUND)
        if len(consts) > 1 and consts[1] in ("pi", "e", "log(2)", "sqrt(2)"):
            consts[1] = "catalan"
    if style == "dict":
        names = ["a", "b", "zz", "K1"]
        cspec = ["dict", [[names[i], (["expr", consts[i]] if d.bool() else ["raw", J(_posreal(d, p, generic=True))])]
                          for i in range(nconst)]]
    else:
        cspec = ["list", consts]
    form = d.weighted([(5, "lin"), (6, "tf"), (3, "qconst"), (2, "sqrtq"), (2, "expq"), (2, "logq"), (3, "quad"),
                       (3, "prod"), (2, "rat"), (1, "raw"), (1, "one")])

    def cref():
        return ["c", d.int(0, nconst - 1)] if nconst else ["q", d.choice([2, 3, 5, 7]), 1]

    def lin(pos=True):
        e = None
        terms = [_sq(d) if (not pos and nconst) else _q(d, 1, 12, 8)]
        for i in range(nconst):
            if d.int(0, 3):
                co = _q(d, 1, 9, 7)
                if not pos and d.bool():
                    co = ["q", -co[1], co[2]]
                terms.append(["mul", co, ["c", i]])
        e = terms[0]
        for t in terms[1:]:
            e = ["add", e, t]
        return e

    if form == "rat":
        e = ["q", d.int(1, 99), d.int(1, 99)]
    elif form == "qconst":
        e = ["mul", _q(d, 1, 12, 12), cref()]
    elif form == "sqrtq":
        e = ["sqrt", _q(d, 1, 40, 12)]
    elif form == "expq":
        e = ["exp", ["q", d.int(-12, 8), d.int(1, 6)]]
    elif form == "logq":
        e = ["log", ["q", d.int(2, 50), d.int(1, 9)]]
    elif form == "quad":
        e = ["div", ["add", ["q", d.int(-9, 9), 1], ["mul", ["q", d.int(1, 6) * d.choice([-1, 1]), 1],
                                                    ["sqrt", ["q", d.choice([2, 3, 5, 6, 7, 10, 13, 17]), 1]]]],
             ["q", d.int(1, 8), 1]]
    elif form == "lin":
        e = lin(pos=d.bool())
    elif form == "prod":
        e = ["pow", ["q", 2, 1], d.int(-6, 6), d.int(1, 4)]
        if d.bool():
            e = ["mul", e, ["pow", ["q", 3, 1], d.int(-4, 4), d.int(1, 3)]]
        if d.int(0, 2) == 0:
            e = ["mul", e, ["pow", ["q", d.choice([5, 7]), 1], d.int(-2, 2), d.int(1, 3)]]
        for i in range(nconst):
            if d.bool():
                e = ["mul", e, ["pow", ["c", i], d.int(-3, 3), d.int(1, 2)]]
    elif form == "tf":
        inner = lin(pos=True)
        f = d.choice(["exp", "sqrt", "inv", "sq", "log", "cdiv", "cmul_exp", "sqrt_c", "logc", "expinv"])
        if f == "exp":
            e = ["exp", ["div", inner, ["q", d.int(2, 6), 1]]]
        elif f == "sqrt":
            e = ["sqrt", inner]
        elif f == "inv":
            e = ["div", ["q", 1, 1], ["add", inner, ["q", 1, 3]]]
        elif f == "sq":
            e = ["pow", ["div", inner, ["q", 4, 1]], 2, 1]
        elif f == "log":
            e = ["log", ["add", inner, ["q", 3, 2]]]
        elif f == "cdiv":
            e = ["div", cref(), ["add", inner, ["q", 1, 2]]]
        elif f == "cmul_exp":
            e = ["mul", cref(), ["exp", ["div", inner, ["q", 8, 1]]]]
        elif f == "sqrt_c":
            e = ["div", ["sqrt", inner], cref()]
        elif f == "logc":
            e = ["log", ["mul", cref(), ["add", inner, ["q", 1, 1]]]]
        else:
            e = ["exp", ["div", ["q", 1, 1], ["add", inner, ["q", 1, 1]]]]
    elif form == "raw":
        e = ["raw", J(_posreal(d, p, wide=True))]
    else:
        e = ["q", 1, 1]
    if d.int(0, 4) == 0:
        e = ["neg", e]
    c = {"kind": "identify", "p": p, "x": e, "constants": cspec, "tol": None, "maxcoeff": None,
         "full": d.int(0, 2) > 0, "cls": "identify:%s:%s%d" % (form, style[0], nconst)}
    if d.int(0, 2) == 0:
        c["tol"] = [d.int(30, max(30, p - 8)), 0, d.choice(["float", "mpf"])]
    if d.int(0, 2) == 0:
        c["maxcoeff"] = d.choice([30, 100, 1000, 10 ** 4])
    return c


def _posreal(d, p, wide=False, generic=False):
    """p-bit real in [1/2, 4) (wide: [1/16, 8)); generic: pseudo-random mantissa (base constants must not be
    (nearly) rational, see the docstring of identify)"""
    if generic:
        m = _generic_real(d, p)[1]
        m <<= p - m.bit_length()
    else:
        m = (1 << (p - 1)) | d.bits(p - 1)
    e = d.int(-4, 2) if wide else d.int(-1, 1)
    return exact.mk(0, m, e - p + 1)


def gen_case(d, shard, tier):
    if shard == "pslq":
        return _gen_pslq(d, tier)
    if shard == "findpoly":
        return _gen_findpoly(d, tier)
    return _gen_identify(d, tier)


# ------------------------------------------------------------------------------------------------ reference side

_NS = {}


def _ref_ns():
    import mpref
    if "ns" not in _NS:
        ns = {}
        for name in dir(mpref.mp):
            if not name.startswith("_"):
                try:
                    ns[name] = getattr(mpref.mp, name)
                except Exception:  # noqa
                    pass
        _NS["ns"] = ns
    return dict(_NS["ns"])


def _ref_eval(expr, H, extra=None):
    """raw value (H bits) of a Python expression in the reference library's namespace; None if not a finite real"""
    import mpref
    old = mpref.mp.prec
    try:
        mpref.mp.prec = H
        ns = _ref_ns()
        if extra:
            for k, raw in extra.items():
                ns[k] = mpref.mp.make_mpf(raw)
        v = eval(expr, ns)
        v = mpref.mp.convert(v)
        if hasattr(v, "_mpc_"):
            re_, im_ = v._mpc_
            return ("c", re_, im_)
        return ("r", (+v)._mpf_)
    finally:
        mpref.mp.prec = old


def _const_hi(name, H):
    k = (name, H)
    if k not in _NS:
        if len(_NS) > 400:
            ns = _NS.get("ns")
            _NS.clear()
            if ns is not None:
                _NS["ns"] = ns
        _NS[k] = F(_ref_eval(name, H)[1])
    return _NS[k]


def _tree_eval(e, H, cvals):
    """evaluate an expression tree with the reference library at H bits; returns an mpref mpf/mpc (caller sets prec)"""
    import mpref
    M = mpref.mp
    t = e[0]
    if t == "q":
        return M.mpf(e[1]) / e[2]
    if t == "raw":
        return M.make_mpf(U(e[1]))
    if t == "c":
        return cvals[e[1]]
    if t == "neg":
        return -_tree_eval(e[1], H, cvals)
    if t in ("sqrt", "exp", "log"):
        return getattr(M, t)(_tree_eval(e[1], H, cvals))
    if t == "pow":
        return _tree_eval(e[1], H, cvals) ** (M.mpf(e[2]) / e[3])
    a = _tree_eval(e[1], H, cvals)
    b = _tree_eval(e[2], H, cvals)
    if t == "add":
        return a + b
    if t == "mul":
        return a * b
    if t == "div":
        return a / b
    raise ValueError(t)


def _sqrt_up(v):
    """upper bound (relative excess < 2^-60) of sqrt of a non-negative Fraction"""
    if v == 0:
        return Fraction(0)
    num, den = v.numerator, v.denominator
    k = max(0, 70 - (num.bit_length() - den.bit_length()) // 2)
    s = isqrt((num << (2 * k)) // den) + 1
    return Fraction(s, 1 << k)


def _tol_value(t):
    k, j, how = t
    return Fraction(16 + j, 1 << (k + 4))


def _tol_arg(mp, t):
    k, j, how = t
    v = _tol_value(t)
    if how == "float" and k < 1000:
        return float(v)
    return mp.mpf(16 + j) / mp.mpf(2) ** (k + 4)


def _log2(v):
    v = Fraction(v)
    return math.log2(v.numerator) - math.log2(v.denominator)


def _is_int_list(r):
    return isinstance(r, list) and all(type(v) is int for v in r)


def _prim(rel):
    g = 0
    for v in rel:
        g = gcd(g, abs(v))
    return [v // g for v in rel] if g else list(rel)


def _height(rel):
    return max(abs(v) for v in _prim(rel))


def _known_poly(xs):
    """integer polynomial (low -> high) known to vanish at x, or None"""
    t = xs[0]
    if t == "root":
        co = list(xs[1])
        if xs[2]:
            co = [(-v if i & 1 else v) for i, v in enumerate(co)]
        return co
    if t == "rational":
        return [-xs[1], xs[2]]
    if t == "sqrtcomb":
        a, b, c, dd = xs[1:]
        return [a * a - b * b * c, -2 * a * dd, dd * dd]
    if t == "sqrt2sum":
        a, b = xs[1:]
        return [(a - b) ** 2, 0, -2 * (a + b), 0, 1]
    if t == "cbrt":
        a, b, c = xs[1:]
        return [-a ** 3 - b, 3 * c * a * a, -3 * c * c * a, c ** 3]
    return None


_PRIMES = [3, 5, 7, 11, 13, 17, 19, 23, 29, 31, 37, 41, 43, 47, 53, 59, 61, 67, 71, 73, 79, 83, 89, 97, 101, 103]


def _pmod(a, m, p):
    """remainder of a modulo the monic polynomial m over F_p (lists low -> high)"""
    a = [v % p for v in a]
    dm = len(m) - 1
    while len(a) > dm:
        c = a.pop()
        if c:
            off = len(a) - dm
            for i in range(dm):
                a[off + i] = (a[off + i] - c * m[i]) % p
    while a and a[-1] == 0:
        a.pop()
    return a


def _pmul(a, b, m, p):
    if not a or not b:
        return []
    out = [0] * (len(a) + len(b) - 1)
    for i, x in enumerate(a):
        if x:
            for k, y in enumerate(b):
                out[i + k] = (out[i + k] + x * y) % p
    return _pmod(out, m, p)


def _pgcd_trivial(a, b, p):
    """True iff gcd(a, b) = 1 over F_p"""
    a = [v % p for v in a]
    b = [v % p for v in b]
    while a and a[-1] == 0:
        a.pop()
    while b and b[-1] == 0:
        b.pop()
    while b:
        inv = pow(b[-1], p - 2, p)
        bm = [(v * inv) % p for v in b]
        a, b = b, _pmod(a, bm, p)
    return len(a) == 1


def _certified_irreducible(co):
    """sufficient test: the integer polynomial (low -> high) is irreducible modulo some prime not dividing the leading
    coefficient (no factor of degree <= deg/2: gcd(x^(p^k) - x, Q) = 1 for k <= deg/2), hence irreducible over Q"""
    dg = len(co) - 1
    if dg <= 1:
        return True
    for p in _PRIMES:
        if co[-1] % p == 0:
            continue
        inv = pow(co[-1] % p, p - 2, p)
        m = [(v * inv) % p for v in co]
        hpow = [0, 1]
        ok = True
        for k in range(1, dg // 2 + 1):
            # hpow <- hpow^p mod m
            base, e, acc = hpow, p, [1]
            while e:
                if e & 1:
                    acc = _pmul(acc, base, m, p)
                base = _pmul(base, base, m, p)
                e >>= 1
            hpow = acc
            diff = list(hpow) + [0] * max(0, 2 - len(hpow))
            diff[1] = (diff[1] - 1) % p
            if not _pgcd_trivial(m, diff, p):
                ok = False
                break
        if ok:
            return True
    return False


def _root_hi(co, H):
    """a positive root of sum co[i] x^i (co[0] < 0 < co[-1]) as a Fraction with absolute error <= 2^-H (exact bisection)"""
    dg = len(co) - 1

    def sgn(m, k):
        v = co[dg]
        for i in range(dg - 1, -1, -1):
            v = v * m + (co[i] << (k * (dg - i)))
        return (v > 0) - (v < 0)

    lo, hi = 0, 2
    while sgn(hi, 0) <= 0:
        if sgn(hi, 0) == 0:
            return Fraction(hi)
        hi *= 2
    while hi - lo > 1:
        mid = (lo + hi) // 2
        s = sgn(mid, 0)
        if s == 0:
            return Fraction(mid)
        if s < 0:
            lo = mid
        else:
            hi = mid
    for k in range(1, H + 1):
        lo *= 2
        hi *= 2
        mid = lo + 1
        s = sgn(mid, k)
        if s == 0:
            return Fraction(mid, 1 << k)
        if s < 0:
            lo = mid
        else:
            hi = mid
    return Fraction(lo + hi, 1 << (H + 1))


def _x_hi(xs, H):
    t = xs[0]
    if t == "root":
        v = _root_hi(xs[1], H)
        return -v if xs[2] else v
    if t == "rational":
        return Fraction(xs[1], xs[2])
    if t == "raw":
        return F(U(xs[1]))
    if t == "transc":
        return _const_hi(CONST[xs[1]], H)
    if t == "sqrtcomb":
        a, b, c, dd = xs[1:]
        return (a + b * _const_hi("sqrt(%d)" % c, H)) / dd
    if t == "sqrt2sum":
        return _const_hi("sqrt(%d)" % xs[1], H) + _const_hi("sqrt(%d)" % xs[2], H)
    if t == "cbrt":
        a, b, c = xs[1:]
        return (a + _const_hi("cbrt(%d)" % b, H)) / c
    raise ValueError(t)


# ------------------------------------------------------------------------------------------------ checks

def _fl(v):
    """float for messages (never raises)"""
    try:
        return float(v)
    except (OverflowError, ZeroDivisionError):
        return float("inf") if v > 0 else float("-inf")


def _sound(res, bucket, what, r, xs, tolF, maxcoeff, p, extra_allow=Fraction(0), nmax=None, exact_len=None, shown=None):
    """common soundness test of an integer vector r against exact values xs (Fractions, same order as r).
    Returns True when r is well formed (so that further tests make sense)."""
    if not _is_int_list(r):
        res.bad(bucket + ":type", "%s returned %r (expected a list of Python ints or None)" % (what, r))
        return False
    shown = r if shown is None else shown
    if exact_len is not None and len(r) != exact_len:
        res.bad(bucket + ":length", "%s returned %d coefficients for %d numbers: %r" % (what, len(r), exact_len, r))
        return False
    if nmax is not None and not (2 <= len(r) <= nmax + 1):
        res.bad(bucket + ":degree", "%s returned %d coefficients %r: degree exceeds the requested n=%d" % (
            what, len(r), r, nmax))
        return False
    if not any(r):
        res.bad(bucket + ":zero", "%s returned the zero vector %r" % (what, r))
        return False
    if max(abs(v) for v in r) >= maxcoeff:
        res.bad(bucket + ":maxcoeff", "%s returned %r: max|c_k| = %d is not < maxcoeff = %d" % (
            what, shown, max(abs(v) for v in r), maxcoeff))
    S = abs(sum(ck * xk for ck, xk in zip(r, xs)))
    nrm = _sqrt_up(sum(xk * xk for xk in xs))
    sa = sum(abs(v) for v in r)
    allowed = tolF * nrm * (1 + Fraction(1, 1 << 30)) + sa * Fraction(1, 1 << (p + 57)) * (nrm + 1) + extra_allow
    if S > allowed:
        res.bad(bucket + ":residual", "%s returned %r but |sum c_k x_k| = %.6g exceeds tol*||x|| = %.6g (tol = %.6g, "
                                      "ratio %.4g)" % (what, shown, _fl(S), _fl(tolF * nrm), _fl(tolF),
                                                      _fl(S / (tolF * nrm))))
    return True


def _check_pslq(c, res):
    from mpmath import mp
    p = c["p"]
    H = 3 * p + 164
    items = c["items"]
    n = len(items)
    sc = c["scale"]
    scf = Fraction(2) ** sc
    X = [None] * n
    j = None
    for i, it in enumerate(items):
        if it[0] == "raw":
            X[i] = F(U(it[1])) * scf
        elif it[0] == "int":
            X[i] = Fraction(int(it[1]))
        elif it[0] == "const":
            X[i] = _const_hi(CONST[it[1]], H) * scf
        else:
            j = i
    rel = c["rel"]
    if j is not None:
        X[j] = -sum(rel[i] * X[i] for i in range(n) if i != j) / rel[j]
    mp.prec = p
    xs = []
    xv = []
    for i, it in enumerate(items):
        if it[0] == "int":
            xs.append(int(it[1]))
            xv.append(X[i])
        else:
            raw = exact.round_fraction(X[i], p, "n")
            if raw == exact.fzero:
                res.rejected = True
                return res
            xs.append(mp.make_mpf(raw))
            xv.append(F(raw))
    kw = {}
    tolF = Fraction(1, 1 << int(p * 0.75))
    if c["tol"] is not None:
        kw["tol"] = _tol_arg(mp, c["tol"])
        tolF = _tol_value(c["tol"])
    maxcoeff = 1000
    if c["maxcoeff"] is not None:
        kw["maxcoeff"] = maxcoeff = c["maxcoeff"]
    maxsteps = 100
    if c["maxsteps"] is not None:
        kw["maxsteps"] = maxsteps = c["maxsteps"]
    what = "pslq(%s%s) at prec %d" % ("[" + ", ".join(_show(v) for v in xs) + "]",
                                      "".join(", %s=%s" % (k, _show(v)) for k, v in sorted(kw.items())), p)
    try:
        r = mp.pslq(xs, **kw)
    except ValueError as e:
        if p < 53:
            res.rejected = True
            return res
        res.bad("pslq:valueerror", "%s raised ValueError(%s)" % (what, e))
        return res
    if mp.prec != p:
        res.bad("pslq:prec_leak", "%s left mp.prec = %d" % (what, mp.prec))
        mp.prec = p
    # is completeness required?
    complete = False
    h = None
    if rel is not None and n <= 5 and p >= 53 and c.get("generic"):
        h = _height(rel)
        nrm = _sqrt_up(sum(v * v for v in xv))
        minx = min(abs(v) for v in xv)
        tb = -_log2(tolF)
        others = [abs(X[i]) for i in range(n) if i != j]
        rank1 = len(set(others)) == len(others)
        nrm2 = math.sqrt(sum(v * v for v in _prim(rel)))
        complete = (h <= 100 and h < maxcoeff and maxsteps >= 1000
                    and (rank1 or maxcoeff > 3 * nrm2)
                    and tb >= 2 * n * math.log2(2 * maxcoeff) + 30
                    and p >= tb + math.log2(n * h) + 10
                    and p >= 4 * n * math.log2(2 * h) + 30
                    and minx * (1 << 20) >= nrm and minx >= 4 * tolF)
    res.cls += ":None" if r is None else ":vector"
    if r is None:
        if complete:
            res.bad("pslq:missed", "%s returned None although the relation %r (height %d) exists" % (what, rel, h))
        return res
    ok = _sound(res, "pslq", what, r, xv, tolF, maxcoeff, p, exact_len=n)
    if ok and rel is not None:
        resid = abs(sum(ck * xk for ck, xk in zip(r, X)))
        genuine = resid * (1 << (2 * p)) <= sum(abs(ck * xk) for ck, xk in zip(r, X))
        if genuine:
            res.nontrivial = True
        elif complete:
            res.bad("pslq:spurious", "%s returned %r which is not a relation of the exact numbers (planted %r, residual "
                                     "%.3g)" % (what, r, rel, _fl(resid)))
    return res


def _show(v):
    if hasattr(v, "_mpf_"):
        return "mpf(%s)" % exact.raw_str(v._mpf_)
    return repr(v)


def _check_findpoly(c, res):
    from mpmath import mp
    p = c["p"]
    H = 3 * p + 64
    xs = c["x"]
    Xhi = _x_hi(xs, H)
    raw = exact.round_fraction(Xhi, p, "n") if Xhi else exact.fzero
    xF = F(raw)
    mp.prec = p
    x = mp.make_mpf(raw)
    n = c["n"]
    kw = {}
    tolF = Fraction(1, 1 << int(p * 0.75))
    if c["tol"] is not None:
        kw["tol"] = _tol_arg(mp, c["tol"])
        tolF = _tol_value(c["tol"])
    maxcoeff = 1000
    if c["maxcoeff"] is not None:
        kw["maxcoeff"] = maxcoeff = c["maxcoeff"]
    maxsteps = 100
    if c["maxsteps"] is not None:
        kw["maxsteps"] = maxsteps = c["maxsteps"]
    what = "findpoly(%s, %d%s) at prec %d" % (_show(x), n, "".join(", %s=%s" % (k, _show(v)) for k, v in sorted(kw.items())), p)
    r = mp.findpoly(x, n, **kw)
    if mp.prec != p:
        res.bad("findpoly:prec_leak", "%s left mp.prec = %d" % (what, mp.prec))
        mp.prec = p
    kp = _known_poly(xs)
    complete = False
    if kp is not None and xF != 0:
        dg = len(kp) - 1
        while dg > 0 and kp[dg] == 0:
            dg -= 1
        h = _height(kp)
        tb = -_log2(tolF)
        ax = abs(xF)
        kpp = _prim(kp[:dg + 1])
        mign = (1 << dg) * math.sqrt(sum(v * v for v in kpp))
        complete = (dg <= n <= 6 and h <= 1000 and h < maxcoeff and maxsteps >= 1000
                    and (xs[0] != "root" or maxcoeff > mign or _certified_irreducible(kpp))
                    and tb >= 2 * (n + 1) * math.log2(2 * maxcoeff) + 30
                    and p >= tb + math.log2((n + 1) * h) + 10
                    and p >= 4 * (n + 1) * math.log2(2 * h) + 30
                    and Fraction(1, 1 << 10) <= ax ** n <= (1 << 20))
    res.cls += ":None" if r is None else ":poly"
    if r is None:
        if complete:
            res.bad("findpoly:missed", "%s returned None although x is a root of %r (low to high)" % (what, kp))
        return res
    if xF == 0:
        if r != [1, 0]:
            res.bad("findpoly:zero", "%s returned %r" % (what, r))
        return res
    if not _is_int_list(r):
        res.bad("findpoly:type", "%s returned %r" % (what, r))
        return res
    m = len(r) - 1
    lowfirst = r[::-1]
    pw = [xF ** k for k in range(m + 1)]
    extra = sum(abs(ck) * abs(xk) for ck, xk in zip(lowfirst, pw)) * Fraction(4, 1 << p)
    ok = _sound(res, "findpoly", what, lowfirst, pw, tolF, maxcoeff, p, extra_allow=extra, nmax=n, shown=r)
    if ok:
        dgr = m
        while dgr > 0 and r[m - dgr] == 0:
            dgr -= 1
        if kp is not None:
            val = abs(sum(ck * Xhi ** k for k, ck in enumerate(lowfirst)))
            genuine = val * (1 << (2 * p)) <= sum(abs(ck) * abs(Xhi) ** k for k, ck in enumerate(lowfirst))
            if complete and not genuine:
                res.bad("findpoly:spurious", "%s returned %r which does not vanish at the exact x (a root of %r): P(x) = %.3g"
                        % (what, r, kp, _fl(val)))
            res.nontrivial = genuine and dgr >= 2
        else:
            res.nontrivial = dgr >= 2
    return res


_INT = re.compile(r"(?<![\w.])(\d+)(?![\w.])")


def _check_identify(c, res):
    from mpmath import mp
    import mpref
    p = c["p"]
    H = 3 * p + 164
    cs = c["constants"]
    old = mpref.mp.prec
    mpref.mp.prec = H
    try:
        # constants: values at H bits (for the construction of x) and what is passed to identify
        extra = {}
        chi = []
        if cs[0] == "list":
            arg = list(cs[1])
            names = list(cs[1])
            for s in cs[1]:
                v = _ref_eval(s, H)
                chi.append(mpref.mp.make_mpf(v[1]))
        else:
            arg = {}
            names = []
            mp.prec = p
            for name, vs in cs[1]:
                if vs[0] == "expr":
                    v = _ref_eval(vs[1], H)
                    raw = exact.round_raw(v[1], p, "n")
                else:
                    raw = U(vs[1])
                arg[name] = mp.make_mpf(raw)
                extra[name] = raw
                chi.append(mpref.mp.make_mpf(raw))
                names.append(name)
        mpref.mp.prec = H
        try:
            xh = _tree_eval(c["x"], H, chi)
        except (ZeroDivisionError, ValueError):
            res.rejected = True
            return res
        if hasattr(xh, "_mpc_") or not mpref.mp.isfinite(xh) or xh == 0:
            res.rejected = True
            return res
        xraw = exact.round_raw(xh._mpf_, p, "n")
    finally:
        mpref.mp.prec = old
    xF = F(xraw)
    if not (Fraction(1, 32) <= abs(xF) <= 8):
        res.rejected = True
        return res
    mp.prec = p
    x = mp.make_mpf(xraw)
    kw = {}
    tolf = 2.0 ** (-0.7 * (p - 1))
    if c["tol"] is not None:
        kw["tol"] = _tol_arg(mp, c["tol"])
        tolf = float(_tol_value(c["tol"]))
    if c["maxcoeff"] is not None:
        kw["maxcoeff"] = c["maxcoeff"]
    full = c["full"]
    what = "identify(%s, %r%s, full=%r) at prec %d" % (_show(x), arg if cs[0] == "list" else dict((k, _show(v)) for k, v in arg.items()),
                                                       "".join(", %s=%s" % (k, _show(v)) for k, v in sorted(kw.items())), full, p)
    try:
        r = mp.identify(x, arg, full=full, **kw)
    except ZeroDivisionError:
        if abs(xF) == 1:
            res.bad("identify:zerodivision:x=1", "%s raised ZeroDivisionError (the transformation c/log(x) is applied to x = 1)" % what)
        else:
            res.bad("identify:zerodivision", "%s raised ZeroDivisionError" % what)
        mp.prec = p
        return res
    except TypeError as e:
        if "NoneType" in str(e) and full:
            res.bad("identify:typeerror:empty_product", "%s raised TypeError(%s): x is within tol of 1, the multiplicative "
                                                        "search returns a relation without factors, prodstring gives None and "
                                                        "sorted(solutions, key=len) fails" % (what, e))
            mp.prec = p
            return res
        raise
    if mp.prec != p:
        res.bad("identify:prec_leak", "%s left mp.prec = %d" % (what, mp.prec))
        mp.prec = p
    res.cls += ":None" if not r else ":formula"
    if r is None:
        if full:
            res.bad("identify:type", "%s returned None with full=True (a list is documented)" % what)
        return res
    if full:
        if not isinstance(r, list) or not all(isinstance(s, str) for s in r):
            res.bad("identify:type", "%s returned %r" % (what, r))
            return res
        sols = r
    else:
        if not isinstance(r, str):
            res.bad("identify:type", "%s returned %r" % (what, r))
            return res
        sols = [r]
    bound = Fraction(tolf) * (1 << 20) * max(1, abs(xF))
    compound = [s for s in names if cs[0] == "list" and not re.match(r"^\w+(\([\w.]*\))?$", s)]
    for s in sols[:40]:
        if re.search(r"[A-Za-z]|\*\*", s):
            res.nontrivial = True
        ok, info = _formula_ok(s, H, extra, xF, bound)
        if ok:
            continue
        if compound:
            s2 = s
            for cc in compound:
                s2 = s2.replace(cc, "(" + cc + ")")
            ok2, _ = _formula_ok(s2, H, extra, xF, bound)
            if ok2:
                res.bad("identify:compound_constant_precedence",
                        "%s returned %r which evaluates to %s, not x; the constant expression is pasted into the formula "
                        "without parentheses (%r is correct)" % (what, s, info, s2))
                continue
        if "sqrt(0)" in s:
            res.bad("identify:quadratic_zero_discriminant",
                    "%s returned %r which evaluates to %s; x = %.17g, allowed difference %.3g: a quadratic with a double "
                    "root is accepted because its residual (t-r)^2 is below tol although |t-r| ~ sqrt(tol)" % (
                        what, s, info, _fl(xF), _fl(bound)))
            continue
        res.bad("identify:value", "%s returned %r which evaluates to %s; x = %.17g, allowed difference %.3g" % (
            what, s, info, _fl(xF), _fl(bound)))
    return res


def _formula_ok(s, H, extra, xF, bound):
    expr = _INT.sub(r"mpf(\1)", s)
    try:
        v = _ref_eval(expr, H, extra)
    except Exception as e:  # noqa -- an expression that cannot be evaluated is a wrong answer
        return False, "%s: %s" % (type(e).__name__, e)
    if v[0] == "c":
        if v[2] != exact.fzero:
            return False, "a complex number"
        val = F(v[1])
    else:
        if v[1][1] == 0 and v[1] != exact.fzero:
            return False, "a non-finite value"
        val = F(v[1])
    if abs(val - xF) <= bound:
        return True, ""
    return False, "%.17g (difference %.3g)" % (_fl(val), _fl(abs(val - xF)))


def check_case(c):
    import mpmath
    from mpmath import mp
    res = R()
    res.cls = c["cls"]
    try:
        if c["kind"] == "pslq":
            return _check_pslq(c, res)
        if c["kind"] == "findpoly":
            return _check_findpoly(c, res)
        return _check_identify(c, res)
    finally:
        mp.prec = 53


# ------------------------------------------------------------------------------------------ known-finding regions

def region_identify_one(case):
    """identify(+-1, ..., full=True): the transformation c/log(x) divides by log(1) = 0"""
    if case.get("kind") != "identify" or not case.get("full"):
        return False
    x = case["x"]
    if x[0] == "neg":
        x = x[1]
    return x[0] == "q" and x[1] == x[2]


def region_identify_compound(case):
    """a base constant given as a non-atomic expression string ('pi/4', 'pi+1'): pasted without parentheses"""
    return case.get("kind") == "identify" and case["constants"][0] == "list" and any(
        not re.match(r"^\w+(\([\w.]*\))?$", s) for s in case["constants"][1])


REGIONS = {"identify_one": region_identify_one, "identify_compound": region_identify_compound}
