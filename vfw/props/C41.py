"""C41 -- Riemann zeta zeros are located and counted correctly (zetazero, nzeros, grampoint, backlunds)."""
from .. import exact
from ..core import R, time_limit, CaseTimeout

ID = "C41"
LEVEL = "exploration"
CASE_TIMEOUT = 240.0
RULE = ("Cases: (zero) zetazero(n) for n dense in 1..400 (all early Gram-law exceptions 126, 134, 195, 211, 232, ...), "
        "random in 400..10^5, a few up to 2*10^7 incl. the neighbourhood of the first Rosser-rule exceptions "
        "(13999525, 30783329), at precisions 30..160 bits (mostly 53), also -n and info=True; (count) nzeros(t) and "
        "backlunds(t) for t < 14.13, t random up to 1500, up to 75000 and up to 7*10^6, and t within 1e-6 relative of "
        "a zero on either side, given as int / float / mpf; (gram) grampoint(n) for n in -1..10^7.  Oracle, independent "
        "of the zero-locating code: N(T) = theta(T)/pi + 1 + S(T) with S(T) = arg zeta(1/2+iT)/pi obtained by "
        "continuous variation of the argument of the frozen reference zeta along sigma = 3 -> 1/2 (adaptive steps, "
        "|delta arg| < 0.7 per step; accepted only if within 1e-6 of an integer).  zetazero(n): real part is exactly "
        "1/2; the reference Z(t) = siegelz changes sign within gamma*(1 +- 2^(4-p)); N(gamma + e) = n and "
        "N(gamma - e) = n - 1 with e = 1/1000 of the mean spacing; zetazero(-n) is the conjugate.  nzeros(t) = N(t); "
        "|backlunds(t) - S(t)| <= 2^(10-p) max(1, N); |theta(grampoint(n)) - n pi| <= 2^(10-p) max(1, |n| pi) and "
        "grampoint(n) > 7.  Non-trivial = n > 10 or t > 30.")
ASSUMPTIONS = ["values of zeta(s), siegelz and siegeltheta of the frozen mpmath 1.3.0 at >= 60 bits are correct to 40 bits",
               "zeros at the sampled heights are simple and not closer than 1/500 of the mean spacing (otherwise inconclusive)"]
TECHNIQUE = "property-based testing (Hypothesis) with an independent argument-principle oracle"

GRAM_EXC = [126, 134, 195, 211, 232, 254, 288, 367, 377, 379, 397, 400, 461, 507, 518, 529, 567, 578, 595, 618, 626, 637, 654, 668]
ROSSER = [13999525, 30783329]


def shards(tier):
    n = 14 if tier == "quick" else 500
    return [("zero", n)] * 8 + [("count", 2 * n)] * 6 + [("gram", 6 * n)] * 2


def gen_case(d, shard, tier):
    if shard == "zero":
        k = d.weighted([(5, "dense"), (2, "gramexc"), (5, "mid"), (3, "high"), (1, "rosser")])
        if k == "dense":
            n = d.int(1, 400)
        elif k == "gramexc":
            n = d.choice(GRAM_EXC) + d.int(-1, 2)
        elif k == "mid":
            n = d.int(400, 20000)
        elif k == "high":
            n = d.int(20000, 120000)
        else:
            n = d.choice(ROSSER) + d.int(-2, 2) if (tier != "quick" or d.int(0, 3) == 0) else d.int(10**6, 2 * 10**6)
        p = d.weighted([(6, 53), (2, 0), (1, -1)])
        if p == 0:
            p = d.int(30, 52)
        elif p == -1:
            p = d.int(54, 160)
        return {"op": "zero", "n": n, "prec": p, "neg": d.int(0, 3) == 0, "info": d.int(0, 5) == 0, "cls": "zero:" + k}
    if shard == "count":
        k = d.weighted([(1, "below"), (5, "low"), (4, "mid"), (1, "high"), (4, "nearzero")])
        if k == "below":
            t = ["q", d.int(-20 * 1024, 14 * 1024 + 100), 1024]
        elif k == "low":
            t = ["q", d.int(14 * 1024, 1500 * 1024), 1024]
        elif k == "mid":
            t = ["q", d.int(1500 * 64, 75000 * 64), 64]
        elif k == "high":
            t = ["q", d.int(75000 * 16, 7 * 10**6 * 16), 16]
        else:
            t = ["z", d.weighted([(5, d.int(1, 500)), (3, d.int(500, 30000)), (1, d.int(30000, 10**5))]), d.choice([1, -1]),
                 d.choice([20, 25, 30, 35])]
        return {"op": "count", "t": t, "ty": d.choice(["mpf", "mpf", "float", "int"]), "prec": d.choice([53, 53, 53, 40, 64, 100]),
                "cls": "count:" + k}
    k = d.weighted([(2, "small"), (4, "mid"), (2, "large")])
    n = d.int(-1, 30) if k == "small" else d.int(30, 10**5) if k == "mid" else d.int(10**5, 10**7)
    p = d.weighted([(5, 53), (3, 0)])
    return {"op": "gram", "n": n, "prec": p or d.int(30, 300), "cls": "gram:" + k}


# ------------------------------------------------------------------------------------------------- oracle

def N_oracle(mr, T, prec=64):
    """(N(T), S(T)) by continuous variation of arg zeta(sigma + iT), sigma = 3 -> 1/2; None if undecidable"""
    old = mr.prec
    try:
        mr.prec = prec
        T = mr.mpf(T)
        sig = mr.mpf(3)
        prev = mr.zeta(mr.mpc(sig, T))
        arg = mr.arg(prev)
        h = mr.mpf("0.25")
        while sig > 0.5:
            step = min(h, sig - 0.5)
            while True:
                z2 = mr.zeta(mr.mpc(sig - step, T))
                if z2 == 0:
                    return None
                dd = mr.arg(z2 / prev)
                if abs(dd) < 0.7:
                    break
                step /= 2
                if step < 1e-7:
                    return None
            arg += dd
            sig -= step
            prev = z2
            h = min(step * 2, mr.mpf("0.25")) if abs(dd) < 0.2 else step
        S = arg / mr.pi
        Nt = mr.siegeltheta(T) / mr.pi + 1 + S
        k = int(mr.nint(Nt))
        if abs(Nt - k) > 1e-6:
            return None
        return k, S
    finally:
        mr.prec = old


def check_case(c):
    import mpmath
    import mpref
    mp = mpmath.mp
    mr = mpref.mp
    res = R()
    res.cls = c["cls"]
    p = c["prec"]
    try:
        mp.prec = p
        if c["op"] == "zero":
            n = c["n"]
            res.nontrivial = n > 10
            z = mp.zetazero(n)
            if mp.prec != p:
                res.bad("prec-leak:zetazero", "zetazero(%d) left mp.prec = %d (was %d)" % (n, mp.prec, p))
                mp.prec = p
            if not hasattr(z, "_mpc_"):
                return res.bad("zero:type", "zetazero(%d) returned %r" % (n, type(z)))
            re_, im_ = z._mpc_
            if tuple(re_) != (0, 1, -1, 1):
                res.bad("zero:realpart", "zetazero(%d) at prec %d has real part %s, not exactly 1/2" % (n, p, exact.raw_str(re_)))
            g = mr.make_mpf(tuple(im_))
            mr.prec = max(p, 53) + 70
            try:
                if not g > 14:
                    return res.bad("zero:imag", "zetazero(%d) = %s" % (n, z))
                # accuracy: a sign change of Z within 16 ulp
                dlt = mr.ldexp(g, 4 - p)
                za, zb = mr.siegelz(g - dlt), mr.siegelz(g + dlt)
                if not (za * zb < 0):
                    res.bad("zero:accuracy", "zetazero(%d) at prec %d = %s: the reference Z(t) has no sign change within 16 ulp "
                            "(Z(g-d) = %s, Z(g+d) = %s)" % (n, p, z, mr.nstr(za, 8), mr.nstr(zb, 8)))
                # index: N jumps from n-1 to n across g
                spacing = 2 * mr.pi / mr.log(g / (2 * mr.pi)) if g > 20 else mr.mpf(5)
                e = spacing / 1000
                lo, hi = N_oracle(mr, g - e), N_oracle(mr, g + e)
                if lo is None or hi is None or hi[0] - lo[0] != 1:
                    res.inconclusive = True
                elif hi[0] != n:
                    res.bad("zero:index", "zetazero(%d) at prec %d = %s is zero number %d (N(g-e) = %d, N(g+e) = %d by the "
                            "argument principle)" % (n, p, z, hi[0], lo[0], hi[0]))
            finally:
                mr.prec = 53
            if c["neg"]:
                zc = mp.zetazero(-n)
                if not hasattr(zc, "_mpc_") or tuple(zc._mpc_[0]) != tuple(re_) or tuple(zc._mpc_[1]) != tuple(mpmath.libmp.mpf_neg(im_)):
                    res.bad("zero:conjugate", "zetazero(%d) = %s but zetazero(%d) = %s" % (-n, zc, n, z))
            if c["info"]:
                r = mp.zetazero(n, info=True)
                if not (isinstance(r, tuple) and len(r) == 4 and hasattr(r[0], "_mpc_") and tuple(r[0]._mpc_[1]) == tuple(im_)):
                    res.bad("zero:info", "zetazero(%d, info=True) = %r differs from zetazero(%d) = %s" % (n, r, n, z))
                else:
                    a, b = r[1]
                    if not (a < n - 1 <= b):       # Gram-interval indices: zero n lies in (g_(n-2), g_(n-1)) when Gram's law holds
                        res.bad("zero:info", "zetazero(%d, info=True) reports the Gram block (%d, %d] which does not contain interval %d" % (n, a, b, n - 1))
            return res
        if c["op"] == "count":
            t = c["t"]
            if t[0] == "q":
                tv = mp.mpf(t[1]) / t[2]
            else:
                mp.prec = 64
                g = mp.zetazero(t[1]).imag
                tv = g * (1 + t[2] * mp.ldexp(1, -t[3]))
                mp.prec = p
                tv = +tv
            if c["ty"] == "float":
                tv = float(tv)
            elif c["ty"] == "int":
                tv = int(tv)
            T = mr.mpf(tv) if not hasattr(tv, "_mpf_") else mr.make_mpf(tuple(tv._mpf_))
            res.nontrivial = T > 30
            got = mp.nzeros(tv)
            if mp.prec != p:
                res.bad("prec-leak:nzeros", "nzeros(%r) left mp.prec = %d (was %d)" % (tv, mp.prec, p))
                mp.prec = p
            if T < 14:
                want = (0, None)
            else:
                want = N_oracle(mr, T)
            if want is None:
                res.inconclusive = True
                return res
            if not isinstance(got, int) or got != want[0]:
                res.bad("count:nzeros", "nzeros(%r) at prec %d = %r; the argument principle gives N(t) = %d" % (tv, p, got, want[0]))
            if T > 14:
                b = mp.backlunds(tv)
                bb = mr.make_mpf(tuple(b._mpf_))
                tol = mr.ldexp(max(1, want[0]), 10 - min(p, 53))
                if abs(bb - want[1]) > tol + mr.mpf(10) ** -12:
                    res.bad("count:backlunds", "backlunds(%r) at prec %d = %s; S(t) = %s by continuous variation of arg zeta" % (
                        tv, p, b, mr.nstr(want[1], 15)))
            return res
        # gram points
        n = c["n"]
        res.nontrivial = n > 10
        g = mp.grampoint(n)
        if mp.prec != p:
            res.bad("prec-leak:grampoint", "grampoint(%d) left mp.prec = %d" % (n, mp.prec))
            mp.prec = p
        mr.prec = p + 70
        try:
            gg = mr.make_mpf(tuple(g._mpf_))
            th = mr.siegeltheta(gg)
            # error of theta allowed for an error of 2^(10-p) relative in g: theta'(g) = log(g/2pi)/2
            tol = mr.ldexp(1, 10 - p) * max(1, abs(n) * mr.pi, gg * abs(mr.log(gg / (2 * mr.pi))) / 2)
            if not gg > 7:
                res.bad("gram:branch", "grampoint(%d) = %s is not on the increasing branch t > 7" % (n, g))
            elif abs(th - n * mr.pi) > tol:
                res.bad("gram:value", "grampoint(%d) at prec %d = %s: theta(g) - n pi = %s" % (n, p, g, mr.nstr(th - n * mr.pi, 8)))
        finally:
            mr.prec = 53
        return res
    finally:
        mp.prec = 53
        mr.prec = 53
