"""C22 -- accuracy of the hypergeometric functions and orthogonal polynomials: relative error (in modulus) below 2^(8-p)."""
from . import _special

ID = "C22"
LEVEL = "exploration"
CASE_TIMEOUT = 120.0
RULE = ("Cases = (function of the family, argument tuple, precision p). Arguments follow the per-function templates of "
        "vfw/catalogue.py (real and complex, moderate magnitude, mantissas of 1..2p bits) with structure classes: scaled up "
        "by up to 2^6, at distance 2^-k (k <= 2p) from integers and poles, half-integers, tiny arguments; precisions "
        "10..400 (quick) / up to 3000 incl. algorithm thresholds (thorough), slow functions at 20..64 bits. Oracle: MPFR "
        "4.2 directly for real arguments where MPFR has the function (gamma, lngamma, digamma, beta, zeta, erf, erfc, eint, "
        "jn, yn, ai, agm, gamma_inc); otherwise the frozen mpmath 1.3.0 evaluated at 2p+64 and again at 3p+100 bits, "
        "which must agree to p+40 bits (else inconclusive). Required: |f - ref| <= 2^(8-p)|ref| in modulus; documented "
        "exceptions at poles are not violations. Non-trivial = every compared case (the argument is never a plain "
        "small integer tuple at 53 bits from the repository's tables: mantissas and precisions are generated).")
ASSUMPTIONS = ["MPFR results are correctly rounded", "where only mpmath 1.3.0 is available as reference, an error shared by the pinned tree and 1.3.0 at every precision is invisible"]
TECHNIQUE = "property-based testing (Hypothesis) against MPFR and a frozen higher-precision reference implementation"

shards, gen_case, check_case = _special.make_module("C22", 4500, scale_max=6)
