"""C22 -- accuracy of the hypergeometric functions and orthogonal polynomials: relative error (in modulus) below 2^(8-p)."""
from . import _special

ID = "C22"
LEVEL = "exploration"
CASE_TIMEOUT = 120.0
RULE = ("Cases = (function of the family, argument tuple, precision p). Arguments follow the per-function templates of "
        "vfw/catalogue.py (real and complex, moderate magnitude, mantissas of 1..2p bits) with structure classes: scaled up "
        "by up to 2^6, at distance 2^-k (k <= 2p) from integers and poles, half-integers, tiny arguments; precisions "
        "10..400 (quick) / up to 3000 incl. algorithm thresholds (thorough), slow functions at 20..64 bits. Oracle: MPFR "
        "4.2 directly for real arguments where MPFR has the function (gamma, lngamma, digamma, beta, zeta, erf, erfc, eint, "
        "jn, yn, ai, agm, gamma_inc); otherwise the frozen mpmath 1.3.0 evaluated at 2p+64 and again at 3p+100 bits, "
        "which must agree to p+40 bits (else inconclusive). Required: |f - ref| <= 2^(8-p)|ref| in modulus; documented "
        "exceptions at poles are not violations. Non-trivial = every compared case (the argument is never a plain "
        "small integer tuple at 53 bits from the repository's tables: mantissas and precisions are generated).")
ASSUMPTIONS = ["MPFR results are correctly rounded", "where only mpmath 1.3.0 is available as reference, an error shared by the pinned tree and 1.3.0 at every precision is invisible"]
TECHNIQUE = "property-based testing (Hypothesis) against MPFR and a frozen higher-precision reference implementation"

_shards, _gen_case, check_case = _special.make_module("C22", 4500, scale_max=6)

# Orthogonal polynomials at their special points: integer degrees of both signs (P_(-n-1) = P_n) at x = 0, +-1, +-1/2,
# and within 2^-k of them -- the arguments for which these functions have dedicated branches (parity at zero, endpoint
# values, near-zero cancellation).  Cheap, so one shard of many cases.
_ORTHO = ["legendre", "legendre", "hermite", "chebyt", "chebyu"]


def shards(tier):
    return _shards(tier)[:-1] + [("ortho", 2500 if tier == "quick" else 60000)]


def gen_case(d, shard, tier):
    if shard != "ortho":
        return _gen_case(d, shard, tier)
    from ..exact import raw_json as J, mk, fzero
    name = d.choice(_ORTHO)
    n = d.int(-14, 14) if name == "legendre" else d.int(0, 14)
    p = d.choice([20, 53, 53, 64, 113, 200]) if d.bool() else d.int(10, 300)
    base = d.choice([0, 0, 0, 2, -2, 1, -1, 4, -4])          # in units of 1/2: 0, +-1, +-1/2, +-2
    k = d.weighted([(3, "at"), (3, "near")])
    if k == "at":
        x = mk(1 if base < 0 else 0, abs(base), -1) if base else fzero
    else:
        kk = d.int(4, 2 * p)
        m = (abs(base) << kk) + d.choice([1, -1, 3, -5]) if base else 1
        x = mk((1 if base < 0 else 0) if base else d.int(0, 1), abs(m), -1 - kk)
    args = [["int", n], ["mpf", J(x)]]
    return {"name": name, "p": p, "args": args, "cls": "%s:%s" % (name, "special_" + k)}
