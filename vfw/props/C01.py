"""C01 -- every real value has one canonical representation."""
import pickle

from .. import exact, gen, helpers, catalogue as cat
from ..core import R, time_limit, CaseTimeout
from ..exact import fzero, finf, fninf, fnan, raw_json as J, raw_unjson as U

ID = "C01"
LEVEL = "exploration"
RULE = ("Cases = (public operation, operands from all structural classes incl. zero/inf/nan, precision, rounding "
        "mode). Operations: libmp real kernels (add sub mul div mod sqrt pow_int mul_int rdiv_int pos neg abs floor "
        "ceil nint frac perturb shift frexp sum from_man_exp from_int from_float from_rational from_str hypot "
        "nthroot exp log sin cos atan ...), complex kernels, mpf/mpc operators and constructors, ldexp/frexp/fsum/"
        "fdot, every catalogue function (~230), interval (iv) arithmetic and functions incl. complex intervals, "
        "constants. Oracle (validity predicate): every raw tuple reachable from the result is one of the four "
        "special encodings or has sign in {0,1}, positive odd int mantissa, int exponent and bc == bit_length; "
        "consequence check: the result compares ==, hashes and pickles identically to an independently built "
        "mpf of the same exact value. Non-trivial = finite nonzero result of an operation that rounded or "
        "cancelled (an input longer than p bits, or result shorter than an input).")
ASSUMPTIONS = ["CPython ints; pickle"]
TECHNIQUE = "property-based testing (Hypothesis), representation-validity predicate plus equality/hash/pickle consequences"

LIBMP_UNARY = ["mpf_pos", "mpf_neg", "mpf_abs", "mpf_sqrt", "mpf_floor", "mpf_ceil", "mpf_nint", "mpf_frac", "mpf_exp",
               "mpf_log", "mpf_sin", "mpf_cos", "mpf_tan", "mpf_atan", "mpf_asin", "mpf_acos", "mpf_sinh", "mpf_cosh",
               "mpf_tanh", "mpf_asinh", "mpf_acosh", "mpf_atanh", "mpf_cbrt", "mpf_gamma", "mpf_rgamma", "mpf_loggamma",
               "mpf_psi0", "mpf_erf", "mpf_erfc", "mpf_ei", "mpf_e1", "mpf_zeta", "mpf_sin_pi", "mpf_cos_pi"]
LIBMP_BINARY = ["mpf_add", "mpf_sub", "mpf_mul", "mpf_div", "mpf_mod", "mpf_hypot", "mpf_atan2", "mpf_pow", "mpf_agm"]
IV_UNARY = ["sqrt", "exp", "log", "sin", "cos", "tan", "absmin", "absmax", "gamma", "rgamma", "loggamma", "factorial"]


def shards(tier):
    if tier == "quick":
        return [("libmp", 6000)] * 5 + [("mpops", 5000)] * 3 + [("fun_f", 2500)] * 2 + [("fun_m", 400)] * 3 + [("iv", 2500)] * 2 + [("const", 1500)]
    return [("libmp", 80000)] * 5 + [("mpops", 60000)] * 3 + [("fun_f", 30000)] * 2 + [("fun_m", 5000)] * 3 + [("iv", 30000)] * 2 + [("const", 20000)]


def gen_case(d, shard, tier):
    p = gen.prec(d, 1, 600)
    if shard == "libmp":
        kind = d.weighted([(6, "bin"), (5, "un"), (2, "pow_int"), (2, "mul_int"), (2, "shift"), (2, "sum"), (2, "from"), (2, "perturb"),
                           (2, "nthroot"), (3, "cplx")])
        c = {"kind": "libmp", "sub": kind, "p": p, "rnd": gen.rnd(d)}
        if kind == "bin":
            c["f"] = d.choice(LIBMP_BINARY)
            a = gen.mpf_any(d, p, 1200, huge=c["f"] in ("mpf_add", "mpf_sub", "mpf_mul", "mpf_div"))
            c["a"] = J(a)
            c["b"] = J(gen.mpf_relative(d, a, p, 1200) if a[1] and c["f"] in ("mpf_add", "mpf_sub", "mpf_mod") else
                       gen.mpf_any(d, p, 1200, huge=c["f"] in ("mpf_add", "mpf_sub", "mpf_mul", "mpf_div")))
        elif kind == "un":
            c["f"] = d.choice(LIBMP_UNARY)
            a = gen.mpf_any(d, p, 1200, huge=c["f"] in ("mpf_pos", "mpf_neg", "mpf_abs", "mpf_sqrt", "mpf_floor", "mpf_ceil", "mpf_nint"))
            if c["f"] not in ("mpf_pos", "mpf_neg", "mpf_abs", "mpf_sqrt", "mpf_floor", "mpf_ceil", "mpf_nint", "mpf_frac") and a[1] and abs(a[2] + a[3]) > 30:
                a = (a[0], a[1], -a[3] + d.int(-20, 8), a[3])
            c["a"] = J(a)
        elif kind in ("pow_int", "mul_int", "shift", "nthroot"):
            a = gen.mpf_any(d, p, 800, huge=False)
            c["a"] = J(a)
            c["n"] = d.int(-40, 200) if kind != "nthroot" else d.int(1, 40)
        elif kind == "perturb":
            c["a"] = J(gen.mpf_finite(d, p, 800, nonzero=True))
            c["n"] = d.int(0, 1)
        elif kind == "sum":
            c["terms"] = [J(gen.mpf_any(d, p, 300, huge=False)) for _ in range(d.int(0, 8))]
            c["abs"] = d.bool()
        elif kind == "from":
            c["f"] = d.choice(["from_man_exp", "from_int", "from_float", "from_rational", "from_str"])
            m, _ = gen.mantissa(d, p, 1200)
            m <<= d.int(0, 70)
            c["man"] = str(-m if d.bool() else (m if d.int(0, 15) else 0))
            c["exp"] = gen.exponent(d, m.bit_length())[0]
            c["den"] = str(gen.mantissa(d, p, 300)[0])
            c["flt"] = gen.pyfloat(d).hex()
            c["s"] = "%s%d.%de%d" % (d.choice(["", "-"]), d.int(0, 10**12), d.int(0, 10**9), d.int(-500, 500))
        else:
            c["f"] = d.choice(["mpc_add", "mpc_sub", "mpc_mul", "mpc_div", "mpc_sqrt", "mpc_exp", "mpc_log", "mpc_pow_int",
                               "mpc_abs", "mpc_reciprocal", "mpc_square", "mpc_cos", "mpc_sin", "mpc_atan", "mpc_asin"])
            def comp():
                t = gen.mpf_any(d, p, 400, huge=False)
                if t[1] and abs(t[2] + t[3]) > 40:
                    t = (t[0], t[1], -t[3] + d.int(-30, 10), t[3])
                return J(t)
            c["z"] = [comp(), comp()]
            c["w"] = [comp(), comp()]
            c["n"] = d.int(-20, 40)
        c["cls"] = "libmp:%s:%s" % (kind, c.get("f", kind))
        return c
    if shard == "mpops":
        op = d.choice(["add", "sub", "mul", "div", "pow", "neg", "abs", "ldexp", "frexp", "fsum", "fdot", "mpf_ctor", "mpc_ctor",
                       "real_imag", "fadd_exact", "fmul_rnd", "mod", "sqrt", "mpf_tuple", "floor", "nint_distance"])
        c = {"kind": "mpops", "op": op, "p": p, "rnd": gen.rnd(d), "n": d.int(-300, 300)}
        def operand():
            ty = d.choice(["mpf", "mpf", "mpc", "int", "float"])
            if ty == "mpc":
                return ["mpc", [J(gen.mpf_any(d, p, 400, huge=False)), J(gen.mpf_any(d, p, 400, huge=False))]]
            return helpers.typed_operand(d, p, (ty,), maxbits=600)
        c["a"], c["b"] = operand(), operand()
        c["terms"] = [operand() for _ in range(d.int(0, 5))]
        # deliberately non-canonical constructor inputs (even mantissa, wrong bc is not allowed by the API)
        m, _ = gen.mantissa(d, p, 300)
        c["man"] = str((m << d.int(0, 40)) * (-1) ** d.int(0, 1))
        c["exp"] = d.int(-100, 100)
        c["cls"] = "mp:" + op
        return c
    if shard.startswith("fun_"):
        name = d.choice(cat.names(shard[-1]))
        p = d.choice([10, 24, 53, 64, 100, 150]) if shard[-1] != "f" else p
        args = cat.gen_args(d, name, p, long_bits=d.choice([0, 0, 2 * p]))
        if d.int(0, 9) == 0:
            # a special value somewhere
            i = d.int(0, len(args) - 1)
            if args[i][0] == "mpf":
                args[i] = ["mpf", J(d.choice([fzero, finf, fninf, fnan]))]
        return {"kind": "fun", "name": name, "p": p, "args": args, "cls": "fun:" + name}
    if shard == "iv":
        op = d.choice(["add", "sub", "mul", "div", "pow_int", "neg", "abs", "fun", "ctor_str", "mpc_add", "mpc_mul", "mpc_fun", "mid_delta"])
        def ivl():
            a = gen.mpf_any(d, p, 300, huge=False)
            b = gen.mpf_relative(d, a, p, 300) if a[1] else gen.mpf_any(d, p, 300, huge=False)
            if a[1] and abs(a[2] + a[3]) > 60:
                a = (a[0], a[1], -a[3] + d.int(-20, 12), a[3])
            if b[1] and abs(b[2] + b[3]) > 60:
                b = (b[0], b[1], -b[3] + d.int(-20, 12), b[3])
            if d.int(0, 3) == 0:
                b = a
            return [J(a), J(b)]
        return {"kind": "iv", "op": op, "p": p, "x": ivl(), "y": ivl(), "x2": ivl(), "y2": ivl(), "n": d.int(-12, 30),
                "f": d.choice(IV_UNARY), "s": "%d.%d +- %d.%de-%d" % (d.int(0, 999), d.int(0, 10**6), d.int(0, 9), d.int(0, 999), d.int(0, 30)),
                "cls": "iv:" + op}
    if shard == "const":
        return {"kind": "const", "name": d.choice(cat.CONSTANTS), "p": gen.prec(d, 1, 700), "rnd": gen.rnd(d),
                "via": d.choice(["pos", "call", "iv", "mul"]), "cls": "const"}
    raise ValueError(shard)


def _consequences(res, mp, bucket, t, what):
    """a canonical-looking raw must behave identically to an independently constructed equal value"""
    if t[1] == 0:
        return
    twin = mp.make_mpf(exact.mk(t[0], int(t[1]), int(t[2])))
    x = mp.make_mpf(t)
    if not (x == twin) or (x != twin):
        res.bad(bucket + ":eq", "%s: result != independently built equal value" % what)
    elif hash(x) != hash(twin):
        res.bad(bucket + ":hash", "%s: hash differs from equal value" % what)
    elif pickle.dumps(x, 2) != pickle.dumps(twin, 2):
        res.bad(bucket + ":pickle", "%s: pickle differs from equal value" % what)


def _check(res, mp, bucket, r, what):
    raws = helpers.raws_of(r)
    for t in raws:
        prob = exact.canonical_problem(t)
        if prob:
            res.bad(bucket, "%s: %s" % (what, prob))
            return
    for t in raws[:4]:
        _consequences(res, mp, bucket, t, what)
    if any(t[1] for t in raws):
        res.nontrivial = True


def _mk(mp, spec):
    ty, v = spec
    if ty == "mpc":
        return mp.make_mpc((U(v[0]), U(v[1])))
    return helpers.realize(mp, spec)[0]


def check_case(c):
    import mpmath
    from mpmath import mp, iv, libmp
    res = R()
    res.cls = c["cls"]
    p = c["p"]
    DOC = cat.documented_exceptions()
    kind = c["kind"]
    what = "%s" % {k: v for k, v in c.items() if k not in ("cls",)}
    what = what[:500]
    mp.prec = p
    iv.prec = p
    try:
        try:
            with time_limit(5.0):
                if kind == "libmp":
                    sub, rnd = c["sub"], c["rnd"]
                    if sub == "bin":
                        r = getattr(libmp, c["f"])(U(c["a"]), U(c["b"]), p, rnd)
                    elif sub == "un":
                        r = getattr(libmp, c["f"])(U(c["a"]), p, rnd)
                    elif sub == "pow_int":
                        r = libmp.mpf_pow_int(U(c["a"]), c["n"], p, rnd)
                    elif sub == "mul_int":
                        r = (libmp.mpf_mul_int(U(c["a"]), c["n"], p, rnd), libmp.mpf_rdiv_int(c["n"], U(c["a"]), p, rnd) if U(c["a"]) != fzero else fzero)
                    elif sub == "shift":
                        r = (libmp.mpf_shift(U(c["a"]), c["n"]),) + (tuple(libmp.mpf_frexp(U(c["a"]))[:1]) if exact.is_finite(U(c["a"])) else ())
                    elif sub == "nthroot":
                        r = libmp.mpf_nthroot((0,) + U(c["a"])[1:] if U(c["a"])[1] else U(c["a"]), c["n"], p, rnd)
                    elif sub == "perturb":
                        r = libmp.mpf_perturb(U(c["a"]), c["n"], p, rnd)
                    elif sub == "sum":
                        r = libmp.mpf_sum([U(t) for t in c["terms"]], p, rnd, c["abs"])
                    elif sub == "from":
                        f = c["f"]
                        if f == "from_man_exp":
                            r = (libmp.from_man_exp(int(c["man"]), c["exp"], p, rnd), libmp.from_man_exp(int(c["man"]), c["exp"]))
                        elif f == "from_int":
                            r = (libmp.from_int(int(c["man"]), p, rnd), libmp.from_int(int(c["man"])))
                        elif f == "from_float":
                            r = libmp.from_float(float.fromhex(c["flt"]), p, rnd)
                        elif f == "from_rational":
                            r = libmp.from_rational(int(c["man"]), int(c["den"]), p, rnd)
                        else:
                            r = libmp.from_str(c["s"], p, rnd)
                    else:
                        f = c["f"]
                        z = (U(c["z"][0]), U(c["z"][1]))
                        w = (U(c["w"][0]), U(c["w"][1]))
                        if f in ("mpc_add", "mpc_sub", "mpc_mul", "mpc_div"):
                            r = getattr(libmp, f)(z, w, p, rnd)
                        elif f == "mpc_pow_int":
                            r = libmp.mpc_pow_int(z, c["n"], p, rnd)
                        elif f == "mpc_abs":
                            r = (libmp.mpc_abs(z, p, rnd),)
                        else:
                            r = getattr(libmp, f)(z, p, rnd)
                    r = list(r) if isinstance(r, tuple) and len(r) != 4 else r
                    if isinstance(r, tuple):
                        r = [r]
                    flat = []
                    for t in r:
                        if isinstance(t, tuple) and len(t) == 2 and isinstance(t[0], tuple):
                            flat.extend(t)
                        else:
                            flat.append(t)
                    class _W:
                        pass
                    for t in flat:
                        prob = exact.canonical_problem(t)
                        if prob:
                            res.bad("libmp:%s" % c.get("f", sub), "%s: %s" % (what, prob))
                            return res
                    for t in flat[:2]:
                        _consequences(res, mp, "libmp:%s" % c.get("f", sub), t, what)
                    res.nontrivial = any(t[1] for t in flat)
                    return res
                if kind == "mpops":
                    op = c["op"]
                    a, b = _mk(mp, c["a"]), _mk(mp, c["b"])
                    n = c["n"]
                    if op == "add":
                        r = a + b
                    elif op == "sub":
                        r = a - b
                    elif op == "mul":
                        r = a * b
                    elif op == "div":
                        r = a / b
                    elif op == "pow":
                        r = mp.mpmathify(a) ** (n % 50 - 10)
                    elif op == "neg":
                        r = -mp.mpmathify(a)
                    elif op == "abs":
                        r = abs(mp.mpmathify(a))
                    elif op == "ldexp":
                        r = mp.ldexp(mp.mpmathify(a).real, n)
                    elif op == "frexp":
                        r = mp.frexp(mp.mpmathify(a).real)[0]
                    elif op == "fsum":
                        r = [mp.fsum([_mk(mp, t) for t in c["terms"]]), mp.fsum([_mk(mp, t) for t in c["terms"]], absolute=True)]
                    elif op == "fdot":
                        ts = [_mk(mp, t) for t in c["terms"]]
                        r = mp.fdot(ts, ts[::-1])
                    elif op == "mpf_ctor":
                        r = [mp.mpf(mp.mpmathify(a).real), mp.mpf((int(c["man"]), c["exp"]))]
                    elif op == "mpc_ctor":
                        r = [mp.mpc(a), mp.mpc(mp.mpmathify(a).real, mp.mpmathify(b).real)]
                    elif op == "real_imag":
                        z = mp.mpmathify(a)
                        r = [z.real, z.imag, mp.re(z), mp.im(z), z.conjugate()]
                    elif op == "fadd_exact":
                        r = [mp.fadd(a, b, exact=True), mp.fmul(a, b, exact=True), mp.fsub(a, b, prec=mp.inf)]
                    elif op == "fmul_rnd":
                        r = [mp.fmul(a, b, rounding=c["rnd"]), mp.fadd(a, b, rounding=c["rnd"], prec=max(1, p // 2)), mp.fdiv(a, b, rounding=c["rnd"])]
                    elif op == "mod":
                        r = mp.mpmathify(a).real % mp.mpmathify(b).real
                    elif op == "sqrt":
                        r = mp.sqrt(a)
                    elif op == "mpf_tuple":
                        m = int(c["man"])
                        tz = (abs(m) & -abs(m)).bit_length() - 1 if m else 0
                        r = mp.mpf((1 if m < 0 else 0, abs(m), c["exp"], abs(m).bit_length())) if m else mp.mpf((0, 0, 0, 0))
                    elif op == "floor":
                        z = mp.mpmathify(a)
                        r = [mp.floor(z), mp.ceil(z), mp.nint(z), mp.frac(z)]
                    else:
                        z = mp.mpmathify(a)
                        nd = mp.nint_distance(z)
                        r = [mp.mpf(mp.mag(z)) if mp.isfinite(z) and z != 0 else mp.zero]
                    _check(res, mp, "mp:" + op, r, what)
                    return res
                if kind == "fun":
                    r = getattr(mp, c["name"])(*cat.build_args(mp, c["args"]))
                    _check(res, mp, "fun:" + c["name"], r, what)
                    return res
                if kind == "iv":
                    op = c["op"]
                    def I(v):
                        a, b = U(v[0]), U(v[1])
                        if a == fnan or b == fnan:
                            a = b = fzero
                        if exact.is_finite(a) and exact.is_finite(b) and exact.cmp_exact(a, b) > 0 or (a == finf) or (b == fninf):
                            a, b = b, a
                        return iv.mpf((mp.make_mpf(a), mp.make_mpf(b)))
                    x, y = I(c["x"]), I(c["y"])
                    if op == "add":
                        r = x + y
                    elif op == "sub":
                        r = x - y
                    elif op == "mul":
                        r = x * y
                    elif op == "div":
                        r = x / y
                    elif op == "pow_int":
                        r = x ** c["n"]
                    elif op == "neg":
                        r = [-x, +x]
                    elif op == "abs":
                        r = abs(x)
                    elif op == "fun":
                        r = getattr(iv, c["f"])(x)
                    elif op == "ctor_str":
                        r = iv.mpf(c["s"])
                    elif op == "mid_delta":
                        r = [x.mid, x.delta, x.a, x.b]
                    else:
                        z = iv.mpc(x, y)
                        w = iv.mpc(I(c["x2"]), I(c["y2"]))
                        if op == "mpc_add":
                            r = [z + w, z - w]
                        elif op == "mpc_mul":
                            r = [z * w, abs(z)]
                        else:
                            r = getattr(iv, d_fun(c["f"]))(z)
                    _check(res, mp, "iv:%s" % op, r, what)
                    return res
                if kind == "const":
                    k = getattr(mp, c["name"])
                    via = c["via"]
                    if via == "pos":
                        r = +k
                    elif via == "call":
                        r = k(prec=p, rounding=c["rnd"])
                    elif via == "iv":
                        r = +getattr(iv, c["name"]) if hasattr(iv, c["name"]) else +k
                    else:
                        r = k * 3
                    _check(res, mp, "const:" + c["name"], r, what)
                    return res
        except DOC:
            res.rejected = True
            return res
        except RecursionError:
            res.rejected = True     # termination is C24's / C14's business, not a representation issue
            return res
        except CaseTimeout:
            res.inconclusive = True
            return res
    finally:
        mp.prec = 53
        iv.prec = 53
    raise ValueError(kind)


def d_fun(f):
    return f if f in ("exp", "log", "cos", "sin", "sqrt", "gamma", "rgamma", "loggamma", "factorial") else "exp"
