"""C08 -- printed numbers round-trip and are nearest decimal approximations."""
import re
from decimal import Decimal
from fractions import Fraction

from .. import exact, gen, helpers
from ..core import R
from ..exact import fzero, finf, fninf, fnan, raw_json as J, raw_unjson as U

ID = "C08"
LEVEL = "exploration"
CASE_TIMEOUT = 60.0
HANG_IS_VIOLATION = True
RULE = ("repr cases: mpf/mpc values with at most p bits (p = 1..2000 incl. non-dps precisions) from the structural "
        "generators with binary exponents up to +-20000 (decimal exponents beyond +-3500 take the approximate power of "
        "ten path) and astronomically large ones; oracle: mpf(repr(x)[5:-2]) and eval(repr(x)) at the same precision are "
        "raw-identical to x. nstr/str cases: values with up to 10x more bits than the printing precision, values "
        "constructed within 2^-k (k = 5..400) of an n-digit decimal tie (from the tie's exact rational value) and "
        "exact ties, n = 1..dps+40, options min_fixed/max_fixed/strip_zeros/show_zero_exponent; oracle: float(s) and "
        "Decimal(s) parse, the value has at most n significant digits and equals a nearest n-digit decimal of x "
        "computed with exact Fraction arithmetic (either neighbour on an exact tie); +inf/-inf/nan print as such. "
        "Non-trivial = x needs more than n digits and (bc > printing precision or x within 2^-20 of a tie).")
ASSUMPTIONS = ["CPython Fraction/Decimal parsing"]
TECHNIQUE = "property-based testing (Hypothesis): round-trip oracle and exact nearest-decimal oracle"


def shards(tier):
    n = 2500 if tier == "quick" else 40000
    return [("repr", n)] * 5 + [("nstr", n)] * 5 + [("tie", n)] * 5 + [("mpc", n)] * 1


def _val(d, p, maxbits, big_exp=True):
    m, _ = gen.mantissa(d, p, maxbits)
    if m.bit_length() > maxbits:
        m >>= m.bit_length() - maxbits
        m |= 1
    ek = d.weighted([(6, "small"), (3, "med"), (2 if big_exp else 0, "big")])
    if ek == "small":
        e = d.int(-80, 80) - m.bit_length()
    elif ek == "med":
        e = d.int(-1100, 1100) - m.bit_length()
    else:
        e = d.choice([-1, 1]) * d.int(11000, 20000)
    return exact.mk(d.int(0, 1), m, e)


def _opts(d):
    o = {}
    if d.int(0, 2) == 0:
        o["strip_zeros"] = d.bool()
    if d.int(0, 3) == 0:
        o["show_zero_exponent"] = d.bool()
    if d.int(0, 3) == 0:
        o["min_fixed"] = d.choice([-5, -20, 0, 3, "-inf"])
    if d.int(0, 3) == 0:
        o["max_fixed"] = d.choice([0, 5, 30, 3, "inf"])
    return o


def gen_case(d, shard, tier):
    p = gen.prec(d, 1, 2000)
    if shard == "repr":
        x = _val(d, p, p)
        if d.int(0, 25) == 0:
            x = d.choice([fzero, finf, fninf, fnan])
        if d.int(0, 12) == 0 and x[1]:
            x = (x[0], x[1], d.choice([-1, 1]) * (1 << d.int(30, 50)) + d.int(-9, 9), x[3])
        return {"kind": "repr", "x": J(x), "p": p, "cls": "repr"}
    if shard == "mpc":
        return {"kind": "mpc", "x": J(_val(d, p, p, False)), "y": J(_val(d, p, p, False)), "p": p, "n": d.int(1, 60), "cls": "mpc"}
    if shard == "nstr":
        how = d.choice(["nstr", "nstr", "str", "to_str"])
        dps = max(1, int(round(p / 3.3219280948873626) - 1))
        n = d.int(1, min(dps + 40, 700)) if how != "str" else dps
        bits = d.choice([p, p, 2 * p, 10 * p, int(n * 3.33) + 15, int(n * 3.33) + 40])
        x = _val(d, p, max(1, min(bits, 8000)))
        if d.int(0, 30) == 0:
            x = d.choice([fzero, finf, fninf, fnan])
        return {"kind": "nstr", "how": how, "x": J(x), "p": p, "n": n, "opts": _opts(d), "cls": "nstr:%s" % how}
    # tie: value near an n-digit decimal tie
    n = d.int(1, 60) if d.int(0, 4) else d.int(61, 400)
    q = d.int(10 ** (n - 1), 10 ** n - 1) if n < 30 else int("%d%s" % (d.int(1, 9), "".join(str(d.int(0, 9)) for _ in range(n - 1))))
    e10 = d.int(-40, 40) if d.int(0, 5) else d.choice([-1, 1]) * d.int(3400, 4500)
    tie = Fraction(2 * q + 1, 2) * Fraction(10) ** e10
    # binary approximation of the tie with k good bits, then perturbed
    k = d.choice([5, 20, 64, 100, 200, 400]) + int(n * 3.33)
    num, den = tie.numerator, tie.denominator
    sh = k - (num.bit_length() - den.bit_length())
    m = (num << sh) // den if sh >= 0 else num // (den << -sh)
    side = d.choice([-1, 0, 1, 2])
    m += side
    x = exact.mk(d.int(0, 1), max(1, m), -sh)
    return {"kind": "nstr", "how": d.choice(["nstr", "to_str"]), "x": J(x), "p": p, "n": n, "opts": _opts(d) if abs(e10) < 100 else {},
            "cls": "tie:%d" % side}


def nearest_decimals(v, n):
    """set of acceptable n-digit decimal values (Fractions) nearest to the positive Fraction v"""
    # k with 10^k <= v < 10^(k+1)
    num, den = v.numerator, v.denominator
    k = int((num.bit_length() - den.bit_length()) * 0.30102999566398) - 1
    while Fraction(10) ** (k + 1) <= v:
        k += 1
    while Fraction(10) ** k > v:
        k -= 1
    unit = Fraction(10) ** (k - n + 1)
    s = v / unit
    q = s.numerator // s.denominator
    fr = s - q
    if fr * 2 < 1:
        c = [q]
    elif fr * 2 > 1:
        c = [q + 1]
    else:
        c = [q, q + 1]
    return [x * unit for x in c], (fr * 2 == 1), abs(fr * 2 - 1)


def sig_digits(s):
    """number of significant digits of the mantissa part of a literal string"""
    t = s.lower().lstrip("+-")
    t = t.split("e")[0]
    t = t.replace(".", "").lstrip("0")
    return len(t.rstrip("0")) if t else 0


def check_printed(res, bucket, s, x, n, what):
    """s printed from finite nonzero raw x with n digits"""
    try:
        fl = float(s)
        dec = Decimal(s)
    except Exception as e:
        res.bad(bucket + ":parse", "%s = %r not parseable: %s" % (what, s[:200], e))
        return
    d = Fraction(dec)
    v = exact.to_fraction(x)
    if (d < 0) != (v < 0) and d != 0:
        res.bad(bucket + ":sign", "%s = %r has the wrong sign" % (what, s[:200]))
        return
    if sig_digits(s) > n:
        res.bad(bucket + ":digits", "%s = %r has more than %d significant digits" % (what, s[:200], n))
        return
    cands, tie, gap = nearest_decimals(abs(v), n)
    if abs(d) not in cands:
        b = bucket + (":tie" if tie else ":nearest")
        if abs(x[2] + x[3]) > 3500:
            b += ":bigexp"          # approximate power-of-ten path of to_digits_exp
        res.bad(b, "%s = %r is not a nearest %d-digit decimal; acceptable: %s (distance of x from the tie in units of the last digit: %.3g)" % (
            what, s[:200], n, [str(c.numerator) + "/" + str(c.denominator) if c.denominator != 1 else str(c.numerator) for c in cands][:2] if n < 40 else "...", float(gap) / 2))
    return gap


def _parse_opts(mp, o):
    out = dict(o)
    for k in ("min_fixed", "max_fixed"):
        if out.get(k) == "-inf":
            out[k] = -mp.inf
        elif out.get(k) == "inf":
            out[k] = mp.inf
    return out


def check_case(c):
    import mpmath
    from mpmath import mp, libmp
    res = R()
    res.cls = c["cls"]
    p = c["p"]
    mp.prec = p
    try:
        if c["kind"] == "repr":
            x = U(c["x"])
            X = mp.make_mpf(x)
            r = repr(X)
            res.nontrivial = x[3] > 20
            if not (r.startswith("mpf('") and r.endswith("')")):
                return res.bad("repr:format", "repr = %r" % r[:100])
            back = mp.mpf(r[5:-2])
            ev = eval(r, {"mpf": mp.mpf, "mpc": mp.mpc})
            for name, b in (("parse", back), ("eval", ev)):
                if tuple(b._mpf_) != tuple(x):
                    res.bad("repr:%s" % name, "prec %d: x = %s, repr = %s, %s gives %s" % (p, exact.raw_str(x), r[:120], name, exact.raw_str(b._mpf_)))
            return res
        if c["kind"] == "mpc":
            x, y = U(c["x"]), U(c["y"])
            Z = mp.make_mpc((x, y))
            r = repr(Z)
            ev = eval(r, {"mpf": mp.mpf, "mpc": mp.mpc})
            res.nontrivial = True
            if not hasattr(ev, "_mpc_") or tuple(ev._mpc_[0]) != tuple(x) or tuple(ev._mpc_[1]) != tuple(y):
                res.bad("repr:mpc", "prec %d: eval(repr(z)) != z for z = (%s, %s): %s" % (p, exact.raw_str(x), exact.raw_str(y), r[:160]))
            n = c["n"]
            s = mp.nstr(Z, n)
            m = re.match(r"^\((\S+) ([+-]) (\S+)j\)$", s)
            if not m:
                return res.bad("nstr:mpc:format", "nstr(z, %d) = %r" % (n, s[:200]))
            check_printed(res, "nstr:mpc", m.group(1), x, n, "real part of nstr(z,%d)" % n)
            im = ("-" if m.group(2) == "-" else "") + m.group(3)
            check_printed(res, "nstr:mpc", im, y, n, "imaginary part of nstr(z,%d)" % n)
            return res
        x, n, how = U(c["x"]), c["n"], c["how"]
        X = mp.make_mpf(x)
        opts = _parse_opts(mp, c.get("opts", {}))
        if how == "nstr":
            s = mp.nstr(X, n, **opts)
        elif how == "str":
            s = str(X)
            n = mp._str_digits
        else:
            s = libmp.to_str(x, n, **opts)
        what = "%s(%s, %d, %r) at prec %d" % (how, exact.raw_str(x), n, c.get("opts", {}), p)
        if x[1] == 0:
            res.nontrivial = True
            want = {fzero: None, finf: "+inf", fninf: "-inf", fnan: "nan"}[tuple(x)]
            if want is None:
                try:
                    if float(s) != 0 or Decimal(s) != 0:
                        res.bad("nstr:zero", "%s = %r" % (what, s))
                except Exception as e:
                    res.bad("nstr:zero", "%s = %r not parseable" % (what, s))
            elif s != want:
                res.bad("nstr:special", "%s = %r, expected %r" % (what, s, want))
            return res
        gap = check_printed(res, "nstr:%s" % how, s, x, n, what)
        res.nontrivial = x[3] > n * 3.33 and (x[3] > int(n * 3.3219) + 10 or (gap is not None and gap < Fraction(1, 1 << 20)))
        return res
    finally:
        mp.prec = 53
