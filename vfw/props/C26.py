"""C26 -- numerical integration (quad / quadts / quadgl, 1 to 3 dimensions) is accurate for well-behaved integrands."""
import os
from fractions import Fraction

from .. import exact
from ..core import R

ID = "C26"
LEVEL = "exploration"
CASE_TIMEOUT = 60.0
RULE = ("Cases = (integrand with a closed-form integral, HISTORY of 2..7 quad calls). Integrands (built from the repo's "
        "mp functions, all parameters exact dyadic numbers): sums of 1..3 terms c * poly(x) * exp(a x) * {1, sin, cos}(b x + "
        "phi) (pure polynomials, c exp(a x), sin/cos, poly*exp, exp*sin ... as special cases), c/((x-m)^2+w^2) with the "
        "poles at distance >= L/4 from the path, Gaussians c x^k exp(-alpha (x-m)^2); in 2 and 3 dimensions sums of products "
        "of such factors (separable and non-separable sums) and ridge functions g(a.x + phi), g in {exp, sin, cos, u^k} "
        "(non-separable). Oscillation/variation is moderate: (|a|+|b|) * L <= 20 on finite paths, |b| <= 2|a| on infinite "
        "ones, sqrt(alpha) * L <= 8; finite endpoints and split points of infinite paths lie within 8 decay lengths of the "
        "peaks; Gauss-Legendre on infinite paths only with decay rates >= 1 and <= 128 bits (documented weakness of the "
        "rule there); multidimensional integrands have magnitude O(1) on boxes inside [-2, 2]^n (cost: quad's stopping "
        "rule is an absolute eps/8 at every nesting level). Paths: finite real intervals (small dyadic, thirds/sevenths/tenths rounded to 24..200 "
        "bits, wide up to 5000, narrow down to 2^-30, far from the origin), reversed (b < a), with interior split points "
        "(also outside [a, b]), polygonal complex paths including closed contours for the entire integrands, [u, inf], "
        "[-inf, u], [-inf, inf] and their reversals for exponentially decaying integrands, boxes in 2-3 dimensions (also "
        "with a half-infinite side). Endpoints are handed over as int / float / mpf / mpc / complex. Each call of the history "
        "picks a precision (30..500 bits, weighted low; raised and lowered again inside one history), a path (the same one "
        "again, its reversal, a split version, a new one) and an API (quad default, quad(method='tanh-sinh'|'gauss-"
        "legendre'), quadts, quadgl, method=<rule class>), with or without error=True; the node caches of the two rule "
        "singletons are cleared at the start of a case only, so later calls of a history run on caches filled by earlier "
        "ones. Oracle: the closed form (exact Fraction arithmetic for polynomials; otherwise antiderivatives via exp / atan "
        "/ erf / incomplete gamma evaluated with the frozen reference mpmath 1.3.0 at 2p+80 and 3p+100 bits, which must "
        "agree). Tolerance |got - I| <= 2^(10-p) * max(1, |I|, S) where S estimates the integral of the sum of |term| "
        "over the path (length * max over sample points; Riemann sum over 80 decay lengths on infinite paths). A result "
        "outside the tolerance is a violation when quad's own error estimate is below the tolerance (value:*; estimator:* "
        "when the same call at p+64 bits is accurate, i.e. only the stopping rule failed) or when the "
        "integrand is in the easy core of the domain ((|a|+|b|) L <= 12, no rational/Gaussian factor; noconv:*); with a "
        "large reported error on the harder rim it is inconclusive. Metamorphic: reversed path negates, split path "
        "agrees (2x tolerance, same precision and API); a call repeated later in the history must still be within "
        "tolerance (history:*). In 2-3 dimensions quad reports only the outermost error estimate: a wrong result whose "
        "one-dimensional sections admit a large error goes to nd:inner-error-dropped:*. Non-trivial = non-polynomial integrand, or dimension >= 2, or a history in which the "
        "precision changes.")
ASSUMPTIONS = ["mpmath 1.3.0 (frozen copy `mpref`) evaluates exp, sin, cos, atan, erf, gamma and the lower incomplete gamma "
               "function correctly at 2p+80 / 3p+100 bits (two evaluations must agree to p+30 bits of the scale)",
               "the closed-form antiderivatives (integration by parts for x^k e^(lambda x) with complex lambda, atan, erf, "
               "incomplete gamma, alternating corner sums for ridge functions) are transcribed correctly",
               "CPython Fraction arithmetic"]
_DEBUG = bool(os.environ.get("C26_DEBUG"))      # print the inconclusive calls (development aid)
TECHNIQUE = ("property-based testing (Hypothesis): grammar of integrands with closed-form integrals, generated call "
             "histories over the cached quadrature rules, closed-form oracle, metamorphic relations")

# ------------------------------------------------------------------------------------------------ numbers
# a number is [m, e] = m * 2^e exactly (m signed Python int)


def _N(m, e=0):
    if m == 0:
        return [0, 0]
    tz = (m & -m).bit_length() - 1
    return [m >> tz, e + tz]


def _fr(n):
    m, e = n
    return Fraction(m) * (Fraction(2) ** e)


def _of_fr(fr):
    """exact [m, e] of a dyadic Fraction"""
    den = fr.denominator
    assert den & (den - 1) == 0
    return _N(fr.numerator, -(den.bit_length() - 1))


def _raw(n):
    m, e = n
    return exact.mk(1 if m < 0 else 0, abs(m), e)


def _round(fr, bits):
    """nearest dyadic with at most `bits` significant bits"""
    if fr == 0:
        return [0, 0]
    t = exact.round_fraction(Fraction(fr), bits, "n")
    return _N(-t[1] if t[0] else t[1], t[2])


def _floor_dy(fr, bits=5):
    """largest positive dyadic with <= bits significant bits that is <= fr (fr > 0)"""
    t = exact.round_fraction(Fraction(fr), bits, "d")
    return _N(t[1], t[2])


def _ceil_dy(fr, bits=5):
    t = exact.round_fraction(Fraction(fr), bits, "u")
    return _N(t[1], t[2])


def _neg(n):
    return [-n[0], n[1]]


# ------------------------------------------------------------------------------------------------ generation

def shards(tier):
    k = 1 if tier == "quick" else 30
    return ([("fin", 150 * k)] * 5 + [("inf", 65 * k)] * 4 + [("cpath", 110 * k)] * 2 + [("nd", 45 * k)] * 5)


def _dy(d, maxnum, maxshift, nonzero=False):
    s = d.int(0, maxshift)
    if nonzero:
        m = d.int(1, maxnum) * d.choice([1, -1])
    else:
        m = d.int(-maxnum, maxnum)
    return _N(m, -s)


def _interval(d, allow=("unit", "rational", "wide", "narrow", "offset")):
    """finite real interval: (u, v, class) with u != v, possibly u > v"""
    w = {"unit": 6, "rational": 5, "wide": 2, "narrow": 2, "offset": 2}
    k = d.weighted([(w[a], a) for a in allow])
    if k == "unit":
        u = Fraction(d.int(-64, 64), 8)
        wd = Fraction(d.int(1, 64), 8)
        un, vn = _of_fr(u), _of_fr(u + wd)
    elif k == "rational":
        u = Fraction(d.int(-30, 30), d.choice([3, 5, 6, 7, 9, 10]))
        wd = Fraction(d.int(1, 40), d.choice([3, 7, 10]))
        bits = d.choice([24, 53, 53, 64, 113, 200])
        un, vn = _round(u, bits), _round(u + wd, bits)
    elif k == "wide":
        u = Fraction(d.int(-2000, 2000))
        wd = Fraction(d.int(50, 5000))
        un, vn = _of_fr(u), _of_fr(u + wd)
    elif k == "narrow":
        u = Fraction(d.int(-40, 40), 8)
        wd = Fraction(d.int(1, 15), 1 << d.int(6, 30))
        un, vn = _of_fr(u), _of_fr(u + wd)
    else:
        u = d.choice([1, -1]) * (Fraction(d.int(100, 100000)) + Fraction(d.int(0, 7), 8))
        wd = Fraction(d.int(1, 32), 4)
        un, vn = _of_fr(u), _of_fr(u + wd)
    if d.int(0, 3) == 0:
        un, vn = vn, un
    return un, vn, k


def _poly(d, maxdeg):
    deg = d.weighted([(3, 0), (3, 1), (3, 2), (2, 3), (2, 4), (1, 5), (1, 6), (1, 8)])
    deg = min(deg, maxdeg)
    cs = [_dy(d, 16, 3) for _ in range(deg)]
    cs.append(_dy(d, 16, 2, nonzero=True))
    return cs


def _pet(d, L, X, maxdeg=8, kinds=None, decay=0, theta_max=160, slow=True, xcap=Fraction(64, 20)):
    """c * poly(x) * exp(a x) * trig(b x + ph).  L = hull width of the path, X = max |point| (Fractions).
    decay = -1 / +1: a must be negative / positive (infinite paths), its size is free."""
    kind = d.weighted(kinds or [(4, "poly"), (3, "exp"), (3, "trig"), (3, "polyexp"), (3, "exptrig"), (1, "all")])
    if decay and kind in ("poly", "trig"):
        kind = "polyexp" if kind == "poly" else "exptrig"
    at = {"t": "pet", "trig": "1", "a": [0, 0], "b": [0, 0], "ph": [0, 0]}
    if kind in ("poly", "polyexp", "all"):
        at["poly"] = _poly(d, maxdeg)
    else:
        at["poly"] = [[1, 0]]
    if decay:
        a = _N(d.int(1, 64), -d.int(0, 4)) if slow else _N(d.int(4, 64), -d.int(0, 2))
        at["a"] = a if decay > 0 else _neg(a)
        if kind in ("exptrig", "all"):
            at["trig"] = d.choice(["sin", "cos"])
            ratio = Fraction(d.int(1, 16), 8)                    # |b| <= 2 |a|
            b = _floor_dy(_fr(a) * ratio)
            at["b"] = b if d.bool() else _neg(b)
            at["ph"] = _dy(d, 32, 3)
        return at, kind
    lim = Fraction(theta_max, 8)
    unit = min(1 / L, xcap / X) if X else 1 / L     # |a| X <= 64 keeps exp(a x) well conditioned
    ta = tb = 0
    if kind in ("exp", "polyexp", "exptrig", "all"):
        ta = d.int(1, theta_max - (8 if kind in ("exptrig", "all") else 0))
        a = _floor_dy(Fraction(ta, 8) * unit)
        at["a"] = a if d.bool() else _neg(a)
    if kind in ("trig", "exptrig", "all"):
        tb = d.int(1, theta_max - ta)
        b = _floor_dy(Fraction(tb, 8) * unit)
        at["b"] = b if d.bool() else _neg(b)
        at["trig"] = d.choice(["sin", "cos"])
        at["ph"] = _dy(d, 32, 3)
    return at, kind


def _rat(d, u, v):
    L = abs(v - u)
    lo = min(u, v)
    m = _round(lo + L * Fraction(d.int(-4, 12), 8), 12)
    w = _ceil_dy(L * d.choice([Fraction(1, 4), Fraction(1, 2), 1, 2, 4, 16]))
    return {"t": "rat", "m": m, "w": w}


def _gauss(d, u, v):
    L = abs(v - u)
    al = _floor_dy(Fraction(d.int(1, 512), 8) / (L * L))
    if d.bool():
        lo = min(u, v)
        return {"t": "gauss", "k": 0, "al": al, "m": _round(lo + L * Fraction(d.int(-2, 10), 8), 12)}
    return {"t": "gauss", "k": d.int(0, 4), "al": al, "m": [0, 0]}


def _gauss_inf(d, slow=True):
    al = _N(d.int(1, 32), -d.int(0, 4)) if slow else _N(d.int(4, 64), -d.int(0, 3))
    if d.bool():
        # |m| sqrt(al) <= 4
        lim = Fraction(4) / (Fraction(_isqrt_ceil(_fr(al))))
        return {"t": "gauss", "k": 0, "al": al, "m": _round(lim * Fraction(d.int(-8, 8), 8), 10)}
    return {"t": "gauss", "k": d.int(0, 4), "al": al, "m": [0, 0]}


def _isqrt_ceil(fr):
    """a rational upper bound of sqrt(fr), fr > 0"""
    from math import isqrt
    n, dd = fr.numerator, fr.denominator
    s = isqrt((n << 40) // dd) + 1
    return Fraction(s, 1 << 20)


def _coef(d):
    k = d.weighted([(5, "one"), (4, "small"), (2, "big"), (1, "tiny")])
    if k == "one":
        return [d.choice([1, 1, -1]), 0]
    if k == "small":
        return _dy(d, 24, 3, nonzero=True)
    if k == "big":
        return _N(d.int(1, 1023) * d.choice([1, -1]), d.int(0, 6))
    return _N(d.choice([1, -1, 3, -5]), -d.int(4, 20))


def _precs(d, cap):
    """first precision of a history"""
    k = d.weighted([(6, "low"), (5, "med"), (3 if cap > 128 else 0, "high"), (1 if cap > 256 else 0, "top")])
    if k == "low":
        p = d.int(30, 64)
    elif k == "med":
        p = d.int(65, 128)
    elif k == "high":
        p = d.int(129, 256)
    else:
        p = d.int(257, 500)
    return min(p, cap)


def _next_prec(d, precs, cap):
    k = d.weighted([(5, "reuse"), (3, "jump"), (1, "near")])
    if k == "reuse":
        return d.choice(precs)
    base = d.choice(precs)
    if k == "near":
        p = base + d.int(-3, 3)
    else:
        p = base + d.choice([1, -1]) * d.int(40, 160)
        if p < 30 or p > cap:
            p = base - (p - base)
    return max(30, min(cap, p))


APIS_TS = ["quad", "quad:ts", "quadts"]
APIS_GL = ["quad:gl", "quadgl"]


def _rule_of(api):
    return "gl" if api in ("quad:gl", "quadgl", "cls:gl") else "ts"


def _history(d, paths, cap, nmax, new_path, rule=None, allow_cls=True, strict=False):
    """paths: list of path records {"pts": [...per dimension...], "of": None | [kind, index]}; extended in place.
    returns the list of steps"""
    main_rule = rule or d.choice(["ts", "gl"])
    precs = [_precs(d, cap)]
    steps = []
    n = d.int(2, nmax)
    script = []
    if cap >= 100 and nmax >= 4 and d.int(0, 3) == 0:
        # cache pattern: the transformed nodes of an interval are stored at its second use and served from the third
        # use on: same path three or four times, low precision twice, then a much higher one, then the low one again
        lo = min(precs[0], cap - 40)
        hi = min(cap, lo + d.int(40, 160))
        precs = [lo, hi]
        script = [lo, lo, hi, lo] if d.bool() else [lo, hi, hi, lo, hi]
        script = script[:max(3, nmax)]
        n = max(n, len(script))
        api0 = d.choice(APIS_TS if main_rule == "ts" else APIS_GL)
    for i in range(n):
        if i < len(script):
            steps.append({"p": script[i], "path": 0, "api": api0, "err": d.int(0, 4) != 0, "py": False})
            continue
        if i == 0:
            pi, p = 0, precs[0]
        else:
            k = d.weighted([(6, "same"), (2, "new" if new_path else "same"), (2, "rev"), (2, "split"), (1, "first")])
            if k == "same":
                pi = d.int(0, len(paths) - 1)
            elif k == "first":
                pi = 0
            elif k == "new":
                paths.append({"pts": new_path(d), "of": None})
                pi = len(paths) - 1
            else:
                j = d.int(0, len(paths) - 1)
                q = _derive(d, paths[j]["pts"], k, paths[0].get("hint"))
                if q is None:
                    pi = j
                else:
                    paths.append({"pts": q, "of": [k, j]})
                    pi = len(paths) - 1
            p = _next_prec(d, precs, cap)
            if p not in precs:
                precs.append(p)
        r = main_rule if (strict or d.int(0, 3)) else d.choice(["ts", "gl"])
        api = d.choice(APIS_TS if r == "ts" else APIS_GL)
        if allow_cls and p <= 100 and d.int(0, 11) == 0:
            api = "cls:" + r
        steps.append({"p": p, "path": pi, "api": api, "err": d.int(0, 4) != 0, "py": d.int(0, 2) == 0})
    return steps


def _derive(d, pts, kind, hint=None):
    """reversed or split version of a path (list of point lists, one per dimension)"""
    out = [list(q) for q in pts]
    if kind == "rev":
        i = d.int(0, len(out) - 1)
        out[i] = list(reversed(out[i]))
        return out
    i = d.int(0, len(out) - 1)
    q = out[i]
    fin = [x for x in q if x[0] != "inf"]
    if any(x[0] == "c" for x in q):
        # complex path: insert the midpoint of one segment (or any nearby point: the integrand is entire)
        j = d.int(0, len(q) - 2)
        a, b = q[j], q[j + 1]
        ar, ai = _fr(a[1]), (_fr(a[2]) if a[0] == "c" else Fraction(0))
        br, bi = _fr(b[1]), (_fr(b[2]) if b[0] == "c" else Fraction(0))
        t = Fraction(d.int(1, 7), 8)
        off = Fraction(d.int(-2, 2), 4) if d.bool() else Fraction(0)
        mid = ["c", _round(ar + (br - ar) * t - off * (bi - ai), 20), _round(ai + (bi - ai) * t + off * (br - ar), 20)]
        out[i] = q[:j + 1] + [mid] + q[j + 1:]
        return out
    if len(q) >= 5:
        return None
    j = d.int(0, len(q) - 2)
    a, b = q[j], q[j + 1]
    ell = _fr(hint) if hint else Fraction(1)
    if a[0] == "inf" and b[0] == "inf":
        # split point within 4 widths of the origin (the peaks are within 4 widths of it as well)
        c = _round(ell * Fraction(d.int(-32, 32), 8), 12)
    elif a[0] == "inf" or b[0] == "inf":
        f0 = _fr(a[1]) if b[0] == "inf" else _fr(b[1])
        sg = b[1] if b[0] == "inf" else a[1]
        c = _round(f0 + sg * ell * Fraction(d.int(1, 64), 8), 20)
        if c == (a[1] if b[0] == "inf" else b[1]):
            return None
    else:
        fa, fb = _fr(a[1]), _fr(b[1])
        t = Fraction(d.int(1, 15), 16)
        if d.int(0, 5) == 0:
            t = Fraction(d.int(-4, 24), 16)              # also outside [a, b]: the path overshoots and comes back
        c = _round(fa + (fb - fa) * t, d.choice([12, 30, 53]))
        if c == a[1] or c == b[1]:
            return None
    out[i] = q[:j + 1] + [["r", c]] + q[j + 1:]
    return out


def _hull(pts1):
    """(L, X) of a finite one-dimensional real path"""
    vals = [_fr(x[1]) for x in pts1 if x[0] == "r"]
    return max(vals) - min(vals), max(abs(v) for v in vals)


def gen_case(d, shard, tier):
    if shard == "fin":
        return _gen_fin(d)
    if shard == "inf":
        return _gen_inf(d)
    if shard == "cpath":
        return _gen_cpath(d)
    return _gen_nd(d)


def _mag_bound(terms, X, L):
    """rough float bound of the integral of |f| (generator side, cost control only)"""
    import math
    X = float(X)
    tot = 0.0
    for t in terms:
        at = t["fac"][0]
        c = abs(float(_fr(t["c"])))
        if at["t"] == "pet":
            v = sum(abs(float(_fr(ck))) * X ** k for k, ck in enumerate(at["poly"]))
            v *= math.exp(min(600.0, abs(float(_fr(at["a"]))) * X + abs(float(_fr(at["b"]))) * 0))
        elif at["t"] == "rat":
            v = 1.0 / float(_fr(at["w"])) ** 2
        else:
            v = max(1.0, X) ** at["k"]
        tot += c * v
    return tot * float(L)


def _gen_fin(d):
    u, v, icls = _interval(d)
    fu, fv = _fr(u), _fr(v)
    L, X = abs(fv - fu), max(abs(fu), abs(fv))
    terms = []
    kinds = []
    fam = d.weighted([(10, "pet"), (2, "rat"), (2, "gauss")])
    if icls in ("wide", "offset") and fam != "pet":
        fam = "pet"
    for _ in range(d.weighted([(5, 1), (3, 2), (1, 3)])):
        if fam == "pet" or (terms and d.bool()):
            at, k = _pet(d, L, X, maxdeg=8 if icls not in ("wide", "offset") else 5)
        elif fam == "rat":
            at, k = _rat(d, fu, fv), "rat"
        else:
            at, k = _gauss(d, fu, fv), "gauss"
        terms.append({"c": _coef(d), "fac": [at]})
        kinds.append(k)
    paths = [{"pts": [[["r", u], ["r", v]]], "of": None}]
    cap = d.weighted([(10, 128), (4, 256), (1, 500)])
    if _mag_bound(terms, X, L) > 4096:
        # quad's stopping criterion is absolute (eps/8): integrals of large magnitude always run to the maximal
        # degree, which costs seconds above 128 bits (cost control, the values are still checked below that)
        cap = 128

    def new_path(dd):
        # a different interval inside the hull of the first one (so that the integrand stays in its domain)
        t0, t1 = dd.int(0, 15), dd.int(1, 16)
        if t0 == t1:
            t1 = t0 + 1 if t0 < 16 else t0 - 1
        lo = min(fu, fv)
        return [[["r", _round(lo + L * Fraction(t0, 16), 40)], ["r", _round(lo + L * Fraction(t1, 16), 40)]]]

    steps = _history(d, paths, cap, 7 if cap <= 128 else (5 if cap <= 256 else 4), new_path)
    return {"dim": 1, "terms": terms, "paths": paths, "steps": steps,
            "cls": "1d:%s:%s" % (icls, "+".join(sorted(set(kinds))))}


def _gen_inf(d):
    shape = d.weighted([(5, "half+"), (3, "half-"), (4, "full")])
    # Gauss-Legendre converges slowly after the map of an infinite interval to [-1, 1] when the decay is slow
    # (documented: "handles infinite integration intervals worse"): rates >= 1 (alpha >= 1/2) and <= 128 bits there
    rule = d.weighted([(3, "ts"), (2, "gl")])
    slow = rule == "ts"
    terms, kinds = [], []
    if shape == "full":
        pts = [["inf", -1], ["inf", 1]]
        wmin = None
        for _ in range(d.weighted([(5, 1), (2, 2)])):
            terms.append({"c": _coef(d), "fac": [_gauss_inf(d, slow)]})
            kinds.append("gauss")
            w = 1 / _isqrt_ceil(_fr(terms[-1]["fac"][0]["al"]))
            wmin = w if wmin is None else min(wmin, w)
        hint = _round(wmin, 8)
    else:
        sg = 1 if shape == "half+" else -1
        fam = d.weighted([(6, "pet"), (3, "gauss")])
        amin = None
        for _ in range(d.weighted([(5, 1), (3, 2), (1, 3)])):
            if fam == "pet" or (terms and d.bool()):
                at, k = _pet(d, None, None, maxdeg=5, decay=-sg, slow=slow)
                aa = abs(_fr(at["a"]))
                amin = aa if amin is None else max(amin, aa)
            else:
                at, k = _gauss_inf(d, slow), "gauss"
                aa = _isqrt_ceil(_fr(at["al"]))
                amin = aa if amin is None else max(amin, aa)
            terms.append({"c": _coef(d), "fac": [at]})
            kinds.append(k)
        # finite endpoint: |u| * (largest decay rate) <= 8
        uu = _round(Fraction(d.int(-64, 64), 8) / amin, 12) if d.int(0, 2) else [0, 0]
        pts = [["r", uu], ["inf", 1]] if sg > 0 else [["inf", -1], ["r", uu]]
        hint = _round(1 / amin, 8)
    if d.int(0, 4) == 0:
        pts = list(reversed(pts))
    paths = [{"pts": [pts], "of": None, "hint": hint}]
    cap = d.weighted([(10, 128), (3, 256), (1, 400)]) if rule == "ts" else d.weighted([(3, 64), (2, 128)])
    steps = _history(d, paths, cap, 5 if cap <= 128 else 3, None, rule=rule, strict=True)
    return {"dim": 1, "terms": terms, "paths": paths, "steps": steps,
            "cls": "1d:%s:%s:%s" % (shape, rule, "+".join(sorted(set(kinds))))}


def _gen_cpath(d):
    npts = d.weighted([(4, 2), (3, 3), (2, 4)])
    closed = npts >= 3 and d.int(0, 2) == 0
    pts = []
    for i in range(npts):
        re, im = _dy(d, 32, 3), _dy(d, 32, 3)
        if i and re == pts[-1][1]:
            re = _of_fr(_fr(re) + 1)                      # consecutive points differ (in the real part)
        if d.int(0, 5) == 0:
            pts.append(["r", re])
        else:
            pts.append(["c", re, im])
    if not any(p[0] == "c" for p in pts):
        pts[-1] = ["c", pts[-1][1], [1, 0]]
    if closed:
        pts.append(list(pts[0]))
    zs = [(_fr(p[1]), _fr(p[2]) if p[0] == "c" else Fraction(0)) for p in pts]
    L = sum(max(abs(zs[i + 1][0] - zs[i][0]), abs(zs[i + 1][1] - zs[i][1])) * 2 for i in range(len(zs) - 1))
    X = max(abs(z[0]) + abs(z[1]) for z in zs)
    L = max(L, Fraction(1, 8))
    terms, kinds = [], []
    for _ in range(d.weighted([(5, 1), (3, 2)])):
        at, k = _pet(d, L, X, maxdeg=6)
        terms.append({"c": _coef(d), "fac": [at]})
        kinds.append(k)
    paths = [{"pts": [pts], "of": None}]
    cap = d.weighted([(10, 128), (3, 256), (1, 500)])
    if _mag_bound(terms, X, L) > 4096:
        cap = 128
    steps = _history(d, paths, cap, 5 if cap <= 128 else 3, None)
    return {"dim": 1, "terms": terms, "paths": paths, "steps": steps,
            "cls": "1d:cpath%s:%s" % (":closed" if closed else "", "+".join(sorted(set(kinds))))}


def _small_interval(d):
    """box side for the multidimensional cases: endpoints in [-2, 2] (quad's stopping criterion is an ABSOLUTE
    eps/8 at every nesting level, so integrands of large magnitude run every inner integral to the maximal degree;
    that is a cost issue only, but the nested cost is cubic)"""
    if d.bool():
        u = Fraction(d.int(-16, 8), 8)
        v = u + Fraction(d.int(1, 8), 8)
        un, vn = _of_fr(u), _of_fr(v)
        k = "unit"
    else:
        den = d.choice([3, 5, 7, 10])
        u = Fraction(d.int(-2 * den, den), den)
        v = u + Fraction(d.int(1, den), den)
        bits = d.choice([24, 53, 64, 113])
        un, vn = _round(u, bits), _round(v, bits)
        k = "rational"
    if d.int(0, 3) == 0:
        un, vn = vn, un
    return un, vn, k


def _small_coef(d):
    return [d.choice([1, 1, -1]), 0] if d.bool() else _dy(d, 12, 2, nonzero=True)


def _gen_nd(d):
    dim = d.weighted([(7, 2), (3, 3)])
    rule = d.weighted([(1, "ts"), (2, "gl")]) if dim == 2 else d.weighted([(1, "ts"), (9, "gl")])
    ivs = []
    infdim = d.int(0, dim - 1) if (dim == 2 and d.int(0, 5) == 0) else None
    for i in range(dim):
        if i == infdim:
            ivs.append((_N(d.int(0, 16), -3), None, "inf"))      # [u, inf] with 0 <= u <= 2: magnitude stays O(1)
        else:
            ivs.append(_small_interval(d))
    terms, kinds = [], []
    fam = d.weighted([(4, "prod"), (4, "ridge"), (3, "mixed")]) if infdim is None else "prod"
    nterms = d.weighted([(3, 1), (4, 2), (2, 3)]) if dim == 2 else d.weighted([(3, 1), (2, 2)])
    if dim == 3 and rule == "ts":
        nterms = 1                      # nested tanh-sinh in 3 dimensions costs 10^5 .. 10^7 evaluations
    tmax = 48 if dim == 2 else 24
    for ti in range(nterms):
        if fam == "ridge" or (fam == "mixed" and ti == 0):
            g = d.choice(["exp", "sin", "cos", "pow"])
            aa = []
            reach = Fraction(0)
            for (u, v, _) in ivs:
                fu, fv = _fr(u), _fr(v)
                L, X = abs(fv - fu), max(abs(fu), abs(fv), Fraction(1, 8))
                if g == "pow":
                    a = _N(d.int(1, 8), -3)
                else:
                    a = _floor_dy(Fraction(d.int(2, tmax), 8) * min(1 / L, 4 / X) / dim)
                reach += _fr(a) * X
                aa.append(a if d.bool() else _neg(a))
            t = {"c": _small_coef(d), "ridge": g, "a": aa, "ph": _dy(d, 16, 3)}
            if g == "pow":
                t["k"] = d.int(1, 4)
            elif g == "exp":
                # keep exp(a.x + ph) <= e^2 on the box
                t["ph"] = _round(-reach + Fraction(d.int(-16, 16), 8), 10)
            terms.append(t)
            kinds.append("ridge-" + g)
        else:
            fac = []
            for (u, v, icls) in ivs:
                if icls == "inf":
                    at, k = _pet(d, None, None, maxdeg=2, decay=-1, slow=False)
                else:
                    fu, fv = _fr(u), _fr(v)
                    at, k = _pet(d, abs(fv - fu), max(abs(fu), abs(fv)), maxdeg=3 if dim == 2 else 2, theta_max=tmax,
                                 kinds=[(5, "poly"), (2, "exp"), (2, "trig"), (1, "polyexp"), (1, "exptrig")],
                                 xcap=Fraction(1, 2))
                    at["poly"] = [_N(c[0] % 5 - 2 if abs(c[0]) > 4 else c[0], c[1]) for c in at["poly"]]
                    if at["poly"][-1][0] == 0:
                        at["poly"][-1] = [1, 0]
                fac.append(at)
            terms.append({"c": _small_coef(d), "fac": fac})
            kinds.append("prod")
    pts = []
    for (u, v, icls) in ivs:
        if icls == "inf":
            pts.append([["r", u], ["inf", 1]])
        else:
            pts.append([["r", u], ["r", v]])
    paths = [{"pts": pts, "of": None}]
    if dim == 2:
        cap = d.weighted([(8, 64), (3, 110)]) if rule == "ts" else d.weighted([(6, 64), (4, 128), (1, 200)])
    else:
        cap = d.weighted([(6, 45), (2, 64)]) if rule == "gl" else 32
    steps = _history(d, paths, cap, 3 if dim == 2 else 2, None, rule=rule, allow_cls=False, strict=True)
    return {"dim": dim, "terms": terms, "paths": paths, "steps": steps,
            "cls": "%dd:%s%s:%s" % (dim, rule, ":inf" if infdim is not None else "", "+".join(sorted(set(kinds))))}


# ------------------------------------------------------------------------------------------------ repo-side integrand

def _to_mp(mp, n, pyints=True):
    m, e = n
    if pyints and e >= 0 and abs(m) < (1 << 30):
        return m << e
    return mp.make_mpf(_raw(n))


def _atom_mp(mp, at):
    t = at["t"]
    if t == "pet":
        cs = [_to_mp(mp, c) for c in at["poly"]]
        a, b, ph = _to_mp(mp, at["a"]), _to_mp(mp, at["b"]), _to_mp(mp, at["ph"])
        has_a = at["a"][0] != 0
        trig = at["trig"]
        head, rest = cs[-1], cs[-2::-1]
        exp, sin, cos = mp.exp, mp.sin, mp.cos

        def g(x):
            s = head
            for c in rest:
                s = s * x + c
            if has_a:
                s = s * exp(a * x)
            if trig == "sin":
                s = s * sin(b * x + ph)
            elif trig == "cos":
                s = s * cos(b * x + ph)
            return s
        return g
    if t == "rat":
        m, w = _to_mp(mp, at["m"]), _to_mp(mp, at["w"])

        def g(x):
            return 1 / ((x - m) ** 2 + w * w)
        return g
    if t == "gauss":
        k, al, m = at["k"], _to_mp(mp, at["al"]), _to_mp(mp, at["m"])
        exp = mp.exp

        def g(x):
            y = exp(-al * (x - m) ** 2)
            return x ** k * y if k else y
        return g
    raise ValueError(t)


def _integrand_mp(mp, case):
    dim = case["dim"]
    comp = []
    for t in case["terms"]:
        c = _to_mp(mp, t["c"])
        if "ridge" in t:
            aa = [_to_mp(mp, a) for a in t["a"]]
            ph = _to_mp(mp, t["ph"])
            g = t["ridge"]
            k = t.get("k", 0)
            fn = {"exp": mp.exp, "sin": mp.sin, "cos": mp.cos, "pow": (lambda u, k=k: u ** k)}[g]
            comp.append(("ridge", c, aa, ph, fn))
        else:
            comp.append(("prod", c, [_atom_mp(mp, at) for at in t["fac"]]))

    def f(*xs):
        tot = 0
        for cc in comp:
            if cc[0] == "prod":
                v = cc[1]
                for g, x in zip(cc[2], xs):
                    v = v * g(x)
            else:
                u = cc[3]
                for a, x in zip(cc[2], xs):
                    u = u + a * x
                v = cc[1] * cc[4](u)
            tot = tot + v
        return tot
    if dim == 1:
        return lambda x: f(x)
    if dim == 2:
        return lambda x, y: f(x, y)
    return lambda x, y, z: f(x, y, z)


def _point_mp(mp, pt, py):
    if pt[0] == "inf":
        return mp.inf if pt[1] > 0 else mp.ninf
    if pt[0] == "r":
        m, e = pt[1]
        if py:
            if e >= 0 and abs(m) < (1 << 40):
                return m << e
            if abs(m) < (1 << 53) and -1000 < e < 900:
                return float(m) * 2.0 ** e
        return mp.make_mpf(_raw(pt[1]))
    if py:
        (m1, e1), (m2, e2) = pt[1], pt[2]
        if abs(m1) < (1 << 53) and abs(m2) < (1 << 53) and -900 < e1 < 900 and -900 < e2 < 900:
            return complex(float(m1) * 2.0 ** e1, float(m2) * 2.0 ** e2)
    return mp.make_mpc((_raw(pt[1]), _raw(pt[2])))


# ------------------------------------------------------------------------------------------------ oracle (mpref side)

class _Reject(Exception):
    pass


def _pt_ref(mr, pt):
    if pt[0] == "inf":
        return mr.inf if pt[1] > 0 else mr.ninf
    if pt[0] == "r":
        return mr.make_mpf(_raw(pt[1]))
    return mr.make_mpc((_raw(pt[1]), _raw(pt[2])))


def _E(mr, k, lam, x):
    """antiderivative of t^k exp(lam t) at x (lam != 0): exp(lam x) sum_j (-1)^j k!/(k-j)! x^(k-j) / lam^(j+1)"""
    s = mr.mpf(0)
    coef = 1
    for j in range(k + 1):
        s += (-1) ** j * coef * x ** (k - j) / lam ** (j + 1)
        coef *= (k - j)
    return mr.exp(lam * x) * s


def _pet_modes(mr, at):
    """poly * exp(a x) * trig(b x + ph) = sum_modes w * poly * exp(lam x)"""
    a, b, ph = (mr.make_mpf(_raw(at[k])) for k in ("a", "b", "ph"))
    trig = at["trig"]
    if trig == "1":
        return [(mr.mpf(1), a)]
    if at["b"][0] == 0:
        return [(mr.sin(ph) if trig == "sin" else mr.cos(ph), a)]
    e1, e2 = mr.expj(ph), mr.expj(-ph)
    l1, l2 = mr.mpc(a, b), mr.mpc(a, -b)
    if trig == "sin":
        return [(e1 / 2j, l1), (-e2 / 2j, l2)]
    return [(e1 / 2, l1), (e2 / 2, l2)]


def _atom_integral(mr, at, P0, P1, real_path):
    """integral of the atom along a path from P0 to P1 (any path for the entire atoms, the real segment otherwise)"""
    t = at["t"]
    if t == "pet":
        if at["a"][0] == 0 and at["trig"] == "1":
            if mr.isinf(P0) or mr.isinf(P1):
                raise _Reject()
            tot = mr.mpf(0)
            for k, c in enumerate(at["poly"]):
                if c[0]:
                    tot += mr.make_mpf(_raw(c)) * (P1 ** (k + 1) - P0 ** (k + 1)) / (k + 1)
            return tot
        tot = mr.mpf(0)
        for w, lam in _pet_modes(mr, at):
            if lam == 0:
                if mr.isinf(P0) or mr.isinf(P1):
                    raise _Reject()
                for k, c in enumerate(at["poly"]):
                    if c[0]:
                        tot += w * mr.make_mpf(_raw(c)) * (P1 ** (k + 1) - P0 ** (k + 1)) / (k + 1)
                continue
            for P, sg in ((P1, 1), (P0, -1)):
                if mr.isinf(P):
                    if not (mr.re(lam) * P < 0):
                        raise _Reject()
                    continue
                for k, c in enumerate(at["poly"]):
                    if c[0]:
                        tot += sg * w * mr.make_mpf(_raw(c)) * _E(mr, k, lam, P)
        return mr.re(tot) if real_path else tot
    if not real_path:
        raise _Reject()
    if t == "rat":
        m, w = mr.make_mpf(_raw(at["m"])), mr.make_mpf(_raw(at["w"]))
        if mr.isinf(P0) or mr.isinf(P1) or w <= 0:
            raise _Reject()
        return (mr.atan((P1 - m) / w) - mr.atan((P0 - m) / w)) / w
    if t == "gauss":
        k, al, m = at["k"], mr.make_mpf(_raw(at["al"])), mr.make_mpf(_raw(at["m"]))
        if al <= 0:
            raise _Reject()
        if k == 0:
            sq = mr.sqrt(al)

            def F(x):
                if mr.isinf(x):
                    return mr.mpf(1) if x > 0 else mr.mpf(-1)
                return mr.erf(sq * (x - m))
            return mr.sqrt(mr.pi / al) / 2 * (F(P1) - F(P0))
        if at["m"][0] != 0:
            raise _Reject()
        s = mr.mpf(k + 1) / 2
        full = mr.gamma(s)

        def G(x):
            # integral from 0 to x of t^k exp(-al t^2)
            if mr.isinf(x):
                v = full
            elif x == 0:
                return mr.mpf(0)
            else:
                v = mr.gammainc(s, 0, al * x * x)
            v = v / (2 * al ** s)
            return v if (x > 0 or k % 2 == 1) else -v
        return G(P1) - G(P0)
    raise ValueError(t)


def _bound_atom(mr, at, x):
    """an upper bound of |atom(x)| built from the magnitudes of its parts (mpref, low precision)"""
    t = at["t"]
    if t == "pet":
        ax = abs(x)
        s = mr.mpf(0)
        for k, c in enumerate(at["poly"]):
            if c[0]:
                s += abs(mr.make_mpf(_raw(c))) * ax ** k
        if at["a"][0]:
            s *= mr.exp(mr.re(mr.make_mpf(_raw(at["a"])) * x))
        if at["trig"] != "1":
            s *= mr.cosh(mr.im(mr.make_mpf(_raw(at["b"])) * x))
        return s
    if t == "rat":
        m, w = mr.make_mpf(_raw(at["m"])), mr.make_mpf(_raw(at["w"]))
        return 1 / abs((x - m) ** 2 + w * w)
    k, al, m = at["k"], mr.make_mpf(_raw(at["al"])), mr.make_mpf(_raw(at["m"]))
    return abs(x) ** k * mr.exp(-al * mr.re((x - m) ** 2))


def _atom_len(at):
    """characteristic decay length of an atom on an infinite path (Fraction) or None"""
    if at["t"] == "pet":
        return 1 / abs(_fr(at["a"])) if at["a"][0] else None
    if at["t"] == "gauss":
        return 1 / _isqrt_ceil(_fr(at["al"])) * Fraction(3, 2) if at["al"][0] > 0 else None
    return None


def _atom_scale(mr, at, pts):
    """estimate of the integral of |atom| along the polygonal path: per segment length * max over sample points"""
    tot = mr.mpf(0)
    for i in range(len(pts) - 1):
        A, B = pts[i], pts[i + 1]
        if mr.isinf(A) or mr.isinf(B):
            ell = _atom_len(at)
            if ell is None:
                raise _Reject()
            h = mr.mpf(ell.numerator) / ell.denominator / 2
            if mr.isinf(A) and mr.isinf(B):
                c = mr.make_mpf(_raw(at["m"])) if at["t"] == "gauss" else mr.mpf(0)
                xs = [c + j * h for j in range(-160, 161)]
            else:
                x0, sg = (A, 1 if B > 0 else -1) if mr.isinf(B) else (B, 1 if A > 0 else -1)
                xs = [x0 + sg * j * h for j in range(0, 200)]
                if at["t"] == "gauss":
                    c = mr.make_mpf(_raw(at["m"]))
                    xs += [c + j * h for j in range(-24, 25) if (c + j * h - x0) * sg > 0]
            s = mr.mpf(0)
            for x in xs:
                s += _bound_atom(mr, at, x)
            tot += s * h
            continue
        if A == B:
            continue
        xs = [A + (B - A) * mr.mpf(j) / 16 for j in range(17)]
        if at["t"] in ("rat", "gauss") and not (mr.im(A) or mr.im(B)):
            lo, hi = (A, B) if A < B else (B, A)
            cands = [mr.make_mpf(_raw(at["m"]))]
            if at["t"] == "gauss" and at["k"]:
                r = mr.sqrt(mr.mpf(at["k"]) / (2 * mr.make_mpf(_raw(at["al"]))))
                cands += [r, -r]
            xs += [c for c in cands if lo < c < hi]
        mx = max(_bound_atom(mr, at, x) for x in xs)
        tot += abs(B - A) * mx
    return tot


def _ridge_integral(mr, t, firsts, lasts):
    """integral of c*g(a.x + ph) over the box: alternating corner sum of the n-fold antiderivative / prod(a)"""
    n = len(firsts)
    g = t["ridge"]
    aa = [mr.make_mpf(_raw(a)) for a in t["a"]]
    ph = mr.make_mpf(_raw(t["ph"]))
    k = t.get("k", 0)
    if g == "pow":
        # exact rational arithmetic
        fa = [_fr(a) for a in t["a"]]
        fph = _fr(t["ph"])
        tot = Fraction(0)
        den = Fraction(1)
        for j in range(1, n + 1):
            den *= (k + j)
        for mask in range(1 << n):
            u = fph
            sg = 1
            for i in range(n):
                if mask >> i & 1:
                    u += fa[i] * firsts[i][1]
                    sg = -sg
                else:
                    u += fa[i] * lasts[i][1]
            tot += sg * u ** (k + n)
        for a in fa:
            den *= a
        tot /= den
        return mr.mpf(tot.numerator) / tot.denominator
    if g == "exp":
        G = mr.exp
    elif g == "sin":
        G = [None, lambda u: -mr.cos(u), lambda u: -mr.sin(u), mr.cos][n]
    else:
        G = [None, mr.sin, lambda u: -mr.cos(u), lambda u: -mr.sin(u)][n]
    tot = mr.mpf(0)
    for mask in range(1 << n):
        u = ph
        sg = 1
        for i in range(n):
            if mask >> i & 1:
                u += aa[i] * firsts[i][0]
                sg = -sg
            else:
                u += aa[i] * lasts[i][0]
        tot += sg * G(u)
    for a in aa:
        tot /= a
    return tot


def _ridge_scale(mr, t, refpaths):
    g = t["ridge"]
    aa = [mr.make_mpf(_raw(a)) for a in t["a"]]
    ph = mr.make_mpf(_raw(t["ph"]))
    vol = mr.mpf(1)
    los, his = [], []
    for pts in refpaths:
        vol *= sum(abs(pts[i + 1] - pts[i]) for i in range(len(pts) - 1))
        los.append(min(pts))
        his.append(max(pts))
    if g in ("sin", "cos"):
        return vol
    n = len(refpaths)
    best = mr.mpf(0)
    for mask in range(1 << n):
        u = ph
        for i in range(n):
            u += aa[i] * (los[i] if mask >> i & 1 else his[i])
        v = mr.exp(u) if g == "exp" else abs(u) ** t.get("k", 0)
        best = max(best, v)
    return vol * best


def _oracle(mr, case, pts, q):
    """(I, S) at reference precision q; raises _Reject for inputs outside the domain"""
    mr.prec = q
    refpaths = [[_pt_ref(mr, p) for p in dimpts] for dimpts in pts]
    real_path = all(p[0] != "c" for dimpts in pts for p in dimpts)
    for rp in refpaths:
        for x in rp[1:-1]:
            if mr.isinf(x):
                raise _Reject()
    exact_pts = None
    if real_path and all(p[0] == "r" for dimpts in pts for p in dimpts):
        exact_pts = [(_fr(dimpts[0][1]), _fr(dimpts[-1][1])) for dimpts in pts]
    I = mr.mpf(0)
    S = mr.mpf(0)
    for t in case["terms"]:
        c = mr.make_mpf(_raw(t["c"]))
        if "ridge" in t:
            if exact_pts is None:
                raise _Reject()
            firsts = [(rp[0], ep[0]) for rp, ep in zip(refpaths, exact_pts)]
            lasts = [(rp[-1], ep[1]) for rp, ep in zip(refpaths, exact_pts)]
            I += c * _ridge_integral(mr, t, firsts, lasts)
            S += abs(c) * _ridge_scale(mr, t, refpaths)
            continue
        v = c
        s = abs(c)
        for at, rp, dimpts in zip(t["fac"], refpaths, pts):
            if (at["t"] == "pet" and at["a"][0] == 0 and at["trig"] == "1" and exact_pts is not None):
                # pure polynomial on a real segment: exact rational arithmetic
                a0, b0 = _fr(dimpts[0][1]), _fr(dimpts[-1][1])
                tot = Fraction(0)
                for k, ck in enumerate(at["poly"]):
                    if ck[0]:
                        tot += _fr(ck) * (b0 ** (k + 1) - a0 ** (k + 1)) / (k + 1)
                v = v * (mr.mpf(tot.numerator) / tot.denominator)
            else:
                v = v * _atom_integral(mr, at, rp[0], rp[-1], real_path)
            s = s * _atom_scale(mr, at, rp)
        I += v
        S += s
    return I, S


def _hardness(case, pts):
    """(easy, note): easy = inside the core of the domain, where non-convergence is itself a violation"""
    if any(p[0] == "inf" for dimpts in pts for p in dimpts):
        return False
    theta = Fraction(0)
    for t in case["terms"]:
        if "ridge" in t:
            continue
        for at, dimpts in zip(t["fac"], pts):
            if at["t"] != "pet":
                return False
            L = Fraction(0)
            for i in range(len(dimpts) - 1):
                a, b = dimpts[i], dimpts[i + 1]
                dr = abs(_fr(a[1]) - _fr(b[1]))
                di = abs((_fr(a[2]) if a[0] == "c" else 0) - (_fr(b[2]) if b[0] == "c" else 0))
                L = max(L, dr + di)
            theta = max(theta, (abs(_fr(at["a"])) + abs(_fr(at["b"]))) * L)
    return theta <= 12


# ------------------------------------------------------------------------------------------------ the check

def _call(mp, mpmath, api, f, pts, err):
    kw = {}
    if err:
        kw["error"] = True
    if api == "quad":
        return mp.quad(f, *pts, **kw)
    if api == "quad:ts":
        return mp.quad(f, *pts, method="tanh-sinh", **kw)
    if api == "quad:gl":
        return mp.quad(f, *pts, method="gauss-legendre", **kw)
    if api == "quadts":
        return mp.quadts(f, *pts, **kw)
    if api == "quadgl":
        return mp.quadgl(f, *pts, **kw)
    from mpmath.calculus.quadrature import TanhSinh, GaussLegendre
    if api == "cls:ts":
        return mp.quad(f, *pts, method=TanhSinh, **kw)
    if api == "cls:gl":
        return mp.quad(f, *pts, method=GaussLegendre, **kw)
    raise ValueError(api)


def _inner_error_hidden(mp, f, mpts, tol, mr, api):
    """multidimensional quad keeps only the error estimate of the outermost integration.  Integrate one-dimensional
    sections (all other variables fixed at a point of their range) with error=True: True if one of them admits an
    error above the tolerance, i.e. the inner integrations of the multidimensional call failed silently."""
    method = "gauss-legendre" if _rule_of(api) == "gl" else "tanh-sinh"
    fixed = []
    for q in mpts:
        a, b = q[0], q[1]
        if mp.isinf(a) and mp.isinf(b):
            fixed.append(mp.mpf(1) / 4)
        elif mp.isinf(b):
            fixed.append(a + mp.mpf(3) / 4)
        elif mp.isinf(a):
            fixed.append(b - mp.mpf(3) / 4)
        else:
            fixed.append(a + (b - a) * mp.mpf(3) / 8)
    for i in range(len(mpts)):
        def g(t, i=i):
            xs = list(fixed)
            xs[i] = t
            return f(*xs)
        try:
            v, e = mp.quad(g, mpts[i], method=method, error=True)
        except ZeroDivisionError:
            continue
        if _ref_of(mr, e) > mr.mpf(2) ** -(mp.prec - 10):
            return True
    return False


def _converges_above(mp, mpmath, api, case, pts, st, p, mr, I, tol):
    try:
        mp.prec = p + 64
        f = _integrand_mp(mp, case)
        mpts = [[_point_mp(mp, pt, st["py"]) for pt in q] for q in pts]
        v = _call(mp, mpmath, api, f, mpts, False)
        return abs(_ref_of(mr, v) - I) <= tol
    except ZeroDivisionError:
        return False
    finally:
        mp.prec = p


def _domain(case, pts):
    dim = case["dim"]
    if dim > 1:
        return "dim%d" % dim
    q = pts[0]
    if any(p[0] == "c" for p in q):
        return "cpath"
    ninf = sum(1 for p in q if p[0] == "inf")
    if ninf == 0:
        return "finite"
    return "halfinf" if ninf == 1 or len(q) > 2 else "inf"


def _ref_of(mr, v):
    if hasattr(v, "_mpc_"):
        return mr.make_mpc(tuple(tuple(x) for x in v._mpc_))
    if hasattr(v, "_mpf_"):
        return mr.make_mpf(tuple(v._mpf_))
    return mr.mpmathify(v)


def _show_pts(pts):
    def one(p):
        if p[0] == "inf":
            return "+inf" if p[1] > 0 else "-inf"
        if p[0] == "r":
            return "%d*2^%d" % tuple(p[1]) if p[1][1] else str(p[1][0])
        return "(%d*2^%d, %d*2^%d)" % (p[1][0], p[1][1], p[2][0], p[2][1])
    return " x ".join("[" + ", ".join(one(p) for p in q) + "]" for q in pts)


def _show_terms(case):
    out = []

    def num(n):
        return ("%d" % n[0]) if n[1] == 0 else ("%d*2^%d" % (n[0], n[1]))
    for t in case["terms"]:
        if "ridge" in t:
            out.append("%s*%s(%s.x+%s)%s" % (num(t["c"]), t["ridge"], [num(a) for a in t["a"]], num(t["ph"]),
                                              "^%d" % t["k"] if "k" in t else ""))
            continue
        fs = []
        for at in t["fac"]:
            if at["t"] == "pet":
                s = "P[%s]" % ",".join(num(c) for c in at["poly"])
                if at["a"][0]:
                    s += "*exp(%s x)" % num(at["a"])
                if at["trig"] != "1":
                    s += "*%s(%s x+%s)" % (at["trig"], num(at["b"]), num(at["ph"]))
            elif at["t"] == "rat":
                s = "1/((x-%s)^2+%s^2)" % (num(at["m"]), num(at["w"]))
            else:
                s = "x^%d*exp(-%s (x-%s)^2)" % (at["k"], num(at["al"]), num(at["m"]))
            fs.append(s)
        out.append(num(t["c"]) + "*" + " * ".join(fs))
    return " + ".join(out)


def _nonpoly(case):
    for t in case["terms"]:
        if "ridge" in t:
            if t["ridge"] != "pow":
                return True
            continue
        for at in t["fac"]:
            if at["t"] != "pet" or at["a"][0] or at["trig"] != "1":
                return True
    return False


def check_case(case):
    import mpmath
    from mpmath import mp
    import mpref
    mr = mpref.mp
    res = R()
    res.cls = case["cls"]
    steps = case["steps"]
    res.n = len(steps)
    res.nontrivial = _nonpoly(case) or case["dim"] >= 2 or len(set(s["p"] for s in steps)) > 1
    old_ref = mr.prec
    try:
        # replayable histories: every case starts from empty node caches (documented method of the rules)
        mp._tanh_sinh.clear()
        mp._gauss_legendre.clear()
        results = {}      # (path, p, api) -> (got_ref, tol, ok)
        worst = 0.0
        for si, st in enumerate(steps):
            p, api = st["p"], st["api"]
            pts = case["paths"][st["path"]]["pts"]
            rule = _rule_of(api)
            dom = _domain(case, pts)
            # ---- oracle
            try:
                I1, S1 = _oracle(mr, case, pts, 2 * p + 80)
                I2, S2 = _oracle(mr, case, pts, 3 * p + 100)
            except _Reject:
                res.rejected = True
                return res
            mr.prec = 3 * p + 100
            scale = max(mr.mpf(1), abs(I2), S2)
            tol = scale * mr.mpf(2) ** (10 - p)
            if abs(I1 - I2) > scale * mr.mpf(2) ** (-p - 30):
                res.inconclusive = True
                continue
            # ---- the call under test
            mp.prec = p
            f = _integrand_mp(mp, case)
            mpts = [[_point_mp(mp, pt, st["py"]) for pt in q] for q in pts]
            try:
                out = _call(mp, mpmath, api, f, mpts, st["err"])
            except ZeroDivisionError as e:
                import traceback
                if not any(fs.name == "estimate_error" for fs in traceback.extract_tb(e.__traceback__)):
                    raise
                # the integrand has no singularity: the division by zero is the error estimator's own
                # (log10|I_k - I_(k-2)| == 0 when two step sums differ by exactly 1)
                mp.prec = p
                res.bad("zerodiv:estimate_error", "%s(f, %s) at prec %d, f = %s raised ZeroDivisionError inside "
                        "QuadratureRule.estimate_error (closed form %s)" % (api, _show_pts(pts), p, _show_terms(case),
                                                                           mr.nstr(I2, 20)))
                continue
            if mp.prec != p:
                res.bad("prec-leak:%s" % rule, "quad changed mp.prec from %d to %d" % (p, mp.prec))
                mp.prec = p
            if st["err"]:
                got, rep = out
            else:
                got, rep = out, None
            g = _ref_of(mr, got)
            diff = abs(g - I2)
            ratio = float(diff / tol)
            worst = max(worst, ratio)
            key = (st["path"], p, api)
            ok = diff <= tol
            what = "step %d of %d: %s(f, %s%s) at prec %d, f = %s" % (
                si + 1, len(steps), api, _show_pts(pts), ", error=True" if st["err"] else "", p, _show_terms(case))
            if not ok:
                if rep is None:
                    try:
                        rep = _call(mp, mpmath, api, f, mpts, True)[1]
                    except Exception:
                        rep = None
                repr_ = _ref_of(mr, rep) if rep is not None else None
                prev = results.get(key)
                detail = "%s: got %s, closed form %s (|diff| = %.3g x tolerance 2^(10-p)*%s), reported error %s" % (
                    what, mr.nstr(g, 25), mr.nstr(I2, 25), ratio, mr.nstr(scale, 5),
                    mr.nstr(repr_, 3) if repr_ is not None else "n/a")
                if prev is not None and prev[2]:
                    res.bad("history:%s:%s" % (rule, dom), "same call gave a correct result earlier in this history; " + detail)
                elif case["dim"] >= 2 and _inner_error_hidden(mp, f, mpts, tol, mr, api):
                    res.bad("nd:inner-error-dropped:%s" % rule, "a one-dimensional section of the integrand reports an "
                            "error estimate above the tolerance but the multidimensional call does not: " + detail)
                elif repr_ is not None and abs(repr_) > tol:
                    if _hardness(case, pts):
                        res.bad("noconv:%s:%s" % (rule, dom), detail)
                    else:
                        res.inconclusive = True
                        if _DEBUG:
                            print("INCONCLUSIVE", detail)
                elif _converges_above(mp, mpmath, api, case, pts, st, p, mr, I2, tol):
                    # root-cause split only (not an oracle): the same call at p+64 bits is within the p-bit tolerance,
                    # so nodes and transformation are sound and the iteration at p was stopped by an
                    # over-optimistic error estimate
                    res.bad("estimator:%s:%s" % (rule, dom), "error estimate far below the actual error (the same "
                            "call at %d bits is accurate): %s" % (p + 64, detail))
                else:
                    res.bad("value:%s:%s" % (rule, dom), detail)
            if key not in results:
                results[key] = (g, tol, ok)
            # ---- metamorphic relations against an earlier call with the same precision and API
            rel = case["paths"][st["path"]]["of"]
            if rel is not None:
                kind, j = rel
                prev = results.get((j, p, api))
                if prev is not None and (j, p, api) != key:
                    g0, tol0, ok0 = prev
                    expect = -g0 if kind == "rev" else g0
                    if abs(g - expect) > 2 * max(tol, tol0):
                        res.bad("meta:%s:%s:%s" % ("reverse" if kind == "rev" else "split", rule, dom),
                                "%s: got %s but the %s path gave %s" % (what, mr.nstr(g, 25),
                                                                       "original" if kind == "split" else "reversed",
                                                                       mr.nstr(g0, 25)))
        res.metrics["worst_error_over_tolerance"] = worst
        return res
    finally:
        mp.prec = 53
        mr.prec = old_ref
