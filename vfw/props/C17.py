"""C17 -- mathematical constants are accurate at every precision and history."""
from .. import exact, gen, mpfrref as M, accuracy as acc
from ..core import R, Collector
from ..exact import fzero, finf, fninf, fnan, raw_json as J, raw_unjson as U

ID = "C17"
LEVEL = "exploration"
CASE_TIMEOUT = 300.0
RULE = ("History cases: a sequence of 4..14 requests (constant, precision, rounding mode, access path) issued in one "
        "process whose memo caches persist across cases: ascending, descending, repeated and interleaved precisions, "
        "precisions straddling the memo growth rule int(1.05p+10), through +mp.c, mp.c(prec=,rounding=), libmp.mpf_c(p, "
        "rnd) and the iv constants; every request is compared on the spot with a history-free reference. Exhaustive "
        "shards: every precision 1..N (quick: N=1200 for the 9 fast constants, 300 for khinchin/glaisher/twinprime/"
        "mertens; thorough: 4096 / 1500) x 5 rounding modes in ascending and in descending order. Oracle: pi, ln2, "
        "euler, catalan = MPFR constants; e = mpfr_exp(1), ln10 = mpfr_log(10), phi = (1+sqrt 5)/2, degree = pi/180, "
        "apery = mpfr_zeta_ui(3), all at p+80 bits (a case is inconclusive if that value is within 2^-60 of a "
        "rounding boundary); khinchin, glaisher, twinprime, mertens = frozen mpmath 1.3.0 at p+128 bits. pi, e, ln2, "
        "ln10, phi, degree must be correctly rounded in every mode; the others within 1 ulp, floor/ceiling on the "
        "correct side. Non-trivial = request served from the memo below memo_prec, or directed rounding, or first "
        "request after a larger one.")
ASSUMPTIONS = ["MPFR constants and elementary functions are correctly rounded",
               "khinchin/glaisher/twinprime/mertens: reference is mpmath 1.3.0 evaluated at p+128 bits (an error shared with "
               "1.3.0 beyond that many bits would not be seen)"]
TECHNIQUE = "property-based testing (Hypothesis) of request histories plus exhaustive precision sweeps against MPFR"

FAST = ["pi", "e", "ln2", "ln10", "phi", "degree", "euler", "catalan", "apery"]
SLOW = ["khinchin", "glaisher", "twinprime", "mertens"]
EXACT_ROUNDED = {"pi", "e", "ln2", "ln10", "phi", "degree"}
LIBMP = {"pi": "mpf_pi", "e": "mpf_e", "ln2": "mpf_ln2", "ln10": "mpf_ln10", "phi": "mpf_phi", "degree": "mpf_degree",
         "euler": "mpf_euler", "catalan": "mpf_catalan", "apery": "mpf_apery", "khinchin": "mpf_khinchin",
         "glaisher": "mpf_glaisher", "twinprime": "mpf_twinprime", "mertens": "mpf_mertens"}
_hi = {}


def shards(tier):
    if tier == "quick":
        ex = [("exh:%s:%s" % (n, o), 1) for n in FAST for o in ("up",)] + [("exh:pi:down", 1), ("exh:euler:down", 1), ("exh:slow:up", 1)]
        return ex + [("hist", 400)] * 3
    ex = [("exh:%s:%s" % (n, o), 1) for n in FAST for o in ("up", "down")] + [("exh:%s:up" % n, 1) for n in SLOW]
    return ex + [("hist", 6000)] * 4


def reference_hi(name, q):
    """history-free value of the constant with at least q correct bits (raw, rounded to nearest at q bits)"""
    key = (name,)
    cur = _hi.get(key)
    if cur is not None and cur[0] >= q:
        return exact.round_raw(cur[1], q, "n") if cur[0] > q else cur[1]
    q2 = max(q, 400) + 100
    if name in ("pi", "euler", "catalan"):
        v = M.const(name, q2)
    elif name == "ln2":
        v = M.const("log2", q2)
    elif name == "e":
        v = M.fn1("exp", exact.from_int(1), q2)
    elif name == "ln10":
        v = M.fn1("log", exact.from_int(10), q2)
    elif name == "phi":
        s = M.fn1("sqrt", exact.from_int(5), q2 + 10)
        t = M.fn2("add", s, exact.from_int(1), q2 + 10)
        v = (t[0], t[1], t[2] - 1, t[3])
    elif name == "degree":
        v = M.fn2("div", M.const("pi", q2 + 10), exact.from_int(180), q2)
    elif name == "apery":
        v = M.zeta_ui(3, q2)
    else:
        import mpref
        old = mpref.mp.prec
        try:
            mpref.mp.prec = q2 + 64
            v = (+getattr(mpref.mp, name))._mpf_
        finally:
            mpref.mp.prec = old
    _hi[key] = (q2, v)
    return exact.round_raw(v, q, "n") if q2 > q else v


def neighbours(name, p):
    """(lo, hi, nearest) p-bit values around the constant, or None if the reference is too close to a boundary"""
    q = p + 80
    v = reference_hi(name, q)          # |v - c| <= 2^-q relative (plus 2^-(q+20) from the library)
    lo, hi, ne = exact.round_raw(v, p, "f"), exact.round_raw(v, p, "c"), exact.round_raw(v, p, "n")
    # ambiguity: v within 2^-(q-4) of a representable p-bit number or of a midpoint
    for w in (exact.round_raw(v, p + 1, "f"), exact.round_raw(v, p + 1, "c")):
        d = acc.sub_raw(v, w)
        if d[1] == 0 or (d[2] + d[3]) - (v[2] + v[3]) < -(q - 6):
            return None
    return lo, hi, ne


def request(mp, iv, libmp, name, p, rnd, via):
    if via == "pos":
        old = mp.prec
        mp.prec = p
        try:
            return (+getattr(mp, name))._mpf_, "n"
        finally:
            mp.prec = old
    if via == "call":
        return getattr(mp, name)(prec=p, rounding=rnd)._mpf_, rnd
    if via == "libmp":
        return getattr(libmp, LIBMP[name])(p, rnd), rnd
    if via == "iv" and not hasattr(iv, name):
        via = "libmp"           # the interval context does not define every constant
        return getattr(libmp, LIBMP[name])(p, rnd), rnd
    if via == "iv":
        old = iv.prec
        iv.prec = p
        try:
            x = +getattr(iv, name)
        finally:
            iv.prec = old
        return x._mpi_, "iv"
    raise ValueError(via)


def judge(res, name, p, rnd, via, got):
    nb = neighbours(name, p)
    if nb is None:
        res.inconclusive = True
        return
    lo, hi, ne = nb
    what = "%s at prec %d rnd %s via %s" % (name, p, rnd, via)
    if rnd == "iv":
        a, b = got
        if exact.cmp_exact(a, lo) > 0 or exact.cmp_exact(b, hi) < 0:
            res.bad("iv:%s" % name, "%s = [%s, %s] does not contain the constant (neighbours %s, %s)" % (
                what, exact.raw_str(a), exact.raw_str(b), exact.raw_str(lo), exact.raw_str(hi)))
        elif exact.cmp_exact(a, b) > 0:
            res.bad("iv:%s" % name, what + " has a > b")
        return
    prob = exact.canonical_problem(got)
    if prob:
        return res.bad("noncanonical:%s" % name, what + ": " + prob)
    if got[3] > p:
        return res.bad("bits:%s" % name, "%s has %d bits" % (what, got[3]))
    want = {"n": ne, "f": lo, "d": lo, "c": hi, "u": hi}[rnd]       # all constants are positive
    if name in EXACT_ROUNDED:
        if tuple(got) != tuple(want):
            res.bad("round:%s:%s" % (name, rnd), "%s = %s, correctly rounded value is %s" % (what, exact.raw_str(got), exact.raw_str(want)))
        return
    # within one ulp: must be lo or hi (for nearest), correct side for directed modes
    if rnd == "n":
        if tuple(got) not in (tuple(lo), tuple(hi)):
            res.bad("ulp:%s" % name, "%s = %s is more than 1 ulp from the constant (neighbours %s, %s)" % (
                what, exact.raw_str(got), exact.raw_str(lo), exact.raw_str(hi)))
    elif rnd in ("f", "d"):
        if exact.cmp_exact(got, lo) > 0:
            res.bad("side:%s:%s" % (name, rnd), "%s = %s is above the constant" % (what, exact.raw_str(got)))
        elif tuple(got) != tuple(lo):
            pred = exact.round_raw(acc.sub_raw(lo, (0, 1, lo[2] + lo[3] - p, 1)), p, "f")
            if exact.cmp_exact(got, pred) < 0:
                res.bad("ulp:%s" % name, "%s = %s is more than 1 ulp below" % (what, exact.raw_str(got)))
    else:
        if exact.cmp_exact(got, hi) < 0:
            res.bad("side:%s:%s" % (name, rnd), "%s = %s is below the constant" % (what, exact.raw_str(got)))


def gen_case(d, shard, tier):
    reqs = []
    pmax = 1100 if tier == "quick" else 3000
    base = gen.prec(d, 1, pmax)
    for _ in range(d.int(4, 14)):
        slow = d.int(0, 9) == 0
        name = d.choice(SLOW) if slow else d.choice(FAST)
        k = d.weighted([(4, "base"), (3, "near"), (2, "growth"), (3, "rand"), (2, "small")])
        if k == "base":
            p = base
        elif k == "near":
            p = max(1, base + d.int(-40, 40))
        elif k == "growth":
            p = max(1, int(base * 1.05 + 10) + d.int(-2, 2))
        elif k == "small":
            p = d.int(1, 64)
        else:
            p = gen.prec(d, 1, pmax)
        if slow:
            p = min(p, 250 if tier == "quick" else 800)
        reqs.append([name, p, gen.rnd(d), d.choice(["pos", "call", "libmp", "libmp", "iv"])])
    return {"reqs": reqs, "cls": "hist"}


def check_case(c):
    import mpmath
    from mpmath import mp, iv, libmp
    res = R()
    res.cls = c["cls"]
    res.n = len(c["reqs"])
    seen = {}
    for name, p, rnd, via in c["reqs"]:
        got, eff = request(mp, iv, libmp, name, p, rnd, via)
        judge(res, name, p, eff, via, got)
        if name in seen and seen[name] > p or eff != "n":
            res.nontrivial = True
        seen[name] = max(seen.get(name, 0), p)
    return res


def custom_shard(shard, seed, n, tier):
    if not shard.startswith("exh:"):
        return None
    import mpmath
    from mpmath import mp, iv, libmp
    _, name, order = shard.split(":")
    names = SLOW if name == "slow" else [name]
    coll = Collector()
    res = R()
    res.cls = shard
    cnt = 0
    for nm in names:
        if nm in SLOW:
            N = 300 if tier == "quick" else 1500
        else:
            N = 1200 if tier == "quick" else 4096
        ps = range(1, N + 1) if order == "up" else range(N, 0, -1)
        for p in ps:
            for rnd in "nfcdu":
                got = getattr(libmp, LIBMP[nm])(p, rnd)
                judge(res, nm, p, rnd, "libmp", got)
                cnt += 1
            if p % 7 == 0:
                got, eff = request(mp, iv, libmp, nm, p, "n", "iv")
                judge(res, nm, p, eff, "iv", got)
                cnt += 1
    res.n = cnt
    res.nontrivial = True
    res.inconclusive = False
    case = {"exhaustive": shard, "tier": tier}
    coll.add(case, res)
    out = coll.export()
    out["exhaustive_blocks"] = [{"block": shard, "cases": cnt, "complete": True,
                                 "domain": "constant(s) %s, every precision 1..N in %s order, modes nfcdu + iv every 7th" % (names, order)}]
    return out
