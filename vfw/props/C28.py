"""C28 -- numerical differentiation (diff, partial diff, diffs, diffun, taylor), difference, differint and pade."""
import itertools
from fractions import Fraction
from math import comb, factorial

from .. import exact, gen
from ..core import R
from ..exact import raw_json as J, raw_unjson as U

ID = "C28"
LEVEL = "exploration"
CASE_TIMEOUT = 60.0
RULE = ("Cases = (function, point, order, options, precision 30..300, API). Functions are generated from a grammar with "
        "known derivatives: products of 1..3 atoms over 1..3 variables, atoms = polynomial with small dyadic "
        "coefficients, exp(a.x), sin(a.x+b), cos(a.x+b) (|a| from 1/16 to 8), univariate 1/(x-c), 1/(x^2+c^2) with the "
        "point at distance >= 1 from every pole, and sin(a x)/x at 0 with singular=True. Points: Python int/float/"
        "complex, mpf (small dyadic up to 127, p-bit non-dyadic below 8, tiny, zero) and mpc; for relative=True |x| = 2^(+-20..150) and the function is an exactly rescaled g(x/2^e). "
        "Orders 0..10 (partial: order tuples of total <= 6). Options per the diff docstring: h (2^-4 down to "
        "2^-(p+addprec)), direction (+-1, complex), singular, addprec, relative, method='quad' with radius. The "
        "function handed to mpmath is a closure over the repository's own exp/sin/cos and arithmetic. "
        "Oracle: closed forms (exact polynomial differentiation, a^n exp, the 4-cycle of sin/cos, (-1)^n n!/(x-c)^(n+1), "
        "Leibniz rule with exact binomials over multi-indices) evaluated by the frozen reference package mpref at "
        ">= 3p+100 bits.  Tolerance: |got - exact| <= 2^(10-p) * S + T where S = max(|exact|, natural magnitude = the "
        "same closed form with absolute values of every term) and T is the mathematically known truncation/rounding "
        "allowance of the documented finite-difference method (one-sided or singular or diffs' shifted stencil: "
        "(n+1)|h| mag_{n+1}; central: n h^2 mag_{n+2}; evaluation at (n+1) times the precision: 2^-workprec 2^n mag_0/|h|^n), "
        "negligible for the default options. With a user supplied h the reference is the exact difference quotient "
        "of that step (the docstring's meaning of h).  method='quad': S also includes 2^-14 of the Cauchy bound n! "
        "max|f| / r^n of the documented contour integral (the integrand is summed with 10 guard bits) and the absolute "
        "floor n!/1024, because quadts stops on an absolute error estimate (quadrature accuracy is not this property's "
        "business). diffun(f,n)(x) must equal diff(f,x,n) bit for bit; diffs "
        "yields f^(k)(x) for k = 0..n; taylor yields f^(k)(x)/k! (default chop: absolute 2^(10-p) added). "
        "difference(s,n) against the exact sum (-1)^(n-k) C(n,k) s_k over Fractions (bit-exact when every partial "
        "sum is representable, else 2^(10-p) sum C(n,k)|s_k|). differint(t^k, x, n, x0=0) for real orders n in [-3, 3.5] "
        "against Gamma(k+1)/Gamma(k-n+1) x^(k-n) by mpref. pade(a, L, M) with a = rounded Taylor coefficients of "
        "rational functions, exp, log(1+x)/x, sqrt(1+x), small integers: with exact Fraction arithmetic on the "
        "returned values q[0] == 1, |sum_j q_j a_{k-j} - p_k| <= 2^(10-p) sum_j |q_j a_{k-j}| for k <= L and "
        "|sum_j q_j a_{k-j}| <= 2^(10-p) max_k sum_j |q_j a_{k-j}| for L < k <= L+M, and q within 2^(10-p) cond(A) of "
        "the exact rational solution; tables with cond(A) 2^(10-p) > 1/8 are inconclusive, exactly singular tables "
        "may raise ZeroDivisionError. mp.prec must be unchanged after every call. Non-trivial = order >= 2, or a "
        "non-polynomial function, or a partial derivative (difference: n >= 2; differint: non-integer order; pade: M >= 1).")
ASSUMPTIONS = ["mpref (mpmath 1.3.0) exp, sin, cos, gamma and arithmetic at >= 3p+100 bits are accurate to 2p bits",
               "CPython Fraction / integer arithmetic",
               "the truncation allowance uses the step the docstring describes: h = 2^-(prec+addprec), times 2^mag(x) "
               "for relative=True, and a working precision of (prec+2 addprec)(n+1) bits"]
TECHNIQUE = "property-based testing (Hypothesis) against symbolic closed forms and exact rational arithmetic"

PRECS = [30, 31, 32, 33, 40, 53, 53, 53, 64, 65, 80, 100, 113, 128, 150, 200, 256, 300]


def shards(tier):
    m = 1 if tier == "quick" else 30
    return [("diff", 600 * m)] * 5 + [("quad", 200 * m)] * 2 + [("partial", 300 * m)] * 2 + \
           [("diffs", 250 * m)] * 3 + [("difference", 1200 * m)] + [("differint", 80 * m)] + [("pade", 700 * m)] * 2


# ------------------------------------------------------------------------------------------------ generators

def _prec(d, hi=300):
    if d.int(0, 3) == 0:
        return d.int(30, hi)
    return min(hi, d.choice(PRECS))


def _coef(d, small=False):
    """nonzero dyadic rational [num, sh] = num / 2^sh"""
    k = d.weighted([(5, "int"), (4, "dy"), (1, "big")])
    s = d.choice([-1, 1])
    if k == "int" or small:
        return [s * d.int(1, 6), 0]
    if k == "dy":
        return [s * d.int(1, 31), d.int(1, 4)]
    return [s * d.int(1, 1000), d.int(0, 6)]


def _rate(d):
    """nonzero rate a with 1/16 <= |a| <= 8"""
    s = d.choice([-1, 1])
    return d.weighted([(4, [s, 0]), (3, [s * d.int(2, 8), 0]), (3, [s * d.int(1, 15), d.int(1, 3)]),
                       (2, [s * d.int(1, 3), d.int(3, 4)])])


def _lin(d, nv):
    a = [_rate(d) for _ in range(nv)]
    if nv > 1 and d.int(0, 4) == 0:
        a[d.int(0, nv - 1)] = [0, 0]
        if all(c[0] == 0 for c in a):
            a[0] = [1, 0]
    return a


def _poly(d, nv, maxdeg):
    nt = d.int(1, 5)
    terms = {}
    for _ in range(nt):
        if nv == 1:
            e = (d.int(0, maxdeg),)
        else:
            e = tuple(d.int(0, max(1, maxdeg // 2)) for _ in range(nv))
        terms[e] = _coef(d)
    return {"t": "poly", "terms": [[list(e), c[0], c[1]] for e, c in sorted(terms.items())]}


def _atom(d, nv, kind):
    if kind == "poly":
        return _poly(d, nv, 12 if nv == 1 else 8)
    if kind == "exp":
        return {"t": "exp", "a": _lin(d, nv)}
    return {"t": kind, "a": _lin(d, nv), "b": d.weighted([(2, [0, 0]), (3, [d.int(-20, 20), d.int(0, 3)])])}


def _fam(atoms):
    ts = [a["t"] for a in atoms]
    if len(ts) > 1:
        return "prod"
    return "poly" if ts[0] == "poly" else ("rat" if ts[0].startswith("rat") else "entire")


SHAPES1 = [(5, ["poly"]), (3, ["exp"]), (3, ["sin"]), (2, ["cos"]), (3, ["poly", "exp"]), (3, ["exp", "sin"]),
           (2, ["exp", "cos"]), (2, ["poly", "sin"]), (1, ["sin", "cos"]), (1, ["poly", "exp", "sin"]),
           (3, ["rat1"]), (3, ["rat2"]), (1, ["rat1", "exp"]), (1, ["poly", "rat2"])]
SHAPESN = [(4, ["poly"]), (3, ["exp"]), (2, ["sin"]), (1, ["cos"]), (3, ["poly", "exp"]), (2, ["exp", "sin"]),
           (2, ["poly", "cos"]), (1, ["poly", "exp", "sin"])]


def _mant(d, p):
    """(sign, man, exp) of a real number with |x| <= 127"""
    k = d.weighted([(3, "dy"), (5, "nd"), (1, "zero"), (1, "tiny"), (1, "one")])
    if k == "zero":
        return exact.fzero, k
    if k == "one":
        return exact.mk(d.int(0, 1), 1, d.int(-1, 1)), k
    if k == "dy":
        return exact.mk(d.int(0, 1), d.int(1, 127), -d.int(0, 4)), k
    if k == "tiny":
        return exact.mk(d.int(0, 1), d.int(1, 255), -d.int(20, 60)), k
    m = (1 << (p - 1)) | d.bits(p - 1) | 1
    return exact.mk(d.int(0, 1), m, -p + d.int(-5, 3)), k


def _point(d, p, cplx=None):
    """evaluation point with |Re|, |Im| <= 127 (mostly <= 8)"""
    if cplx is None:
        cplx = d.int(0, 3) == 0
    ty = d.weighted([(6, "mp"), (1, "int"), (1, "float")])
    if not cplx:
        if ty == "int":
            return {"k": "int", "v": d.int(-8, 8)}
        if ty == "float":
            return {"k": "float", "v": float(d.int(-8000, 8000) / 1000.0).hex()}
        return {"k": "mpf", "v": J(_mant(d, p)[0])}
    if ty == "mp" or ty == "int":
        return {"k": "mpc", "re": J(_mant(d, p)[0]), "im": J(_mant(d, p)[0])}
    return {"k": "complex", "re": float(d.int(-8000, 8000) / 1000.0).hex(), "im": float(d.int(-8000, 8000) / 1000.0).hex()}


def _pt_fraction(pt):
    """(re, im) of a point as Fractions"""
    k = pt["k"]
    if k == "int":
        return Fraction(pt["v"]), Fraction(0)
    if k == "float":
        return Fraction(float.fromhex(pt["v"])), Fraction(0)
    if k == "mpf":
        return exact.to_fraction(U(pt["v"])), Fraction(0)
    if k == "mpc":
        return exact.to_fraction(U(pt["re"])), exact.to_fraction(U(pt["im"]))
    return Fraction(float.fromhex(pt["re"])), Fraction(float.fromhex(pt["im"]))


def _fun1(d, pt, rational=True, shapes=None):
    """univariate function; rational atoms get their pole placed at distance >= 1 from the point pt"""
    shape = d.weighted([(w, s) for w, s in (shapes or SHAPES1) if rational or not any(t.startswith("rat") for t in s)])
    re, im = _pt_fraction(pt)
    atoms = []
    for t in shape:
        if t == "rat1":
            # real pole c with |Re x - c| >= 1
            base = int(re // 1)
            c = base + 1 + d.int(1, 5) if d.bool() else base - d.int(1, 5)
            atoms.append({"t": "rat1", "c": [2 * c + d.int(0, 1) * (1 if c > base else -1), 1]})
        elif t == "rat2":
            # poles +-i c with c >= |Im x| + 1
            c = int(abs(im) // 1) + 1 + d.int(1, 4)
            atoms.append({"t": "rat2", "c": [2 * c + d.int(0, 1), 1]})
        else:
            atoms.append(_atom(d, 1, t))
    return {"nv": 1, "atoms": atoms}


def _order(d, hi=10):
    return d.weighted([(2, 0), (4, 1), (4, 2), (3, 3), (3, 4), (2, 5), (2, 6), (1, 7), (2, 8), (1, 9), (2, 10)]) if hi >= 10 \
        else d.int(0, hi)


DIRS = [1, -1, 1, -1, [0, 1], [0, -1], [1, 1], 2, -3, [1, -2], [-3, 1]]


def _opts_step(d, p, n):
    """option combination for method='step' (only what the docstring supports)"""
    o = {}
    k = d.weighted([(5, "none"), (4, "dir"), (4, "h"), (3, "sing"), (3, "addprec"), (3, "h+dir"), (2, "sing+dir"),
                    (2, "addprec+dir")])
    if "dir" in k:
        o["direction"] = d.choice(DIRS)
    if "addprec" in k:
        o["addprec"] = d.choice([0, 3, 5, 10, 20, 40, 100])
    if k.startswith("sing"):
        o["singular"] = True
        if d.int(0, 2) == 0:
            o["addprec"] = d.choice([5, 20, 30])
    if k.startswith("h"):
        # dyadic step m * 2^-j between 2^-(p+10) and about 2^-5 (n |h| <= 0.32)
        j = d.weighted([(2, d.int(5, 12)), (2, d.int(12, p + 8)), (1, p + 8)])
        m = d.choice([1, 1, 3, 5])
        j += m.bit_length() - 1
        o["h"] = {"k": "mpf", "v": J(exact.mk(0, m, -j))} if d.bool() or j > 1000 else {"k": "float", "v": float(m * 2.0 ** -j).hex()}
        if d.int(0, 4) == 0:
            o["method"] = "step"
    return o, k


def gen_case(d, shard, tier):
    if shard == "diff":
        p = _prec(d)
        api = d.weighted([(3, "diff"), (1, "diffun")])
        n = _order(d)
        if d.int(0, 7) == 0:
            return _gen_relative(d, p, n, api)
        if d.int(0, 49) == 0:
            # removable singularity: sin(a x)/x at 0 with singular=True
            o = {"singular": True}
            if d.bool():
                o["direction"] = d.choice(DIRS)
            x = d.choice([{"k": "int", "v": 0}, {"k": "mpf", "v": J(exact.fzero)}, {"k": "float", "v": (0.0).hex()}])
            return {"kind": "diff", "p": p, "api": api, "f": {"nv": 1, "atoms": [{"t": "sincq", "a": _rate(d)}]}, "x": [x],
                    "n": [n], "opts": o, "cls": "diff:sincq:sing"}
        x = _point(d, p)
        f = _fun1(d, x)
        o, k = _opts_step(d, p, n)
        return {"kind": "diff", "p": p, "api": api, "f": f, "x": [x], "n": [n], "opts": o,
                "cls": "diff:%s:%s" % (_fam(f["atoms"]), k.split("+")[0])}
    if shard == "quad":
        p = d.weighted([(5, _prec(d, 128)), (1, _prec(d, 300))])
        x = _point(d, p)
        f = _fun1(d, x)
        n = d.weighted([(1, 0), (3, 1), (3, 2), (2, 3), (2, 4), (1, 6), (1, 8), (1, 10)])
        o = {"method": "quad"}
        rat = any(a["t"].startswith("rat") for a in f["atoms"])
        if d.bool():
            r = d.choice([[1, 3], [1, 2], [1, 1]] if rat else [[1, 3], [1, 2], [1, 1], [1, 0], [3, 1], [2, 0]])
            o["radius"] = r
            o["radius_float"] = d.bool()
        api = d.weighted([(4, "diff"), (1, "diffun")])
        return {"kind": "diff", "p": p, "api": api, "f": f, "x": [x], "n": [n], "opts": o,
                "cls": "quad:%s" % _fam(f["atoms"])}
    if shard == "partial":
        nv = d.weighted([(5, 2), (2, 3), (1, 1)])
        p = _prec(d, 300 if nv < 3 else 128)
        shape = d.weighted(SHAPESN)
        f = {"nv": nv, "atoms": [_atom(d, nv, t) for t in shape]}
        cplx = d.int(0, 4) == 0
        xs = [_point(d, p, cplx and d.bool()) for _ in range(nv)]
        tot = d.int(0, 6 if nv < 3 else 5)
        ns = [0] * nv
        for _ in range(tot):
            ns[d.int(0, nv - 1)] += 1
        o = {}
        k = d.weighted([(6, "none"), (2, "dir"), (2, "addprec"), (1, "sing")])
        if k == "dir":
            o["direction"] = d.choice(DIRS)
        elif k == "addprec":
            o["addprec"] = d.choice([5, 20, 40])
        elif k == "sing":
            o["singular"] = True
        return {"kind": "diff", "p": p, "api": "diff", "partial": True, "seq": d.choice(["tuple", "list"]), "f": f, "x": xs,
                "n": ns, "opts": o, "cls": "partial:%d:%s" % (nv, "opts" if o else "none")}
    if shard == "diffs":
        p = _prec(d)
        api = d.weighted([(3, "diffs"), (2, "diffs_inf"), (3, "taylor"), (1, "taylor_nochop")])
        x = _point(d, p)
        n = d.weighted([(1, 0), (1, 1), (2, 2), (2, 3), (2, 5), (2, 7), (1, 10)])
        k = d.weighted([(6, "none"), (2, "dir"), (2, "addprec"), (1, "sing"), (2, "quad")])
        f = _fun1(d, x)
        o = {}
        if k == "dir":
            o["direction"] = d.choice(DIRS)
        elif k == "addprec":
            o["addprec"] = d.choice([5, 20, 40])
        elif k == "sing":
            o["singular"] = True
            if d.bool():
                # Taylor series at a removable singularity
                x = {"k": "int", "v": 0}
                f = {"nv": 1, "atoms": [{"t": "sincq", "a": _rate(d)}]}
        elif k == "quad":
            o["method"] = "quad"
            n = min(n, 4)
            p = min(p, 128)
            x = _point(d, p)
            f = _fun1(d, x)
        return {"kind": "diffs", "p": p, "api": api, "f": f, "x": [x], "n": [n], "opts": o,
                "cls": "%s:%s" % (api, k)}
    if shard == "difference":
        p = _prec(d)
        ty = d.weighted([(3, "int"), (3, "mpf_int"), (3, "mpf"), (2, "mpc"), (1, "mixed")])
        ln = d.int(1, 24)
        n = d.int(0, ln - 1) if d.int(0, 5) else ln - 1
        s = []
        for i in range(ln):
            t = ty if ty != "mixed" else d.choice(["int", "mpf", "mpc"])
            if t == "int":
                s.append(["int", str(d.int(-10 ** 6, 10 ** 6) if d.bool() else d.int(-9, 9))])
            elif t == "mpf_int":
                s.append(["mpf", J(exact.mk(d.int(0, 1), d.int(0, 1 << d.int(1, 20)), 0))])
            elif t == "mpf":
                s.append(["mpf", J(_mant(d, p)[0])] if d.int(0, 3) else ["mpf", J(gen.mpf_finite(d, p, p, huge=False))])
            else:
                s.append(["mpc", J(_mant(d, p)[0]), J(_mant(d, p)[0])])
        nty = d.weighted([(6, "int"), (1, "float"), (1, "mpf")])
        return {"kind": "difference", "p": p, "s": s, "n": n, "nty": nty, "cls": "difference:%s" % ty}
    if shard == "differint":
        p = d.choice([30, 40, 53, 53, 64, 80, 100, 120])
        kk = d.weighted([(4, [d.int(0, 5), 0]), (1, [2 * d.int(0, 4) + 1, 1])])
        m = ((1 << (p - 1)) | d.bits(p - 1)) if d.bool() else d.int(1, 40)
        x = J(exact.mk(0, m, -m.bit_length() + d.int(-1, 3)))          # 1/4 <= x < 8
        n = d.weighted([(3, [d.int(-3, 3), 0]), (4, [2 * d.int(-3, 3) + 1, 1]), (3, [d.int(-12, 14), 2])])
        nty = d.choice(["mpf", "float"]) if n[1] else d.choice(["int", "mpf", "float"])
        return {"kind": "differint", "p": p, "k": kk, "x": x, "n": n, "nty": nty,
                "cls": "differint:%s:%s" % ("int" if n[1] == 0 else "frac", "neg" if n[0] < 0 else "pos")}
    if shard == "pade":
        p = _prec(d)
        L, M = d.int(0, 6), d.int(0, 6)
        if d.int(0, 9) == 0:
            L, M = d.choice([(0, 0), (1, 0), (0, 1), (3, 0), (0, 3)])
        extra = d.choice([0, 0, 1, 3])
        fam = d.weighted([(5, "rational"), (3, "exp"), (2, "log"), (2, "sqrt"), (2, "ints"), (1, "geom")])
        c = {"kind": "pade", "p": p, "L": L, "M": M, "extra": extra, "fam": fam, "cls": "pade:%s" % fam}
        if fam == "rational":
            dn, dd = d.int(0, 3), d.int(1, 4)
            c["num"] = [d.int(-5, 5) for _ in range(dn + 1)]
            c["den"] = [d.choice([1, -1, 2, 3])] + [d.int(-5, 5) for _ in range(dd)]
        elif fam in ("exp", "geom"):
            c["c"] = _coef(d)
        elif fam == "sqrt":
            c["c"] = _coef(d, small=True)
        elif fam == "ints":
            c["a"] = [d.int(-9, 9) for _ in range(L + M + 1 + extra)]
        return c
    raise ValueError(shard)


def _gen_relative(d, p, n, api):
    """relative=True: |x| = 2^(+-20..150) * [1, 2); the function is g(x / 2^e) with g from the ordinary grammar, so that
    the problem is an exactly rescaled copy of an ordinary one (all coefficients stay dyadic)"""
    e = d.choice([-1, 1]) * d.int(20, 150)
    m = d.weighted([(2, 1), (2, d.int(1, 255) | 1), (3, (1 << (p - 1)) | d.bits(p - 1) | 1)])
    raw = exact.mk(d.int(0, 1), m, e - m.bit_length() + 1)
    x = {"k": "mpf", "v": J(raw)}
    shape = d.weighted([(4, ["poly"]), (3, ["exp"]), (2, ["sin"]), (2, ["poly", "exp"]), (1, ["exp", "cos"])])
    atoms = []
    for t in shape:
        if t == "poly":
            a = _poly(d, 1, 6)
            a["terms"] = [[ex, num, sh + e * ex[0]] for ex, num, sh in a["terms"]]
        else:
            a = _atom(d, 1, t)
            a["a"] = [[a["a"][0][0], a["a"][0][1] + e]]
        atoms.append(a)
    o = {"relative": True}
    if d.int(0, 3) == 0:
        o["addprec"] = d.choice([5, 20, 40])
    return {"kind": "diff", "p": p, "api": api, "f": {"nv": 1, "atoms": atoms}, "x": [x], "n": [n], "opts": o,
            "cls": "diff:relative:%s" % ("big" if e > 0 else "tiny")}


# ------------------------------------------------------------------------------------------------ symbolic oracle

def _cq(C, c):
    return C.ldexp(C.mpf(c[0]), -c[1])


def _ff(e, n):
    r = 1
    for j in range(n):
        r *= e - j
    return r


def _atom_deriv(C, atom, nv, X, mag, box=None):
    """multi-index derivative nv of one atom at X (list of context numbers); mag: the same closed form with absolute
    values of all terms (natural magnitude); mag with box = [r_i]: a bound of that magnitude on the whole box
    |z_i - X_i| <= r_i (r_i tiny): polynomials are monotone in |x_i|, the other atoms change by a factor < 2"""
    t = atom["t"]
    if box is not None:
        if t == "poly":
            return _atom_deriv(C, atom, nv, [abs(x) + r for x, r in zip(X, box)], True)
        return 2 * _atom_deriv(C, atom, nv, X, True)
    if t == "poly":
        s = C.zero
        for exps, num, sh in atom["terms"]:
            f = 1
            for e, n in zip(exps, nv):
                f *= _ff(e, n) if n <= e else 0
            if not f:
                continue
            term = C.ldexp(C.mpf(num * f), -sh)
            for e, n, x in zip(exps, nv, X):
                if e - n:
                    term = term * (abs(x) if mag else x) ** (e - n)
            s = s + (abs(term) if mag else term)
        return s
    N = sum(nv)
    if t in ("exp", "sin", "cos"):
        coef = C.one
        Lx = C.zero
        for a, n, x in zip(atom["a"], nv, X):
            aq = _cq(C, a)
            if n:
                coef = coef * aq ** n
            Lx = Lx + aq * x
        if t == "exp":
            v = coef * C.exp(Lx)
            return abs(v) if mag else v
        Lx = Lx + _cq(C, atom["b"])
        sn, cs = C.sin(Lx), C.cos(Lx)
        if mag:
            return abs(coef) * (abs(sn) + abs(cs))
        cyc = [sn, cs, -sn, -cs] if t == "sin" else [cs, -sn, -cs, sn]
        return coef * cyc[N % 4]
    n = nv[0]
    x = X[0]
    if t == "rat1":
        dd = x - _cq(C, atom["c"])
        v = C.mpf((-1) ** n * factorial(n)) / dd ** (n + 1)
        return abs(v) if mag else v
    if t == "rat2":
        c = _cq(C, atom["c"])
        ic = C.mpc(0, c)
        u, w = (x - ic) ** (-(n + 1)), (x + ic) ** (-(n + 1))
        k = C.mpf((-1) ** n * factorial(n))
        if mag:
            return abs(k) * (abs(u) + abs(w)) / (2 * abs(c))
        v = k * (u - w) / (2 * ic)
        if not isinstance(x, C.mpc):
            v = v.real
        return v
    if t == "sincq":
        # sin(a x)/x = sum_j (-1)^j a^(2j+1) x^(2j) / (2j+1)!  -- only ever evaluated at x = 0
        a = _cq(C, atom["a"])
        if mag:
            return abs(a) ** (n + 1) / (n + 1)
        if n & 1:
            return C.zero
        return (-1) ** (n // 2) * a ** (n + 1) / (n + 1)
    raise ValueError(t)


def _prod_deriv(C, atoms, nv, X, mag, cache, i=0, box=None):
    """Leibniz rule over multi-indices with exact binomial coefficients (cache is per (X, box))"""
    nv = tuple(nv)
    key = (i, nv, mag)
    if key in cache:
        return cache[key]
    if i == len(atoms) - 1:
        v = _atom_deriv(C, atoms[i], nv, X, mag, box)
    else:
        v = C.zero
        for kv in itertools.product(*[range(n + 1) for n in nv]):
            b = 1
            for n, k in zip(nv, kv):
                b *= comb(n, k)
            akey = (i, kv, mag, "a")
            if akey not in cache:
                cache[akey] = _atom_deriv(C, atoms[i], kv, X, mag, box)
            rest = _prod_deriv(C, atoms, tuple(n - k for n, k in zip(nv, kv)), X, mag, cache, i + 1, box)
            v = v + b * cache[akey] * rest
    cache[key] = v
    return v


def _value(C, atoms, X):
    """f(X) in context C (used for the reference difference quotient and the Cauchy bound)"""
    v = C.one
    for a in atoms:
        if a["t"] == "sincq":
            v = v * C.sin(_cq(C, a["a"]) * X[0]) / X[0]
        else:
            v = v * _atom_deriv(C, a, (0,) * len(X), X, False)
    return v


def _build(mp, f):
    """the callable handed to the code under test, built from the repository's own functions"""
    nv = f["nv"]
    parts = []
    for a in f["atoms"]:
        t = a["t"]
        if t == "poly":
            terms = [(tuple(e), mp.ldexp(mp.mpf(num), -sh)) for e, num, sh in a["terms"]]

            def g(*xs, terms=terms):
                s = 0
                for exps, c in terms:
                    term = c
                    for e, x in zip(exps, xs):
                        if e:
                            term = term * x ** e
                    s = s + term
                return s
        elif t in ("exp", "sin", "cos"):
            aa = [mp.ldexp(mp.mpf(c[0]), -c[1]) for c in a["a"]]
            b = mp.ldexp(mp.mpf(a["b"][0]), -a["b"][1]) if "b" in a else 0
            fn = getattr(mp, t)

            def g(*xs, aa=aa, b=b, fn=fn):
                L = b
                for q, x in zip(aa, xs):
                    L = L + q * x
                return fn(L)
        elif t == "rat1":
            c = mp.ldexp(mp.mpf(a["c"][0]), -a["c"][1])

            def g(x, c=c):
                return 1 / (x - c)
        elif t == "rat2":
            c2 = mp.ldexp(mp.mpf(a["c"][0]), -a["c"][1]) ** 2

            def g(x, c2=c2):
                return 1 / (x * x + c2)
        elif t == "sincq":
            q = mp.ldexp(mp.mpf(a["a"][0]), -a["a"][1])

            def g(x, q=q):
                return mp.sin(q * x) / x
        else:
            raise ValueError(t)
        parts.append(g)
    def fun(*xs):
        xs = [mp.convert(x) for x in xs]
        v = parts[0](*xs)
        for g in parts[1:]:
            v = v * g(*xs)
        return v
    return fun


def _mk_point(mp, pt):
    k = pt["k"]
    if k == "int":
        return pt["v"]
    if k == "float":
        return float.fromhex(pt["v"])
    if k == "mpf":
        return mp.make_mpf(U(pt["v"]))
    if k == "mpc":
        return mp.make_mpc((U(pt["re"]), U(pt["im"])))
    return complex(float.fromhex(pt["re"]), float.fromhex(pt["im"]))


def _ref_point(mr, pt):
    re, im = _pt_fraction(pt)
    x = mr.mpf(re.numerator) / re.denominator
    if pt["k"] in ("mpc", "complex"):
        return mr.mpc(x, mr.mpf(im.numerator) / im.denominator)
    return x


def _to_ref(mr, v):
    if hasattr(v, "_mpf_"):
        return mr.make_mpf(tuple(v._mpf_))
    if hasattr(v, "_mpc_"):
        return mr.make_mpc((tuple(v._mpc_[0]), tuple(v._mpc_[1])))
    return mr.mpmathify(v)


def _dir(o):
    dr = o.get("direction", 0)
    return complex(dr[0], dr[1]) if isinstance(dr, list) else dr


def _call_opts(mp, o):
    kw = {}
    for k in ("method", "singular", "addprec", "relative"):
        if k in o:
            kw[k] = o[k]
    if "direction" in o:
        kw["direction"] = _dir(o)
    if "h" in o:
        kw["h"] = _mk_point(mp, o["h"])
    if "radius" in o:
        r = o["radius"]
        kw["radius"] = (r[0] / 2.0 ** r[1]) if o.get("radius_float") else mp.ldexp(mp.mpf(r[0]), -r[1])
    return kw


def _fmt_fun(f):
    out = []
    for a in f["atoms"]:
        t = a["t"]
        if t == "poly":
            out.append("(" + " + ".join("%d/2^%d*%s" % (num, sh, "*".join("x%d^%d" % (i, e) for i, e in enumerate(exps)))
                                        for exps, num, sh in a["terms"]) + ")")
        elif t in ("exp", "sin", "cos"):
            out.append("%s(%s%s)" % (t, " + ".join("%d/2^%d*x%d" % (c[0], c[1], i) for i, c in enumerate(a["a"])),
                                     " + %d/2^%d" % tuple(a["b"]) if "b" in a else ""))
        elif t == "rat1":
            out.append("1/(x0 - %d/2)" % a["c"][0])
        elif t == "rat2":
            out.append("1/(x0^2 + (%d/2)^2)" % a["c"][0])
        else:
            out.append("sin(%d/2^%d*x0)/x0" % tuple(a["a"]))
    return " * ".join(out)


# ------------------------------------------------------------------------------------------------ checks

class _Oracle:
    """exact derivative, natural magnitude and method allowances for one (function, point, options, precision)"""

    def __init__(self, mr, c, extra_prec=0):
        self.mr = mr
        self.c = c
        self.p = c["p"]
        self.atoms = c["f"]["atoms"]
        self.o = c["opts"]
        mr.prec = 3 * self.p + 120 + extra_prec
        self.X = [_ref_point(mr, pt) for pt in c["x"]]
        self.cache = {}
        self.boxcache = {}

    def deriv(self, nv):
        return _prod_deriv(self.mr, self.atoms, nv, self.X, False, self.cache)

    def mag(self, nv):
        return _prod_deriv(self.mr, self.atoms, nv, self.X, True, self.cache)

    def step_h(self):
        """the documented default step: 2^-(prec+addprec) (times 2^mag(x) with relative=True)"""
        mr = self.mr
        ap = self.o.get("addprec", 10)
        h = mr.ldexp(mr.one, -self.p - ap)
        if self.o.get("relative"):
            h = mr.ldexp(h, int(mr.mag(self.X[0])))
        return h

    def magbox(self, nv, box):
        key = tuple(str(r) for r in box)
        cache = self.boxcache.setdefault(key, {})
        return _prod_deriv(self.mr, self.atoms, nv, self.X, True, cache, 0, box)

    def reaches(self, nv, shifted=0, h=None):
        """how far the documented stencil of each differentiated variable extends from the point"""
        if h is None:
            h = self.step_h()
        h = abs(h)
        sing = 1 if self.o.get("singular") else 0
        return [(n + shifted + sing) * h if (n or sing) else 0 * h for n in nv], h

    def allowance(self, nv, shifted=0, h=None):
        """truncation + evaluation-rounding allowance of the documented finite differences of orders nv.  Each
        difference quotient is an average of the derivative over the convex hull of its stencil (Hermite-Genocchi),
        so by the mean value theorem it differs from the derivative at the point by at most reach * sup |next
        derivative| for one-sided / perturbed (singular) / shifted (diffs) stencils and reach^2 sup |second next
        derivative| for the symmetric one; the suprema over the box of all stencils are bounded by magbox."""
        mr = self.mr
        ap = self.o.get("addprec", 10)
        box, h = self.reaches(nv, shifted, h)
        onesided = bool(_dir(self.o)) or self.o.get("singular") or shifted
        t = mr.zero
        active = [i for i, n in enumerate(nv) if n or (self.o.get("singular") and len(nv) == 1)]
        for i in active:
            up = list(nv)
            if onesided:
                up[i] += 1
                t = t + 2 * box[i] * self.magbox(up, box)
            elif nv[i]:
                up[i] += 2
                t = t + 2 * box[i] ** 2 * self.magbox(up, box)
        # rounding: a level of order n running at precision q gets its function values with q' = (q + 2 addprec)(n+1)
        # bits and divides their difference by norm^n, which leaves an error G 2^(-q - 2 addprec - addprec n) (times
        # 2^n one-sided), G = size of those values.  For partial derivatives the values of a level are the (rounded)
        # results of the level below, which runs at precision q'; the last differentiated variable is the outermost
        # level.  Every level contributes, its error amplified by the levels above it.
        e = -self.p
        order = [i for i in reversed(range(len(nv))) if nv[i]]
        inner = list(nv)
        for i in order:
            n = nv[i]
            e -= 2 * ap + ap * n
            if _dir(self.o):
                e += n
            if self.o.get("relative"):
                e -= n * int(mr.mag(self.X[0]))       # norm^n is 2^(n mag(x)) times larger
            if shifted:
                e += n                                 # (diffs: wider stencil, binomial sum up to 2^n larger)
            inner[i] = 0
            t = t + mr.ldexp(self.magbox(inner, box), e + 3)
        return t


def _cmp(res, bucket, what, got, ex, scale, extra, p, mr, metric=None):
    if not mr.isfinite(got):
        res.bad(bucket, "%s = %s, expected %s" % (what, mr.nstr(got, 20), mr.nstr(ex, 20)))
        return False
    err = abs(got - ex)
    tol = mr.ldexp(scale, 10 - p) + extra
    if metric and tol and err <= tol:
        res.metrics[metric] = max(res.metrics.get(metric, 0.0), float(err / tol))
    if err > tol:
        res.bad(bucket, "%s = %s, expected %s: error %s is %s times the allowed 2^(10-p)*%s + %s" % (
            what, mr.nstr(got, 25), mr.nstr(ex, 25), mr.nstr(err, 5), mr.nstr(err / tol if tol else mr.inf, 5),
            mr.nstr(scale, 5), mr.nstr(extra, 3)))
        return False
    return True


def _describe(c):
    def pt(q):
        re, im = _pt_fraction(q)
        s = "%s(%r)" % (q["k"], float(re)) if not im else "%s(%r)" % (q["k"], complex(float(re), float(im)))
        return s
    o = dict(c["opts"])
    if "h" in o:
        o["h"] = float(_pt_fraction(o["h"])[0])
    if "radius" in o:
        o["radius"] = o["radius"][0] / 2.0 ** o["radius"][1]
    return "prec=%d f=%s x=%s n=%s opts=%s" % (c["p"], _fmt_fun(c["f"]), [pt(q) for q in c["x"]], c["n"], o)


def _cauchy(mr, atoms, x, n, r):
    """n! max|f| / r^n on the circle |z - x| = r (64 samples, 50 % margin)"""
    old = mr.prec
    mr.prec = 80
    try:
        m = mr.zero
        for k in range(64):
            z = x + r * mr.expjpi(mr.mpf(k) / 32)
            m = max(m, abs(_value(mr, atoms, [z])))
        return 1.5 * m * factorial(n) / r ** n
    finally:
        mr.prec = old


def _check_diff(c, res, mp, mr):
    p = c["p"]
    o = c["opts"]
    f = c["f"]
    partial = c.get("partial", False)
    nv = list(c["n"])
    method = o.get("method", "step")
    fun = _build(mp, f)
    xs = [_mk_point(mp, q) for q in c["x"]]
    kw = _call_opts(mp, o)
    poly_only = all(a["t"] == "poly" for a in f["atoms"])
    res.nontrivial = partial or sum(nv) >= 2 or not poly_only
    desc = _describe(c)
    if partial:
        xa = tuple(xs) if c["seq"] == "tuple" else list(xs)
        na = tuple(nv) if c["seq"] == "tuple" else list(nv)
        got = mp.diff(fun, xa, na, **kw)
        api = "diff"
    elif c["api"] == "diffun":
        g = mp.diffun(fun, nv[0], **kw)
        shortcut = nv[0] == 0 and (method == "quad" or o.get("singular"))
        try:
            got = g(xs[0])
        except ZeroDivisionError:
            if shortcut and f["atoms"][0]["t"] == "sincq":
                mp.prec = p
                res.bad("diffun:order0:singular", "diffun(f, 0, singular=True)(0) evaluates f at the singular point itself "
                        "(ZeroDivisionError) whereas diff(f, 0, 0, singular=True) = %s; %s" % (
                            mp.nstr(mp.diff(fun, xs[0], 0, **kw), 15), desc))
                return
            raise
        if mp.prec != p:
            res.bad("prec:leak:diffun", "mp.prec = %d after diffun call, was %d; %s" % (mp.prec, p, desc))
            mp.prec = p
        got2 = mp.diff(fun, xs[0], nv[0], **kw)
        api = "diffun"
        # (order 0: diffun documents nothing but returns f itself, which is the exact 0-th derivative)
        if not shortcut and not (type(got) is type(got2) and (got == got2 or (got != got and got2 != got2))):
            res.bad("diffun:mismatch", "diffun(f, n)(x) = %r but diff(f, x, n) = %r; %s" % (got, got2, desc))
    else:
        got = mp.diff(fun, xs[0], nv[0], **kw)
        api = "diff"
    res.n = 2 if c["api"] == "diffun" else 1
    if mp.prec != p:
        res.bad("prec:leak:%s" % api, "mp.prec = %d after the call, was %d; %s" % (mp.prec, p, desc))
        mp.prec = p
    # ---- oracle
    extra_prec = 0
    if "h" in o:
        hre, _ = _pt_fraction(o["h"])
        hbits = max(1, -(hre.numerator.bit_length() - hre.denominator.bit_length()) + 2)
        extra_prec = (nv[0] + 1) * hbits
    orc = _Oracle(mr, c, extra_prec)
    gref = _to_ref(mr, got)
    ex = orc.deriv(nv)
    scale = max(abs(ex), orc.mag(nv))
    if method == "quad":
        r = mr.mpf(o["radius"][0]) / 2 ** o["radius"][1] if "radius" in o else mr.mpf(0.25)
        cb = _cauchy(mr, f["atoms"], orc.X[0], nv[0], r)
        scale = max(scale, cb / 2 ** 14, mr.mpf(factorial(nv[0])) / 1024)
        _cmp(res, "diff:quad", "diff(method='quad') [%s]" % desc, gref, ex, scale, 0, p, mr, "quad_err/tol")
        return
    if sum(nv) == 0 and not o.get("singular"):
        # f(convert(x)): only the function's own rounding at precision p
        _cmp(res, "diff:order0", "diff(order 0) [%s]" % desc, gref, ex, scale, 0, p, mr)
        return
    if "h" in o:
        # documented meaning of h: the finite difference with exactly this step
        n = nv[0]
        h = mr.mpf(hre.numerator) / hre.denominator
        dr = _dir(o)
        x0 = orc.X[0]
        if dr:
            hh = h * mr.sign(mr.mpmathify(dr))
            pts = [x0 + k * hh for k in range(n + 1)]
            norm = hh
        else:
            pts = [x0 + k * h for k in range(-n, n + 1, 2)]
            norm = 2 * h
        q = mr.zero
        absum = mr.zero
        for k, z in enumerate(pts):
            fz = _value(mr, f["atoms"], [z])
            q = q + (-1) ** (n - k) * comb(n, k) * fz
            absum = absum + comb(n, k) * abs(fz)
        q = q / norm ** n
        ap = o.get("addprec", 10)
        workprec = (p + 2 * ap) * (n + 1)
        # rounding of the function values at the documented working precision, and of the reference itself
        rnd = (mr.ldexp(mr.one, 4 - workprec) + mr.ldexp(mr.one, 8 - mr.prec)) * absum / abs(norm) ** n if n else 0
        b = "diff:step:h" + (":direction" if dr else "")
        _cmp(res, b, "diff(h=%s) [%s] vs the exact difference quotient" % (mr.nstr(h, 5), desc), gref, q,
             max(abs(q), orc.mag(nv)), rnd, p, mr, "step_h_err/tol")
        return
    if partial:
        # nested finite differences
        allow = orc.allowance(nv)
        b = "diff:partial" + (":direction" if _dir(o) else "") + (":singular" if o.get("singular") else "")
        _cmp(res, b, "diff(partial) [%s]" % desc, gref, ex, scale, allow, p, mr, "partial_err/tol")
        return
    n = nv[0]
    allow = orc.allowance([n])
    if o.get("relative"):
        b = "diff:relative"
    elif o.get("singular"):
        b = "diff:singular"
    elif _dir(o):
        b = "diff:step:direction"
    else:
        b = "diff:step"
    _cmp(res, b, "%s [%s]" % (api, desc), gref, ex, scale, allow, p, mr, "step_err/tol")


def _check_diffs(c, res, mp, mr):
    p = c["p"]
    o = c["opts"]
    f = c["f"]
    n = c["n"][0]
    api = c["api"]
    fun = _build(mp, f)
    x = _mk_point(mp, c["x"][0])
    kw = _call_opts(mp, o)
    poly_only = all(a["t"] == "poly" for a in f["atoms"])
    res.nontrivial = n >= 2 or not poly_only
    desc = _describe(c)
    vals = []
    if api.startswith("taylor"):
        if api == "taylor_nochop":
            kw["chop"] = False
        vals = mp.taylor(fun, x, n, **kw)
        if mp.prec != p:
            res.bad("prec:leak:taylor", "mp.prec = %d after taylor, was %d; %s" % (mp.prec, p, desc))
            mp.prec = p
        if len(vals) != n + 1:
            res.bad("taylor:length", "taylor(f, x, %d) returned %d coefficients; %s" % (n, len(vals), desc))
    else:
        it = mp.diffs(fun, x, n, **kw) if api == "diffs" else itertools.islice(mp.diffs(fun, x, **kw), n + 1)
        for k, v in enumerate(it):
            vals.append(v)
            if mp.prec != p:
                res.bad("prec:leak:diffs", "mp.prec = %d after item %d of diffs, was %d; %s" % (mp.prec, k, p, desc))
                mp.prec = p
        if len(vals) != n + 1:
            res.bad("diffs:length", "diffs(f, x, %d) yielded %d items; %s" % (n, len(vals), desc))
    res.n = max(1, len(vals))
    orc = _Oracle(mr, c)
    method = o.get("method", "step")
    for k, v in enumerate(vals[:n + 1]):
        gref = _to_ref(mr, v)
        ex = orc.deriv([k])
        scale = max(abs(ex), orc.mag([k]))
        if method == "quad":
            scale = max(scale, _cauchy(mr, f["atoms"], orc.X[0], k, mr.mpf(0.25)) / 2 ** 14, mr.mpf(factorial(k)) / 1024)
            allow = mr.zero
        elif k == 0 and not o.get("singular"):
            allow = mr.zero
        elif k == 0:
            allow = orc.allowance([0])
        else:
            # diffs takes the k-th difference of the first k+1 points of a longer stencil: centre shifted by up to
            # (B - k) h with B <= max(n+1, 1.4 k + 2)
            allow = orc.allowance([k], shifted=max(n + 1, int(1.4 * k + 3)))
        tag = "%s item %d [%s]" % (api, k, desc)
        if api.startswith("taylor"):
            fk = factorial(k)
            ex, scale, allow = ex / fk, scale / fk, allow / fk
            if api == "taylor":
                allow = allow + mr.ldexp(mr.one, 10 - p)      # default chop: |d| < 100 eps becomes 0
            b = "taylor" + (":quad" if method == "quad" else "")
        else:
            b = "diffs:" + method
        if not _cmp(res, b, tag, gref, ex, scale, allow, p, mr, "diffs_err/tol"):
            break


def _check_difference(c, res, mp, mr):
    p = c["p"]
    n = c["n"]
    s = []
    fr = []
    for e in c["s"]:
        if e[0] == "int":
            s.append(int(e[1]))
            fr.append((Fraction(int(e[1])), Fraction(0)))
        elif e[0] == "mpf":
            s.append(mp.make_mpf(U(e[1])))
            fr.append((exact.to_fraction(U(e[1])), Fraction(0)))
        else:
            s.append(mp.make_mpc((U(e[1]), U(e[2]))))
            fr.append((exact.to_fraction(U(e[1])), exact.to_fraction(U(e[2]))))
    narg = n if c["nty"] == "int" else (float(n) if c["nty"] == "float" else mp.mpf(n))
    res.nontrivial = n >= 2
    got = mp.difference(s, narg)
    if mp.prec != p:
        res.bad("prec:leak:difference", "mp.prec = %d after difference, was %d" % (mp.prec, p))
        mp.prec = p
    exr = sum(((-1) ** (n - k) * comb(n, k) * fr[k][0] for k in range(n + 1)), Fraction(0))
    exi = sum(((-1) ** (n - k) * comb(n, k) * fr[k][1] for k in range(n + 1)), Fraction(0))
    mag = sum((comb(n, k) * (abs(fr[k][0]) + abs(fr[k][1])) for k in range(n + 1)), Fraction(0))
    if hasattr(got, "_mpc_"):
        gr, gi = exact.to_fraction(tuple(got._mpc_[0])), exact.to_fraction(tuple(got._mpc_[1]))
    elif hasattr(got, "_mpf_"):
        if not exact.is_finite(tuple(got._mpf_)):
            return res.bad("difference", "difference(%r, %d) = %r" % (c["s"], n, got))
        gr, gi = exact.to_fraction(tuple(got._mpf_)), Fraction(0)
    else:
        gr, gi = Fraction(got), Fraction(0)

    def fits(v):
        if v == 0:
            return True
        if v.denominator & (v.denominator - 1):
            return False
        num = abs(v.numerator)
        num >>= (num & -num).bit_length() - 1
        return num.bit_length() <= p

    # exact when every term and partial sum is representable
    exactok = True
    accr = acci = Fraction(0)
    for k in range(n + 1):
        b = (-1) ** (n - k) * comb(n, k)
        tr, ti = b * fr[k][0], b * fr[k][1]
        accr += tr
        acci += ti
        if not (fits(tr) and fits(ti) and fits(accr) and fits(acci)):
            exactok = False
            break
    what = "difference(s, %d) at prec %d, s = %s" % (n, p, [e[1:] for e in c["s"][:n + 1]])
    err = max(abs(gr - exr), abs(gi - exi))
    if exactok:
        res.cls += ":exact"
        if err != 0:
            res.bad("difference:exact", "%s = %r, exact (representable) value %s%s" % (what, got, exr, " + %s j" % exi if exi else ""))
        return
    if err > mag * Fraction(1, 2 ** (p - 10)):
        res.bad("difference", "%s = %r, exact %s (error %.3g, allowed 2^(10-p) * %.3g)" % (what, got, _fl(exr), _fl(err), _fl(mag)))


def _check_differint(c, res, mp, mr):
    p = c["p"]
    k = c["k"]
    nn = c["n"]
    x = mp.make_mpf(U(c["x"]))
    kq = k[0] if k[1] == 0 else mp.ldexp(mp.mpf(k[0]), -k[1])
    nq = Fraction(nn[0], 2 ** nn[1])
    if c["nty"] == "int":
        narg = int(nq)
    elif c["nty"] == "float":
        narg = float(nq)
    else:
        narg = mp.ldexp(mp.mpf(nn[0]), -nn[1])
    res.nontrivial = nq.denominator != 1
    got = mp.differint(lambda t: t ** kq, x, narg)
    what = "differint(t^%s, %s, %s) at prec %d" % (Fraction(k[0], 2 ** k[1]), mp.nstr(x, 20), nq, p)
    if mp.prec != p:
        res.bad("prec:leak:differint", "mp.prec = %d after %s, was %d" % (mp.prec, what, p))
        mp.prec = p
    mr.prec = 3 * p + 120
    xr = mr.make_mpf(U(c["x"]))
    kr = mr.mpf(k[0]) / 2 ** k[1]
    nr = mr.mpf(nn[0]) / 2 ** nn[1]
    ex = mr.gamma(kr + 1) * mr.rgamma(kr - nr + 1) * xr ** (kr - nr)
    # natural magnitude: differint differentiates g(x) = B(r+1, k+1) x^(k+r+1) m times and divides by Gamma(m-n)
    m = max(int(mr.ceil(nr)) + 1, 1)
    r = m - nr - 1
    gmag = mr.gamma(r + 1) * mr.gamma(kr + 1) / mr.gamma(kr + r + 2) * xr ** (kr + r + 1)
    scale = max(abs(ex), gmag * ((kr + r + 1) / xr) ** m / mr.gamma(m - nr))
    hstep = mr.ldexp(mr.one, -p - 10)
    allow = scale * m * hstep * hstep * ((kr + r + 2) / xr) ** 2
    _cmp(res, "differint" + (":frac" if nq.denominator != 1 else ":int"), what, _to_ref(mr, got), ex, scale, allow, p, mr,
         "differint_err/tol")


def _series(c, N):
    """first N exact Taylor coefficients (Fractions) of the generated function"""
    fam = c["fam"]
    if fam == "rational":
        num, den = c["num"], c["den"]
        a = []
        for k in range(N):
            s = Fraction(num[k] if k < len(num) else 0)
            for j in range(1, min(k, len(den) - 1) + 1):
                s -= den[j] * a[k - j]
            a.append(s / den[0])
        return a
    if fam == "exp":
        q = Fraction(c["c"][0], 2 ** c["c"][1])
        return [q ** k / factorial(k) for k in range(N)]
    if fam == "geom":
        q = Fraction(c["c"][0], 2 ** c["c"][1])
        return [q ** k for k in range(N)]
    if fam == "log":
        return [Fraction((-1) ** k, k + 1) for k in range(N)]
    if fam == "sqrt":
        q = Fraction(c["c"][0], 2 ** c["c"][1])
        a = [Fraction(1)]
        for k in range(1, N):
            a.append(a[-1] * (Fraction(1, 2) - (k - 1)) / k * q)
        return a
    return [Fraction(v) for v in c["a"]][:N]


def _frac(v):
    return exact.to_fraction(tuple(v._mpf_)) if hasattr(v, "_mpf_") else Fraction(v)


def _fl(v):
    try:
        return float(v)
    except OverflowError:
        return float("inf")


def _solve_exact(A, b):
    """Gauss-Jordan over Fractions: returns (solution, inverse) or None when singular"""
    n = len(A)
    M = [list(A[i]) + [Fraction(int(i == j)) for j in range(n)] + [b[i]] for i in range(n)]
    for col in range(n):
        piv = None
        for r in range(col, n):
            if M[r][col] != 0:
                piv = r
                break
        if piv is None:
            return None
        M[col], M[piv] = M[piv], M[col]
        pv = M[col][col]
        M[col] = [v / pv for v in M[col]]
        for r in range(n):
            if r != col and M[r][col] != 0:
                fct = M[r][col]
                M[r] = [u - fct * v for u, v in zip(M[r], M[col])]
    return [M[i][2 * n] for i in range(n)], [M[i][n:2 * n] for i in range(n)]


def _check_pade(c, res, mp, mr):
    p = c["p"]
    L, M = c["L"], c["M"]
    N = L + M + 1 + c["extra"]
    ser = _series(c, N)
    a = [mp.mpf(v.numerator) / v.denominator for v in ser]
    af = [exact.to_fraction(tuple(v._mpf_)) for v in a]
    res.nontrivial = M >= 1
    what = "pade(a, %d, %d) at prec %d, a = %s" % (L, M, p, [mp.nstr(v, 12) for v in a])
    # exact solution of the documented linear system
    sol = None
    cond = None
    if M:
        A = [[af[L + j - i] if 0 <= L + j - i else Fraction(0) for i in range(1, M + 1)] for j in range(1, M + 1)]
        rhs = [-af[L + j] for j in range(1, M + 1)]
        se = _solve_exact(A, rhs)
        if se is not None:
            sol, inv = se
            cond = max(sum(abs(v) for v in row) for row in A) * max(sum(abs(v) for v in row) for row in inv)
    try:
        pq = mp.pade(a, L, M)
    except TypeError as e:
        if M and sol is None and "NoneType" in str(e):
            mp.prec = p
            return res.bad("pade:singular:typeerror", "%s: exactly singular table raises TypeError (%s) instead of the "
                           "documented ZeroDivisionError" % (what, e))
        raise
    except ZeroDivisionError:
        if mp.prec != p:
            res.bad("prec:leak:pade", "mp.prec = %d after %s raised, was %d" % (mp.prec, what, p))
            mp.prec = p
        if M and (sol is None or cond * 2 ** 12 > 2 ** p):
            res.cls = "pade:singular"
            return            # documented: degenerate table
        return res.bad("pade:zerodiv", "%s raised ZeroDivisionError although the table is regular (cond %.3g)" % (what, _fl(cond or 0)))
    if mp.prec != p:
        res.bad("prec:leak:pade", "mp.prec = %d after %s, was %d" % (mp.prec, what, p))
        mp.prec = p
    pp, qq = pq
    if len(pp) != L + 1 or len(qq) != M + 1:
        return res.bad("pade:shape", "%s returned %d, %d coefficients" % (what, len(pp), len(qq)))
    if qq[0] != 1:
        return res.bad("pade:q0", "%s: q[0] = %r" % (what, qq[0]))
    pf = [_frac(v) for v in pp]
    qf = [_frac(v) for v in qq]
    if M == 0:
        # q = 1: p must be the series itself
        for k in range(L + 1):
            if pf[k] != af[k]:
                return res.bad("pade:M0" if L else "pade:L0M0", "%s: p[%d] = %s but a[%d] = %s (q = [1], so p/q must reproduce a "
                               "through order L)" % (what, k, mp.nstr(pp[k], 15), k, mp.nstr(a[k], 15)))
        return
    if sol is None:
        res.inconclusive = True      # singular table that did not raise: nothing to compare with
        return
    tolf = Fraction(1, 2 ** (p - 10)) if p > 10 else Fraction(2 ** (10 - p))
    if cond * tolf > Fraction(1, 8):
        res.inconclusive = True
        res.cls = "pade:illcond"
        return
    rows = []
    for k in range(L + M + 1):
        terms = [qf[j] * af[k - j] for j in range(0, min(M, k) + 1)]
        rows.append((sum(terms, Fraction(0)), sum((abs(t) for t in terms), Fraction(0))))
    nscale = max(r[1] for r in rows[L + 1:])
    worst = 0.0
    for k in range(L + 1):
        err = abs(rows[k][0] - pf[k])
        if rows[k][1]:
            worst = max(worst, _fl(err / (rows[k][1] * tolf)))
        if err > rows[k][1] * tolf:
            res.bad("pade:p", "%s: p[%d] = %s but sum_j q_j a_(k-j) = %s" % (what, k, mp.nstr(pp[k], 20), _fl(rows[k][0])))
            break
    for k in range(L + 1, L + M + 1):
        err = abs(rows[k][0])
        if nscale:
            worst = max(worst, _fl(err / (nscale * tolf)))
        if err > nscale * tolf:
            res.bad("pade:residual", "%s: series coefficient %d of a*q is %.3g, not 0 (allowed 2^(10-p) * %.3g); q = %s" % (
                what, k, _fl(rows[k][0]), _fl(nscale), [mp.nstr(v, 12) for v in qq]))
            break
    qs = max(abs(v) for v in sol) or Fraction(1)
    qerr = max(abs(u - v) for u, v in zip(qf[1:], sol))
    worst = max(worst, _fl(qerr / (qs * cond * tolf)))
    if qerr > qs * cond * tolf:
        res.bad("pade:q", "%s: q = %s differs from the exact solution %s by %.3g (cond %.3g)" % (
            what, [mp.nstr(v, 15) for v in qq], [_fl(v) for v in sol], _fl(qerr), _fl(cond)))
    res.metrics["pade_err/tol"] = worst


def check_case(c):
    import mpmath
    from mpmath import mp
    import mpref
    mr = mpref.mp
    res = R()
    res.cls = c["cls"]
    oldref = mr.prec
    mp.prec = c["p"]
    try:
        kind = c["kind"]
        if kind == "diff":
            _check_diff(c, res, mp, mr)
        elif kind == "diffs":
            _check_diffs(c, res, mp, mr)
        elif kind == "difference":
            _check_difference(c, res, mp, mr)
        elif kind == "differint":
            _check_differint(c, res, mp, mr)
        else:
            _check_pade(c, res, mp, mr)
        return res
    finally:
        mp.prec = 53
        mr.prec = oldref


# ------------------------------------------------------------------------------------------ known-finding regions

def region_relative(case):
    """diff(..., relative=True): hsteps subtracts mag(x) from the exponent of h"""
    return case.get("kind") == "diff" and bool(case.get("opts", {}).get("relative"))


def region_pade_00(case):
    """pade(a, 0, 0) returns p = [1] instead of [a[0]]"""
    return case.get("kind") == "pade" and case.get("L") == 0 and case.get("M") == 0


REGIONS = {"relative": region_relative, "pade_00": region_pade_00}
