"""C16 -- interval comparisons are sound three-valued predicates."""
import itertools
import operator

from .. import exact, gen, helpers
from ..core import R, Collector
from ..exact import fzero, finf, fninf, fnan, raw_json as J, raw_unjson as U

ID = "C16"
LEVEL = "exploration"
CASE_TIMEOUT = 30.0
HANG_IS_VIOLATION = True
RULE = ("Generated cases: pairs (s, t) of real intervals whose four endpoints are drawn from a small shared pool of exact "
        "values (so touching, nested, equal, overlapping and disjoint configurations are frequent) incl. +-inf endpoints, "
        "point intervals and endpoints with more bits than the interval precision; the right operand is an iv.mpf, a "
        "Python int/float, an mp.mpf or a string. Exhaustive shard: all ordered endpoint 4-tuples over the pool "
        "{-inf,-2,-1,-1/2,0,1/2,1,2,+inf} with a<=b, c<=d, for the six comparison operators and `in`. Oracle (model on "
        "exact endpoints): s < t is True iff max(s) < min(t), False iff min(s) >= max(t), else None (analogously "
        "<=, >, >=); == / != compare endpoints exactly; x in I is True iff I.a <= x.a and x.b <= I.b for operands that "
        "convert exactly, and for inexactly converting operands True only if really inside. Non-trivial = the operands "
        "share an endpoint or overlap partially.")
ASSUMPTIONS = ["exact comparison of dyadic endpoints with CPython integers"]
TECHNIQUE = "property-based testing (Hypothesis) plus exhaustive enumeration of a finite endpoint pool against a model"

POOL = [fninf, exact.from_int(-2), exact.from_int(-1), exact.mk(1, 1, -1), fzero, exact.mk(0, 1, -1), exact.from_int(1),
        exact.from_int(2), finf]
OPS = [("<", operator.lt), ("<=", operator.le), (">", operator.gt), (">=", operator.ge), ("==", operator.eq), ("!=", operator.ne)]


def shards(tier):
    n = 5000 if tier == "quick" else 60000
    return [("exh", 1)] + [("gen", n)] * 10


def vcmp(a, b):
    """compare raws incl. infinities"""
    def key(t):
        return -1 if t == fninf else 1 if t == finf else 0
    ka, kb = key(a), key(b)
    if ka or kb:
        return (ka > kb) - (ka < kb)
    return exact.cmp_exact(a, b)


def model(op, s, t):
    (sa, sb), (ta, tb) = s, t
    if op == "<":
        return True if vcmp(sb, ta) < 0 else False if vcmp(sa, tb) >= 0 else None
    if op == "<=":
        return True if vcmp(sb, ta) <= 0 else False if vcmp(sa, tb) > 0 else None
    if op == ">":
        return model("<", t, s)
    if op == ">=":
        return model("<=", t, s)
    eq = vcmp(sa, ta) == 0 and vcmp(sb, tb) == 0
    return eq if op == "==" else not eq


def gen_case(d, shard, tier):
    p = gen.prec(d, 2, 300)
    pool = [gen.mpf_finite(d, p, d.choice([8, p, 2 * p]), huge=False) for _ in range(d.int(2, 4))]
    pool += [d.choice(POOL) for _ in range(2)]
    def ivl():
        a, b = d.choice(pool), d.choice(pool)
        if vcmp(a, b) > 0:
            a, b = b, a
        if a == finf:
            a = b = exact.from_int(3)
        if b == fninf:
            a = b = exact.from_int(-3)
        return [J(a), J(b)]
    s, t = ivl(), ivl()
    tty = d.choice(["iv", "iv", "iv", "int", "float", "mpf", "str"])
    c = {"p": p, "s": s, "t": t, "tty": tty, "cls": "gen:" + tty}
    if tty == "int":
        c["tv"] = str(d.int(-5, 5))
    elif tty == "float":
        c["tv"] = gen.pyfloat(d).hex() if d.bool() else float(d.int(-4, 4) / 2).hex()
    elif tty == "str":
        c["tv"] = d.choice(["0.5", "0.1", "-1", "2", "1e-3", "0.25"])
    return c


def _mk_iv(iv, mp, pair):
    a, b = U(pair[0]), U(pair[1])
    return iv.mpf((mp.make_mpf(a), mp.make_mpf(b))), (a, b)


def _check_pair(res, iv, mp, S, s, T, t, exact_t, what):
    for name, f in OPS:
        got = f(S, T)
        want = model(name, s, t)
        if exact_t:
            if got is not want and not (got == want and type(got) is type(want)):
                res.bad("cmp:%s" % name, "%s: %s gives %r, model says %r" % (what, name, got, want))
        else:
            # inexactly converted operand: only soundness with respect to the enclosing interval is required
            if got is True and want is False or got is False and want is True:
                res.bad("cmp:%s:unsound" % name, "%s: %s gives %r, model says %r" % (what, name, got, want))
    got = T in S
    (sa, sb), (ta, tb) = s, t
    inside = vcmp(sa, ta) <= 0 and vcmp(tb, sb) <= 0
    if exact_t:
        if bool(got) != inside:
            res.bad("in", "%s: (t in s) gives %r, model says %r" % (what, got, inside))
    elif got and not inside:
        res.bad("in:unsound", "%s: (t in s) is True but t is not inside" % what)


def check_case(c):
    import mpmath
    from mpmath import mp, iv
    res = R()
    res.cls = c["cls"]
    iv.prec = c["p"]
    mp.prec = 53
    try:
        S, s = _mk_iv(iv, mp, c["s"])
        tty = c["tty"]
        exact_t = True
        if tty == "iv":
            T, t = _mk_iv(iv, mp, c["t"])
        elif tty == "int":
            T = int(c["tv"])
            r = exact.from_int(T)
            t = (r, r)
            exact_t = r[3] <= c["p"]
        elif tty == "float":
            T = float.fromhex(c["tv"])
            if T != T:
                res.rejected = True
                return res
            r = helpers.float_raw(T)
            t = (r, r)
            exact_t = r[3] <= c["p"]
        elif tty == "mpf":
            r = U(c["t"][0])
            T = mp.make_mpf(r)
            t = (r, r)
            exact_t = True          # mp.mpf operands are taken over exactly (observed and documented: no rounding)
            if r[1] == 0 and r != fzero:
                res.rejected = True
                return res
        else:
            T = c["tv"]
            from fractions import Fraction
            fr = Fraction(T)
            lo, hi = exact.round_fraction(fr, c["p"], "f"), exact.round_fraction(fr, c["p"], "c")
            t = (lo, hi)
            exact_t = True           # the string denotes the interval [lo, hi] after directed conversion
            if tuple(lo) != tuple(hi):
                exact_t = False
        if not exact_t:
            # enclosing interval of the converted operand
            lo, hi = exact.round_raw(t[0], c["p"], "f"), exact.round_raw(t[1], c["p"], "c")
            t = (lo, hi)
        what = "s=[%s, %s] t=%s %r prec %d" % (exact.raw_str(s[0]), exact.raw_str(s[1]), tty,
                                                 (exact.raw_str(t[0]), exact.raw_str(t[1])), c["p"])
        res.nontrivial = any(vcmp(x, y) == 0 for x in s for y in t) or (vcmp(s[0], t[1]) < 0 and vcmp(t[0], s[1]) < 0)
        if tty == "str" and not exact_t:
            # comparisons with an inexact string use the enclosing interval, which is itself an exact iv operand
            _check_pair(res, iv, mp, S, s, iv.mpf(T), t, True, what)
        else:
            _check_pair(res, iv, mp, S, s, T, t, exact_t, what)
        return res
    finally:
        iv.prec = 53


def custom_shard(shard, seed, n, tier):
    if shard != "exh":
        return None
    import mpmath
    from mpmath import mp, iv
    coll = Collector()
    res = R()
    res.cls = "exh"
    iv.prec = 53
    cnt = 0
    ivs = [(a, b) for a in POOL for b in POOL if vcmp(a, b) <= 0 and a != finf and b != fninf]
    objs = [iv.mpf((mp.make_mpf(a), mp.make_mpf(b))) for a, b in ivs]
    for (s, S) in zip(ivs, objs):
        for (t, T) in zip(ivs, objs):
            _check_pair(res, iv, mp, S, s, T, t, True, "s=%r t=%r" % ([exact.raw_str(x) for x in s], [exact.raw_str(x) for x in t]))
            cnt += 7
    res.n = cnt
    res.nontrivial = True
    coll.add({"exhaustive": "pool9"}, res)
    out = coll.export()
    out["exhaustive_blocks"] = [{"block": "exh", "cases": cnt, "complete": True,
                                 "domain": "all interval pairs with endpoints in {-inf,-2,-1,-1/2,0,1/2,1,2,+inf}; operators <,<=,>,>=,==,!=,in"}]
    return out
