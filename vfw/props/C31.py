"""C31 -- eigen and singular value decompositions satisfy their identities; gauss_quadrature integrates
polynomials of degree < 2n exactly."""
from fractions import Fraction

from .. import exact
from ..core import R

ID = "C31"
LEVEL = "exploration"
CASE_TIMEOUT = 120.0
RULE = ("Cases = (routine, options, matrix, precision 30..300 bits). Matrices of size 1..8 (svd also rectangular "
        "1..8 x 1..8) with small integer or dyadic entries (integers times a power of two): random real / complex, "
        "symmetric, Hermitian, upper / lower triangular (also with repeated diagonal), diagonal, already Hessenberg / "
        "tridiagonal, permutation matrices, c*I + rank one, zero matrix, zeroed rows / columns, direct sums of 1x1 and "
        "2x2 blocks, defective S*J*S^-1 (J a Jordan form with integer eigenvalues, S a unimodular integer matrix), "
        "diagonalisable S*D*S^-1 with known kappa(S), normal U*D*U^H with exactly unitary dyadic U (signed / phase "
        "permutations, 4x4 Hadamard/2, the (1+i)/2 [[1,-i],[-i,1]] block), rank-deficient outer products. Routines and "
        "options: eig (all four left/right combinations, overwrite_a) followed by eig_sort (default, 'real', 'imag', "
        "'abs', a callable; with EL and/or ER or neither), schur, hessenberg, eigsy, eighe, eigh (eigvals_only, "
        "overwrite_a), svd, svd_r, svd_c (full_matrices, compute_uv, overwrite_a), gauss_quadrature(n = 1..12, all eight "
        "documented types, alpha/beta dyadic > -1 passed as mpf / int / float). Oracle = the defining identity "
        "evaluated in exact integer arithmetic on the returned mpf/mpc values (they are dyadic rationals): "
        "||A v - e v||_2 <= ||A||_F ||v||_2 2^(10-p) for every returned eigenpair (same for left eigenvectors u A = e u; "
        "the bound is homogeneous in v because eig does not normalise; v must be non-zero), "
        "||Q T Q^H - A||_F <= ||A||_F 2^(10-p) with T exactly upper triangular (H exactly zero below the first "
        "subdiagonal), ||Q^H Q - I||_F <= max(1, ||A||_F) 2^(10-p), |sum(E) - trace(A)| <= n ||A||_F 2^(10-p); "
        "eigsy/eighe/eigh: eigenvalues of type mpf, ascending (exact comparison), Q real for eigsy, columnwise residual "
        "and orthonormality as above; eigenvalue-only calls: eig without vectors -- every value is certified through an "
        "explicit vector v with ||(A - e I) v|| <= ||A||_F ||v|| 2^(10-p) (i.e. e is an eigenvalue of a matrix within the "
        "stated residual of A); eigvals_only / compute_uv=False -- accepted when bit-identical to the certified values of "
        "the full call, else compared with them using Weyl's bound 2 ||A||_F 2^(10-p); the certifying vector is found with the reference package (inverse iteration at (n+3)p+200 bits) and verified exactly; "
        "svd: shapes as documented for full_matrices, S of type mpf, non-negative, descending, "
        "||U diag(S) V - A||_F <= ||A||_F 2^(10-p), U^H U = 1 and V V^H = 1 within max(1,||A||_F) 2^(10-p); eig_sort: the "
        "output is exactly a permutation of the input eigenpairs (raw tuples), keys f(E) non-decreasing (exact "
        "comparison; for 'abs' up to the rounding of abs), return shape as documented; the input matrix is unchanged "
        "unless overwrite_a. Where the spectrum is known by construction and well conditioned (diagonal, triangular with "
        "distinct diagonal and exactly computed eigenvector condition, S D S^-1, normal) the eigenvalue multiset is "
        "compared within kappa_F ||A||_F 2^(10-p) (Bauer-Fike; skipped unless that is < 1/8 of the smallest gap). "
        "gauss_quadrature: X, W are n x 1 real, weights > 0, nodes strictly inside the interval, and for every k <= 2n-1 "
        "|sum w_i x_i^k - m_k| <= n 2^(10-p) max(m_0, sum w_i |x_i|^k) where m_k is the closed-form moment (Legendre "
        "2/(k+1), Hermite Gamma((k+1)/2), Laguerre Gamma(k+alpha+1), Chebyshev / Jacobi Beta-function sums) evaluated with "
        "the reference package at 3p+200 bits; the sum is evaluated in exact rational arithmetic. Non-trivial = matrix "
        "of size >= 3 that is not diagonal / zero (an iteration has to run), or a quadrature rule with n >= 2.")
ASSUMPTIONS = ["CPython integer arithmetic; returned mpf/mpc values are read as exact dyadic rationals through their raw tuples",
               "reference mpmath 1.3.0 (mpref) gamma/beta/binomial at 3p+200 bits for the closed-form moments",
               "mpref lu_solve is used only to FIND a certifying vector for an eigenvalue returned without vectors; "
               "acceptance is decided by exact arithmetic on that vector",
               "Weyl's theorem (Hermitian eigenvalues / singular values move by at most the norm of the perturbation) and "
               "Bauer-Fike for the eigenvalue comparisons, which are consequences of the stated residual bounds",
               "||.|| in the statement is read as the Frobenius norm (the largest of the usual norms, i.e. the most lenient)"]
TECHNIQUE = "property-based testing (Hypothesis) with constructed matrix classes; exact-arithmetic residual oracle"

GAUSS_TYPES = ["legendre", "legendre01", "hermite", "laguerre", "glaguerre", "chebyshev1", "chebyshev2", "jacobi"]


def shards(tier):
    k = 1 if tier == "quick" else 20
    return ([("eig", 500 * k)] * 5 + [("schur", 600 * k)] * 2 + [("herm", 1100 * k)] * 3 + [("svd", 800 * k)] * 4 +
            [("gauss", 900 * k)] * 2)


# ============================================================================================ exact matrices
# complex integer matrices scaled by a power of two: value[i][j] = (re + i*im) * 2^e

class ZM:
    __slots__ = ("r", "c", "re", "im", "e")

    def __init__(self, r, c, re, im, e=0):
        self.r, self.c, self.re, self.im, self.e = r, c, re, im, e

    @staticmethod
    def zeros(r, c):
        return ZM(r, c, [0] * (r * c), [0] * (r * c), 0)

    @staticmethod
    def eye(n):
        z = ZM.zeros(n, n)
        for i in range(n):
            z.re[i * n + i] = 1
        return z

    @staticmethod
    def from_rows(rre, rim=None, e=0):
        r = len(rre)
        c = len(rre[0]) if r else 0
        re = [int(x) for row in rre for x in row]
        im = [int(x) for row in rim for x in row] if rim is not None else [0] * (r * c)
        return ZM(r, c, re, im, e)

    def rows_re(self):
        return [self.re[i * self.c:(i + 1) * self.c] for i in range(self.r)]

    def rows_im(self):
        return [self.im[i * self.c:(i + 1) * self.c] for i in range(self.r)]

    def get(self, i, j):
        return self.re[i * self.c + j], self.im[i * self.c + j]

    def is_real(self):
        return not any(self.im)

    def H(self):
        r, c = self.r, self.c
        re = [self.re[i * c + j] for j in range(c) for i in range(r)]
        im = [-self.im[i * c + j] for j in range(c) for i in range(r)]
        return ZM(c, r, re, im, self.e)

    def mul(self, o):
        assert self.c == o.r, (self.r, self.c, o.r, o.c)
        r, n, c = self.r, self.c, o.c
        re = [0] * (r * c)
        im = [0] * (r * c)
        are, aim, bre, bim = self.re, self.im, o.re, o.im
        areal = not any(aim)
        breal = not any(bim)
        for i in range(r):
            for j in range(c):
                sr = si = 0
                for k in range(n):
                    a = are[i * n + k]
                    b = aim[i * n + k] if not areal else 0
                    x = bre[k * c + j]
                    y = bim[k * c + j] if not breal else 0
                    sr += a * x - b * y
                    si += a * y + b * x
                re[i * c + j] = sr
                im[i * c + j] = si
        return ZM(r, c, re, im, self.e + o.e)

    def sub(self, o):
        assert (self.r, self.c) == (o.r, o.c)
        e = min(self.e, o.e)
        sa, sb = self.e - e, o.e - e
        re = [(a << sa) - (b << sb) for a, b in zip(self.re, o.re)]
        im = [(a << sa) - (b << sb) for a, b in zip(self.im, o.im)]
        return ZM(self.r, self.c, re, im, e)

    def norm2(self):
        return (sum(a * a for a in self.re) + sum(a * a for a in self.im), 2 * self.e)

    def col(self, j):
        return ZM(self.r, 1, [self.re[i * self.c + j] for i in range(self.r)],
                  [self.im[i * self.c + j] for i in range(self.r)], self.e)

    def row(self, i):
        return ZM(1, self.c, self.re[i * self.c:(i + 1) * self.c], self.im[i * self.c:(i + 1) * self.c], self.e)

    def scal(self, zre, zim, ze):
        """multiply by the scalar (zre + i zim) 2^ze"""
        re = [a * zre - b * zim for a, b in zip(self.re, self.im)]
        im = [a * zim + b * zre for a, b in zip(self.re, self.im)]
        return ZM(self.r, self.c, re, im, self.e + ze)

    def trace(self):
        n = min(self.r, self.c)
        return (sum(self.re[i * self.c + i] for i in range(n)), sum(self.im[i * self.c + i] for i in range(n)), self.e)

    def same(self, o):
        """exact equality of values"""
        d = self.sub(o)
        return not any(d.re) and not any(d.im)


def d_le(a, b):
    """a = (N, e), b = (M, f): N 2^e <= M 2^f (N, M >= 0)"""
    (n, e), (m, f) = a, b
    g = min(e, f)
    return (n << (e - g)) <= (m << (f - g))


def d_mul(a, b):
    return (a[0] * b[0], a[1] + b[1])


def d_lg(a):
    """log2 of N 2^e (float), -inf -> -1e9"""
    n, e = a
    if n <= 0:
        return -1e9
    import math
    bl = n.bit_length()
    top = n >> max(0, bl - 60)
    return math.log2(top) + max(0, bl - 60) + e


def d_max(a, b):
    return b if d_le(a, b) else a


def tol2(p, k=10):
    """(2^(k-p))^2"""
    return (1, 2 * (k - p))


# ---------------------------------------------------------------- conversion from the mpmath side

def scal_raw(x):
    """(re_raw, im_raw) of a returned scalar, or None if it is not a finite mpf/mpc/int"""
    if hasattr(x, "_mpf_"):
        t = tuple(x._mpf_)
        if t[1] == 0 and t != exact.fzero:
            return None
        return t, exact.fzero
    if hasattr(x, "_mpc_"):
        a, b = tuple(x._mpc_[0]), tuple(x._mpc_[1])
        for t in (a, b):
            if t[1] == 0 and t != exact.fzero:
                return None
        return a, b
    if isinstance(x, int):
        return exact.from_int(x), exact.fzero
    return None


def zm_from(M):
    """exact ZM of an mpmath matrix (or list of scalars -> column); None if non-finite / foreign entries"""
    if isinstance(M, (list, tuple)):
        r, c = len(M), 1
        ent = list(M)
    else:
        r, c = M.rows, M.cols
        ent = [M[i, j] for i in range(r) for j in range(c)]
    raws = []
    for x in ent:
        t = scal_raw(x)
        if t is None:
            return None
        raws.append(t)
    exps = [t[2] for pair in raws for t in pair if t[1]]
    e = min(exps) if exps else 0
    if exps and max(t[2] + t[3] for pair in raws for t in pair if t[1]) - e > 400000:
        return None               # absurd dynamic range (more than 1000 p bits): not a usable result, and not worth the memory

    def toint(t):
        if not t[1]:
            return 0
        v = int(t[1]) << (t[2] - e)
        return -v if t[0] else v
    return ZM(r, c, [toint(a) for a, b in raws], [toint(b) for a, b in raws], e)


def zm_diag(S, r, c):
    """r x c matrix with the column S on its diagonal"""
    z = ZM.zeros(r, c)
    z.e = S.e
    for i in range(min(r, c, S.r)):
        z.re[i * c + i] = S.re[i]
        z.im[i * c + i] = S.im[i]
    return z


# ============================================================================================ generators

def _mag(d):
    return d.weighted([(6, 9), (3, 2), (2, 1), (2, 1000), (1, 1 << 20)])


def _ent(d, mag, pz):
    """integer entry, zero with probability pz/8"""
    if pz and d.int(0, 7) < pz:
        return 0
    return d.int(-mag, mag)


def _rand(d, r, c, cplx, mag, pz=1):
    re = [_ent(d, mag, pz) for _ in range(r * c)]
    im = [_ent(d, mag, pz + 1) for _ in range(r * c)] if cplx else [0] * (r * c)
    return ZM(r, c, re, im, 0)


def _unimodular(d, n):
    """integer S with det 1 and its exact inverse"""
    S = ZM.eye(n)
    Si = ZM.eye(n)
    if n == 1:
        return S, Si
    for _ in range(d.int(0, 2 * n)):
        i = d.int(0, n - 1)
        j = d.int(0, n - 2)
        if j >= i:
            j += 1
        c = d.choice([-2, -1, 1, 1, 2])
        for k in range(n):
            S.re[i * n + k] += c * S.re[j * n + k]         # row_i += c row_j
        for k in range(n):
            Si.re[k * n + j] -= c * Si.re[k * n + i]       # col_j -= c col_i
    return S, Si


def _small_eig(d, cplx):
    re = d.int(-3, 3) if d.bool() else d.int(-20, 20)
    im = (d.int(-3, 3) if cplx and d.bool() else 0)
    return re, im


def _tri_kappa2(A):
    """A: real upper triangular ZM with distinct diagonal; ceil of (||V||_F ||V^-1||_F)^2 of its unit-diagonal
    eigenvector matrix, computed exactly"""
    n = A.r
    T = [[Fraction(A.re[i * n + j]) for j in range(n)] for i in range(n)]
    V = [[Fraction(0)] * n for _ in range(n)]
    for j in range(n):
        V[j][j] = Fraction(1)
        for i in range(j - 1, -1, -1):
            s = sum(T[i][k] * V[k][j] for k in range(i + 1, j + 1))
            V[i][j] = -s / (T[i][i] - T[j][j])
    W = [[Fraction(0)] * n for _ in range(n)]          # inverse of unit upper triangular V
    for j in range(n):
        W[j][j] = Fraction(1)
        for i in range(j - 1, -1, -1):
            W[i][j] = -sum(V[i][k] * W[k][j] for k in range(i + 1, j + 1))
    k2 = sum(x * x for row in V for x in row) * sum(x * x for row in W for x in row)
    return -((-k2.numerator) // k2.denominator)


def _conj_unitary(d, A, cplx, shn, nops):
    """A -> U A U^H for exactly unitary dyadic U; returns (A, shn) where the value is A / 2^shn"""
    n = A.r
    for _ in range(nops):
        ops = ["perm", "phase"]
        if n >= 4:
            ops += ["had4", "had4"]
        if cplx and n >= 2:
            ops += ["g2", "g2"]
        op = d.choice(ops)
        U = ZM.eye(n)
        if op == "perm" and n >= 2:
            i = d.int(0, n - 1)
            j = d.int(0, n - 1)
            if i != j:
                U.re[i * n + i] = U.re[j * n + j] = 0
                U.re[i * n + j] = U.re[j * n + i] = 1
        elif op == "phase":
            i = d.int(0, n - 1)
            u = d.choice([(-1, 0), (0, 1), (0, -1)]) if cplx else (-1, 0)
            U.re[i * n + i], U.im[i * n + i] = u
        elif op == "had4":
            idx = []
            while len(idx) < 4:
                k = d.int(0, n - 1)
                if k not in idx:
                    idx.append(k)
            Hd = [[1, 1, 1, 1], [1, -1, 1, -1], [1, 1, -1, -1], [1, -1, -1, 1]]
            for a in range(n):
                if a not in idx:
                    U.re[a * n + a] = 2
            for a in range(4):
                for b in range(4):
                    U.re[idx[a] * n + idx[b]] = Hd[a][b]
            shn += 2
        elif op == "g2":
            i = d.int(0, n - 1)
            j = d.int(0, n - 2)
            if j >= i:
                j += 1
            for a in range(n):
                if a not in (i, j):
                    U.re[a * n + a] = 2
            U.re[i * n + i], U.im[i * n + i] = 1, 1
            U.re[j * n + j], U.im[j * n + j] = 1, 1
            U.re[i * n + j], U.im[i * n + j] = 1, -1
            U.re[j * n + i], U.im[j * n + i] = 1, -1
            shn += 2
        A = U.mul(A).mul(U.H())
        A.e = 0
        while shn > 0 and not any(x & 1 for x in A.re) and not any(x & 1 for x in A.im):
            A.re = [x >> 1 for x in A.re]
            A.im = [x >> 1 for x in A.im]
            shn -= 1
    return A, shn


SQUARE_KINDS_GENERAL = [(6, "rand"), (3, "sym"), (3, "triu"), (3, "tril"), (2, "diag"), (2, "hess"), (2, "perm"),
                        (2, "rank1"), (1, "zero"), (2, "zerorc"), (3, "blocks"), (5, "defective"), (4, "simdiag"),
                        (4, "normal"), (1, "tridiag"), (1, "companion")]
SQUARE_KINDS_HERM = [(8, "sym"), (2, "diag"), (2, "rank1"), (1, "zero"), (2, "zerorc"), (3, "blocks"), (6, "normal"),
                     (3, "tridiag"), (2, "wilk"), (1, "perm2")]


def gen_square(d, n, cplx, herm):
    """returns dict(A=ZM ints, shn, kind, known, kap2)"""
    kind = d.weighted(SQUARE_KINDS_HERM if herm else SQUARE_KINDS_GENERAL)
    mag = _mag(d)
    known = None
    kap2 = None
    shn = 0
    N = n * n

    def herm_fill(B):
        for i in range(n):
            B.im[i * n + i] = 0
            for j in range(i):
                B.re[i * n + j] = B.re[j * n + i]
                B.im[i * n + j] = -B.im[j * n + i]
        return B

    if kind == "rand":
        A = _rand(d, n, n, cplx, mag, d.choice([0, 0, 1, 4]))
    elif kind == "sym":
        A = herm_fill(_rand(d, n, n, cplx, mag, d.choice([0, 0, 1, 4])))
        if cplx and not herm and d.bool():
            kind = "csym"                      # complex symmetric (not Hermitian): a general matrix for eig
            for i in range(n):
                for j in range(i):
                    A.im[i * n + j] = A.im[j * n + i]
    elif kind in ("triu", "tril"):
        A = _rand(d, n, n, cplx, mag, d.choice([0, 1]))
        rep = d.int(0, 2)                      # 0 random diag, 1 few values (repeated), 2 distinct by construction
        vals = [_small_eig(d, cplx) for _ in range(2)]
        for i in range(n):
            for j in range(n):
                if j < i:
                    A.re[i * n + j] = A.im[i * n + j] = 0
            if rep == 1:
                A.re[i * n + i], A.im[i * n + i] = d.choice(vals)
            elif rep == 2:
                A.re[i * n + i] = 3 * i * d.choice([1, 1, 2]) + d.int(0, 2) - 7
        dg = [A.get(i, i) for i in range(n)]
        if len(set(dg)) == n and not cplx:
            known = [list(x) for x in dg]
            kap2 = _tri_kappa2(A)
        if kind == "tril":
            A = A.H()
            A.im = [-x for x in A.im]          # plain transpose
    elif kind == "diag":
        A = ZM.zeros(n, n)
        few = [(d.int(-mag, mag), d.int(-mag, mag) if cplx else 0) for _ in range(2)]
        rep = d.bool()
        for i in range(n):
            A.re[i * n + i], A.im[i * n + i] = d.choice(few) if rep else (d.int(-mag, mag), d.int(-mag, mag) if cplx else 0)
        if herm:
            A.im = [0] * N
        known = [list(A.get(i, i)) for i in range(n)]
        kap2 = 1
    elif kind == "hess":
        A = _rand(d, n, n, cplx, mag, d.choice([0, 1]))
        for i in range(n):
            for j in range(n):
                if i > j + 1:
                    A.re[i * n + j] = A.im[i * n + j] = 0
    elif kind in ("tridiag", "wilk"):
        A = herm_fill(_rand(d, n, n, cplx, mag, d.choice([0, 1])))
        for i in range(n):
            for j in range(n):
                if abs(i - j) > 1:
                    A.re[i * n + j] = A.im[i * n + j] = 0
                elif kind == "wilk":
                    A.im[i * n + j] = 0
                    A.re[i * n + j] = abs(2 * i - (n - 1)) if i == j else 2      # 2 * Wilkinson W_n^+
    elif kind in ("perm", "perm2"):
        A = ZM.zeros(n, n)
        perm = list(range(n))
        if kind == "perm2":                    # symmetric permutation: an involution
            for _ in range(n):
                i, j = d.int(0, n - 1), d.int(0, n - 1)
                if perm[i] == i and perm[j] == j:
                    perm[i], perm[j] = j, i
        elif d.bool():
            perm = perm[1:] + perm[:1]         # the full cycle: the classical stagnation case of the unshifted QR
        else:
            for i in range(n - 1, 0, -1):
                j = d.int(0, i)
                perm[i], perm[j] = perm[j], perm[i]
        for i in range(n):
            u = d.choice([(1, 0), (1, 0), (-1, 0), (0, 1)]) if (cplx and kind == "perm") else (d.choice([1, 1, -1]) if kind == "perm" else 1, 0)
            A.re[i * n + perm[i]], A.im[i * n + perm[i]] = u
    elif kind == "rank1":
        c = d.int(-9, 9)
        u = [d.int(-3, 3) for _ in range(n)]
        v = u if (herm or d.bool()) else [d.int(-3, 3) for _ in range(n)]
        A = ZM.zeros(n, n)
        for i in range(n):
            for j in range(n):
                A.re[i * n + j] = u[i] * v[j] + (c if i == j else 0)
        if v is u:
            known = [[c, 0]] * (n - 1) + [[c + sum(x * x for x in u), 0]]
            kap2 = 1
    elif kind == "zero":
        A = ZM.zeros(n, n)
        known = [[0, 0]] * n
        kap2 = 1
    elif kind == "zerorc":
        A = _rand(d, n, n, cplx, mag, 0)
        if herm:
            A = herm_fill(A)
        for _ in range(d.int(1, 3)):
            k = d.int(0, n - 1)
            what = 2 if herm else d.int(0, 2)
            for t in range(n):
                if what in (0, 2):
                    A.re[k * n + t] = A.im[k * n + t] = 0
                if what in (1, 2):
                    A.re[t * n + k] = A.im[t * n + k] = 0
    elif kind == "blocks":
        A = ZM.zeros(n, n)
        i = 0
        while i < n:
            b = d.int(1, min(3, n - i))
            B = _rand(d, b, b, cplx, mag, 0)
            for a in range(b):
                for c in range(b):
                    A.re[(i + a) * n + i + c] = B.re[a * b + c]
                    A.im[(i + a) * n + i + c] = B.im[a * b + c]
            i += b
        if herm:
            A = herm_fill(A)
        if d.bool():
            A, shn = _conj_unitary(d, A, cplx and d.bool(), 0, d.int(1, 3))
    elif kind == "companion":
        A = ZM.zeros(n, n)
        for j in range(n):
            A.re[j] = _ent(d, mag, 1)
            if cplx:
                A.im[j] = _ent(d, mag, 3)
        for i in range(1, n):
            A.re[i * n + i - 1] = 1
    elif kind in ("defective", "simdiag"):
        J = ZM.zeros(n, n)
        if kind == "defective":
            i = 0
            while i < n:
                b = d.int(1, n - i) if d.bool() else min(n - i, d.int(1, 3))
                lam = _small_eig(d, cplx)
                for a in range(b):
                    J.re[(i + a) * n + i + a], J.im[(i + a) * n + i + a] = lam
                    if a + 1 < b:
                        J.re[(i + a) * n + i + a + 1] = 1
                i += b
        else:
            vals = []
            while len(vals) < n:
                lam = _small_eig(d, cplx)
                if lam not in vals:
                    vals.append(lam)
            for i in range(n):
                J.re[i * n + i], J.im[i * n + i] = vals[i]
            known = [list(v) for v in vals]
        S, Si = _unimodular(d, n)
        A = S.mul(J).mul(Si)
        if kind == "simdiag":
            kap2 = S.norm2()[0] * Si.norm2()[0]
    elif kind == "normal":
        A = ZM.zeros(n, n)
        known = []
        i = 0
        while i < n:
            a = (d.int(-9, 9), d.int(-9, 9) if (cplx and not herm) else 0)
            if n - i >= 2 and d.bool():
                b = (d.int(-9, 9), d.int(-9, 9) if (cplx and not herm) else 0)
                for t in (0, 1):
                    A.re[(i + t) * n + i + t], A.im[(i + t) * n + i + t] = a
                    A.re[(i + t) * n + i + 1 - t], A.im[(i + t) * n + i + 1 - t] = b
                known += [[a[0] + b[0], a[1] + b[1]], [a[0] - b[0], a[1] - b[1]]]
                i += 2
            else:
                if d.int(0, 2) == 0 and known:
                    a = tuple(d.choice(known))          # a repeated eigenvalue
                A.re[i * n + i], A.im[i * n + i] = a
                known.append([a[0], a[1]])
                i += 1
        kap2 = 1
        A, shn = _conj_unitary(d, A, cplx, 0, d.int(1, 4))
    else:
        raise ValueError(kind)
    if not cplx:
        assert A.is_real(), kind
    return {"A": A, "shn": shn, "kind": kind, "known": known, "kap2": kap2}


def _prec(d):
    k = d.weighted([(3, "edge"), (3, "std"), (4, "rand")])
    if k == "edge":
        return d.choice([30, 31, 32, 33, 299, 300])
    if k == "std":
        return d.choice([53, 64, 100, 113, 128, 200, 256])
    return d.int(30, 300)


def _size(d):
    return d.weighted([(1, 1), (2, 2), (3, 3), (3, 4), (3, 5), (3, 6), (3, 7), (3, 8)])


def _user_exp(d):
    return d.weighted([(8, 0), (2, -1), (1, -3), (1, -10), (1, 7), (1, 40), (1, -40)])


def _pack(case, g, eu):
    A = g["A"]
    case["n"] = A.r
    case["m"] = A.c
    case["re"] = A.rows_re()
    case["im"] = A.rows_im() if not A.is_real() else None
    case["e"] = eu - g["shn"]
    case["kind"] = g["kind"]
    if g.get("known") is not None and g.get("kap2") is not None and g["kap2"].bit_length() < 4000:
        case["known"] = g["known"]
        case["known_e"] = eu
        case["kap2"] = g["kap2"]
    return case


def gen_case(d, shard, tier):
    p = _prec(d)
    case = {"shard": shard, "p": p}
    if shard == "gauss":
        qt = d.choice(GAUSS_TYPES)
        case["fn"] = "gauss"
        case["qtype"] = qt
        case["n"] = d.int(1, 12)

        def par():
            k = d.weighted([(3, "int"), (3, "quarter"), (2, "near-1"), (1, "big"), (1, "zero")])
            if k == "int":
                return [d.int(0, 10), 0]
            if k == "quarter":
                return [d.int(-3, 40), 2]
            if k == "near-1":
                s = d.int(3, 10)
                return [-(1 << s) + 1, s]                 # -1 + 2^-s
            if k == "big":
                return [d.int(21, 80), 1]
            return [0, 0]
        case["alpha"] = par() if qt in ("glaguerre", "jacobi") else [0, 0]
        case["beta"] = par() if qt == "jacobi" else [0, 0]
        case["ptype"] = d.choice(["mpf", "mpf", "float", "auto"])
        case["cls"] = "gauss:%s" % qt
        return case
    eu = _user_exp(d)
    if shard == "eig":
        n = _size(d)
        cplx = d.int(0, 2) == 0
        g = gen_square(d, n, cplx, False)
        case["fn"] = "eig"
        lr = d.weighted([(4, 1), (2, 3), (2, 2), (2, 0)])          # bit0 right, bit1 left
        case["right"] = bool(lr & 1)
        case["left"] = bool(lr & 2)
        case["ow"] = d.int(0, 4) == 0
        case["sortf"] = d.choice(["default", "real", "imag", "abs", "negre"])
        case["sortv"] = d.int(0, 3)                                # which of EL/ER are handed to eig_sort (masked later)
    elif shard == "schur":
        n = _size(d)
        cplx = d.int(0, 2) == 0
        g = gen_square(d, n, cplx, False)
        case["fn"] = d.choice(["hessenberg", "schur", "schur"])
        case["ow"] = d.int(0, 4) == 0
    elif shard == "herm":
        n = _size(d)
        fn = d.choice(["eigsy", "eighe", "eigh"])
        cplx = (fn == "eighe" and d.int(0, 5) != 0) or (fn == "eigh" and d.bool())
        g = gen_square(d, n, cplx, True)
        case["fn"] = fn
        case["vals_only"] = d.int(0, 3) == 0
        case["ow"] = d.int(0, 4) == 0
    elif shard == "svd":
        fn = d.choice(["svd", "svd", "svd_r", "svd_c"])
        cplx = fn == "svd_c" or (fn == "svd" and d.bool())
        shape = d.weighted([(4, "square"), (3, "rect"), (2, "lowrank"), (1, "dup")])
        if shape == "square":
            g = gen_square(d, _size(d), cplx, d.int(0, 3) == 0)
            g["known"] = None
        else:
            m, n = d.int(1, 8), d.int(1, 8)
            mag = _mag(d)
            if shape == "rect":
                A = _rand(d, m, n, cplx, mag, d.choice([0, 0, 1, 4]))
            elif shape == "lowrank":
                r = d.int(0, max(0, min(m, n) - 1))
                A = ZM.zeros(m, n)
                for _ in range(r):
                    u = _rand(d, m, 1, cplx, 3, 1)
                    v = _rand(d, 1, n, cplx, 3, 1)
                    A = ZM.zeros(m, n).sub(u.mul(v)).sub(A)
                    A = ZM.zeros(m, n).sub(A)
            else:
                A = _rand(d, m, n, cplx, mag, 0)
                for _ in range(d.int(1, 3)):                       # duplicated / zero rows and columns
                    if d.bool() and m > 1:
                        i, j = d.int(0, m - 1), d.int(0, m - 1)
                        z = d.int(0, 3) == 0
                        for t in range(n):
                            A.re[i * n + t] = 0 if z else A.re[j * n + t]
                            A.im[i * n + t] = 0 if z else A.im[j * n + t]
                    elif n > 1:
                        i, j = d.int(0, n - 1), d.int(0, n - 1)
                        z = d.int(0, 3) == 0
                        for t in range(m):
                            A.re[t * n + i] = 0 if z else A.re[t * n + j]
                            A.im[t * n + i] = 0 if z else A.im[t * n + j]
            g = {"A": A, "shn": 0, "kind": shape, "known": None, "kap2": None}
        if fn == "svd_c" and g["A"].is_real() and g["A"].r:
            g["A"].im[0] = 1                                       # svd_c takes a complex matrix
        case["fn"] = fn
        case["full"] = d.bool()
        case["uv"] = d.int(0, 3) != 0
        case["ow"] = d.int(0, 4) == 0
    else:
        raise ValueError(shard)
    _pack(case, g, eu)
    case["cls"] = "%s:%s" % (case["fn"], case["kind"])
    return case


# ============================================================================================ checking

def _fmt_matrix(case):
    s = "matrix %dx%d, entries*2^%d: re=%s" % (case["n"], case["m"], case["e"], case["re"])
    if case.get("im"):
        s += " im=%s" % (case["im"],)
    return s[:700]


def _build(mp, case):
    """the mpmath matrix of the case (entries rounded to the working precision by the constructor, as a user's
    would be) and its exact value as read back from the matrix"""
    n, m, e = case["n"], case["m"], case["e"]
    A = mp.matrix(n, m)
    cplx = case.get("im") is not None
    exactly = True
    for i in range(n):
        for j in range(m):
            re = mp.ldexp(mp.mpf(case["re"][i][j]), e)
            if abs(case["re"][i][j]).bit_length() > mp.prec:
                exactly = False
            if cplx:
                im = mp.ldexp(mp.mpf(case["im"][i][j]), e)
                if abs(case["im"][i][j]).bit_length() > mp.prec:
                    exactly = False
                A[i, j] = mp.mpc(re, im)
            else:
                A[i, j] = re
    return A, zm_from(A), exactly


class Ctx:
    """per-case bookkeeping: result object, precision, scales"""

    def __init__(self, res, case, AZ):
        self.res = res
        self.case = case
        self.p = case["p"]
        self.AZ = AZ
        self.a2 = AZ.norm2()                                  # ||A||_F^2
        self.a2_1 = d_max(self.a2, (1, 0))                    # max(1, ||A||_F)^2
        self.t2 = tol2(self.p)
        self.desc = "p=%d %s" % (self.p, _fmt_matrix(case))

    def metric(self, name, r2, b2):
        """record log2(residual / bound) + 10, i.e. log2 of the residual in units of scale * 2^-p"""
        if r2[0]:
            v = 0.5 * (d_lg(r2) - d_lg(b2)) + 10 if b2[0] else 1e9
            if v > self.res.metrics.get(name, -1e9):
                self.res.metrics[name] = v

    def small(self, bucket, what, Rz, scale2, extra2=(1, 0)):
        """violation unless ||Rz||_F^2 <= scale2 * extra2 * 2^(2(10-p))"""
        r2 = Rz.norm2()
        b2 = d_mul(d_mul(scale2, extra2), self.t2)
        self.metric("lg_ratio:" + bucket.split(":")[0] + ":" + bucket.split(":")[1], r2, b2)
        if not d_le(r2, b2):
            sc = d_mul(scale2, extra2)
            self.res.bad(bucket, "%s: norm of the residual is 2^%.1f, allowed 2^%.1f (= scale 2^%.1f times 2^%d); %s"
                         % (what, 0.5 * d_lg(r2), 0.5 * d_lg(b2), 0.5 * d_lg(sc), 10 - self.p, self.desc))
            return False
        return True


def _nonfinite(cx, bucket, what):
    cx.res.bad(bucket, "%s contains a non-finite or foreign entry (or entries whose exponents differ by more than 400000); %s" % (what, cx.desc))


def _unchanged(cx, fn, A, AZ, ow):
    if ow:
        return
    Z = zm_from(A)
    if Z is None or not Z.same(AZ):
        cx.res.bad("input_modified:%s" % fn, "%s modified its argument although overwrite_a=False; %s" % (fn, cx.desc))


def _orth(cx, bucket, what, Q, rows=False):
    """Q^H Q = I (columns orthonormal), or Q Q^H = I if rows"""
    G = Q.mul(Q.H()) if rows else Q.H().mul(Q)
    I = ZM.eye(G.r)
    return cx.small(bucket, what, G.sub(I), cx.a2_1)


def _pairs_right(cx, bucket, EZ, VZ, what):
    """columns of VZ are eigenvectors for EZ (column of scalars)"""
    A = cx.AZ
    ok = True
    for i in range(VZ.c):
        v = VZ.col(i)
        v2 = v.norm2()
        if v2[0] == 0:
            cx.res.bad(bucket + ":zero_vector", "%s %d is the zero vector; %s" % (what, i, cx.desc))
            ok = False
            continue
        r = A.mul(v).sub(v.scal(EZ.re[i], EZ.im[i], EZ.e))
        ok &= cx.small(bucket, "%s %d, A v - e v" % (what, i), r, cx.a2, v2)
    return ok


def _pairs_left(cx, bucket, EZ, UZ, what):
    A = cx.AZ
    ok = True
    for i in range(UZ.r):
        u = UZ.row(i)
        u2 = u.norm2()
        if u2[0] == 0:
            cx.res.bad(bucket + ":zero_vector", "%s %d is the zero vector; %s" % (what, i, cx.desc))
            ok = False
            continue
        r = u.mul(A).sub(u.scal(EZ.re[i], EZ.im[i], EZ.e))
        ok &= cx.small(bucket, "%s %d, u A - e u" % (what, i), r, cx.a2, u2)
    return ok


def _trace(cx, bucket, EZ):
    n = cx.AZ.r
    tr = cx.AZ.trace()
    T = ZM(1, 1, [tr[0]], [tr[1]], tr[2])
    S = ZM(1, 1, [sum(EZ.re)], [sum(EZ.im)], EZ.e)
    cx.small(bucket, "sum of the eigenvalues minus trace(A)", S.sub(T), cx.a2, (n * n, 0))


def _known(cx, bucket, EZ):
    """compare the eigenvalue multiset with the construction's (well-conditioned constructions only)"""
    case = cx.case
    if "known" not in case or not cx.exactly:
        return
    kn = case["known"]
    ke = case["known_e"]
    n = len(kn)
    # tolerance^2 = kap2 * ||A||^2 * 2^(2(10-p)); must be far below the smallest gap between distinct known values
    t2 = d_mul(d_mul((case["kap2"], 0), cx.a2), cx.t2)
    gaps = [(a[0] - b[0]) ** 2 + (a[1] - b[1]) ** 2 for a in kn for b in kn if a != b]
    if gaps and not d_le(d_mul(t2, (64, 0)), (min(gaps), 2 * ke)):
        return                                               # too ill conditioned for a meaningful comparison
    e = min(EZ.e, ke)
    got = [(EZ.re[i] << (EZ.e - e), EZ.im[i] << (EZ.e - e)) for i in range(EZ.r)]
    want = [(a[0] << (ke - e), a[1] << (ke - e)) for a in kn]
    if len(got) != n:
        cx.res.bad(bucket + ":count", "%d eigenvalues returned for an %dx%d matrix; %s" % (len(got), n, n, cx.desc))
        return
    used = [False] * n
    for w in want:
        best, bi = None, None
        for i, g in enumerate(got):
            if used[i]:
                continue
            dd = (g[0] - w[0]) ** 2 + (g[1] - w[1]) ** 2
            if best is None or dd < best:
                best, bi = dd, i
        used[bi] = True
        cx.metric("lg_ratio:eigval", (best, 2 * e), t2)
        if not d_le((best, 2 * e), t2):
            cx.res.bad(bucket, "eigenvalue %s*2^%d of the construction (multiset %s) has no partner among the returned values: "
                       "nearest unused one is 2^%.1f away, allowed 2^%.1f; %s"
                       % (list(w), e, kn, 0.5 * d_lg((best, 2 * e)), 0.5 * d_lg(t2), cx.desc))
            return


def _raws_list(E):
    out = []
    for x in E:
        t = scal_raw(x)
        out.append(t if t is None else (tuple(t[0]), tuple(t[1])))
    return out


_PRIMES = [2, 3, 5, 7, 11, 13, 17, 19, 23, 29, 31, 37, 41, 43, 47, 53]


def _certify_eigenvalue(cx, lam_re, lam_im, lam_e):
    """find v with ||(A - lam I) v|| <= ||A|| ||v|| 2^(10-p) using the reference package, verify exactly"""
    import mpref
    rm = mpref.mp
    A = cx.AZ
    n = A.r
    old = rm.prec
    try:
        rm.prec = (n + 3) * cx.p + 200        # a Jordan block of size k has sigma_min ~ delta^k for a shift delta off the eigenvalue
        B = rm.matrix(n, n)
        for i in range(n):
            for j in range(n):
                B[i, j] = rm.mpc(rm.ldexp(rm.mpf(A.re[i * n + j]), A.e), rm.ldexp(rm.mpf(A.im[i * n + j]), A.e))
        lam = rm.mpc(rm.ldexp(rm.mpf(lam_re), lam_e), rm.ldexp(rm.mpf(lam_im), lam_e))
        nrm = rm.sqrt(rm.ldexp(rm.mpf(cx.a2[0]), cx.a2[1]))
        v = None
        for attempt in range(4):
            shift = lam + (nrm if nrm else 1) * rm.ldexp(rm.mpf(attempt), -cx.p - 14) * rm.mpc(3, 1)   # 2^-20 of the tolerance
            C = B - shift * rm.eye(n)
            try:
                # start vector with square roots of distinct primes: not orthogonal to any vector with rational entries
                y = rm.matrix([rm.mpc(rm.sqrt(_PRIMES[2 * i]), rm.sqrt(_PRIMES[2 * i + 1])) for i in range(n)])
                for _ in range(2):                    # inverse iteration with C^H C: converges to the right singular
                    y = rm.lu_solve(C.H, y)           # vector of the smallest singular value
                    y = y / rm.norm(y)
                    y = rm.lu_solve(C, y)
                    y = y / rm.norm(y)
                v = y
                break
            except (ZeroDivisionError, TypeError, ValueError):
                continue          # exactly singular: retry with a shift perturbed far below the tolerance
        if v is None:
            return None
        mx = max(abs(x) for x in v)
        w = [x / mx for x in v]
        sc = 2 * cx.p + 40
        vre = [int(rm.floor(rm.ldexp(rm.re(x), sc))) for x in w]
        vim = [int(rm.floor(rm.ldexp(rm.im(x), sc))) for x in w]
    finally:
        rm.prec = old
    V = ZM(n, 1, vre, vim, -sc)
    r = A.mul(V).sub(V.scal(lam_re, lam_im, lam_e))
    return d_le(r.norm2(), d_mul(d_mul(cx.a2, V.norm2()), cx.t2))


# ---------------------------------------------------------------------------------------------- eig / eig_sort

def _check_eig(mp, cx, A):
    res, case = cx.res, cx.case
    n = case["n"]
    left, right, ow = case["left"], case["right"], case["ow"]
    arg = A.copy() if ow else A
    try:
        out = mp.eig(arg, left=left, right=right, overwrite_a=ow)
    except RuntimeError as e:
        res.bad("noconv:hessenberg_qr", "eig raised %s; %s" % (e, cx.desc))
        return
    res.n += 1
    _unchanged(cx, "eig", A, cx.AZ, ow)
    want_len = 1 + int(left) + int(right)
    tag = "eig:L%dR%d" % (left, right)
    if want_len == 1:
        if not isinstance(out, list):
            res.bad("shape:eig:n1" if n == 1 else "shape:eig", "eig(left=False, right=False) is documented to return the list E, "
                    "returned %s of length %s; %s" % (type(out).__name__, len(out) if hasattr(out, "__len__") else "?", cx.desc))
            if isinstance(out, tuple) and out and isinstance(out[0], list):
                out = out[0]
            else:
                return
        E, EL, ER = out, None, None
    else:
        if not isinstance(out, tuple) or len(out) != want_len:
            res.bad("shape:eig", "eig(left=%s, right=%s) returned %s of length %s, documented %d-tuple; %s"
                    % (left, right, type(out).__name__, len(out) if hasattr(out, "__len__") else "?", want_len, cx.desc))
            return
        E = out[0]
        EL = out[1] if left else None
        ER = out[-1] if right else None
    if not isinstance(E, list) or len(E) != n:
        res.bad("shape:eig", "E is %s of length %s for n=%d; %s" % (type(E).__name__, len(E) if hasattr(E, "__len__") else "?", n, cx.desc))
        return
    EZ = zm_from(E)
    if EZ is None:
        return _nonfinite(cx, "nonfinite:eig", "E")
    ok = True
    for nm, M in (("EL", EL), ("ER", ER)):
        if M is not None and not (hasattr(M, "rows") and (M.rows, M.cols) == (n, n)):
            res.bad("shape:eig", "%s is not an %dx%d matrix; %s" % (nm, n, n, cx.desc))
            return
    if ER is not None:
        VZ = zm_from(ER)
        if VZ is None:
            return _nonfinite(cx, "nonfinite:eig", "ER")
        ok &= _pairs_right(cx, "resid:eig:right", EZ, VZ, "right eigenvector")
    if EL is not None:
        UZ = zm_from(EL)
        if UZ is None:
            return _nonfinite(cx, "nonfinite:eig", "EL")
        ok &= _pairs_left(cx, "resid:eig:left", EZ, UZ, "left eigenvector")
    if EL is None and ER is None:
        # eigenvalues only: every value must lie in the 2^(10-p)||A|| pseudospectrum, shown by an explicit vector
        undecided = False
        for i in range(n):
            c = _certify_eigenvalue(cx, EZ.re[i], EZ.im[i], EZ.e)
            if c is None:
                undecided = True
            elif not c:
                res.bad("resid:eig:values_only", "eigenvalue %d = %s returned by eig(left=False, right=False) is not an "
                        "eigenvalue of any matrix within ||A|| 2^(10-p) of A (no certifying vector); %s" % (i, E[i], cx.desc))
        if undecided:
            # fall back: accept values that are bit-identical to those of a full call whose eigenpairs pass the exact check
            same = False
            try:
                E2, ER2 = mp.eig(A, left=False, right=True)
                res.n += 1
                VZ2, EZ2 = zm_from(ER2), zm_from(E2)
                if VZ2 is not None and EZ2 is not None and _raws_list(E) == _raws_list(E2):
                    same = _pairs_right(cx, "resid:eig:right", EZ2, VZ2, "right eigenvector (full call)")
            except (RuntimeError, ZeroDivisionError):
                same = False
            if not same:
                res.inconclusive = True
    _trace(cx, "trace:eig", EZ)
    _known(cx, "eigval:eig", EZ)
    _check_sort(mp, cx, E, EL, ER)


def _key_exact(f, t):
    """exact key of eigenvalue raw pair t=(re_raw, im_raw) as a Fraction, and slack flag"""
    re, im = exact.to_fraction(t[0]), exact.to_fraction(t[1])
    if f in ("default", "real"):
        return re
    if f == "imag":
        return im
    if f == "negre":
        return -re
    return re * re + im * im          # abs: compared through squares


def _check_sort(mp, cx, E, EL, ER):
    res, case = cx.res, cx.case
    n = len(E)
    f = case["sortf"]
    sv = case["sortv"]
    useL = EL is not None and bool(sv & 2)
    useR = ER is not None and bool(sv & 1)
    E0 = list(E)
    L0 = EL.copy() if useL else False
    R0 = ER.copy() if useR else False
    before = []
    r0 = _raws_list(E0)
    for i in range(n):
        before.append((r0[i],
                       tuple(_raws_list([EL[i, j] for j in range(n)])) if useL else None,
                       tuple(_raws_list([ER[j, i] for j in range(n)])) if useR else None))
    kw = {}
    if f == "negre":
        kw["f"] = lambda x: -mp.re(x)
    elif f != "default":
        kw["f"] = f
    out = mp.eig_sort(E0, L0, R0, **kw)
    res.n += 1
    want_len = 1 + int(useL) + int(useR)
    if want_len == 1:
        if not isinstance(out, list):
            res.bad("shape:eig_sort", "eig_sort(E) returned %s, documented E; %s" % (type(out).__name__, cx.desc))
            return
        Es, Ls, Rs = out, None, None
    else:
        if not isinstance(out, tuple) or len(out) != want_len:
            res.bad("shape:eig_sort", "eig_sort returned %s of length %s, documented %d-tuple; %s"
                    % (type(out).__name__, len(out) if hasattr(out, "__len__") else "?", want_len, cx.desc))
            return
        Es = out[0]
        Ls = out[1] if useL else None
        Rs = out[-1] if useR else None
    if len(Es) != n:
        res.bad("shape:eig_sort", "eig_sort returned %d eigenvalues for %d; %s" % (len(Es), n, cx.desc))
        return
    rs = _raws_list(Es)
    after = []
    for i in range(n):
        after.append((rs[i],
                      tuple(_raws_list([Ls[i, j] for j in range(n)])) if useL else None,
                      tuple(_raws_list([Rs[j, i] for j in range(n)])) if useR else None))
    if sorted(map(repr, before)) != sorted(map(repr, after)):
        res.bad("perm:eig_sort", "eig_sort(f=%s) did not return a permutation of the eigenpairs it was given "
                "(E before %s, after %s); %s" % (f, E, Es, cx.desc))
        return
    keys = [_key_exact(f, t) for t in rs]
    for i in range(n - 1):
        a, b = keys[i], keys[i + 1]
        if a > b:
            if f == "abs" and a <= b * (1 + Fraction(1, 1 << (cx.p - 3))):
                continue                      # |.| is compared after rounding to p bits
            res.bad("order:eig_sort", "eig_sort(f=%s): key of element %d exceeds key of element %d in the result %s; %s"
                    % (f, i, i + 1, Es, cx.desc))
            return


# ---------------------------------------------------------------------------------------------- schur / hessenberg

def _check_schur(mp, cx, A):
    res, case = cx.res, cx.case
    n, fn, ow = case["n"], case["fn"], case["ow"]
    arg = A.copy() if ow else A
    try:
        out = getattr(mp, fn)(arg, overwrite_a=ow)
    except RuntimeError as e:
        res.bad("noconv:hessenberg_qr", "%s raised %s; %s" % (fn, e, cx.desc))
        return
    res.n += 1
    if n > 1:
        _unchanged(cx, fn, A, cx.AZ, ow)          # for n == 1 the argument itself is returned as T, nothing to modify
    if not isinstance(out, tuple) or len(out) != 2:
        res.bad("shape:%s" % fn, "%s returned %s, documented (Q, T); %s" % (fn, type(out).__name__, cx.desc))
        return
    Q, T = out
    for nm, M in (("Q", Q), ("T", T)):
        if not (hasattr(M, "rows") and (M.rows, M.cols) == (n, n)):
            res.bad("shape:%s" % fn, "%s is not an %dx%d matrix; %s" % (nm, n, n, cx.desc))
            return
    QZ, TZ = zm_from(Q), zm_from(T)
    if QZ is None or TZ is None:
        return _nonfinite(cx, "nonfinite:%s" % fn, "Q or T")
    low = 1 if fn == "schur" else 2
    for i in range(n):
        for j in range(n):
            if i - j >= low and (TZ.re[i * n + j] or TZ.im[i * n + j]):
                res.bad("structure:%s" % fn, "%s: entry (%d,%d) of the %s factor is %s, not exactly zero; %s"
                        % (fn, i, j, "triangular" if low == 1 else "Hessenberg", T[i, j], cx.desc))
                return
    cx.small("resid:%s:QTQh" % fn, "Q T Q^H - A", QZ.mul(TZ).mul(QZ.H()).sub(cx.AZ), cx.a2)
    _orth(cx, "orth:%s:Q" % fn, "Q^H Q - I", QZ)
    if fn == "schur":
        EZ = ZM(n, 1, [TZ.re[i * n + i] for i in range(n)], [TZ.im[i * n + i] for i in range(n)], TZ.e)
        _known(cx, "eigval:schur", EZ)


# ---------------------------------------------------------------------------------------------- eigsy / eighe / eigh

def _check_herm(mp, cx, A):
    res, case = cx.res, cx.case
    n, fn, ow, vo = case["n"], case["fn"], case["ow"], case["vals_only"]
    f = getattr(mp, fn)
    rt = "eighe" if (fn == "eighe" or (fn == "eigh" and not cx.AZ.is_real())) else "eigsy"     # routine that does the work
    try:
        full = f(A)
    except RuntimeError as e:
        res.bad("noconv:tridiag_eigen", "%s raised %s; %s" % (fn, e, cx.desc))
        return
    res.n += 1
    _unchanged(cx, fn, A, cx.AZ, False)
    if not isinstance(full, tuple) or len(full) != 2:
        res.bad("shape:%s" % fn, "%s returned %s, documented (E, Q); %s" % (fn, type(full).__name__, cx.desc))
        return
    E, Q = full
    if not (hasattr(E, "rows") and E.rows * E.cols == n and hasattr(Q, "rows") and (Q.rows, Q.cols) == (n, n)):
        res.bad("shape:%s" % fn, "E or Q has the wrong shape; %s" % cx.desc)
        return
    EZ = _real_vector(mp, cx, "type:%s:E" % fn, "eigenvalue", [E[i] for i in range(n)])
    if EZ is None:
        return
    QZ = zm_from(Q)
    if QZ is None:
        return _nonfinite(cx, "nonfinite:%s" % fn, "Q")
    if (fn == "eigsy" or (fn == "eigh" and cx.AZ.is_real())) and not QZ.is_real():
        res.bad("type:%s:Q" % fn, "Q has non-real entries for a real symmetric matrix; %s" % cx.desc)
    _ascending(cx, "order:%s" % rt, EZ, E, 1)
    ok = _pairs_right(cx, "resid:%s:AQ" % rt, EZ, QZ, "eigenvector")
    ok &= _orth(cx, "orth:%s:Q" % rt, "Q^H Q - I", QZ)
    _known(cx, "eigval:%s" % rt, EZ)
    if vo or ow:
        arg = A.copy() if ow else A
        try:
            o2 = f(arg, eigvals_only=vo, overwrite_a=ow)
        except RuntimeError as e:
            res.bad("noconv:tridiag_eigen", "%s(eigvals_only=%s) raised %s; %s" % (fn, vo, e, cx.desc))
            return
        res.n += 1
        _unchanged(cx, fn, A, cx.AZ, ow)
        if vo:
            if not (hasattr(o2, "rows") and o2.rows * o2.cols == n):
                res.bad("shape:%s" % fn, "%s(eigvals_only=True) returned %s, documented E; %s" % (fn, type(o2).__name__, cx.desc))
                return
            E2 = o2
        else:
            if not isinstance(o2, tuple) or len(o2) != 2:
                res.bad("shape:%s" % fn, "%s(overwrite_a=True) returned %s; %s" % (fn, type(o2).__name__, cx.desc))
                return
            E2 = o2[0]
        E2Z = _real_vector(mp, cx, "type:%s:E" % fn, "eigenvalue (second call)", [E2[i] for i in range(n)])
        if E2Z is None:
            return
        _ascending(cx, "order:%s" % rt, E2Z, E2, 1)
        if ok and not E2Z.same(EZ):
            # Weyl: both sorted spectra are within the certified residual of the true one
            dz = E2Z.sub(EZ)
            worst = max(x * x for x in dz.re)
            b2 = d_mul(d_mul(cx.a2, (4, 0)), cx.t2)
            cx.metric("lg_ratio:vals_only", (worst, 2 * dz.e), b2)
            if not d_le((worst, 2 * dz.e), b2):
                res.bad("eigval:%s:vals_only" % rt, "%s(eigvals_only=%s, overwrite_a=%s) = %s differs from the certified "
                        "eigenvalues %s by more than 2 ||A|| 2^(10-p); %s" % (fn, vo, ow, list(E2), list(E), cx.desc))
        if not vo:
            Q2Z = zm_from(o2[1])
            if Q2Z is None:
                return _nonfinite(cx, "nonfinite:%s" % fn, "Q")
            _pairs_right(cx, "resid:%s:AQ" % rt, E2Z, Q2Z, "eigenvector (overwrite_a)")
            _orth(cx, "orth:%s:Q" % rt, "Q^H Q - I (overwrite_a)", Q2Z)


def _real_vector(mp, cx, bucket, what, items):
    """exact column of the items, which must be finite and real-typed"""
    for i, x in enumerate(items):
        if not isinstance(x, mp.mpf):
            t = scal_raw(x)
            if t is None or t[1] != exact.fzero:
                cx.res.bad(bucket, "%s %d is %r (type %s), documented real; %s" % (what, i, x, type(x).__name__, cx.desc))
                return None
            cx.res.bad(bucket + ":mpc", "%s %d has type %s (zero imaginary part) instead of mpf; %s" % (what, i, type(x).__name__, cx.desc))
    Z = zm_from(items)
    if Z is None:
        _nonfinite(cx, bucket.replace("type", "nonfinite"), what)
    return Z


def _ascending(cx, bucket, Z, E, sign):
    for i in range(Z.r - 1):
        if sign * Z.re[i] > sign * Z.re[i + 1]:
            cx.res.bad(bucket, "values are not in %s order: %s; %s" % ("ascending" if sign > 0 else "descending", list(E), cx.desc))
            return False
    return True


# ---------------------------------------------------------------------------------------------- svd

def _check_svd(mp, cx, A):
    res, case = cx.res, cx.case
    m, n, fn = case["n"], case["m"], case["fn"]              # A is m x n
    full, uv, ow = case["full"], case["uv"], case["ow"]
    f = getattr(mp, fn)
    rt = "svd_c" if (fn == "svd_c" or (fn == "svd" and not cx.AZ.is_real())) else "svd_r"         # routine that does the work
    k = min(m, n)
    arg = A.copy() if ow else A
    try:
        out = f(arg, full_matrices=full, compute_uv=True, overwrite_a=ow)
    except RuntimeError as e:
        res.bad("noconv:%s" % rt, "%s raised %s; %s" % (fn, e, cx.desc))
        return
    res.n += 1
    _unchanged(cx, fn, A, cx.AZ, ow)
    if not isinstance(out, tuple) or len(out) != 3:
        res.bad("shape:%s" % fn, "%s returned %s, documented (U, S, V); %s" % (fn, type(out).__name__, cx.desc))
        return
    U, S, V = out
    shU = (m, m) if full else (m, k)
    shV = (n, n) if full else (k, n)
    tagf = "full" if full else "thin"
    if not (hasattr(U, "rows") and hasattr(V, "rows") and hasattr(S, "rows")) or (U.rows, U.cols) != shU or \
            (V.rows, V.cols) != shV or S.rows * S.cols != k:
        res.bad("shape:%s:%s" % (fn, tagf), "%s(full_matrices=%s) of a %dx%d matrix returned shapes U %s, S %s, V %s; documented "
                "%s, %d, %s; %s" % (fn, full, m, n, (getattr(U, "rows", "?"), getattr(U, "cols", "?")),
                                    (getattr(S, "rows", "?"), getattr(S, "cols", "?")), (getattr(V, "rows", "?"), getattr(V, "cols", "?")),
                                    shU, k, shV, cx.desc))
        return
    SZ = _real_vector(mp, cx, "type:%s:S" % fn, "singular value", [S[i] for i in range(k)])
    if SZ is None:
        return
    UZ, VZ = zm_from(U), zm_from(V)
    if UZ is None or VZ is None:
        return _nonfinite(cx, "nonfinite:%s" % fn, "U or V")
    if cx.AZ.is_real() and fn in ("svd", "svd_r") and not (UZ.is_real() and VZ.is_real()):
        res.bad("type:%s:UV" % fn, "complex factors for a real matrix; %s" % cx.desc)
    if any(x < 0 for x in SZ.re):
        res.bad("sign:%s" % rt, "negative singular value in %s; %s" % (list(S), cx.desc))
    _ascending(cx, "order:%s" % rt, SZ, S, -1)
    D = zm_diag(SZ, shU[1], shV[0])
    ok = cx.small("resid:%s:USV:%s" % (rt, tagf), "U diag(S) V - A", UZ.mul(D).mul(VZ).sub(cx.AZ), cx.a2)
    ubucket = "orth:%s:U:%s" % (rt, tagf)
    if n > m and d_le((SZ.re[k - 1] ** 2, 2 * SZ.e), d_mul(cx.a2, cx.t2)):
        ubucket = "orth:%s:U:wide_rankdef" % rt           # more columns than rows and numerically rank deficient
    ok &= _orth(cx, ubucket, "U^H U - I", UZ)
    ok &= _orth(cx, "orth:%s:V:%s" % (rt, tagf), "V V^H - I", VZ, rows=True)
    if not uv:
        arg = A.copy() if ow else A
        try:
            S2 = f(arg, full_matrices=full, compute_uv=False, overwrite_a=ow)
        except RuntimeError as e:
            res.bad("noconv:%s" % rt, "%s(compute_uv=False) raised %s; %s" % (fn, e, cx.desc))
            return
        res.n += 1
        _unchanged(cx, fn, A, cx.AZ, ow)
        if not (hasattr(S2, "rows") and S2.rows * S2.cols == k) or isinstance(S2, tuple):
            res.bad("shape:%s:values_only" % fn, "%s(compute_uv=False) returned %s of %s entries, documented S of length %d; %s"
                    % (fn, type(S2).__name__, getattr(S2, "rows", "?"), k, cx.desc))
            return
        S2Z = _real_vector(mp, cx, "type:%s:S" % fn, "singular value (compute_uv=False)", [S2[i] for i in range(k)])
        if S2Z is None:
            return
        if any(x < 0 for x in S2Z.re):
            res.bad("sign:%s" % rt, "negative singular value in %s (compute_uv=False); %s" % (list(S2), cx.desc))
        _ascending(cx, "order:%s" % rt, S2Z, S2, -1)
        if ok and not S2Z.same(SZ):
            dz = S2Z.sub(SZ)
            worst = max(x * x for x in dz.re)
            b2 = d_mul(d_mul(cx.a2, (4, 0)), cx.t2)
            cx.metric("lg_ratio:vals_only", (worst, 2 * dz.e), b2)
            if not d_le((worst, 2 * dz.e), b2):
                res.bad("singval:%s:values_only" % rt, "%s(compute_uv=False) = %s differs from the certified singular values %s "
                        "by more than 2 ||A|| 2^(10-p); %s" % (fn, list(S2), list(S), cx.desc))


# ---------------------------------------------------------------------------------------------- gauss_quadrature

def _moment(rm, qt, k, a, b):
    """closed-form k-th moment of the documented weight function (reference package, caller sets the precision)"""
    half = rm.mpf(1) / 2
    if qt == "legendre":
        return rm.mpf(2) / (k + 1) if k % 2 == 0 else rm.mpf(0)
    if qt == "legendre01":
        return rm.mpf(1) / (k + 1)
    if qt == "hermite":
        return rm.gamma(rm.mpf(k + 1) / 2) if k % 2 == 0 else rm.mpf(0)
    if qt == "laguerre":
        return rm.factorial(k)
    if qt == "glaguerre":
        return rm.gamma(k + a + 1)
    if qt == "chebyshev1":
        return rm.beta(rm.mpf(k + 1) / 2, half) if k % 2 == 0 else rm.mpf(0)
    if qt == "chebyshev2":
        return rm.beta(rm.mpf(k + 1) / 2, 3 * half) if k % 2 == 0 else rm.mpf(0)
    if qt == "jacobi":
        # x = 2t - 1:  2^(a+b+1) * sum_j C(k,j) 2^j (-1)^(k-j) B(b+1+j, a+1)
        s = rm.mpf(0)
        for j in range(k + 1):
            s += rm.binomial(k, j) * (1 << j) * (-1) ** (k - j) * rm.beta(b + 1 + j, a + 1)
        return rm.power(2, a + b + 1) * s
    raise ValueError(qt)


INTERVAL = {"legendre": (-1, 1), "legendre01": (0, 1), "hermite": (None, None), "laguerre": (0, None),
            "glaguerre": (0, None), "chebyshev1": (-1, 1), "chebyshev2": (-1, 1), "jacobi": (-1, 1)}


def _check_gauss(mp, res, case):
    import mpref
    rm = mpref.mp
    p, n, qt = case["p"], case["n"], case["qtype"]
    (an, asx), (bn, bs) = case["alpha"], case["beta"]
    desc = "p=%d gauss_quadrature(%d, %r, alpha=%d/2^%d, beta=%d/2^%d) [parameters passed as %s]" % (p, n, qt, an, asx, bn, bs, case["ptype"])

    def par(num, s):
        if case["ptype"] == "float":
            return float(num) / (1 << s)
        if case["ptype"] == "auto" and s == 0:
            return num
        return mp.ldexp(mp.mpf(num), -s)
    if qt == "jacobi":
        out = mp.gauss_quadrature(n, qt, par(an, asx), par(bn, bs))
    elif qt == "glaguerre":
        out = mp.gauss_quadrature(n, qt, par(an, asx))
    else:
        out = mp.gauss_quadrature(n, qt)
    res.nontrivial = n >= 2
    if not isinstance(out, tuple) or len(out) != 2:
        return res.bad("shape:gauss", "returned %s, documented (X, W); %s" % (type(out).__name__, desc))
    X, W = out
    for nm, M in (("X", X), ("W", W)):
        if not hasattr(M, "rows") or M.rows * M.cols != n:
            return res.bad("shape:gauss", "%s has %s entries, documented %d; %s" % (nm, getattr(M, "rows", "?"), n, desc))
    xs, ws = [], []
    for i in range(n):
        for nm, v, lst in (("node", X[i], xs), ("weight", W[i], ws)):
            t = scal_raw(v)
            if t is None or t[1] != exact.fzero:
                return res.bad("type:gauss:%s" % qt, "%s %d is %r, documented real; %s" % (nm, i, v, desc))
            lst.append(t[0])
    for i in range(n):
        if ws[i][0] or not ws[i][1]:
            res.bad("weight_sign:gauss:%s" % qt, "weight %d = %s is not positive; %s" % (i, W[i], desc))
    lo, hi = INTERVAL[qt]
    for i in range(n):
        x = exact.to_fraction(xs[i])
        if (lo is not None and x <= lo) or (hi is not None and x >= hi):
            res.bad("node_range:gauss:%s" % qt, "node %d = %s is not inside the interval (%s, %s); %s" % (i, X[i], lo, hi, desc))
    if len(set(xs)) != n:
        res.bad("node_distinct:gauss:%s" % qt, "nodes are not distinct: %s; %s" % (list(X), desc))
    # exact sums  sum w_i x_i^k  and  sum w_i |x_i|^k  as integers times a power of two
    ex = min([t[2] for t in xs if t[1]] or [0])
    ew = min([t[2] for t in ws if t[1]] or [0])
    XI = [(-1 if t[0] else 1) * (int(t[1]) << (t[2] - ex)) if t[1] else 0 for t in xs]
    WI = [(-1 if t[0] else 1) * (int(t[1]) << (t[2] - ew)) if t[1] else 0 for t in ws]
    old = rm.prec
    try:
        rm.prec = 3 * p + 200
        a = rm.ldexp(rm.mpf(an), -asx)
        b = rm.ldexp(rm.mpf(bn), -bs)
        m0 = _moment(rm, qt, 0, a, b)
        pw = [1] * n
        worst = None
        for k in range(2 * n):
            s = sum(w * x for w, x in zip(WI, pw))
            sa = sum(abs(w) * abs(x) for w, x in zip(WI, pw))
            e = ew + k * ex
            sv = rm.ldexp(rm.mpf(s), e)
            sav = rm.ldexp(rm.mpf(sa), e)
            mk = _moment(rm, qt, k, a, b)
            scale = max(m0, sav)
            err = abs(sv - mk)
            ratio = err / (scale * n * rm.ldexp(rm.mpf(1), 10 - p))
            if worst is None or ratio > worst[0]:
                worst = (ratio, k, sv, mk)
            pw = [x * y for x, y in zip(pw, XI)]
        res.n = 2 * n
        if worst[0] > 0:
            res.metrics["lg_ratio:gauss"] = float(rm.log(worst[0], 2)) + 10
        if worst[0] > 1:
            ratio, k, sv, mk = worst
            res.bad("moment:gauss:%s" % qt, "sum w_i x_i^%d = %s but the exact moment is %s: error is %s times the allowed "
                    "n 2^(10-p) max(m_0, sum w_i |x_i|^k); %s" % (k, rm.nstr(sv, 25), rm.nstr(mk, 25), rm.nstr(ratio, 5), desc))
    finally:
        rm.prec = old
    return res


# ---------------------------------------------------------------------------------------------- entry point

def check_case(case):
    import mpmath
    from mpmath import mp
    res = R()
    res.cls = case["cls"]
    res.n = 0
    old = mp.prec
    try:
        mp.prec = case["p"]
        if case["fn"] == "gauss":
            return _check_gauss(mp, res, case)
        A, AZ, exactly = _build(mp, case)
        cx = Ctx(res, case, AZ)
        cx.exactly = exactly
        n = case["n"]
        res.nontrivial = min(case["n"], case["m"]) >= 3 and case["kind"] not in ("diag", "zero")
        fn = case["fn"]
        if fn == "eig":
            _check_eig(mp, cx, A)
        elif fn in ("schur", "hessenberg"):
            _check_schur(mp, cx, A)
        elif fn in ("eigsy", "eighe", "eigh"):
            _check_herm(mp, cx, A)
        else:
            _check_svd(mp, cx, A)
        res.n = max(res.n, 1)
        return res
    finally:
        mp.prec = 53
