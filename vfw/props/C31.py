"""C31 -- eigen and singular value decompositions satisfy their identities; gauss_quadrature integrates
polynomials of degree < 2n exactly."""
from fractions import Fraction

from .. import exact
from ..core import R

ID = "C31"
LEVEL = "exploration"
CASE_TIMEOUT = 120.0
RULE = ("Cases = (routine, options, matrix, precision 30..300 bits). Matrices of size 1..8 (svd also rectangular "
        "1..8 x 1..8) with small integer or dyadic entries (integers times a power of two): random real / complex, "
        "symmetric, Hermitian, upper / lower triangular (also with repeated diagonal), diagonal, already Hessenberg / "
        "tridiagonal, permutation matrices, c*I + rank one, zero matrix, zeroed rows / columns, direct sums of 1x1 and "
        "2x2 blocks, defective S*J*S^-1 (J a Jordan form with integer eigenvalues, S a unimodular integer matrix), "
        "diagonalisable S*D*S^-1 with known kappa(S), normal U*D*U^H with exactly unitary dyadic U (signed / phase "
        "permutations, 4x4 Hadamard/2, the (1+i)/2 [[1,-i],[-i,1]] block), rank-deficient outer products. Routines and "
        "options: eig (all four left/right combinations, overwrite_a) followed by eig_sort (default, 'real', 'imag', "
        "'abs', a callable; with EL and/or ER or neither), schur, hessenberg, eigsy, eighe, eigh (eigvals_only, "
        "overwrite_a), svd, svd_r, svd_c (full_matrices, compute_uv, overwrite_a), gauss_quadrature(n = 1..12, all eight "
        "documented types, alpha/beta dyadic > -1 passed as mpf / int / float). Oracle = the defining identity "
        "evaluated in exact integer arithmetic on the returned mpf/mpc values (they are dyadic rationals): "
        "||A v - e v||_2 <= ||A||_F ||v||_2 2^(10-p) for every returned eigenpair (same for left eigenvectors u A = e u; "
        "the bound is homogeneous in v because eig does not normalise; v must be non-zero), "
        "||Q T Q^H - A||_F <= ||A||_F 2^(10-p) with T exactly upper triangular (H exactly zero below the first "
        "subdiagonal), ||Q^H Q - I||_F <= max(1, ||A||_F) 2^(10-p), |sum(E) - trace(A)| <= n ||A||_F 2^(10-p); "
        "eigsy/eighe/eigh: eigenvalues of type mpf, ascending (exact comparison), Q real for eigsy, columnwise residual "
        "and orthonormality as above; eigenvalue-only calls (eig without vectors, eigvals_only, compute_uv=False) are "
        "accepted when bit-identical to the certified values of the full call, else compared with them using Weyl's "
        "bound 2 ||A||_F 2^(10-p) (Hermitian / singular values) or certified through an explicit vector v with "
        "||(A - e I) v|| <= ||A||_F ||v|| 2^(10-p) found with the reference package at 3p+100 bits and verified exactly; "
        "svd: shapes as documented for full_matrices, S of type mpf, non-negative, descending, "
        "||U diag(S) V - A||_F <= ||A||_F 2^(10-p), U^H U = 1 and V V^H = 1 within max(1,||A||_F) 2^(10-p); eig_sort: the "
        "output is exactly a permutation of the input eigenpairs (raw tuples), keys f(E) non-decreasing (exact "
        "comparison; for 'abs' up to the rounding of abs), return shape as documented; the input matrix is unchanged "
        "unless overwrite_a. Where the spectrum is known by construction and well conditioned (diagonal, triangular with "
        "distinct diagonal and exactly computed eigenvector condition, S D S^-1, normal) the eigenvalue multiset is "
        "compared within kappa_F ||A||_F 2^(10-p) (Bauer-Fike; skipped unless that is < 1/8 of the smallest gap). "
        "gauss_quadrature: X, W are n x 1 real, weights > 0, nodes strictly inside the interval, and for every k <= 2n-1 "
        "|sum w_i x_i^k - m_k| <= n 2^(10-p) max(m_0, sum w_i |x_i|^k) where m_k is the closed-form moment (Legendre "
        "2/(k+1), Hermite Gamma((k+1)/2), Laguerre Gamma(k+alpha+1), Chebyshev / Jacobi Beta-function sums) evaluated with "
        "the reference package at 3p+200 bits; the sum is evaluated in exact rational arithmetic. Non-trivial = matrix "
        "of size >= 3 that is not diagonal / zero (an iteration has to run), or a quadrature rule with n >= 2.")
ASSUMPTIONS = ["CPython integer arithmetic; returned mpf/mpc values are read as exact dyadic rationals through their raw tuples",
               "reference mpmath 1.3.0 (mpref) gamma/beta/binomial at 3p+200 bits for the closed-form moments",
               "mpref lu_solve is used only to FIND a certifying vector for an eigenvalue returned without vectors; "
               "acceptance is decided by exact arithmetic on that vector",
               "Weyl's theorem (Hermitian eigenvalues / singular values move by at most the norm of the perturbation) and "
               "Bauer-Fike for the eigenvalue comparisons, which are consequences of the stated residual bounds",
               "||.|| in the statement is read as the Frobenius norm (the largest of the usual norms, i.e. the most lenient)"]
TECHNIQUE = "property-based testing (Hypothesis) with constructed matrix classes; exact-arithmetic residual oracle"

GAUSS_TYPES = ["legendre", "legendre01", "hermite", "laguerre", "glaguerre", "chebyshev1", "chebyshev2", "jacobi"]


def shards(tier):
    k = 1 if tier == "quick" else 25
    return ([("eig", 150 * k)] * 5 + [("schur", 150 * k)] * 2 + [("herm", 260 * k)] * 3 + [("svd", 200 * k)] * 4 +
            [("gauss", 130 * k)] * 2)


# ============================================================================================ exact matrices
# complex integer matrices scaled by a power of two: value[i][j] = (re + i*im) * 2^e

class ZM:
    __slots__ = ("r", "c", "re", "im", "e")

    def __init__(self, r, c, re, im, e=0):
        self.r, self.c, self.re, self.im, self.e = r, c, re, im, e

    @staticmethod
    def zeros(r, c):
        return ZM(r, c, [0] * (r * c), [0] * (r * c), 0)

    @staticmethod
    def eye(n):
        z = ZM.zeros(n, n)
        for i in range(n):
            z.re[i * n + i] = 1
        return z

    @staticmethod
    def from_rows(rre, rim=None, e=0):
        r = len(rre)
        c = len(rre[0]) if r else 0
        re = [int(x) for row in rre for x in row]
        im = [int(x) for row in rim for x in row] if rim is not None else [0] * (r * c)
        return ZM(r, c, re, im, e)

    def rows_re(self):
        return [self.re[i * self.c:(i + 1) * self.c] for i in range(self.r)]

    def rows_im(self):
        return [self.im[i * self.c:(i + 1) * self.c] for i in range(self.r)]

    def get(self, i, j):
        return self.re[i * self.c + j], self.im[i * self.c + j]

    def is_real(self):
        return not any(self.im)

    def H(self):
        r, c = self.r, self.c
        re = [self.re[i * c + j] for j in range(c) for i in range(r)]
        im = [-self.im[i * c + j] for j in range(c) for i in range(r)]
        return ZM(c, r, re, im, self.e)

    def mul(self, o):
        assert self.c == o.r, (self.r, self.c, o.r, o.c)
        r, n, c = self.r, self.c, o.c
        re = [0] * (r * c)
        im = [0] * (r * c)
        are, aim, bre, bim = self.re, self.im, o.re, o.im
        areal = not any(aim)
        breal = not any(bim)
        for i in range(r):
            for j in range(c):
                sr = si = 0
                for k in range(n):
                    a = are[i * n + k]
                    b = aim[i * n + k] if not areal else 0
                    x = bre[k * c + j]
                    y = bim[k * c + j] if not breal else 0
                    sr += a * x - b * y
                    si += a * y + b * x
                re[i * c + j] = sr
                im[i * c + j] = si
        return ZM(r, c, re, im, self.e + o.e)

    def sub(self, o):
        assert (self.r, self.c) == (o.r, o.c)
        e = min(self.e, o.e)
        sa, sb = self.e - e, o.e - e
        re = [(a << sa) - (b << sb) for a, b in zip(self.re, o.re)]
        im = [(a << sa) - (b << sb) for a, b in zip(self.im, o.im)]
        return ZM(self.r, self.c, re, im, e)

    def norm2(self):
        return (sum(a * a for a in self.re) + sum(a * a for a in self.im), 2 * self.e)

    def col(self, j):
        return ZM(self.r, 1, [self.re[i * self.c + j] for i in range(self.r)],
                  [self.im[i * self.c + j] for i in range(self.r)], self.e)

    def row(self, i):
        return ZM(1, self.c, self.re[i * self.c:(i + 1) * self.c], self.im[i * self.c:(i + 1) * self.c], self.e)

    def scal(self, zre, zim, ze):
        """multiply by the scalar (zre + i zim) 2^ze"""
        re = [a * zre - b * zim for a, b in zip(self.re, self.im)]
        im = [a * zim + b * zre for a, b in zip(self.re, self.im)]
        return ZM(self.r, self.c, re, im, self.e + ze)

    def trace(self):
        n = min(self.r, self.c)
        return (sum(self.re[i * self.c + i] for i in range(n)), sum(self.im[i * self.c + i] for i in range(n)), self.e)

    def same(self, o):
        """exact equality of values"""
        d = self.sub(o)
        return not any(d.re) and not any(d.im)


def d_le(a, b):
    """a = (N, e), b = (M, f): N 2^e <= M 2^f (N, M >= 0)"""
    (n, e), (m, f) = a, b
    g = min(e, f)
    return (n << (e - g)) <= (m << (f - g))


def d_mul(a, b):
    return (a[0] * b[0], a[1] + b[1])


def d_lg(a):
    """log2 of N 2^e (float), -inf -> -1e9"""
    n, e = a
    if n <= 0:
        return -1e9
    import math
    bl = n.bit_length()
    top = n >> max(0, bl - 60)
    return math.log2(top) + max(0, bl - 60) + e


def d_max(a, b):
    return b if d_le(a, b) else a


def tol2(p, k=10):
    """(2^(k-p))^2"""
    return (1, 2 * (k - p))


# ---------------------------------------------------------------- conversion from the mpmath side

def scal_raw(x):
    """(re_raw, im_raw) of a returned scalar, or None if it is not a finite mpf/mpc/int"""
    if hasattr(x, "_mpf_"):
        t = tuple(x._mpf_)
        if t[1] == 0 and t != exact.fzero:
            return None
        return t, exact.fzero
    if hasattr(x, "_mpc_"):
        a, b = tuple(x._mpc_[0]), tuple(x._mpc_[1])
        for t in (a, b):
            if t[1] == 0 and t != exact.fzero:
                return None
        return a, b
    if isinstance(x, int):
        return exact.from_int(x), exact.fzero
    return None


def zm_from(M):
    """exact ZM of an mpmath matrix (or list of scalars -> column); None if non-finite / foreign entries"""
    if isinstance(M, (list, tuple)):
        r, c = len(M), 1
        ent = list(M)
    else:
        r, c = M.rows, M.cols
        ent = [M[i, j] for i in range(r) for j in range(c)]
    raws = []
    for x in ent:
        t = scal_raw(x)
        if t is None:
            return None
        raws.append(t)
    exps = [t[2] for pair in raws for t in pair if t[1]]
    e = min(exps) if exps else 0

    def toint(t):
        if not t[1]:
            return 0
        v = int(t[1]) << (t[2] - e)
        return -v if t[0] else v
    return ZM(r, c, [toint(a) for a, b in raws], [toint(b) for a, b in raws], e)


def zm_diag(S, r, c):
    """r x c matrix with the column S on its diagonal"""
    z = ZM.zeros(r, c)
    z.e = S.e
    for i in range(min(r, c, S.r)):
        z.re[i * c + i] = S.re[i]
        z.im[i * c + i] = S.im[i]
    return z


# ============================================================================================ generators

def _mag(d):
    return d.weighted([(6, 9), (3, 2), (2, 1), (2, 1000), (1, 1 << 20)])


def _ent(d, mag, pz):
    """integer entry, zero with probability pz/8"""
    if pz and d.int(0, 7) < pz:
        return 0
    return d.int(-mag, mag)


def _rand(d, r, c, cplx, mag, pz=1):
    re = [_ent(d, mag, pz) for _ in range(r * c)]
    im = [_ent(d, mag, pz + 1) for _ in range(r * c)] if cplx else [0] * (r * c)
    return ZM(r, c, re, im, 0)


def _unimodular(d, n):
    """integer S with det 1 and its exact inverse"""
    S = ZM.eye(n)
    Si = ZM.eye(n)
    if n == 1:
        return S, Si
    for _ in range(d.int(0, 2 * n)):
        i = d.int(0, n - 1)
        j = d.int(0, n - 2)
        if j >= i:
            j += 1
        c = d.choice([-2, -1, 1, 1, 2])
        for k in range(n):
            S.re[i * n + k] += c * S.re[j * n + k]         # row_i += c row_j
        for k in range(n):
            Si.re[k * n + j] -= c * Si.re[k * n + i]       # col_j -= c col_i
    return S, Si


def _small_eig(d, cplx):
    re = d.int(-3, 3) if d.bool() else d.int(-20, 20)
    im = (d.int(-3, 3) if cplx and d.bool() else 0)
    return re, im


def _tri_kappa2(A):
    """A: real upper triangular ZM with distinct diagonal; ceil of (||V||_F ||V^-1||_F)^2 of its unit-diagonal
    eigenvector matrix, computed exactly"""
    n = A.r
    T = [[Fraction(A.re[i * n + j]) for j in range(n)] for i in range(n)]
    V = [[Fraction(0)] * n for _ in range(n)]
    for j in range(n):
        V[j][j] = Fraction(1)
        for i in range(j - 1, -1, -1):
            s = sum(T[i][k] * V[k][j] for k in range(i + 1, j + 1))
            V[i][j] = -s / (T[i][i] - T[j][j])
    W = [[Fraction(0)] * n for _ in range(n)]          # inverse of unit upper triangular V
    for j in range(n):
        W[j][j] = Fraction(1)
        for i in range(j - 1, -1, -1):
            W[i][j] = -sum(V[i][k] * W[k][j] for k in range(i + 1, j + 1))
    k2 = sum(x * x for row in V for x in row) * sum(x * x for row in W for x in row)
    return -((-k2.numerator) // k2.denominator)


def _conj_unitary(d, A, cplx, shn, nops):
    """A -> U A U^H for exactly unitary dyadic U; returns (A, shn) where the value is A / 2^shn"""
    n = A.r
    for _ in range(nops):
        ops = ["perm", "phase"]
        if n >= 4:
            ops += ["had4", "had4"]
        if cplx and n >= 2:
            ops += ["g2", "g2"]
        op = d.choice(ops)
        U = ZM.eye(n)
        if op == "perm" and n >= 2:
            i = d.int(0, n - 1)
            j = d.int(0, n - 1)
            if i != j:
                U.re[i * n + i] = U.re[j * n + j] = 0
                U.re[i * n + j] = U.re[j * n + i] = 1
        elif op == "phase":
            i = d.int(0, n - 1)
            u = d.choice([(-1, 0), (0, 1), (0, -1)]) if cplx else (-1, 0)
            U.re[i * n + i], U.im[i * n + i] = u
        elif op == "had4":
            idx = []
            while len(idx) < 4:
                k = d.int(0, n - 1)
                if k not in idx:
                    idx.append(k)
            Hd = [[1, 1, 1, 1], [1, -1, 1, -1], [1, 1, -1, -1], [1, -1, -1, 1]]
            for a in range(n):
                if a not in idx:
                    U.re[a * n + a] = 2
            for a in range(4):
                for b in range(4):
                    U.re[idx[a] * n + idx[b]] = Hd[a][b]
            shn += 2
        elif op == "g2":
            i = d.int(0, n - 1)
            j = d.int(0, n - 2)
            if j >= i:
                j += 1
            for a in range(n):
                if a not in (i, j):
                    U.re[a * n + a] = 2
            U.re[i * n + i], U.im[i * n + i] = 1, 1
            U.re[j * n + j], U.im[j * n + j] = 1, 1
            U.re[i * n + j], U.im[i * n + j] = 1, -1
            U.re[j * n + i], U.im[j * n + i] = 1, -1
            shn += 2
        A = U.mul(A).mul(U.H())
        A.e = 0
        while shn > 0 and not any(x & 1 for x in A.re) and not any(x & 1 for x in A.im):
            A.re = [x >> 1 for x in A.re]
            A.im = [x >> 1 for x in A.im]
            shn -= 1
    return A, shn


SQUARE_KINDS_GENERAL = [(6, "rand"), (3, "sym"), (3, "triu"), (3, "tril"), (2, "diag"), (2, "hess"), (2, "perm"),
                        (2, "rank1"), (1, "zero"), (2, "zerorc"), (3, "blocks"), (5, "defective"), (4, "simdiag"),
                        (4, "normal"), (1, "tridiag"), (1, "companion")]
SQUARE_KINDS_HERM = [(8, "sym"), (2, "diag"), (2, "rank1"), (1, "zero"), (2, "zerorc"), (3, "blocks"), (6, "normal"),
                     (3, "tridiag"), (2, "wilk"), (1, "perm2")]


def gen_square(d, n, cplx, herm):
    """returns dict(A=ZM ints, shn, kind, known, kap2)"""
    kind = d.weighted(SQUARE_KINDS_HERM if herm else SQUARE_KINDS_GENERAL)
    mag = _mag(d)
    known = None
    kap2 = None
    shn = 0
    N = n * n

    def herm_fill(B):
        for i in range(n):
            B.im[i * n + i] = 0
            for j in range(i):
                B.re[i * n + j] = B.re[j * n + i]
                B.im[i * n + j] = -B.im[j * n + i]
        return B

    if kind == "rand":
        A = _rand(d, n, n, cplx, mag, d.choice([0, 0, 1, 4]))
    elif kind == "sym":
        A = herm_fill(_rand(d, n, n, cplx, mag, d.choice([0, 0, 1, 4])))
        if cplx and not herm and d.bool():
            kind = "csym"                      # complex symmetric (not Hermitian): a general matrix for eig
            for i in range(n):
                for j in range(i):
                    A.im[i * n + j] = A.im[j * n + i]
    elif kind in ("triu", "tril"):
        A = _rand(d, n, n, cplx, mag, d.choice([0, 1]))
        rep = d.int(0, 2)                      # 0 random diag, 1 few values (repeated), 2 distinct by construction
        vals = [_small_eig(d, cplx) for _ in range(2)]
        for i in range(n):
            for j in range(n):
                if j < i:
                    A.re[i * n + j] = A.im[i * n + j] = 0
            if rep == 1:
                A.re[i * n + i], A.im[i * n + i] = d.choice(vals)
            elif rep == 2:
                A.re[i * n + i] = 3 * i * d.choice([1, 1, 2]) + d.int(0, 2) - 7
        dg = [A.get(i, i) for i in range(n)]
        if len(set(dg)) == n and not cplx:
            known = [list(x) for x in dg]
            kap2 = _tri_kappa2(A)
        if kind == "tril":
            A = A.H()
            A.im = [-x for x in A.im]          # plain transpose
    elif kind == "diag":
        A = ZM.zeros(n, n)
        few = [(d.int(-mag, mag), d.int(-mag, mag) if cplx else 0) for _ in range(2)]
        rep = d.bool()
        for i in range(n):
            A.re[i * n + i], A.im[i * n + i] = d.choice(few) if rep else (d.int(-mag, mag), d.int(-mag, mag) if cplx else 0)
        if herm:
            A.im = [0] * N
        known = [list(A.get(i, i)) for i in range(n)]
        kap2 = 1
    elif kind == "hess":
        A = _rand(d, n, n, cplx, mag, d.choice([0, 1]))
        for i in range(n):
            for j in range(n):
                if i > j + 1:
                    A.re[i * n + j] = A.im[i * n + j] = 0
    elif kind in ("tridiag", "wilk"):
        A = herm_fill(_rand(d, n, n, cplx, mag, d.choice([0, 1])))
        for i in range(n):
            for j in range(n):
                if abs(i - j) > 1:
                    A.re[i * n + j] = A.im[i * n + j] = 0
                elif kind == "wilk":
                    A.im[i * n + j] = 0
                    A.re[i * n + j] = abs(2 * i - (n - 1)) if i == j else 2      # 2 * Wilkinson W_n^+
    elif kind in ("perm", "perm2"):
        A = ZM.zeros(n, n)
        perm = list(range(n))
        if kind == "perm2":                    # symmetric permutation: an involution
            for _ in range(n):
                i, j = d.int(0, n - 1), d.int(0, n - 1)
                if perm[i] == i and perm[j] == j:
                    perm[i], perm[j] = j, i
        elif d.bool():
            perm = perm[1:] + perm[:1]         # the full cycle: the classical stagnation case of the unshifted QR
        else:
            for i in range(n - 1, 0, -1):
                j = d.int(0, i)
                perm[i], perm[j] = perm[j], perm[i]
        for i in range(n):
            u = d.choice([(1, 0), (1, 0), (-1, 0), (0, 1)]) if (cplx and kind == "perm") else (d.choice([1, 1, -1]) if kind == "perm" else 1, 0)
            A.re[i * n + perm[i]], A.im[i * n + perm[i]] = u
    elif kind == "rank1":
        c = d.int(-9, 9)
        u = [d.int(-3, 3) for _ in range(n)]
        v = u if (herm or d.bool()) else [d.int(-3, 3) for _ in range(n)]
        A = ZM.zeros(n, n)
        for i in range(n):
            for j in range(n):
                A.re[i * n + j] = u[i] * v[j] + (c if i == j else 0)
        if v is u:
            known = [[c, 0]] * (n - 1) + [[c + sum(x * x for x in u), 0]]
            kap2 = 1
    elif kind == "zero":
        A = ZM.zeros(n, n)
        known = [[0, 0]] * n
        kap2 = 1
    elif kind == "zerorc":
        A = _rand(d, n, n, cplx, mag, 0)
        if herm:
            A = herm_fill(A)
        for _ in range(d.int(1, 3)):
            k = d.int(0, n - 1)
            what = 2 if herm else d.int(0, 2)
            for t in range(n):
                if what in (0, 2):
                    A.re[k * n + t] = A.im[k * n + t] = 0
                if what in (1, 2):
                    A.re[t * n + k] = A.im[t * n + k] = 0
    elif kind == "blocks":
        A = ZM.zeros(n, n)
        i = 0
        while i < n:
            b = d.int(1, min(3, n - i))
            B = _rand(d, b, b, cplx, mag, 0)
            for a in range(b):
                for c in range(b):
                    A.re[(i + a) * n + i + c] = B.re[a * b + c]
                    A.im[(i + a) * n + i + c] = B.im[a * b + c]
            i += b
        if herm:
            A = herm_fill(A)
        if d.bool():
            A, shn = _conj_unitary(d, A, cplx and d.bool(), 0, d.int(1, 3))
    elif kind == "companion":
        A = ZM.zeros(n, n)
        for j in range(n):
            A.re[j] = _ent(d, mag, 1)
            if cplx:
                A.im[j] = _ent(d, mag, 3)
        for i in range(1, n):
            A.re[i * n + i - 1] = 1
    elif kind in ("defective", "simdiag"):
        J = ZM.zeros(n, n)
        if kind == "defective":
            i = 0
            while i < n:
                b = d.int(1, n - i) if d.bool() else min(n - i, d.int(1, 3))
                lam = _small_eig(d, cplx)
                for a in range(b):
                    J.re[(i + a) * n + i + a], J.im[(i + a) * n + i + a] = lam
                    if a + 1 < b:
                        J.re[(i + a) * n + i + a + 1] = 1
                i += b
        else:
            vals = []
            while len(vals) < n:
                lam = _small_eig(d, cplx)
                if lam not in vals:
                    vals.append(lam)
            for i in range(n):
                J.re[i * n + i], J.im[i * n + i] = vals[i]
            known = [list(v) for v in vals]
        S, Si = _unimodular(d, n)
        A = S.mul(J).mul(Si)
        if kind == "simdiag":
            kap2 = S.norm2()[0] * Si.norm2()[0]
    elif kind == "normal":
        A = ZM.zeros(n, n)
        known = []
        i = 0
        while i < n:
            a = (d.int(-9, 9), d.int(-9, 9) if (cplx and not herm) else 0)
            if n - i >= 2 and d.bool():
                b = (d.int(-9, 9), d.int(-9, 9) if (cplx and not herm) else 0)
                for t in (0, 1):
                    A.re[(i + t) * n + i + t], A.im[(i + t) * n + i + t] = a
                    A.re[(i + t) * n + i + 1 - t], A.im[(i + t) * n + i + 1 - t] = b
                known += [[a[0] + b[0], a[1] + b[1]], [a[0] - b[0], a[1] - b[1]]]
                i += 2
            else:
                if d.int(0, 2) == 0 and known:
                    a = tuple(d.choice(known))          # a repeated eigenvalue
                A.re[i * n + i], A.im[i * n + i] = a
                known.append([a[0], a[1]])
                i += 1
        kap2 = 1
        A, shn = _conj_unitary(d, A, cplx, 0, d.int(1, 4))
    else:
        raise ValueError(kind)
    if not cplx:
        assert A.is_real(), kind
    return {"A": A, "shn": shn, "kind": kind, "known": known, "kap2": kap2}


def _prec(d):
    k = d.weighted([(3, "edge"), (3, "std"), (4, "rand")])
    if k == "edge":
        return d.choice([30, 31, 32, 33, 299, 300])
    if k == "std":
        return d.choice([53, 64, 100, 113, 128, 200, 256])
    return d.int(30, 300)


def _size(d):
    return d.weighted([(1, 1), (2, 2), (3, 3), (3, 4), (3, 5), (3, 6), (3, 7), (3, 8)])


def _user_exp(d):
    return d.weighted([(8, 0), (2, -1), (1, -3), (1, -10), (1, 7), (1, 40), (1, -40)])


def _pack(case, g, eu):
    A = g["A"]
    case["n"] = A.r
    case["m"] = A.c
    case["re"] = A.rows_re()
    case["im"] = A.rows_im() if not A.is_real() else None
    case["e"] = eu - g["shn"]
    case["kind"] = g["kind"]
    if g.get("known") is not None and g.get("kap2") is not None and g["kap2"].bit_length() < 4000:
        case["known"] = g["known"]
        case["known_e"] = eu
        case["kap2"] = g["kap2"]
    return case


def gen_case(d, shard, tier):
    p = _prec(d)
    case = {"shard": shard, "p": p}
    if shard == "gauss":
        qt = d.choice(GAUSS_TYPES)
        case["fn"] = "gauss"
        case["qtype"] = qt
        case["n"] = d.int(1, 12)

        def par():
            k = d.weighted([(3, "int"), (3, "quarter"), (2, "near-1"), (1, "big"), (1, "zero")])
            if k == "int":
                return [d.int(0, 10), 0]
            if k == "quarter":
                return [d.int(-3, 40), 2]
            if k == "near-1":
                s = d.int(3, 10)
                return [-(1 << s) + 1, s]                 # -1 + 2^-s
            if k == "big":
                return [d.int(21, 80), 1]
            return [0, 0]
        case["alpha"] = par() if qt in ("glaguerre", "jacobi") else [0, 0]
        case["beta"] = par() if qt == "jacobi" else [0, 0]
        case["ptype"] = d.choice(["mpf", "mpf", "float", "auto"])
        case["cls"] = "gauss:%s" % qt
        return case
    eu = _user_exp(d)
    if shard == "eig":
        n = _size(d)
        cplx = d.int(0, 2) == 0
        g = gen_square(d, n, cplx, False)
        case["fn"] = "eig"
        lr = d.weighted([(4, 1), (2, 3), (2, 2), (2, 0)])          # bit0 right, bit1 left
        case["right"] = bool(lr & 1)
        case["left"] = bool(lr & 2)
        case["ow"] = d.int(0, 4) == 0
        case["sortf"] = d.choice(["default", "real", "imag", "abs", "negre"])
        case["sortv"] = d.int(0, 3)                                # which of EL/ER are handed to eig_sort (masked later)
    elif shard == "schur":
        n = _size(d)
        cplx = d.int(0, 2) == 0
        g = gen_square(d, n, cplx, False)
        case["fn"] = d.choice(["schur", "schur", "hessenberg"])
        case["ow"] = d.int(0, 4) == 0
    elif shard == "herm":
        n = _size(d)
        fn = d.choice(["eigsy", "eighe", "eigh"])
        cplx = (fn == "eighe" and d.int(0, 5) != 0) or (fn == "eigh" and d.bool())
        g = gen_square(d, n, cplx, True)
        case["fn"] = fn
        case["vals_only"] = d.int(0, 3) == 0
        case["ow"] = d.int(0, 4) == 0
    elif shard == "svd":
        fn = d.choice(["svd", "svd", "svd_r", "svd_c"])
        cplx = fn == "svd_c" or (fn == "svd" and d.bool())
        shape = d.weighted([(4, "square"), (3, "rect"), (2, "lowrank"), (1, "dup")])
        if shape == "square":
            g = gen_square(d, _size(d), cplx, d.int(0, 3) == 0)
            g["known"] = None
        else:
            m, n = d.int(1, 8), d.int(1, 8)
            mag = _mag(d)
            if shape == "rect":
                A = _rand(d, m, n, cplx, mag, d.choice([0, 0, 1, 4]))
            elif shape == "lowrank":
                r = d.int(0, max(0, min(m, n) - 1))
                A = ZM.zeros(m, n)
                for _ in range(r):
                    u = _rand(d, m, 1, cplx, 3, 1)
                    v = _rand(d, 1, n, cplx, 3, 1)
                    A = ZM.zeros(m, n).sub(u.mul(v)).sub(A)
                    A = ZM.zeros(m, n).sub(A)
            else:
                A = _rand(d, m, n, cplx, mag, 0)
                for _ in range(d.int(1, 3)):                       # duplicated / zero rows and columns
                    if d.bool() and m > 1:
                        i, j = d.int(0, m - 1), d.int(0, m - 1)
                        z = d.int(0, 3) == 0
                        for t in range(n):
                            A.re[i * n + t] = 0 if z else A.re[j * n + t]
                            A.im[i * n + t] = 0 if z else A.im[j * n + t]
                    elif n > 1:
                        i, j = d.int(0, n - 1), d.int(0, n - 1)
                        z = d.int(0, 3) == 0
                        for t in range(m):
                            A.re[t * n + i] = 0 if z else A.re[t * n + j]
                            A.im[t * n + i] = 0 if z else A.im[t * n + j]
            g = {"A": A, "shn": 0, "kind": shape, "known": None, "kap2": None}
        if fn == "svd_c" and g["A"].is_real() and g["A"].r:
            g["A"].im[0] = 1                                       # svd_c takes a complex matrix
        case["fn"] = fn
        case["full"] = d.bool()
        case["uv"] = d.int(0, 3) != 0
        case["ow"] = d.int(0, 4) == 0
    else:
        raise ValueError(shard)
    _pack(case, g, eu)
    case["cls"] = "%s:%s" % (case["fn"], case["kind"])
    return case
