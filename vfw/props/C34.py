"""C34 -- ODE solutions are accurate and independent of evaluation order."""
import math
from fractions import Fraction

from ..core import R

ID = "C34"
LEVEL = "exploration"
CASE_TIMEOUT = 60.0
RULE = ("A case is a HISTORY on one odefun object. Problems (all parameters, x0, y0 and evaluation points are small dyadic "
        "rationals, so the ODE is the same at every precision): y'=ay; y'=ay+b; harmonic oscillator [y1, -w^2 y0]; damped "
        "oscillator [y1, -w0^2 y0 - 2g y1] with w0^2 = g^2 + wd^2; y'=-y^2 (solution 1/(x-x0+1/y0), evaluation stays at "
        "least as far from the pole as half its initial distance); y'=2xy (|x| <= 3); 2x2 linear systems P D P^-1 with "
        "integer unimodular P and dyadic eigenvalues; y'=p(x) and [y0'=y1, y1'=p(x)] with polynomial solutions. x0 in "
        "[-10, 10] (mostly non-zero, half negative), scalar or 1-vector y0 for scalar problems, precision 30..200 bits, "
        "optional tol (2^-e or 10^-e, never below the precision) and degree (3..40) as in the odefun docstring. History: "
        "f = odefun(F, x0, y0, ...); then 4..14 evaluations at points x >= x0 (dyadic offsets, x0 itself, multiples of "
        "1/2 which are segment boundaries for polynomial problems, and the current last segment boundary read from the "
        "closure) in generated, mostly non-monotone order with repetitions, interleaved with mp.prec changes (raise, "
        "lower, restore). Oracles: (i) closed form evaluated with the frozen reference mpref at 3p+100 bits: "
        "|f(x) - y(x)| <= tol * (2 + x - x0) * G * max(1, S) + 2^(1-p_now) |y|, tol = requested tol or 2^(10-p) for the "
        "precision at creation, G = growth of perturbations over [x0, x] (e^(a+ (x-x0)), norm of the propagator, "
        "(y(x)/y0)^2 for the Riccati problem, e^(x^2 - min s^2) for y'=2xy), S = size of the solution on [x0, x]; "
        "(ii) order independence: a second odefun (the twin) created with identical arguments and evaluated once at the "
        "sorted distinct points at the creation precision agrees with every value of the history within the same bound; "
        "repeated evaluation at the same x at the same precision returns identical values; mp.prec is unchanged by an "
        "evaluation; results are mpf / lists of mpf; the history must not need more than 4x (+2000) the evaluations "
        "of F that the twin needed for the same points (bucket runaway: an evaluation that depends on the history so "
        "much that it does not finish). A sixth of the exp/harm cases are the docstring's own problems (y'=+-y, "
        "y(0)=1; y''=-y) at a precision drawn uniformly from 30..200. When (i) fails, a differential diagnosis (the same "
        "history replayed on an instance created at p+40 bits with tol and degree pinned) decides whether the error "
        "comes from the first Taylor segment being computed at the caller's precision (bucket accuracy:first-segment) "
        "or not. Non-trivial = the evaluation order is not monotone increasing, or the precision changes between "
        "evaluations.")
ASSUMPTIONS = ["mpref (frozen mpmath 1.3.0) evaluates exp, sin, cos and rational expressions correctly at 3p+100 bits",
               "the diagnosis that names the bucket of an accuracy violation (not the verdict) re-runs /repo's odefun at "
               "higher precision and reads series_boundaries from the closure of the returned function"]
TECHNIQUE = ("stateful property-based testing (Hypothesis): generated evaluation/precision histories against closed-form "
             "solutions and against a second instance evaluated in sorted order")

FAMS = ["exp", "exp", "affine", "affine", "harm", "harm", "damp", "damp", "ricc", "ricc", "gauss", "gauss",
        "linsys", "linsys", "poly", "poly2"]


def shards(tier):
    n = 100 if tier == "quick" else 900
    return [(f, n) for f in FAMS]


# ------------------------------------------------------------------------------------------------- generation

def _prec_to_dps(p):
    return max(1, int(round(int(p) / 3.3219280948873626) - 1))


def _lg2fac(n):
    return math.lgamma(n + 1) / math.log(2)


def gen_case(d, shard, tier):
    fam = shard
    p = d.weighted([(5, "lo"), (3, "mid"), (1, "hi")])
    p = d.int(30, 64) if p == "lo" else d.int(65, 120) if p == "mid" else d.int(121, 200)
    tol = None
    degree = None
    k = d.weighted([(5, "default"), (2, "tol"), (2, "both"), (1, "degree")])
    doc = fam in ("exp", "harm") and d.int(0, 5) == 0
    if doc:
        # the docstring's own problems (y' = +-y, y(0) = 1; y'' = -y, y(0) = 1, y'(0) = 0) at any precision
        p = d.int(30, 200)
        k = "doc"
    if k in ("tol", "both"):
        if d.bool():
            e = d.int(2, max(2, min(12, int((p - 4) * 0.30103))))
            tol = ["10", e]
            tolbits = e * 3.3219280948873626
        else:
            e = d.int(6, p - 2)
            tol = ["2", e]
            tolbits = e
    else:
        tolbits = p            # internal tol_prec = p + 10
    dflt_n = 3 + int(3 * _prec_to_dps(p) / 2.)
    if k in ("both", "degree"):
        # keep the step length reasonable: 2^(-tol_prec/n) >= 2^-5
        lo = max(3, int((tolbits + 10) / 5.0) + 1)
        degree = d.int(lo, max(lo, 40))
    n = degree or dflt_n
    tol_prec = tolbits + 10

    par = {}
    y0 = None
    lam = 1.0            # size of the Taylor-coefficient ratio |c_{k+1}/c_k| * k (rate)
    Lfam = 12.0
    x0 = [d.weighted([(4, -1), (3, 1), (1, 0)]) * d.int(1, 40), 4]
    if d.int(0, 3) == 0:
        x0 = [x0[0] // 4, 1]           # integer initial point (0 possible)
    q = lambda lo, hi, den: [d.int(lo, hi), den]
    nz = lambda m, den: [d.choice([-1, 1]) * d.int(1, m), den]
    if doc:
        x0 = [0, 1]
        if fam == "exp":
            par["a"] = [d.choice([-8, 8]), 8]
            y0 = [[4, 4]]
            Lfam = 12.0
        else:
            par["w"] = [8, 8]
            y0 = [[4, 4], [0, 4]]
    elif fam == "exp":
        par["a"] = nz(32, 8)
        y0 = [nz(12, 4)]
        lam = abs(par["a"][0]) / 8.0
        if par["a"][0] > 0:
            Lfam = 12.0 / lam
    elif fam == "affine":
        par["a"] = nz(32, 8)
        par["b"] = q(-16, 16, 4)
        y0 = [q(-12, 12, 4)]
        lam = abs(par["a"][0]) / 8.0
        if par["a"][0] > 0:
            Lfam = 12.0 / lam
    elif fam == "harm":
        par["w"] = [d.int(1, 32), 8]
        y0 = [q(-8, 8, 4), nz(8, 4)]
        lam = par["w"][0] / 8.0
    elif fam == "damp":
        par["g"] = [d.int(1, 16), 8]
        par["wd"] = [d.int(1, 32), 8]
        y0 = [nz(8, 4), q(-8, 8, 4)]
        lam = math.hypot(par["g"][0] / 8.0, par["wd"][0] / 8.0)
    elif fam == "ricc":
        y0 = [nz(16, 4)]
        yv = y0[0][0] / 4.0
        lam = abs(yv)
        if yv < 0:
            Lfam = 0.5 / abs(yv)            # pole at x0 + 1/|y0|; stay in the first half
            lam = 2 * abs(yv)
    elif fam == "gauss":
        x0 = [d.int(-12, 8), 4]
        y0 = [nz(8, 4)]
        Lfam = 3.0 - x0[0] / 4.0 if x0[0] < 0 else max(0.5, 3.0 - x0[0] / 4.0)
        lam = 2 * 3.0 + 2
    elif fam == "linsys":
        kk, mm = d.int(-2, 2), d.int(-2, 2)
        par["P"] = [[1, kk], [mm, 1 + kk * mm]]                 # det = 1
        l1 = d.int(-24, 12)
        par["l1"] = [l1, 8]
        par["l2"] = [l1 + d.choice([-1, 1]) * d.int(1, 16), 8]
        y0 = [q(-8, 8, 4), nz(8, 4)]
        lam = max(abs(par["l1"][0]), abs(par["l2"][0]), 1) / 8.0
        lmax = max(par["l1"][0], par["l2"][0]) / 8.0
        if lmax > 0:
            Lfam = 12.0 / lmax
    elif fam in ("poly", "poly2"):
        deg = d.int(0, 6)
        par["c"] = [q(-8, 8, 2) for _ in range(deg + 1)]        # p(x) = sum c_k x^k
        if par["c"][-1][0] == 0:
            par["c"][-1] = [1, 2]
        y0 = [q(-12, 12, 4)] if fam == "poly" else [q(-12, 12, 4), q(-12, 12, 4)]
        lam = 0.0
        Lfam = 6.0
    # estimated step length and affordable integration length
    if fam == "ricc":
        lg_r = min(0.0, (-tol_prec - (n + 1) * math.log2(max(lam, 1e-9))) / n) - 1
    elif lam > 0:
        lg_r = min(0.0, (-tol_prec + _lg2fac(n) - n * math.log2(lam)) / n) - 1
    else:
        lg_r = -1.0
        if n <= len(par["c"]) + (1 if fam == "poly2" else 0):
            lg_r = min(0.0, (-tol_prec - 3 - 2.0 * n) / n) - 1            # polynomial of degree above n: c_n is not zero
    r = 2.0 ** lg_r
    dim = len(y0)
    cost_seg = 4e-6 * n * n * (1 + p * n / 18000.0) * dim + 2e-4
    budget = 0.6 if tier == "quick" else 0.8
    Lwant = d.choice([0.5, 1, 2, 3, 4, 6, 8, 12])
    L = min(Lwant, Lfam, budget / cost_seg * r)
    L16 = max(2, int(L * 16))                       # in sixteenths
    # points (offsets from x0 in sixteenths)
    npts = d.int(2, 7)
    pts = []
    for _ in range(npts):
        kind = d.weighted([(6, "any"), (3, "half"), (1, "zero"), (2, "far")])
        if kind == "any":
            pts.append(d.int(0, L16))
        elif kind == "half":
            pts.append(8 * d.int(0, max(0, L16 // 8)))
        elif kind == "zero":
            pts.append(0)
        else:
            pts.append(L16 - d.int(0, min(3, L16)))
    ops = []
    cur = p
    nev = d.int(4, 14)
    for i in range(nev):
        if d.int(0, 2) == 0:
            how = d.weighted([(3, "raise"), (3, "lower"), (2, "restore")])
            if how == "raise":
                cur = min(400, cur + d.int(1, 120))
            elif how == "lower":
                cur = max(12, cur - d.int(1, 60))
            else:
                cur = p
            ops.append(["prec", cur])
        if d.int(0, 7) == 0:
            ops.append(["bnd", d.int(0, 1000)])      # the current segment boundary number (k mod count), from the closure
        else:
            ops.append(["eval", d.int(0, npts - 1)])
    c = {"fam": fam, "par": par, "x0": x0, "y0": y0, "scalar": bool(dim == 1 and d.int(0, 3) != 0),
         "prec": p, "tol": tol, "degree": degree, "pts": pts, "ops": ops,
         "x_as_int": d.bool(),
         # expected effort (segments of the estimated step length, F evaluations per segment): a safety cap only
         "effort": int((L16 / 16.0 / r + 3) * n),
         "cls": "%s:%s" % (fam, k)}
    return c


# ------------------------------------------------------------------------------------------------- problems

def _fr(v):
    return Fraction(v[0], v[1])


class Problem:
    """F for the context under test and the closed form in the reference context"""

    def __init__(self, c, ctx, ref):
        self.c = c
        self.ctx = ctx
        self.ref = ref
        self.fam = c["fam"]
        self.x0f = _fr(c["x0"])
        self.y0f = [_fr(v) for v in c["y0"]]
        self.dim = len(self.y0f)
        self.parf = {}
        for k_, v in c["par"].items():
            if k_ == "P":
                self.parf[k_] = v
            elif k_ == "c":
                self.parf[k_] = [_fr(t) for t in v]
            else:
                self.parf[k_] = _fr(v)

    # exact dyadic -> number of a context
    @staticmethod
    def num(cx, f):
        return cx.mpf(f.numerator) / f.denominator

    def F(self):
        cx, fam, P = self.ctx, self.fam, self.parf
        n = lambda f: self.num(cx, f)
        if fam == "exp":
            a = n(P["a"])
            return lambda x, y: a * y
        if fam == "affine":
            a, b = n(P["a"]), n(P["b"])
            return lambda x, y: a * y + b
        if fam == "harm":
            w2 = n(P["w"] ** 2)
            return lambda x, y: [y[1], -w2 * y[0]]
        if fam == "damp":
            w02 = n(P["g"] ** 2 + P["wd"] ** 2)
            g2 = n(2 * P["g"])
            return lambda x, y: [y[1], -w02 * y[0] - g2 * y[1]]
        if fam == "ricc":
            return lambda x, y: -y * y
        if fam == "gauss":
            return lambda x, y: 2 * x * y
        if fam == "linsys":
            M = self._matrix()
            m = [[n(M[i][j]) for j in range(2)] for i in range(2)]
            return lambda x, y: [m[0][0] * y[0] + m[0][1] * y[1], m[1][0] * y[0] + m[1][1] * y[1]]
        if fam in ("poly", "poly2"):
            cs = [n(t) for t in P["c"]][::-1]

            def pv(x):
                s = cs[0]
                for t in cs[1:]:
                    s = s * x + t
                return s
            if fam == "poly":
                return lambda x, y: pv(x)
            return lambda x, y: [y[1], pv(x)]
        raise ValueError(fam)

    def scalar_F(self):
        """F in the calling convention that matches c['scalar']"""
        F = self.F()
        if self.dim == 1 and not self.c["scalar"]:
            return lambda x, y: [F(x, y[0])]
        return F

    def _matrix(self):
        P = self.parf["P"]
        (a, b), (c_, d_) = P
        # det = 1  ->  inverse [[d, -b], [-c, a]]
        l1, l2 = self.parf["l1"], self.parf["l2"]
        Pi = [[d_, -b], [-c_, a]]
        D = [l1, l2]
        return [[sum(Fraction(P[i][k]) * D[k] * Pi[k][j] for k in range(2)) for j in range(2)] for i in range(2)]

    def in_domain(self, xf, xmax):
        """boundary points read from the closure are used only inside the generated range (plus one step)"""
        if xf < self.x0f or xf > xmax + Fraction(1, 2):
            return False
        if self.fam == "ricc" and self.y0f[0] < 0:
            return 1 + self.y0f[0] * (xf - self.x0f) >= Fraction(1, 4)
        return True

    def exact(self, xf):
        """(values, G, S) in the reference context at the exact rational x"""
        ref, fam, P = self.ref, self.fam, self.parf
        n = lambda f: self.num(ref, f)
        t = n(xf - self.x0f)
        y0 = [n(v) for v in self.y0f]
        one = ref.mpf(1)
        if fam == "exp":
            a = n(P["a"])
            e = ref.exp(a * t)
            return [y0[0] * e], max(one, e), abs(y0[0]) * max(one, e)
        if fam == "affine":
            a, b = n(P["a"]), n(P["b"])
            e = ref.exp(a * t)
            v = (y0[0] + b / a) * e - b / a
            return [v], max(one, e), max(abs(y0[0]), abs(v), abs(b / a))
        if fam == "harm":
            w = n(P["w"])
            A, B = y0
            cs, sn = ref.cos(w * t), ref.sin(w * t)
            v = [A * cs + B / w * sn, -A * w * sn + B * cs]
            G = max(w, 1 / w, one)
            return v, G, max(abs(A) + abs(B) / w, w * abs(A) + abs(B))
        if fam == "damp":
            g, wd = n(P["g"]), n(P["wd"])
            w02 = g * g + wd * wd
            A, B = y0
            e = ref.exp(-g * t)
            cs, sn = ref.cos(wd * t), ref.sin(wd * t)
            K = (B + g * A) / wd
            v0 = e * (A * cs + K * sn)
            v1 = e * (B * cs - (g * B + w02 * A) / wd * sn)
            G = max(1 + g / wd + 1 / wd, w02 / wd + 1 + g / wd)
            return [v0, v1], G, G * max(abs(A), abs(B))
        if fam == "ricc":
            v = y0[0] / (1 + y0[0] * t)
            G = max(one, (v / y0[0]) ** 2)
            return [v], G, max(abs(v), abs(y0[0]))
        if fam == "gauss":
            x, x0 = n(xf), n(self.x0f)
            v = y0[0] * ref.exp(x * x - x0 * x0)
            m = 0 if (x0 <= 0 <= x) else min(x * x, x0 * x0)
            M = max(x * x, x0 * x0)
            return [v], ref.exp(x * x - m), abs(y0[0]) * ref.exp(M - x0 * x0)
        if fam == "linsys":
            Pm = P["P"]
            (a, b), (c_, d_) = Pm
            Pi = [[d_, -b], [-c_, a]]
            l = [n(P["l1"]), n(P["l2"])]
            z = [Pi[i][0] * y0[0] + Pi[i][1] * y0[1] for i in range(2)]
            e = [ref.exp(l[i] * t) for i in range(2)]
            v = [Pm[i][0] * z[0] * e[0] + Pm[i][1] * z[1] * e[1] for i in range(2)]
            nP = max(abs(Pm[i][0]) + abs(Pm[i][1]) for i in range(2))
            nPi = max(abs(Pi[i][0]) + abs(Pi[i][1]) for i in range(2))
            G = nP * nPi * max(one, e[0], e[1])
            S = nP * max(abs(z[i]) * max(one, e[i]) for i in range(2))
            return v, G, S
        if fam in ("poly", "poly2"):
            cs = P["c"]
            x0 = self.x0f
            I1 = lambda x: sum(ck * x ** (k + 1) / (k + 1) for k, ck in enumerate(cs))
            I2 = lambda x: sum(ck * x ** (k + 2) / ((k + 1) * (k + 2)) for k, ck in enumerate(cs))
            X = max(abs(xf), abs(x0))
            mag1 = sum(abs(ck) * X ** (k + 1) / (k + 1) for k, ck in enumerate(cs))
            mag2 = sum(abs(ck) * X ** (k + 2) / ((k + 1) * (k + 2)) for k, ck in enumerate(cs))
            L = xf - x0
            if fam == "poly":
                v = self.y0f[0] + I1(xf) - I1(x0)
                return [n(v)], one, n(abs(self.y0f[0]) + 2 * mag1)
            A, B = self.y0f
            v1 = B + I1(xf) - I1(x0)
            v0 = A + B * L + I2(xf) - I2(x0) - I1(x0) * L
            S = abs(A) + (abs(B) + 2 * mag1) * (1 + L) + 2 * mag2
            return [n(v0), n(v1)], n(1 + L), n(S)
        raise ValueError(fam)


def _closure_var(fn, name):
    try:
        return fn.__closure__[fn.__code__.co_freevars.index(name)].cell_contents
    except Exception:
        return None


def _boundaries(f):
    gs = _closure_var(f, "get_series")
    if gs is None:
        return None
    return _closure_var(gs, "series_boundaries")


def _to_fraction(x):
    s, m, e, bc = x._mpf_
    v = Fraction(int(m)) * (Fraction(2) ** e)
    return -v if s else v


# ------------------------------------------------------------------------------------------------- the check

class _Runaway(Exception):
    pass


def check_case(c):
    import mpmath
    from mpmath import mp
    import mpref
    res = R()
    res.cls = c["cls"]
    fam = c["fam"]
    p0 = c["prec"]
    refprec0 = mpref.mp.prec
    try:
        mp.prec = p0
        mpref.mp.prec = 3 * max(p0, 60) + 100
        prob = Problem(c, mp, mpref)
        F0 = prob.scalar_F()
        calls = [0, None]            # F evaluations, cap

        def F(x, y):
            calls[0] += 1
            if calls[1] is not None and calls[0] > calls[1]:
                raise _Runaway()
            return F0(x, y)
        x0 = Problem.num(mp, prob.x0f)
        y0l = [Problem.num(mp, v) for v in prob.y0f]
        y0 = y0l[0] if (prob.dim == 1 and c["scalar"]) else y0l
        kw = {}
        if c["tol"] is not None:
            base, e = c["tol"]
            if base == "2":
                kw["tol"] = mp.ldexp(mp.mpf(1), -e)
                tolf = Fraction(1, 2 ** e)
            else:
                kw["tol"] = 10.0 ** -e if e <= 15 else mp.mpf(10) ** -e
                tolf = Fraction(1, 10 ** e)
        else:
            tolf = Fraction(1024, 2 ** p0)
        if c["degree"] is not None:
            kw["degree"] = c["degree"]
        tolr = Problem.num(mpref, tolf)
        desc = "odefun(%s %r, x0=%s, y0=%s%s) created at prec %d" % (
            fam, c["par"], prob.x0f, [str(v) for v in prob.y0f] if not (prob.dim == 1 and c["scalar"]) else str(prob.y0f[0]),
            "".join(", %s=%s" % (k_, ("%s^-%d" % tuple(c["tol"])) if k_ == "tol" else v) for k_, v in sorted(kw.items())), p0)

        def make(prec, kwargs):
            mp.prec = prec
            try:
                return mp.odefun(F, x0, y0, **kwargs)
            finally:
                mp.prec = p0

        def as_list(v, what):
            if prob.dim == 1 and c["scalar"]:
                if not hasattr(v, "_mpf_"):
                    res.bad("type", "%s: %s returned %r for a scalar problem" % (desc, what, type(v)))
                    return None
                return [v]
            if not isinstance(v, (list, tuple)) or len(v) != prob.dim or not all(hasattr(t, "_mpf_") for t in v):
                res.bad("type", "%s: %s returned %r" % (desc, what, v))
                return None
            return list(v)

        cache = {}

        def bound(xf, pnow):
            if xf not in cache:
                vals, G, S = prob.exact(xf)
                L = Problem.num(mpref, xf - prob.x0f)
                cache[xf] = (vals, tolr * (2 + L) * G * max(1, S), max(abs(t) for t in vals))
            vals, b, ymax = cache[xf]
            return vals, b + mpref.ldexp(ymax, 1 - pnow)

        def mkx(xf):
            mp.prec = max(p0, 64) + 60
            try:
                return Problem.num(mp, xf)                  # exact: a short dyadic number, or a boundary (workprec bits)
            finally:
                mp.prec = p0

        # ---- the twin: identical arguments, sorted distinct points, creation precision throughout
        calls[1] = 4 * c.get("effort", 10 ** 6) + 2000        # safety net (a mutated tree may crawl): inconclusive
        try:
            return _rest(c, res, mp, mpref, prob, calls, make, kw, as_list, bound, mkx, desc, fam, p0)
        except _Runaway:
            res.inconclusive = True
            return res
    finally:
        mp.prec = 53
        mpref.mp.prec = refprec0


def _rest(c, res, mp, mpref, prob, calls, make, kw, as_list, bound, mkx, desc, fam, p0):
    """twin, history, oracles (check_case sets up the problem and restores the precisions)"""
    g = make(p0, kw)
    if mp.prec != p0:
        res.bad("prec-leak:create", "%s: mp.prec = %d afterwards" % (desc, mp.prec))
        mp.prec = p0
    planned = sorted(set(prob.x0f + Fraction(c["pts"][op[1]], 16) for op in c["ops"] if op[0] == "eval"))
    gv = {}
    for xf in planned:
        vl = as_list(g(mkx(xf)), "g(%s)" % xf)
        if vl is None:
            return res
        gv[xf] = vl
    # segment boundaries (white box; the points where the lookup switches segments)
    bl = _boundaries(g)
    bnds = [_to_fraction(b) for b in bl] if bl else []
    xs_ops = []
    for op in c["ops"]:
        if op[0] == "eval":
            xs_ops.append(prob.x0f + Fraction(c["pts"][op[1]], 16))
        elif op[0] == "bnd":
            xb = bnds[op[1] % len(bnds)] if bnds else None
            if xb is not None and not prob.in_domain(xb, planned[-1] if planned else prob.x0f):
                xb = None              # (only a mutated tree puts a boundary beyond the generated range)
            xs_ops.append(xb)
        else:
            xs_ops.append(None)
    for xf in sorted(set(x for x in xs_ops if x is not None and x not in gv)):
        vl = as_list(g(mkx(xf)), "g(%s)" % xf)
        if vl is None:
            return res
        gv[xf] = vl
    calls_g = calls[0]
    calls[1] = None
    res.metrics["F calls of the twin / estimate"] = calls_g / float(max(1, c.get("effort", 1)))

    # ---- the history
    def run_history(f, label):
        cur = p0
        hist = []            # (xf, pnow, values)
        seen = {}
        mp.prec = p0
        for op, xf in zip(c["ops"], xs_ops):
            if op[0] == "prec":
                cur = op[1]
                mp.prec = cur
                continue
            if xf is None:
                continue
            x = mkx(xf)
            mp.prec = cur
            xarg = int(xf) if (c["x_as_int"] and xf.denominator == 1) else x
            v = f(xarg)
            if mp.prec != cur:
                res.bad("prec-leak:eval", "%s: evaluation at x=%s at prec %d left mp.prec = %d" % (desc, xf, cur, mp.prec))
                mp.prec = cur
            vl = as_list(v, "%s(%s)" % (label, xf))
            if vl is None:
                return None
            key = (xf, cur)
            raws = [tuple(t._mpf_) for t in vl]
            if key in seen and seen[key] != raws and label == "f":
                res.bad("repeat:%s" % fam, "%s: two evaluations at x=%s at the same precision %d gave %s and %s" % (
                    desc, xf, cur, [mp.nstr(mp.make_mpf(t), 20) for t in seen[key]], [mp.nstr(t, 20) for t in vl]))
            seen.setdefault(key, raws)
            hist.append((xf, cur, vl))
        mp.prec = p0
        return hist

    def worst_error(hist):
        worst = None
        for xf, pnow, vl in hist:
            vals, b = bound(xf, pnow)
            err = max(abs(mpref.mp.make_mpf(g_._mpf_) - e) for g_, e in zip(vl, vals))
            ratio = err / b
            if worst is None or ratio > worst[0]:
                worst = (ratio, xf, pnow, vl, vals, err, b)
        return worst

    calls[0] = 0
    calls[1] = 4 * calls_g + 2000
    f = make(p0, kw)
    try:
        hist = run_history(f, "f")
    except _Runaway:
        mp.prec = p0
        order = [str(x) if x is not None else "prec=%d" % op[1] for op, x in zip(c["ops"], xs_ops)]
        res.nontrivial = True
        return res.bad("runaway:%s" % fam, "%s: the history %s needs more than %d evaluations of F (and does not "
                       "finish), the same points in increasing order at the creation precision need %d" % (
                           desc, order, calls[1], calls_g))
    finally:
        calls[1] = None
    if hist is None:
        return res
    res.n = max(1, len(hist))
    order_x = [h[0] for h in hist]
    precs = [h[1] for h in hist]
    monotone = all(order_x[i] < order_x[i + 1] for i in range(len(order_x) - 1))
    res.nontrivial = (not monotone) or any(q != p0 for q in precs)
    if not hist:
        return res

    # ---- oracle (i): closed form
    for xf, pnow, vl in hist:
        if pnow >= p0:
            vals, b = bound(xf, pnow)
            err = max(abs(mpref.mp.make_mpf(g_._mpf_) - e) for g_, e in zip(vl, vals))
            if err:
                lr = float(mpref.log(err / b, 2))
                if "log2(err/bound)" not in res.metrics or lr > res.metrics["log2(err/bound)"]:
                    res.metrics["log2(err/bound)"] = lr
    worst = worst_error(hist)
    accuracy_failed = worst[0] > 1
    if accuracy_failed:
        ratio, xf, pnow, vl, vals, err, b = worst
        # diagnosis (names the bucket, not the verdict): replay the same history on an instance whose only
        # difference is that it is created with 40 more bits (tol and degree pinned to the values in force)
        kw2 = dict(kw)
        if "tol" not in kw2:
            kw2["tol"] = mp.ldexp(mp.mpf(1), -p0)
        if "degree" not in kw2:
            mp.prec = p0
            kw2["degree"] = 3 + int(3 * mp.dps / 2.)
        bucket = "accuracy:%s" % fam
        try:
            nv = len(res.violations)
            h2 = run_history(make(p0 + 40, kw2), "f2")
            del res.violations[nv:]
            if h2 and worst_error(h2)[0] <= 1:
                bucket = "accuracy:first-segment"
        except Exception:
            pass
        finally:
            mp.prec = p0
        res.bad(bucket, "%s: f(%s) evaluated at prec %d = %s, exact %s; error %s is %s times the allowed %s%s" % (
            desc, xf, pnow, [mp.nstr(t, 25) for t in vl], [mpref.nstr(t, 25) for t in vals], mpref.nstr(err, 5),
            mpref.nstr(ratio, 5), mpref.nstr(b, 5),
            " (the same history is accurate when the first segment is computed with 40 more bits)"
            if bucket.endswith("segment") else ""))

    # ---- oracle (ii): the twin evaluated in increasing order
    for xf, pnow, vl in hist:
        vals, b = bound(xf, min(pnow, p0))
        ga = [mpref.mp.make_mpf(t._mpf_) for t in vl]
        gb = [mpref.mp.make_mpf(t._mpf_) for t in gv[xf]]
        diff = max(abs(a - b_) for a, b_ in zip(ga, gb))
        # both values are roundings (to p_now and to p) of numbers of their own size
        b = b + mpref.ldexp(max(abs(t) for t in ga + gb), 1 - min(pnow, p0))
        if not diff <= b:
            res.bad("order:%s" % fam, "%s: f(%s) in the history order %s (precisions %s) = %s but %s when the points "
                    "are evaluated in increasing order at prec %d; difference %s, allowed %s" % (
                        desc, xf, [str(t) for t in order_x], precs, [mp.nstr(t, 25) for t in vl],
                        [mp.nstr(t, 25) for t in gv[xf]], p0, mpref.nstr(diff, 5), mpref.nstr(b, 5)))
            break
    return res
