"""C09 -- conversion to and from machine floats is exact or correctly rounded."""
import math
from fractions import Fraction

from .. import exact, gen, helpers
from ..core import R
from ..exact import fzero, finf, fninf, fnan, raw_json as J, raw_unjson as U

ID = "C09"
LEVEL = "exploration"
CASE_TIMEOUT = 30.0          # each case is a micro/milli-second integer kernel
HANG_IS_VIOLATION = True
RULE = ("from-float cases: doubles from hypothesis' float strategy plus boundary doubles (max, min normal, "
        "subnormals, +-0.0, 2^k+-1ulp, inf, nan), as float and as complex, through mpf()/mpc() at context precisions "
        ">= 53 and mpmathify at any precision; oracle Fraction(f) == exact value of the raw result. to-float cases: "
        "raw mpf values with magnitude in [2^-1022, 2^1025] and mantissas of 1..4096 bits including exact ties and "
        "tie+-1 at the 53-bit boundary and values in [maxdouble, 2^1024]; oracle = CPython's correctly rounded "
        "int/int true division (OverflowError => infinity). Non-trivial = more than 53 bits, or within 2 ulp of a "
        "power of two, or >= 2^1023, or a non-finite/subnormal double.")
ASSUMPTIONS = ["CPython int/int true division and int->float conversion are correctly rounded (IEEE 754 binary64)"]
TECHNIQUE = "property-based testing (Hypothesis) against CPython's correctly rounded integer division"


def shards(tier):
    n = 10000 if tier == "quick" else 150000
    return [("from", n)] * 6 + [("to", n)] * 10


def gen_case(d, shard, tier):
    if shard == "from":
        how = d.choice(["mpf", "mpmathify", "mpc", "mpc_complex", "mpmathify_complex", "rop"])
        p = d.int(53, 300) if how in ("mpf", "mpc", "mpc_complex") else gen.prec(d, 1, 300)
        return {"kind": "from", "how": how, "p": p, "f": gen.pyfloat(d).hex(), "g": gen.pyfloat(d).hex(),
                "cls": "from:" + how}
    k = d.weighted([(4, "tie53"), (3, "long"), (3, "near_max"), (3, "any"), (2, "pow2edge")])
    sign = d.int(0, 1)
    if k == "tie53":
        m53 = (1 << 52) | d.bits(52)
        sh = d.choice([1, 2, 3, 11, 12, 64, 300])
        m = (m53 << sh) | (1 << (sh - 1))
        m += d.choice([0, 0, 1, -1]) if sh > 1 else 0
        e = d.int(-1022, 1023) - m.bit_length() + 1
    elif k == "long":
        bc = d.int(54, 4096 if tier == "thorough" else 1200)
        m = (1 << (bc - 1)) | d.bits(min(bc - 1, 200)) << max(0, bc - 1 - 200) | d.bits(min(bc - 1, 60))
        e = d.int(-1022, 1024) - m.bit_length() + 1
    elif k == "near_max":
        # values around the largest double / 2^1024
        bc = d.choice([53, 54, 55, 60, 100])
        m = (1 << bc) - 1 - (d.bits(3) if d.bool() else 0)
        e = 1024 - bc + d.choice([0, 0, 0, 1, -1])
    elif k == "pow2edge":
        bc = d.choice([54, 55, 64, 120])
        m = (1 << bc) - d.choice([1, 2, 3]) if d.bool() else (1 << (bc - 1)) + d.choice([1, 2, 3])
        e = d.int(-1021, 1023) - bc
    else:
        m, _ = gen.mantissa(d, 53, 1200)
        e = d.int(-1022, 1024) - m.bit_length() + 1
    x = exact.mk(sign, max(1, m), e)
    how = d.choice(["float", "float", "complex", "libmp"])
    c = {"kind": "to", "how": how, "x": J(x), "cls": "to:%s:%s" % (how, k)}
    if how == "complex":
        c["y"] = J(gen.mpf_finite(d, 53, 300, huge=False))
    return c


def correct_float(t):
    """correctly rounded double of a finite raw (inf on overflow)"""
    sign, man, exp, bc = t
    if man == 0:
        return 0.0
    if exp + bc > 1100:
        return -math.inf if sign else math.inf
    if exp + bc < -1200:
        return None
    try:
        v = float(man << exp) if exp >= 0 else man / (1 << -exp)
    except OverflowError:
        v = math.inf
    return -v if sign else v


def check_case(c):
    import mpmath
    from mpmath import mp, libmp
    res = R()
    res.cls = c["cls"]
    if c["kind"] == "from":
        f, g = float.fromhex(c["f"]), float.fromhex(c["g"])
        how = c["how"]
        mp.prec = c["p"]
        try:
            if how == "mpf":
                r = mp.mpf(f)
                parts = [(r._mpf_, f)]
            elif how == "mpmathify":
                r = mp.mpmathify(f)
                parts = [(r._mpf_, f)]
            elif how == "rop":
                r = mp.mpf(0) + f if c["p"] >= 53 else mp.fadd(0, f, exact=True)
                parts = [(r._mpf_, f)]
            elif how == "mpc":
                r = mp.mpc(f, g)
                parts = [(r._mpc_[0], f), (r._mpc_[1], g)]
            elif how == "mpc_complex":
                r = mp.mpc(complex(f, g))
                parts = [(r._mpc_[0], f), (r._mpc_[1], g)]
            else:
                r = mp.mpmathify(complex(f, g))
                parts = [(r._mpc_[0], f), (r._mpc_[1], g)]
        finally:
            mp.prec = 53
        res.nontrivial = not math.isfinite(f) or (f != 0 and abs(f) < 2.3e-308) or f != round(f)
        for raw, v in parts:
            prob = exact.canonical_problem(raw)
            if prob:
                res.bad("from:%s:noncanonical" % how, "%r -> %s" % (v, prob))
                continue
            want = helpers.float_raw(v)
            if how == "rop" and v != v:
                want = fnan
            if tuple(raw) != tuple(want):
                res.bad("from:" + how, "%s(%r) at prec %d = %s, exact value is %s" % (how, v, c["p"], exact.raw_str(raw), exact.raw_str(want)))
        return res
    x = U(c["x"])
    how = c["how"]
    want = correct_float(x)
    res.nontrivial = x[3] > 53 or x[2] + x[3] >= 1023
    if how == "float":
        got = float(mp.make_mpf(x))
        pairs = [(got, want, x)]
    elif how == "libmp":
        got = libmp.to_float(x, rnd="n")
        pairs = [(got, want, x)]
    else:
        y = U(c["y"])
        z = complex(mp.make_mpc((x, y)))
        pairs = [(z.real, want, x), (z.imag, correct_float(y), y)]
    for got, w, raw in pairs:
        if w is None:
            continue
        if abs(raw[2] + raw[3]) and raw[2] + raw[3] < -1021:
            continue    # below the normal range: not part of the statement
        if type(got) is not float:
            res.bad("to:type", "float() returned %r" % type(got))
        elif not (got == w and math.copysign(1, got) == math.copysign(1, w)):
            res.bad("to:" + how, "float(%s) = %r (%s), correctly rounded double is %r (%s)" % (
                exact.raw_str(raw), got, got.hex(), w, w.hex()))
    return res
