"""Shared machinery for the special-function accuracy properties C18..C23.

One parametrised property: draw (function, argument tuple, precision), evaluate in /repo at p bits, obtain a reference by
the strongest oracle available -- MPFR directly (real arguments, functions MPFR has), else the frozen mpmath 1.3.0
(`mpref`) evaluated at 2p+64 and again at 3p+100 bits (the two must agree to p+40 bits, else the case is inconclusive)
-- and require |f - ref| <= 2^(8-p) |ref| in modulus."""
import math

from .. import exact, gen, helpers, catalogue as cat, mpfrref as M, accuracy as acc
from ..core import R, time_limit, CaseTimeout
from ..exact import fzero, finf, fninf, fnan, raw_json as J, raw_unjson as U

TOL = 8

# functions MPFR evaluates directly for real arguments: name -> callable(args raws, q) -> raw or None
def _mpfr1(name):
    return lambda a, q: M.fn1(name, a[0], q)


def _lngamma(a, q):
    x = a[0]
    if x[0]:
        return None          # loggamma of negative reals is complex in mpmath
    return M.fn1("lngamma", x, q)


def _beta(a, q):
    return M.fn2("beta", a[0], a[1], q)


def _fac(a, q):
    x = a[0]
    big = M.fn2("add", x, exact.from_int(1), max(q, x[3] + abs(x[2]) + 4) if x[1] and abs(x[2]) < 3000 else q)
    return M.fn1("gamma", big, q)


def _rgamma(a, q):
    x = a[0]
    if x == fzero or (x[1] and x[0] and x[2] >= 0):
        return fzero
    g = M.fn1("gamma", x, q + 10)
    if g[1] == 0:
        return None
    return M.fn2("div", exact.from_int(1), g, q)


def _harmonic(a, q):
    x = a[0]
    big = M.fn2("add", x, exact.from_int(1), max(q, x[3] + abs(x[2]) + 4) if x[1] and abs(x[2]) < 3000 else q)
    d = M.fn1("digamma", big, q + 20)
    return M.fn2("add", d, M.const("euler", q + 20), q)


def _jn(a, q):
    return M.fn_n_x("jn", a[0], a[1], q)


def _yn(a, q):
    if a[1][0] or a[1] == fzero:
        return None
    return M.fn_n_x("yn", a[0], a[1], q)


def _e1(a, q):
    x = a[0]
    if x[0] or x == fzero:
        return None
    nx = (1,) + tuple(x[1:])
    v = M.fn1("eint", nx, q)
    return (1 - v[0],) + tuple(v[1:]) if v[1] else v


def _ei(a, q):
    if a[0] == fzero:
        return None
    return M.fn1("eint", a[0], q)


def _ncdf(a, q):
    x = a[0]
    s2 = M.fn1("sqrt", exact.from_int(2), q + 30)
    t = M.fn2("div", (1 - x[0],) + tuple(x[1:]) if x[1] else x, s2, q + 30)
    e = M.fn1("erfc", t, q + 10)
    return (e[0], e[1], e[2] - 1, e[3]) if e[1] else e


def _agm(a, q):
    if a[0][0] or a[1][0] or a[0] == fzero or a[1] == fzero:
        return None
    return M.fn2("agm", a[0], a[1], q)


def _zeta(a, q):
    if a[0] == exact.from_int(1):
        return None
    return M.fn1("zeta", a[0], q)


def _gammainc_upper(a, q):
    z, x = a[0], a[1]
    if x[0] or x == fzero:
        return None
    try:
        return M.fn2("gamma_inc", z, x, q)
    except AttributeError:
        return None


MPFR_DIRECT = {
    "gamma": _mpfr1("gamma"), "rgamma": _rgamma, "loggamma": _lngamma, "factorial": _fac, "fac": _fac, "digamma": _mpfr1("digamma"),
    "beta": _beta, "harmonic": _harmonic, "zeta": _zeta, "erf": _mpfr1("erf"), "erfc": _mpfr1("erfc"), "ei": _ei, "e1": _e1,
    "ncdf": _ncdf, "besselj": _jn, "bessely": _yn, "airyai": _mpfr1("ai"), "agm": _agm, "j0": lambda a, q: M.fn_n_x("jn", 0, a[0], q),
    "j1": lambda a, q: M.fn_n_x("jn", 1, a[0], q), "gammainc": _gammainc_upper,
}

def mpfr_direct(name, raws, q):
    try:
        return MPFR_DIRECT[name](raws, q)
    except M.Out:
        return None


INT_FIRST = {"besselj", "bessely"}       # MPFR versions need an integer order


def arg_top(a):
    ty, v = a
    if ty == "mpf":
        return v[2] + v[3] if int(v[1], 16) else -10**9
    if ty == "mpc":
        return max(v[0][2] + v[0][3] if int(v[0][1], 16) else -10**9, v[1][2] + v[1][3] if int(v[1][1], 16) else -10**9)
    return 0


def structure_args(d, name, p, scale_max):
    """catalogue arguments plus structure classes: scaled up, near negative integers / poles, half-integers"""
    args = cat.gen_args(d, name, p, long_bits=d.choice([0, 0, 0, 2 * p]))
    k = d.weighted([(6, "plain"), (3, "scaled"), (3, "near_int"), (2, "halfint"), (2, "tiny"), (2, "zero"), (2, "near_equal"),
                    (2, "near_small_int")])
    spec = cat.FUNCS[name][0]
    idx = [i for i, ch in enumerate(spec) if ch in "zxpt"]
    if not idx or k == "plain":
        return args, "plain"
    i = d.choice(idx)
    if k == "zero":
        if spec[i] in "zx":
            args[i] = ["mpf", J(fzero)]
            return args, k
        return args, "plain"
    if k == "near_equal":
        # two real arguments nearly equal: x_j = x_i (1 +- 2^-kk), optionally both scaled up
        real_idx = [j for j in idx if args[j][0] == "mpf"]
        if len(real_idx) < 2:
            return args, "plain"
        i, j = real_idx[0], real_idx[1]
        if len(real_idx) > 2 and d.bool():
            i, j = real_idx[-2], real_idx[-1]
        r = U(args[i][1])
        if not r[1]:
            return args, "plain"
        kk = d.int(3, 2 * p)
        sc = d.choice([0, 0, 10, 30, 60, None, None, None])
        if sc is None:
            # magnitude tied to the closeness: the absolute gap x*2^-kk is about 2^(-5..30), "far apart" in absolute terms
            r = (r[0], r[1], kk + d.int(-5, 30) - r[3], r[3])
        else:
            r = (r[0], r[1], r[2] + sc, r[3])
        t = d.choice([1, -1, 3, 0, 0, 0]) or (2 * d.int(0, 1 << d.int(1, 12)) + 1) * d.choice([1, -1])
        m2 = (r[1] << (kk + t.bit_length())) + t * r[1]
        kk += t.bit_length()
        args[i] = ["mpf", J(r)]
        args[j] = ["mpf", J(exact.mk(r[0], m2, r[2] - kk))]
        if len(real_idx) > 2 and d.bool():
            args[real_idx[-1]] = args[j]
        return args, k
    if k == "near_small_int":
        # within 2^-kk of 1, 2, 3 (zeros of loggamma, poles/zeros of many others) or of -1, 0
        n = d.choice([1, 2, 1, 2, 3, 0, -1])
        if spec[i] == "p" and n <= 0:
            n = 1
        kk = d.int(8, 2 * p)
        m = (abs(n) << kk) + d.choice([1, -1]) if n else 1
        v = exact.mk(1 if n < 0 else 0, m, -kk)
        args[i] = ["mpf", J(v)]
        return args, k
    ty, v = args[i]
    def mod_real(t):
        r = U(t)
        if k == "scaled":
            s = d.int(1, scale_max)
            return J((r[0], r[1], r[2] + s, r[3]) if r[1] else r)
        if k == "near_int":
            n = d.int(-12, 12) if spec[i] != "p" else d.int(1, 12)
            kk = d.int(3, 2 * p)
            return J(exact.mk(0 if n >= 0 else 1, (abs(n) << kk) + d.choice([1, -1]) if n else 1, -kk))
        if k == "halfint":
            n = d.int(-20, 20) if spec[i] != "p" else d.int(0, 20)
            m = 2 * n + 1
            return J(exact.mk(1 if m < 0 else 0, abs(m), -1))
        if k == "tiny":
            return J((r[0], r[1], r[2] - d.int(10, 120), r[3]) if r[1] else r)
        return t
    if ty == "mpf":
        args[i] = ["mpf", mod_real(v)]
    elif ty == "mpc":
        args[i] = ["mpc", [mod_real(v[0]), v[1] if k != "scaled" else mod_real(v[1])]]
    return args, k


def to_ref_args(mpx, args):
    out = []
    for ty, v in args:
        if ty == "mpf":
            out.append(mpx.make_mpf(U(v)))
        elif ty == "mpc":
            out.append(mpx.make_mpc((U(v[0]), U(v[1]))))
        elif ty == "list":
            out.append(to_ref_args(mpx, v))
        else:
            out.append(v)
    return out


def as_pair(r):
    if hasattr(r, "_mpf_"):
        return (tuple(r._mpf_), fzero)
    if hasattr(r, "_mpc_"):
        return (tuple(r._mpc_[0]), tuple(r._mpc_[1]))
    return None


def mpref_value(name, args, prec, kwargs=None, tl=20.0):
    import mpref
    mr = mpref.mp
    old = mr.prec
    try:
        mr.prec = prec
        a = to_ref_args(mr, args)
        with time_limit(tl):
            r = getattr(mr, name)(*a, **(kwargs or {}))
        r = mr.mpmathify(r) if not hasattr(r, "_mpf_") and not hasattr(r, "_mpc_") else r
        return as_pair(r)
    finally:
        mr.prec = old


def reference(name, args, p, kwargs=None):
    """(pair, how) or (None, reason)"""
    q = p + 64
    allreal = all(ty in ("mpf", "int") for ty, v in args)
    if name in MPFR_DIRECT and allreal and not kwargs and M.AVAILABLE:
        raws = []
        ok = True
        for i, (ty, v) in enumerate(args):
            if ty == "int":
                raws.append(v if (name in INT_FIRST and i == 0) else exact.from_int(v))
            else:
                r = U(v)
                if name in INT_FIRST and i == 0:
                    ok = False
                raws.append(r)
        if ok:
            try:
                # in the helper process: some MPFR functions (gamma_inc, zeta, jn with extreme arguments) loop for ever in C
                v = M.SERVER.call("vfw.props._special", "mpfr_direct", (name, raws, q), timeout=10.0)
            except (M.Hang, M.RemoteError):
                v = None
            if v is not None and v != fnan and v not in (finf, fninf):
                return (v, fzero), "mpfr"
    try:
        r1 = mpref_value(name, args, 2 * p + 64, kwargs)
        r2 = mpref_value(name, args, 3 * p + 100, kwargs)
    except CaseTimeout:
        return None, "timeout"
    except Exception as e:  # noqa -- the frozen reference rejects the input or fails: nothing to compare with
        return None, "ref-exc:" + type(e).__name__
    if r1 is None or r2 is None:
        return None, "ref-type"
    for t in r1 + r2:
        if t[1] == 0 and t != fzero:
            return None, "ref-special"
    ok, worst, _ = acc.check_complex(r1, r2, p + 40, 0, "modulus")
    if not ok:
        return None, "ref-disagrees"
    return r2, "mpref"


def check_function(res, mp, name, args, p, kwargs=None, tl=20.0, bucket_extra=""):
    DOC = cat.documented_exceptions()
    what = "%s(%s%s) at prec %d" % (name, ", ".join(_fmt(a) for a in args), (", %r" % kwargs) if kwargs else "", p)
    mp.prec = p
    try:
        try:
            with time_limit(tl):
                r = getattr(mp, name)(*cat.build_args(mp, args), **(kwargs or {}))
        except DOC:
            res.rejected = True
            return
        except CaseTimeout:
            res.inconclusive = True
            return
        finally:
            mp.prec = p
        got = as_pair(mp.mpmathify(r) if not hasattr(r, "_mpf_") and not hasattr(r, "_mpc_") else r)
        if got is None:
            res.rejected = True
            return
        for t in got:
            prob = exact.canonical_problem(t)
            if prob:
                res.bad("noncanonical:" + name, what + ": " + prob)
                return
        if any(t[1] == 0 and t != fzero for t in got):
            res.rejected = True           # infinities / nan at poles
            return
        ref, how = reference(name, args, p, kwargs)
        if ref is None:
            res.inconclusive = True
            res.metrics["inconclusive:" + how] = 1
            return
        ok, worst, which = acc.check_complex(got, ref, p, TOL, "modulus")
        res.metrics["err_log2_ulps:" + name] = worst
        res.nontrivial = True
        if not ok:
            cplx = any(a[0] == "mpc" for a in args)
            band = "lowp" if p < 30 else "p"
            kind = "gross" if worst >= p - 3 else "acc"      # gross = (almost) no correct bits; never covered by function-level findings
            res.bad("%s:%s:%s:%s%s" % (kind, name, "cplx" if cplx else "real", band, bucket_extra),
                    "%s = %s; reference[%s] (%s, %s); error about 2^%d ulp" % (
                what, str(r)[:120], how, exact.raw_str(ref[0])[:70], exact.raw_str(ref[1])[:70], worst))
    finally:
        mp.prec = 53


def _fmt(a):
    ty, v = a
    if ty == "mpf":
        return exact.raw_str(U(v))
    if ty == "mpc":
        return "(%s, %s)" % (exact.raw_str(U(v[0])), exact.raw_str(U(v[1])))
    if ty == "list":
        return "[" + ", ".join(_fmt(x) for x in v) + "]"
    return repr(v)


def make_module(family, quick_n, scale_max=10, extra_names=(), exclude=()):
    """returns (shards, gen_case, check_case) for a family of catalogue functions"""
    names_f = [n for n in cat.names("f", family) if n not in exclude]
    names_m = [n for n in cat.names("m", family) if n not in exclude]
    names_s = [n for n in cat.names("s", family) if n not in exclude] + list(extra_names)

    def shards(tier):
        n = quick_n if tier == "quick" else quick_n * 5
        out = []
        if names_f:
            out += [("f", n)] * 5
        if names_m:
            out += [("m", max(50, n // 4))] * 7
        if names_s:
            out += [("s", max(20, n // 20))] * 4
        return out

    def gen_case(d, shard, tier):
        pool = {"f": names_f, "m": names_m, "s": names_s}[shard]
        name = d.choice(pool)
        if shard == "s":
            p = d.choice([20, 53, 64])
        elif tier == "quick":
            p = d.choice([10, 20, 53, 53, 64, 100, 113, 200, 400]) if d.int(0, 3) else d.int(10, 400)
        else:
            p = d.choice([10, 53, 113, 400, 600, 1000, 1500, 3000]) if d.bool() else d.int(10, 1100)
        if shard == "m":
            p = min(p, 250 if tier == "quick" else 1100)
        if name in ("hyperfac", "barnesg", "superfac"):
            # the reference implementation (mpmath 1.3.0) itself is only accurate to about 700 bits here: at 797 bits its
            # hyperfac(0) differs from 1 in the 785th bit at both reference precisions (Glaisher / zeta'(-1) data)
            p = min(p, 600)
        args, k = structure_args(d, name, p, scale_max if shard != "s" else 3)
        return {"name": name, "p": p, "args": args, "cls": "%s:%s" % (name, k)}

    def check_case(c):
        import mpmath
        res = R()
        res.cls = c["cls"]
        check_function(res, mpmath.mp, c["name"], c["args"], c["p"], c.get("kw"), bucket_extra=":" + c["cls"].split(":")[-1])
        return res

    return shards, gen_case, check_case
