"""C03 -- integer powers are never rounded past the exact value."""
from .. import exact, gen, mpfrref
from ..core import R
from ..exact import fzero, finf, fninf, fnan, raw_json as J, raw_unjson as U

ID = "C03"
LEVEL = "exploration"
CASE_TIMEOUT = 30.0          # each case is a micro/milli-second integer kernel
HANG_IS_VIOLATION = True
RULE = ("Cases = (base raw bit pattern incl. negative bases/specials/1+-2^-j, integer exponent n from {0,+-1,+-2,+-3,"
        " small, bc*n straddling 1000 (exact-path switch), 1e3..1e6, 2^k, 2^k+-1, up to 1e18 for bases near 1}, "
        "precision, rounding mode) through libmp.mpf_pow_int (all five modes), mpf**int and mp.power (context "
        "rounding cell set to each mode). Oracle: lo/hi = the two p-bit neighbours of the exact power, computed "
        "exactly with CPython integers when bc*|n| <= 2e5 bits, else by MPFR mpfr_pow_z with RNDD/RNDU. Floor/down "
        "results must be <= exact, ceiling/up >= exact (directed modes mapped through the sign), nearest within "
        "{lo,hi}; exact equality with the correctly rounded value when the exact power fits p bits or bc*n<1000. "
        "Non-trivial = inexact result with |n|>=3 (or n<=-2) or negative base with odd n.")
ASSUMPTIONS = ["CPython big-integer pow", "MPFR 4.2 mpfr_pow_z correctly rounded (used only when the exact power would exceed 2e5 bits)"]
TECHNIQUE = "property-based testing (Hypothesis) against exact integer powers / MPFR enclosures"


def shards(tier):
    n = 6000 if tier == "quick" else 60000
    return [("libmp", n)] * 11 + [("mp", n)] * 5


def _n(d, bc, near1):
    k = d.weighted([(3, "tiny"), (4, "small"), (3, "switch"), (3, "med"), (2, "pow2"), (2 if near1 else 0, "huge"), (2, "neg")])
    if k == "tiny":
        n = d.choice([0, 1, 2, 3, -1, -2, -3])
    elif k == "small":
        n = d.int(-40, 60)
    elif k == "switch":
        n = max(2, 1000 // max(1, bc) + d.int(-2, 2))
    elif k == "med":
        n = d.int(10**3, 10**6) if bc < 200 else d.int(100, 3000)
    elif k == "pow2":
        n = (1 << d.int(2, 20 if not near1 else 60)) + d.choice([-1, 0, 1])
    elif k == "huge":
        n = d.int(10**6, 10**18)
    else:
        n = -d.int(2, 3000)
    if d.int(0, 5) == 0:
        n = -n
    return n


def gen_case(d, shard, tier):
    p = gen.prec(d, 1, 1200 if tier == "quick" else 4096)
    bk = d.weighted([(6, "any"), (3, "near1"), (1, "special"), (2, "smallint")])
    near1 = False
    if bk == "special":
        a = d.choice([fzero, finf, fninf, fnan])
    elif bk == "near1":
        j = d.int(1, 2 * p + 10)
        m = (1 << j) + d.choice([1, -1])
        a = exact.mk(d.int(0, 1), m, -j)
        near1 = True
    elif bk == "smallint":
        a = exact.from_int(d.int(-40, 40))
    else:
        a = gen.mpf_finite(d, p, 800 if tier == "quick" else 2500, huge=False, nonzero=True)
        if abs(a[2]) > 2000:
            a = (a[0], a[1], a[2] % 2000 - 1000, a[3])
    n = _n(d, max(1, a[3]), near1)
    if abs(a[2] + a[3]) * abs(n) > (1 << 55):
        n = n % 1000
    c = {"a": J(a), "n": str(n), "p": p, "rnd": gen.rnd(d), "layer": shard}
    if shard == "mp":
        c["how"] = d.choice(["pow", "power", "rpow_int_base"])
    c["cls"] = "%s:%s" % (shard, c["rnd"])
    return c


def neighbours(a, n, p):
    """(lo, hi, exact_fits) raw p-bit neighbours of a**n (lo <= a^n <= hi), or None if not decidable"""
    sign, man, exp, bc = a
    rs = sign & (n & 1)
    an = abs(n)
    if bc * an <= 200000:
        M = man ** an
        if n > 0:
            lo = exact.round_dyadic(M if not rs else -M, exp * n, p, "f")
            hi = exact.round_dyadic(M if not rs else -M, exp * n, p, "c")
        else:
            num = 1 if not rs else -1
            lo = exact.round_rational(num, M, p, "f", -exp * an)
            hi = exact.round_rational(num, M, p, "c", -exp * an)
        return lo, hi, "exact"
    if not mpfrref.AVAILABLE:
        return None
    try:
        lo = mpfrref.pow_z(a, n, p, "f")
        hi = mpfrref.pow_z(a, n, p, "c")
    except mpfrref.Out:
        return None
    if lo[1] == 0 or hi[1] == 0:
        return None
    return lo, hi, "mpfr"


def check_case(c):
    import mpmath
    from mpmath import mp, libmp
    res = R()
    a, n, p, rnd = U(c["a"]), int(c["n"]), c["p"], c["rnd"]
    res.cls = c["cls"]
    bucket = "%s:%s" % (c["layer"], rnd)
    got = None
    try:
        if c["layer"] == "libmp":
            got = libmp.mpf_pow_int(a, n, p, rnd)
        else:
            mp.prec = p
            mp._prec_rounding[1] = rnd
            try:
                x = mp.make_mpf(a)
                if c["how"] == "pow":
                    r = x ** n
                elif c["how"] == "power":
                    r = mp.power(x, n)
                else:
                    r = pow(x, n)
            finally:
                mp.prec = 53
                mp._prec_rounding[1] = "n"
            if hasattr(r, "_mpc_"):
                return res.bad(bucket + ":type", "real base ** int returned mpc")
            got = r._mpf_
    except ZeroDivisionError:
        got = "ZeroDivisionError"
    what = "(%s)**%d at prec %d rnd %s [%s]" % (exact.raw_str(a), n, p, rnd, c.get("how", "libmp"))
    # specials
    if a[1] == 0:
        res.nontrivial = True
        if a == fnan:
            want = fnan if n != 0 or c["layer"] == "libmp" else None
        elif a == fzero:
            want = exact.from_int(1) if n == 0 else (fzero if n > 0 else "ZeroDivisionError")
        elif n > 0:
            want = finf if (a == finf or not n & 1) else fninf
        elif n < 0:
            want = fzero
        else:
            want = None     # inf**0: not specified by the statement
        if want is not None and got != want:
            res.bad(bucket + ":special", "%s: got %s, expected %s" % (what, got if isinstance(got, str) else exact.raw_str(got), want if isinstance(want, str) else exact.raw_str(want)))
        return res
    if isinstance(got, str):
        return res.bad(bucket + ":exc", "%s raised %s" % (what, got))
    prob = exact.canonical_problem(got)
    if prob:
        return res.bad(bucket + ":noncanonical", "%s: %s" % (what, prob))
    if n == 0:
        if got != exact.from_int(1):
            res.bad(bucket, "%s: x**0 != 1: %s" % (what, exact.raw_str(got)))
        return res
    nb = neighbours(a, n, p)
    if nb is None:
        res.inconclusive = True
        return res
    lo, hi, how = nb
    inexact = lo != hi
    res.nontrivial = inexact and (abs(n) >= 3 or n <= -2) or (a[0] == 1 and n & 1 == 1)
    res.cls += ":" + how
    if got[3] > p:
        res.bad(bucket + ":bits", "%s: result has %d bits" % (what, got[3]))
        return res
    if not inexact:
        if got != lo:
            res.bad(bucket + ":exactcase", "%s: exact power %s fits, got %s" % (what, exact.raw_str(lo), exact.raw_str(got)))
        return res
    # side conditions
    neg = lo[0] == 1 or (lo == fzero and hi[0] == 1)
    if rnd == "f" or (rnd == "d" and not neg) or (rnd == "u" and neg):
        if exact.cmp_exact(got, lo) > 0:
            res.bad(bucket + ":side", "%s: got %s above the exact value (floor neighbour %s)" % (what, exact.raw_str(got), exact.raw_str(lo)))
        sideval = lo
    elif rnd == "n":
        if got != lo and got != hi:
            res.bad(bucket + ":ulp", "%s: got %s, more than 1 ulp from exact (neighbours %s, %s)" % (what, exact.raw_str(got), exact.raw_str(lo), exact.raw_str(hi)))
        sideval = None
    else:
        if exact.cmp_exact(got, hi) < 0:
            res.bad(bucket + ":side", "%s: got %s below the exact value (ceiling neighbour %s)" % (what, exact.raw_str(got), exact.raw_str(hi)))
        sideval = hi
    # few bits => correctly rounded
    if a[3] * abs(n) < 1000 and n > 0:
        want = exact.round_dyadic((a[1] ** n) * (-1 if (a[0] and n & 1) else 1), a[2] * n, p, rnd)
        if got != want:
            res.bad(bucket + ":smallexact", "%s: bc*n<1000 so result must be correctly rounded %s, got %s" % (what, exact.raw_str(want), exact.raw_str(got)))
    return res
