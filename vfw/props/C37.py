"""C37 -- the pure-Python and the gmpy integer backends give identical core results."""
import json
import os
import subprocess
import sys

from .. import exact, gen, accuracy as acc
from ..core import R, REPO, HOME, HarnessError
from ..exact import fzero, finf, fninf, fnan, raw_json as J, raw_unjson as U

ID = "C37"
LEVEL = "exploration"
CASE_TIMEOUT = 300.0
LEVEL_TEXT = ("Differential generated-input search: identical operation streams in a pure-Python-backend process and in a process whose "
              "BACKEND == 'gmpy'. PARTIAL: the gmpy2 C extension is not installable in this sandbox, so the gmpy side runs against a "
              "behavioural stand-in for the gmpy2 names mpmath uses (vfw/shims/gmpy2.py); every gmpy-specific branch of the repository "
              "is exercised, divergences caused inside gmpy2 itself are out of reach. Not a proof of absence.")
RULE = ("A case is a stream of 6..14 libmp / mp operations with generated operands (mantissa classes of the core "
        "generators: short, long, all-ones, ties, huge exponents, specials), precisions 1..1200 and all five rounding "
        "modes, executed (a) in a process running /repo on its pure-Python integer backend (MPMATH_NOGMPY=1) and (b) in a "
        "process running /repo with BACKEND == 'gmpy' (see ASSUMPTIONS), both fed the identical stream.  Oracle "
        "(differential): operations documented as exact or correctly rounded (add, sub, mul, div, mul_int, shift, sqrt, "
        "pow_int, from_int / from_man_exp / from_rational / from_float / from_str, to_int / to_float / to_str, rounding "
        "to integers, cmp, hash, sum, integer helpers isqrt / sqrtrem / ifac / ifib / numeral / bitcount / trailing / "
        "gcd, complex add / mul) must return identical results (sign, mantissa, exponent, bitcount), the same exception "
        "type, and canonical tuples (odd mantissa, correct bitcount) whose mantissa has the backend's integer type; "
        "elementary and special functions (exp, log, sin, cos, tan, atan, hyperbolics, pow, nthroot, constants, gamma, "
        "zeta, erf, complex exp / log / sqrt / pow, mp-level calls) must agree within 1 ulp at the working precision (the "
        "backends use different algorithm cut-offs).  Non-trivial = stream contains an operand or result of more than "
        "64 bits or a precision above 100.")
ASSUMPTIONS = ["the gmpy2 C extension cannot be installed in this sandbox (not in the wheelhouse): process (b) uses "
               "vfw/shims/gmpy2.py, a stand-in implementing the documented semantics of exactly the gmpy2 names mpmath uses "
               "(mpz, bit_length, bit_scan1, digits, isqrt, isqrt_rem, fac, _mpmath_normalize, _mpmath_create); every "
               "BACKEND == 'gmpy' branch of the repository runs, divergences caused inside gmpy2 itself are out of reach",
               "the repository's test-suite passes under the stand-in (337 passed)"]
TECHNIQUE = "differential property-based testing (Hypothesis): identical generated operation streams in two backend processes"

RNDS = ["n", "f", "c", "d", "u"]
EXACT2 = ["mpf_add", "mpf_sub", "mpf_mul", "mpf_div"]
ELEM1 = ["mpf_exp", "mpf_log", "mpf_sin", "mpf_cos", "mpf_tan", "mpf_atan", "mpf_cosh", "mpf_sinh", "mpf_tanh", "mpf_asin",
         "mpf_acos", "mpf_gamma", "mpf_erf", "mpf_erfc", "mpf_expint1", "mpf_cbrt", "mpf_log1p_", "mpf_zeta", "mpf_psi0", "mpf_loggamma",
         "mpf_ellipk", "mpf_ei", "mpf_asinh", "mpf_acosh", "mpf_atanh"]
CONSTS = ["mpf_pi", "mpf_e", "mpf_ln2", "mpf_ln10", "mpf_euler", "mpf_catalan", "mpf_phi", "mpf_khinchin", "mpf_glaisher",
          "mpf_apery", "mpf_degree"]
MPFUNCS = ["exp", "log", "sin", "cos", "sqrt", "gamma", "zeta", "erf", "besselj0", "atan", "lambertw", "ellipk", "agm1", "expm1",
           "sinpi", "cospi", "digamma", "li"]

_workers = {}


def shards(tier):
    n = 120 if tier == "quick" else 6000
    return [("arith", n)] * 6 + [("conv", n)] * 4 + [("elem", n // 2)] * 4 + [("int", n)] * 2


def _moderate(d, p):
    """finite operand of moderate exponent (for functions whose cost grows with the exponent)"""
    m, mc = gen.mantissa(d, p, 600)
    e = d.int(-60, 12) - m.bit_length()
    return exact.mk(d.int(0, 1), m, e)


def gen_op(d, shard):
    p = gen.prec(d, 1, 1200)
    r = gen.rnd(d)
    if shard == "arith":
        k = d.weighted([(8, "bin"), (3, "mulint"), (3, "sqrt"), (3, "powint"), (2, "shift"), (2, "sum"), (3, "round"), (3, "cmp"),
                        (3, "mpc"), (2, "pos")])
        a = gen.mpf_any(d, p, 1500)
        if k == "bin":
            f = d.choice(EXACT2)
            b = gen.mpf_relative(d, a, p, 1500) if (a[1] and d.bool()) else gen.mpf_any(d, p, 1500)
            return {"f": f, "args": [["raw", J(a)], ["raw", J(b)], ["int", p], ["str", r]], "kind": "exact", "prec": p}
        if k == "mulint":
            n = d.int(-2**70, 2**70) if d.bool() else d.int(-1000, 1000) if d.bool() else d.int(-3, 3)
            return {"f": "mpf_mul_int", "args": [["raw", J(a)], ["mpz" if d.bool() else "int", str(n)], ["int", p], ["str", r]], "kind": "exact", "prec": p}
        if k == "sqrt":
            a = (0,) + tuple(a[1:]) if a[1] else a
            return {"f": "mpf_sqrt", "args": [["raw", J(a)], ["int", p], ["str", r]], "kind": "exact", "prec": p}
        if k == "powint":
            return {"f": "mpf_pow_int", "args": [["raw", J(a)], ["int", d.int(-40, 40)], ["int", p], ["str", r]], "kind": "exact1", "prec": p}
        if k == "shift":
            return {"f": "mpf_shift", "args": [["raw", J(a)], ["int", d.int(-5000, 5000)]], "kind": "exact", "prec": p}
        if k == "sum":
            xs = [gen.mpf_finite(d, p, 400, huge=False) for _ in range(d.int(0, 6))]
            return {"f": "mpf_sum", "args": [["list", [["raw", J(x)] for x in xs]], ["int", p], ["str", r], ["py", d.bool()]], "kind": "exact", "prec": p}
        if k == "round":
            f = d.choice(["mpf_floor", "mpf_ceil", "mpf_nint", "mpf_frac", "mpf_neg", "mpf_abs", "mpf_pos"])
            b = gen.mpf_finite(d, p, 800, huge=False) if f in ("mpf_floor", "mpf_ceil", "mpf_nint", "mpf_frac") else a
            return {"f": f, "args": [["raw", J(b)], ["int", p], ["str", r]], "kind": "exact", "prec": p}
        if k == "cmp":
            b = gen.mpf_relative(d, a, p, 1500) if (a[1] and d.bool()) else gen.mpf_any(d, p, 1500)
            f = d.choice(["mpf_cmp", "mpf_eq", "mpf_lt", "mpf_hash"])
            args = [["raw", J(a)]] if f == "mpf_hash" else [["raw", J(a)], ["raw", J(b)]]
            return {"f": f, "args": args, "kind": "exact", "prec": p}
        if k == "mpc":
            z = [J(gen.mpf_finite(d, p, 600)), J(gen.mpf_finite(d, p, 600))]
            w = [J(gen.mpf_finite(d, p, 600)), J(gen.mpf_finite(d, p, 600))]
            f = d.choice(["mpc_add", "mpc_sub", "mpc_mul", "mpc_div", "mpc_abs", "mpc_sqrt", "mpc_square"])
            if f in ("mpc_abs", "mpc_sqrt", "mpc_square"):
                return {"f": f, "args": [["mpc", z], ["int", p], ["str", r]], "kind": "exact" if f == "mpc_square" else "ulp", "prec": p}
            return {"f": f, "args": [["mpc", z], ["mpc", w], ["int", p], ["str", r]], "kind": "exact" if f != "mpc_div" else "ulp", "prec": p}
        return {"f": "mpf_pos", "args": [["raw", J(a)], ["int", p], ["str", r]], "kind": "exact", "prec": p}
    if shard == "conv":
        k = d.weighted([(3, "from_int"), (3, "from_man_exp"), (3, "from_rational"), (2, "from_float"), (4, "to_str"), (4, "from_str"),
                        (2, "to_int"), (2, "to_float"), (2, "normalize")])
        if k == "from_int":
            n = d.int(-2**d.int(1, 2000), 2**d.int(1, 2000))
            return {"f": "from_int", "args": [["mpz" if d.bool() else "int", str(n)], ["int", p], ["str", r]], "kind": "exact", "prec": p}
        if k == "from_man_exp":
            m, _ = gen.mantissa(d, p, 2000)
            m <<= d.choice([0, 0, 1, 8, 77])
            if d.bool():
                m = -m
            return {"f": "from_man_exp", "args": [["mpz" if d.bool() else "int", str(m)], ["int", d.int(-10**6, 10**6)], ["int", p], ["str", r]], "kind": "exact", "prec": p}
        if k == "from_rational":
            return {"f": "from_rational", "args": [["int", str(d.int(-2**d.int(1, 300), 2**d.int(1, 300)))], ["int", str(d.int(1, 2**d.int(1, 300)))],
                                                   ["int", p], ["str", r]], "kind": "exact", "prec": p}
        if k == "from_float":
            return {"f": "from_float", "args": [["float", repr(gen.pyfloat(d))], ["int", p], ["str", r]], "kind": "exact", "prec": p}
        a = gen.mpf_finite(d, p, 1200, huge=d.int(0, 4) == 0)
        if k == "to_str":
            kw = d.int(1, 400)
            return {"f": "to_str", "args": [["raw", J(a)], ["int", kw]], "kind": "exact", "prec": p}
        if k == "from_str":
            nd = d.int(1, 120)
            digs = "".join(str(d.int(0, 9)) for _ in range(nd))
            pt = d.int(0, nd)
            s = ("-" if d.bool() else "") + digs[:pt] + "." + digs[pt:] + ("e%d" % d.int(-3000, 3000) if d.bool() else "")
            if s in (".", "-."):
                s = "0.5"
            return {"f": "from_str", "args": [["str", s], ["int", p], ["str", r]], "kind": "exact", "prec": p}
        if k == "to_int":
            b = gen.mpf_finite(d, p, 800, huge=False)
            return {"f": "to_int", "args": [["raw", J(b)], ["py", d.choice([None, "n", "f", "c", "d", "u"])]], "kind": "exact", "prec": p}
        if k == "to_float":
            return {"f": "to_float", "args": [["raw", J(a)], ["py", False], ["str", r]], "kind": "exact", "prec": p}
        m, _ = gen.mantissa(d, p, 2000)
        m = max(m, 1) << d.choice([0, 0, 3, 64])
        return {"f": "normalize", "args": [["int", d.int(0, 1)], ["mpz", str(m)], ["int", d.int(-10**5, 10**5)], ["int", m.bit_length()],
                                           ["int", p], ["str", r]], "kind": "exact", "prec": p}
    if shard == "elem":
        p = gen.prec(d, 4, 900)
        k = d.weighted([(8, "f1"), (2, "const"), (2, "pow"), (2, "nthroot"), (3, "mpc"), (3, "mp")])
        if k == "f1":
            f = d.choice(ELEM1)
            a = _moderate(d, p)
            if f in ("mpf_log", "mpf_gamma", "mpf_loggamma", "mpf_expint1", "mpf_acosh", "mpf_ellipk") and a[0]:
                a = (0,) + tuple(a[1:])
            if f == "mpf_log1p_":
                return {"f": "mpf_log", "args": [["raw", J(exact.mk(0, (1 << 200) + a[1], -200))], ["int", p], ["str", r]], "kind": "ulp", "prec": p}
            if f == "mpf_expint1":
                return {"f": "mpf_e1", "args": [["raw", J(a)], ["int", p], ["str", r]], "kind": "ulp", "prec": p}
            if f == "mpf_acosh":
                a = exact.mk(0, (1 << max(0, -a[2])) + a[1], min(a[2], 0)) if a[1] else exact.from_int(1)
            if f == "mpf_cbrt" and a[0]:
                a = (0,) + tuple(a[1:])
            return {"f": f, "args": [["raw", J(a)], ["int", p], ["str", r]], "kind": "ulp", "prec": p}
        if k == "const":
            return {"f": d.choice(CONSTS), "args": [["int", gen.prec(d, 1, 3000)], ["str", r]], "kind": "ulp", "prec": p}
        if k == "pow":
            a = _moderate(d, p)
            a = (0,) + tuple(a[1:]) if a[1] else a
            return {"f": "mpf_pow", "args": [["raw", J(a)], ["raw", J(_moderate(d, p))], ["int", p], ["str", r]], "kind": "ulp", "prec": p}
        if k == "nthroot":
            a = _moderate(d, p)
            a = (0,) + tuple(a[1:]) if a[1] else a
            return {"f": "mpf_nthroot", "args": [["raw", J(a)], ["int", d.int(1, 60)], ["int", p], ["str", r]], "kind": "ulp", "prec": p}
        if k == "mpc":
            z = [J(_moderate(d, p)), J(_moderate(d, p))]
            f = d.choice(["mpc_exp", "mpc_log", "mpc_sqrt", "mpc_sin", "mpc_cos", "mpc_atan", "mpc_reciprocal"])
            return {"f": f, "args": [["mpc", z], ["int", p], ["str", r]], "kind": "ulp", "prec": p}
        f = d.choice(MPFUNCS)
        a = _moderate(d, p)
        if f in ("log", "gamma", "agm1", "li", "lambertw", "ellipk") and a[0]:
            a = (0,) + tuple(a[1:])
        if f == "besselj0":
            return {"f": "mp.besselj", "args": [["int", d.int(0, 5)], ["raw", J(a)]], "kind": "ulp8", "prec": min(p, 300)}
        if f == "agm1":
            return {"f": "mp.agm", "args": [["int", 1], ["raw", J(a)]], "kind": "ulp8", "prec": min(p, 300)}
        return {"f": "mp." + f, "args": [["raw", J(a)]], "kind": "ulp8", "prec": min(p, 300)}
    # integer helpers
    k = d.weighted([(3, "isqrt"), (2, "ifac"), (2, "ifib"), (4, "numeral"), (3, "bitcount"), (3, "trailing"), (2, "gcd"), (2, "b2r")])
    big = d.int(0, 2**d.int(1, 3000))
    if k == "isqrt":
        f = d.choice(["isqrt", "sqrtrem", "isqrt_small", "isqrt_fast"])
        # isqrt_fast is documented as approximate on the Python backend (off by 1 near exact squares)
        return {"f": f, "args": [["mpz" if d.bool() else "int", str(big)]], "kind": "exact" if f != "isqrt_fast" else "int2", "prec": 53}
    if k == "ifac":
        return {"f": "ifac", "args": [["int", d.int(0, 1500)]], "kind": "exact", "prec": 53}
    if k == "ifib":
        return {"f": "ifib", "args": [["int", d.int(-50, 3000)]], "kind": "exact", "prec": 53}
    if k == "numeral":
        return {"f": "numeral", "args": [["mpz" if d.bool() else "int", str(big if d.bool() else -big)], ["int", d.choice([2, 8, 10, 16, 10, 10, 36, 7])]], "kind": "exact", "prec": 53}
    if k == "bitcount":
        return {"f": "bitcount", "args": [["mpz" if d.bool() else "int", str(big)]], "kind": "exact", "prec": 53}
    if k == "trailing":
        return {"f": "trailing", "args": [["mpz" if d.bool() else "int", str((big << d.int(0, 300)) * d.choice([1, 1, -1]))]], "kind": "exact", "prec": 53}
    if k == "gcd":
        return {"f": "gcd", "args": [["int", str(big)], ["int", str(d.int(0, 2**200))]], "kind": "exact", "prec": 53}
    return {"f": "bin_to_radix", "args": [["mpz", str(big)], ["int", d.int(0, 200)], ["int", 10], ["int", d.int(0, 60)]], "kind": "exact", "prec": 53}


def gen_case(d, shard, tier):
    return {"ops": [gen_op(d, shard) for _ in range(d.int(6, 14))], "cls": shard}


def _worker(which):
    w = _workers.get(which)
    if w is not None and w.poll() is None:
        return w
    env = dict(os.environ)
    shim = os.path.join(HOME, "vfw", "shims")
    if which == "python":
        env["MPMATH_NOGMPY"] = "1"
        env["PYTHONPATH"] = os.pathsep.join([REPO, HOME])
    else:
        env.pop("MPMATH_NOGMPY", None)
        env["PYTHONPATH"] = os.pathsep.join([shim, REPO, HOME])
    w = subprocess.Popen([sys.executable, "-m", "vfw.backend_worker"], stdin=subprocess.PIPE, stdout=subprocess.PIPE, env=env,
                         text=True, bufsize=1)
    hello = json.loads(w.stdout.readline())
    if hello["backend"] != which or not hello["file"].startswith(REPO):
        raise HarnessError("backend worker %s started with %r" % (which, hello))
    _workers[which] = w
    return w


def _run(which, ops):
    for attempt in (0, 1):
        w = _worker(which)
        try:
            w.stdin.write(json.dumps({"ops": ops}) + "\n")
            w.stdin.flush()
            line = w.stdout.readline()
            if line:
                return json.loads(line)
        except (BrokenPipeError, OSError):
            pass
        try:
            w.kill()
        except Exception:
            pass
        _workers.pop(which, None)
    raise HarnessError("backend worker %s died twice" % which)


def _raws(e):
    """list of raw tuples contained in an encoded result (for ulp comparison)"""
    if e[0] == "raw":
        return [U(e[1])]
    if e[0] in ("tuple", "list"):
        out = []
        for x in e[1]:
            out.extend(_raws(x))
        return out
    return []


def _strip(e):
    """encoded result without the mantissa-type annotation"""
    if e[0] == "raw":
        return ["raw", e[1]]
    if e[0] in ("tuple", "list"):
        return [e[0], [_strip(x) for x in e[1]]]
    return e


def _walk(e):
    if e[0] == "raw":
        yield e
    elif e[0] in ("tuple", "list"):
        for x in e[1]:
            for y in _walk(x):
                yield y


def check_case(c):
    res = R()
    res.cls = c["cls"]
    ops = [{"f": o["f"], "args": o["args"], "prec": o["prec"]} for o in c["ops"]]
    a = _run("python", ops)
    b = _run("gmpy", ops)
    res.n = len(ops)
    for o, ra, rb in zip(c["ops"], a, b):
        f, kind, p = o["f"], o["kind"], o["prec"]
        if f == "isqrt_fast":
            kind = "int2"
        what = "%s%s" % (f, json.dumps(o["args"])[:500])
        if o["prec"] > 100 or any(len(json.dumps(x)) > 40 for x in o["args"]):
            res.nontrivial = True
        if ("exc" in ra) != ("exc" in rb) or ("exc" in ra and ra["exc"] != rb["exc"]):
            if "TimeoutError" in (ra.get("exc"), rb.get("exc")):
                res.inconclusive = True
                continue
            res.bad("differ:exception:%s" % f, "%s: python backend -> %r, gmpy backend -> %r" % (what, ra, rb))
            continue
        if "exc" in ra:
            if ra["exc"] in ("AttributeError", "NameError", "TypeError", "KeyError"):
                raise HarnessError("operation %s is not callable as generated: %r" % (what, ra))
            continue
        ea, eb = ra["ok"], rb["ok"]
        for which, e in (("python", ea), ("gmpy", eb)):
            for leaf in _walk(e):
                if not leaf[2]:
                    res.bad("noncanonical:%s:%s" % (which, f), "%s on the %s backend returned the non-canonical tuple %r" % (what, which, leaf[1]))
                if which == "gmpy" and leaf[3] != "mpz" and f not in ("mpf_shift", "mpf_neg", "mpf_abs"):
                    res.bad("mantissa-type:%s" % f, "%s on the gmpy backend returned a mantissa of type %s" % (what, leaf[3]))
        sa, sb = _strip(ea), _strip(eb)
        if sa == sb:
            res.metrics["identical"] = res.metrics.get("identical", 0) + 1
            continue
        if kind == "int2":
            if not (sa[0] == sb[0] == "int" and abs(int(sa[1]) - int(sb[1])) <= 2):
                res.bad("differ:%s" % f, "%s: python backend -> %r, gmpy backend -> %r (documented accuracy: about 1 unit)" % (what, sa, sb))
            continue
        if kind == "exact":
            res.bad("differ:%s" % f, "%s: python backend -> %r, gmpy backend -> %r" % (what, sa, sb))
            continue
        tol = {"exact1": 0, "ulp": 0, "ulp8": 3}[kind]
        xa, xb = _raws(ea), _raws(eb)
        if len(xa) != len(xb) or not xa:
            res.bad("differ:%s" % f, "%s: python backend -> %r, gmpy backend -> %r" % (what, sa, sb))
            continue
        prec = p
        for arg in o["args"]:
            pass
        if not f.startswith("mp."):
            ints = [int(x[1]) for x in o["args"] if x[0] == "int"]
            prec = ints[-1] if ints else p
        if f in CONSTS:
            prec = int(o["args"][0][1])
        for x, y in zip(xa, xb):
            if x == y:
                continue
            if not (x[1] and y[1]):
                res.bad("differ:%s" % f, "%s: python backend -> %r, gmpy backend -> %r" % (what, sa, sb))
                break
            dlt = acc.sub_raw(x, y)
            scale = x if len(xa) == 1 else max(xa + xb, key=lambda t: (t[2] + t[3]) if t[1] else -10**12)
            if acc.exceeds(dlt, scale, prec, tol + 1):
                res.bad("differ:%s" % f, "%s: python backend -> %r, gmpy backend -> %r (more than %d ulp apart at %d bits)" % (
                    what, sa, sb, 2 ** (tol + 1), prec))
                break
        else:
            res.metrics["within_ulp"] = res.metrics.get("within_ulp", 0) + 1
    return res
