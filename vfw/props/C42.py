"""C42 -- numerical inverse Laplace transforms are accurate on standard problems."""
from ..core import R

ID = "C42"
LEVEL = "exploration"
CASE_TIMEOUT = 120.0
RULE = ("Cases = (transform pair, parameters, t, method, optional degree, working precision). Pairs (all singularities "
        "have Re <= 0): 1/(p+a)^k with k = 1..6 and half-integers (k = 1/2: 1/sqrt(p+a), a = 0: 1/p^k), "
        "w/(p^2+w^2), p/(p^2+w^2) and their shifted forms with poles -b +- iw, 1/((p+a)(p+b)), 1/sqrt(p^2+w^2) -> J0(wt) "
        "(written as 1/(sqrt(p+iw) sqrt(p-iw)) for the Talbot contour, which enters the left half-plane), "
        "exp(-a sqrt p)/p -> erfc(a/(2 sqrt t)), log(p)/p -> -euler-log t. Parameters are dyadic rationals; t = k/64 or "
        "k/100 in [0.01, 10] (or 1 exactly); precision given in bits (50..170, i.e. dps 15..50, deliberately not always a "
        "dps_to_prec value) ; methods talbot, stehfest, dehoog; degree absent or an integer (talbot 16.., stehfest 18.., "
        "dehoog 10..); the method is named by string (any case), by the shortcut functions invlaptalbot/..., by the "
        "class object, or left to the default (dehoog). Domain restrictions taken from the docstrings: Stehfest only gets non-oscillatory pairs; for "
        "oscillatory pairs the number of radians w*t is at most dps_eff/2 (moderate imaginary parts: the Talbot "
        "parabola and the de Hoog Fourier nodes scale with degree/t, and the default degree is proportional to dps). "
        "dps_eff = dps, or min(dps, degree/c) when a degree is given, c = degree/dps ratio of the documented default "
        "(talbot 1.38*1.72, stehfest 2.93, dehoog 1.36) -- 'if degree is specified, the working precision is chosen to "
        "achieve maximum resulting precision for the specified degree'. Oracle: closed form evaluated with the frozen "
        "reference mpref at 3x precision (+100 bits) at the exactly converted t and parameters. Tolerance: "
        "|got - f(t)| <= 10^(3-dps_eff/2) * max(|f(t)|, natural scale), natural scale = the magnitude of f without its "
        "exponential decay (1 for exp/sin/cos/J0/erfc, sup over (0,t] for t^(k-1) e^(-at) and the two-pole pair, "
        "1/sqrt(pi t) for k = 1/2). mp.prec and mp.dps must be unchanged after the call, also when the transform "
        "function raises at a generated evaluation index. A low-weight class passes the documented keyword tmax (> t) "
        "to talbot/dehoog (own bucket). Non-trivial = non-real singularity, or t != 1, or degree specified.")
ASSUMPTIONS = ["mpref (frozen mpmath 1.3.0) evaluates exp, sin, cos, besselj(0, x), erfc, gamma, log correctly at 3x precision",
               "the textbook transform pairs (DLMF 1.14) are correct"]
TECHNIQUE = "property-based testing (Hypothesis) against closed-form inverses evaluated by an independent reference"

RATIO = {"talbot": 1.38 * 1.72, "stehfest": 2.93, "dehoog": 1.36}
OSC = ("sin", "cos", "dsin", "dcos", "j0")
FAMS_ALL = ["pow", "pow", "two", "erfc", "logp", "sin", "cos", "dsin", "dcos", "j0"]
FAMS_NONOSC = ["pow", "pow", "pow", "two", "erfc", "logp"]


def shards(tier):
    n = 500 if tier == "quick" else 6000
    return [("talbot", n)] * 5 + [("stehfest", n)] * 4 + [("dehoog", n * 2 // 5)] * 7


def prec_to_dps(p):
    return max(1, int(round(int(p) / 3.3219280948873626) - 1))


def gen_case(d, shard, tier):
    method = shard
    # precision in bits; half of the time a value that is not dps_to_prec(n)
    if d.bool():
        dps = d.int(15, 50)
        prec = max(1, int(round((int(dps) + 1) * 3.3219280948873626)))
    else:
        prec = d.int(54, 169)
    dps = prec_to_dps(prec)
    if method == "dehoog" and tier == "quick" and dps > 40 and d.int(0, 2):
        prec = d.int(54, 120)
        dps = prec_to_dps(prec)
    degree = None
    if d.int(0, 2) == 0:
        if method == "talbot":
            degree = d.int(16, 3 * dps + 20)
        elif method == "stehfest":
            degree = d.int(18, 3 * dps + 30)
        else:
            degree = d.int(10, min(80, 2 * dps + 10))
    dps_eff = dps if degree is None else min(dps, degree / RATIO[method])
    # time
    tk = d.weighted([(6, "dyadic"), (4, "decimal"), (1, "one"), (1, "edge")])
    if tk == "dyadic":
        t = [d.int(1, 640), 64]
    elif tk == "decimal":
        t = [d.int(1, 1000), 100]
    elif tk == "one":
        t = [1, 1]
    else:
        t = d.choice([[1, 100], [10, 1], [1, 64], [1, 10], [5, 1]])
    tmax = None
    if method != "stehfest" and d.int(0, 15) == 0:
        j = d.int(1, 4)                      # tmax = t*(1+j/4)  (documented keyword of the Talbot and de Hoog rules)
        tmax = [t[0] * (4 + j), t[1] * 4]
    tt = (tmax[0] / tmax[1]) if tmax else t[0] / t[1]
    fam = d.choice(FAMS_NONOSC if method == "stehfest" else FAMS_ALL)
    par = {}
    if fam in OSC:
        # w = k/64 with w*t <= dps_eff/2 and w <= 8
        wmax = min(8.0, dps_eff / 2.0 / tt)
        kmax = max(1, int(wmax * 64))
        par["w"] = [d.int(1, kmax), 64]
        if fam in ("dsin", "dcos"):
            par["b"] = [d.int(0, 64), 16]
    elif fam == "pow":
        par["k2"] = d.choice([2, 2, 2, 4, 4, 6, 8, 10, 12, 1, 1, 3, 5, 7])      # k = k2/2
        par["a"] = [d.int(0, 80), 16] if d.int(0, 4) else [0, 1]
    elif fam == "two":
        a = d.int(0, 64)
        par["a"] = [a, 16]
        par["b"] = [a + d.int(1, 64), 16]
    elif fam == "erfc":
        par["a"] = [d.int(1, 48), 16]
    nontrivial = fam in OSC or t != [1, 1] or degree is not None
    c = {"method": method, "prec": prec, "degree": degree, "t": t, "tmax": tmax, "fam": fam, "par": par,
         "t_as_int": bool(t[1] == 1 and d.bool()), "nt": nontrivial,
         "raise_at": d.int(0, 40) if d.int(0, 5) == 0 else None,
         "j0_form": d.int(0, 1),
         # how the method is named: string, string in another case, shortcut function, class object, default (dehoog)
         "call": d.weighted([(5, "str"), (1, "case"), (2, "shortcut"), (2, "class"), (1, "default")]),
         "cls": "%s:%s%s%s" % (method, fam, ":degree" if degree is not None else "", ":tmax" if tmax else "")}
    return c


class _Boom(Exception):
    pass


def _build(mp, ref, c, tref):
    """returns (F for mpmath, f(t) reference value, natural scale) -- parameters are exact dyadic numbers"""
    fam, par = c["fam"], c["par"]

    def both(key):
        n, dd = par[key]
        return mp.mpf(n) / dd, ref.mpf(n) / dd            # dd is a power of two and n is small: both exact

    if fam == "pow":
        a, ar = both("a")
        k2 = par["k2"]
        if k2 % 2 == 0:
            k = k2 // 2
            F = (lambda p: 1 / (p + a) ** k) if k > 1 else (lambda p: 1 / (p + a))
            kr = ref.mpf(k)
        else:
            k = mp.mpf(k2) / 2
            F = (lambda p: 1 / mp.sqrt(p + a)) if k2 == 1 else (lambda p: (p + a) ** (-k))
            kr = ref.mpf(k2) / 2
        val = tref ** (kr - 1) * ref.exp(-ar * tref) / ref.gamma(kr)
        if kr > 1 and ar > 0:
            s = min(tref, (kr - 1) / ar)
            nat = s ** (kr - 1) * ref.exp(-ar * s) / ref.gamma(kr)
        else:
            nat = tref ** (kr - 1) / ref.gamma(kr)
        return F, val, nat
    if fam == "two":
        a, ar = both("a")
        b, br = both("b")
        F = lambda p: 1 / ((p + a) * (p + b))
        g = lambda s: (ref.exp(-ar * s) - ref.exp(-br * s)) / (br - ar)
        val = g(tref)
        nat = val
        if ar > 0:
            s = ref.log(br / ar) / (br - ar)
            if s < tref:
                nat = g(s)
        return F, val, nat
    if fam == "erfc":
        a, ar = both("a")
        F = lambda p: mp.exp(-a * mp.sqrt(p)) / p
        return F, ref.erfc(ar / (2 * ref.sqrt(tref))), ref.mpf(1)
    if fam == "logp":
        F = lambda p: mp.log(p) / p
        return F, -ref.euler - ref.log(tref), ref.mpf(1)
    w, wr = both("w")
    if fam == "sin":
        return (lambda p: w / (p * p + w * w)), ref.sin(wr * tref), ref.mpf(1)
    if fam == "cos":
        return (lambda p: p / (p * p + w * w)), ref.cos(wr * tref), ref.mpf(1)
    if fam == "dsin":
        b, br = both("b")
        return (lambda p: w / ((p + b) ** 2 + w * w)), ref.exp(-br * tref) * ref.sin(wr * tref), ref.mpf(1)
    if fam == "dcos":
        b, br = both("b")
        return (lambda p: (p + b) / ((p + b) ** 2 + w * w)), ref.exp(-br * tref) * ref.cos(wr * tref), ref.mpf(1)
    if fam == "j0":
        iw = mp.mpc(0, w)
        if c["method"] == "talbot" or c["j0_form"]:
            # the continuation whose cuts run from +-iw to the left (the principal sqrt(p^2+w^2) is cut along the
            # imaginary axis, which the Talbot parabola crosses)
            F = lambda p: 1 / (mp.sqrt(p + iw) * mp.sqrt(p - iw))
        else:
            F = lambda p: 1 / mp.sqrt(p * p + w * w)
        return F, ref.besselj(0, wr * tref), ref.mpf(1)
    raise ValueError(fam)


def check_case(c):
    import mpmath
    from mpmath import mp
    import mpref
    res = R()
    res.cls = c["cls"]
    res.nontrivial = bool(c["nt"])
    method = c["method"]
    prec = c["prec"]
    refprec0 = mpref.mp.prec
    try:
        mp.prec = prec
        dps = mp.dps
        mpref.mp.prec = 3 * prec + 100
        tn, td = c["t"]
        t = mp.mpf(tn) / td                                # rounded at the working precision when td = 100
        tref = mpref.mp.make_mpf(t._mpf_)                  # the reference sees exactly the t that is passed
        targ = int(tn) if c["t_as_int"] else t
        kw = {"method": method}
        call = c.get("call", "str")
        func = mp.invertlaplace
        if call == "case":
            kw["method"] = {"talbot": "Talbot", "stehfest": "STEHFEST", "dehoog": "deHoog"}[method]
        elif call == "shortcut":
            func = {"talbot": mp.invlaptalbot, "stehfest": mp.invlapstehfest, "dehoog": mp.invlapdehoog}[method]
            del kw["method"]
        elif call == "class":
            from mpmath.calculus import inverselaplace as _il
            kw["method"] = {"talbot": _il.FixedTalbot, "stehfest": _il.Stehfest, "dehoog": _il.deHoog}[method]
        elif call == "default" and method == "dehoog":
            del kw["method"]
        if c["degree"] is not None:
            kw["degree"] = c["degree"]
        if c["tmax"]:
            kw["tmax"] = mp.mpf(c["tmax"][0]) / c["tmax"][1]
        F, val, nat = _build(mp, mpref, c, tref)
        dps_eff = dps if c["degree"] is None else min(dps, c["degree"] / RATIO[method])
        what = "%s(%s %r, t=%s/%s, %s) at prec %d (dps %d)" % (
            "invertlaplace" if call != "shortcut" else "invlap" + method, c["fam"], c["par"], tn, td,
            ", ".join("%s=%s" % (k, getattr(v, "__name__", v)) for k, v in sorted(kw.items())), prec, dps)

        # --- a call whose function raises must not leak the raised working precision
        if c["raise_at"] is not None:
            cnt = [0]

            def Fbad(p):
                cnt[0] += 1
                if cnt[0] > c["raise_at"]:
                    raise _Boom()
                return F(p)
            try:
                func(Fbad, targ, **kw)
            except _Boom:
                pass
            if mp.prec != prec or mp.dps != dps:
                res.bad("prec-leak-on-raise:%s" % method, "%s: the function raised at evaluation %d; afterwards mp.prec = %d, "
                        "mp.dps = %d (before: %d, %d)" % (what, c["raise_at"], mp.prec, mp.dps, prec, dps))
                mp.prec = prec

        got = func(F, targ, **kw)
        if mp.prec != prec or mp.dps != dps:
            res.bad("prec-leak:%s" % method, "%s: afterwards mp.prec = %d, mp.dps = %d (before: %d, %d)" % (
                what, mp.prec, mp.dps, prec, dps))
            mp.prec = prec
        sub = ":tmax" if c["tmax"] else (":degree" if c["degree"] is not None else "")
        if not hasattr(got, "_mpf_"):
            return res.bad("type:%s" % method, "%s returned %r, not a real number" % (what, type(got)))
        if not mp.isfinite(got):
            return res.bad("value:%s%s" % (method, sub), "%s = %s, expected %s" % (what, got, mpref.nstr(val, 20)))
        g = mpref.mp.make_mpf(got._mpf_)
        err = abs(g - val)
        scale = max(abs(val), abs(nat))
        bound = mpref.mpf(10) ** (3 - mpref.mpf(dps_eff) / 2) * scale
        if err and not c["tmax"]:
            res.metrics["log10(err/bound)"] = float(mpref.log10(err / bound))
        if not err <= bound:
            res.bad("value:%s%s" % (method, sub), "%s = %s, exact %s; error %s, allowed 10^(3-%.4g/2) * %s = %s" % (
                what, mpref.nstr(g, 25), mpref.nstr(val, 25), mpref.nstr(err, 5), dps_eff, mpref.nstr(scale, 5),
                mpref.nstr(bound, 5)))
        return res
    finally:
        mp.prec = 53
        mpref.mp.prec = refprec0
