"""C43 -- the fp context matches mp conventions for elementary functions."""
import math

from .. import exact, gen, helpers
from ..core import R
from ..exact import fzero, finf, fninf, fnan, raw_json as J, raw_unjson as U

ID = "C43"
LEVEL = "exploration"
CASE_TIMEOUT = 30.0
RULE = ("Cases = (fp function, finite double or complex-double argument). Argument classes: generic doubles, negative "
        "arguments of sqrt/log/cbrt/power, |x| > 1 for asin/acos (both signs), exact integers and half-integers up to 2^52 "
        "for cospi/sinpi, tiny and moderately large arguments (|x| <= 2^20; beyond that the platform libm's argument "
        "reduction, not mpmath, decides), complex arguments on both sides of the branch cuts. Functions: sqrt, exp, log, "
        "ln, power, cos, sin, tan, acos, asin, atan, cosh, sinh, tanh, cbrt, cospi, sinpi (fp defines no asinh/acosh/"
        "atanh). Oracle (differential against mp at 53 bits evaluated at the exactly converted argument): the result "
        "type is float or complex, never mpf/mpc and never an exception for a real argument outside the real domain; "
        "|fp - mp| <= 2^-48 |mp| + 2^-300 (modulus for complex results); overflow of the double range is accepted where "
        "mp's value exceeds the largest double. Non-trivial = real argument outside the real domain, or half-integer for "
        "cospi/sinpi, or complex argument.")
ASSUMPTIONS = ["mp at 53 bits is the reference, as the statement says (mp's own accuracy is C12's business)",
               "the platform libm is accurate to a few ulps for |x| <= 2^20"]
TECHNIQUE = "property-based testing (Hypothesis), differential against the mp context"

FUNS = ["sqrt", "exp", "log", "ln", "cos", "sin", "tan", "acos", "asin", "atan", "cosh", "sinh", "tanh", "cbrt", "cospi", "sinpi", "power"]


def shards(tier):
    n = 5000 if tier == "quick" else 60000
    return [("real", n)] * 9 + [("complex", n)] * 7


def _dbl(d, fn):
    k = d.weighted([(5, "generic"), (3, "negative"), (3, "gt1"), (3, "small"), (2, "halfint"), (2, "int"), (2, "tiny"), (1, "big")])
    if k == "generic":
        x = d.float(min_value=-50, max_value=50, allow_nan=False)
    elif k == "negative":
        x = -abs(d.float(min_value=-1e6, max_value=1e6, allow_nan=False)) - 1e-300
    elif k == "gt1":
        x = d.choice([-1, 1]) * (1 + abs(d.float(min_value=0, max_value=100, allow_nan=False)))
        if d.int(0, 3) == 0:
            x = d.choice([-1, 1]) * (1 + 2.0 ** -d.int(1, 52))
    elif k == "small":
        x = d.float(min_value=-1, max_value=1, allow_nan=False)
    elif k == "halfint":
        x = d.choice([-1, 1]) * (d.int(0, 2 ** d.int(1, 50)) + 0.5)
    elif k == "int":
        x = float(d.choice([-1, 1]) * d.int(0, 2 ** d.int(1, 52)))
    elif k == "tiny":
        x = d.choice([-1, 1]) * 2.0 ** -d.int(30, 300) * (1 + d.int(0, 1000) / 1024.0)
    else:
        x = d.float(min_value=-2.0 ** 20, max_value=2.0 ** 20, allow_nan=False)
    if fn in ("exp", "cosh", "sinh") and abs(x) > 700:
        x = math.copysign(700 * (abs(x) % 1), x)
    return x, k


def gen_case(d, shard, tier):
    fn = d.choice(FUNS)
    if shard == "real":
        x, k = _dbl(d, fn)
        c = {"fn": fn, "x": float(x).hex(), "cls": "real:%s:%s" % (fn, k)}
        if fn == "power":
            y = d.choice([0.5, 2.0, -1.0, 1.0 / 3, 3.0, 2.5]) if d.bool() else d.float(min_value=-8, max_value=8, allow_nan=False)
            c["y"] = float(y).hex()
        return c
    x, k = _dbl(d, fn)
    y, k2 = _dbl(d, fn)
    if abs(x) > 300:
        x = math.copysign(abs(x) % 300, x)
    if abs(y) > 300:
        y = math.copysign(abs(y) % 300, y)
    if d.int(0, 3) == 0:
        y = d.choice([0.0, 1e-300, -1e-300, 2.0 ** -60, -2.0 ** -60])
    c = {"fn": fn, "x": float(x).hex(), "xi": float(y).hex(), "cls": "complex:%s" % fn}
    if fn == "power":
        c["y"] = float(d.float(min_value=-4, max_value=4, allow_nan=False)).hex()
        c["yi"] = float(d.choice([0.0, 0.5, -1.5])).hex()
    return c


def check_case(c):
    import mpmath
    from mpmath import mp, fp
    res = R()
    res.cls = c["cls"]
    fn = c["fn"]
    x = float.fromhex(c["x"])
    cplx = "xi" in c
    def pz(v):
        return v + 0.0 if v == 0 else v          # no signed zeros: mp has none, and the statement does not cover them
    x = pz(x)
    arg = complex(x, pz(float.fromhex(c["xi"]))) if cplx else x
    args = [arg]
    if fn == "power":
        y = pz(float.fromhex(c["y"]))
        args.append(complex(y, pz(float.fromhex(c["yi"]))) if "yi" in c else y)
    what = "fp.%s(%s)" % (fn, ", ".join(repr(a) for a in args))
    if any(isinstance(a, complex) and any(0 < abs(v) < 2.3e-308 for v in (a.real, a.imag)) for a in args):
        # subnormal parts of a complex argument: CPython's cmath (hypot/log on subnormals) loses accuracy by itself;
        # that is the platform's arithmetic, not fp's conventions
        res.rejected = True
        return res
    # Reference: mp's value of the function at the exactly converted argument.  It is evaluated well above 53 bits
    # (the 53-bit mp value differs from it by at most an ulp or so, far inside the 2^-48 window, except where mp
    # itself is inaccurate -- tiny complex arguments of asin/atan, see C12 -- and fp must not be blamed for that).
    amag = min([abs(v) for a in args for v in ((a.real, a.imag) if isinstance(a, complex) else (a,)) if v] or [1.0])
    refprec = 260 + (2 * int(-math.log2(amag)) if amag < 1 else 0)
    mp.prec = min(refprec, 4500)
    margs = [mp.mpmathify(a) for a in args]
    try:
        ref = getattr(mp, fn)(*margs)
    except (ZeroDivisionError, ValueError, OverflowError):
        res.rejected = True
        mp.prec = 53
        return res
    finally:
        pass
    mp.prec = 53
    if not mp.isfinite(ref):
        res.rejected = True
        return res
    rc = complex(ref) if abs(ref) < mp.mpf(2) ** 1023 else None
    try:
        got = getattr(fp, fn)(*args)
    except OverflowError:
        if rc is None or abs(ref) > mp.mpf(2) ** 1020:
            res.rejected = True
            return res
        return res.bad("exception:%s" % fn, what + " raised OverflowError but mp gives %s" % ref)
    except ZeroDivisionError:
        if rc is None or abs(ref) > mp.mpf(2) ** 1020:
            res.rejected = True          # the true value does not fit a double (underflowed intermediate)
            return res
        return res.bad("exception:%s" % fn, what + " raised ZeroDivisionError but mp gives %s" % ref)
    except ValueError as e:
        return res.bad("exception:%s" % fn, "%s raised ValueError (%s) but mp returns the principal value %s" % (what, e, ref))
    res.nontrivial = cplx or hasattr(ref, "_mpc_") or (fn in ("cospi", "sinpi") and x != int(x))
    if type(got) not in (float, complex, int):
        return res.bad("type:%s" % fn, "%s returned %r" % (what, type(got)))
    if rc is None:
        res.rejected = True
        return res
    g = complex(got)
    if g != g or abs(g) == float("inf"):
        if abs(ref) > mp.mpf(2) ** 1000:
            res.rejected = True
            return res
        return res.bad("value:%s" % fn, "%s = %r but mp gives %s" % (what, got, ref))
    # exact difference through mp at high precision
    mp.prec = 200
    try:
        diff = abs(mp.mpmathify(g) - ref)
        # A double-precision evaluation has to round an inexact intermediate for these two shapes (pi*z for
        # sinpi/cospi of a complex z, y*log(x) for power); the error of that rounding is amplified by the size of
        # the intermediate, which no double implementation can avoid.  The 2^-48 tolerance is scaled by that
        # condition number there (and only there).
        cond = 1
        if fn in ("sinpi", "cospi") and cplx:
            cond = max(1, 3.1416 * abs(arg.imag))
        elif fn == "power":
            try:
                cond = max(1, float(abs(margs[1] * mp.log(margs[0]))))
                if cond != cond or cond == float("inf"):
                    cond = 1
            except Exception:
                cond = 1
        bound = abs(ref) * (mp.mpf(2) ** -48 + mp.mpf(2) ** -52) * cond + mp.mpf(2) ** -300
        ok = diff <= bound
        ratio = float(diff / bound) if bound else 0.0
    finally:
        mp.prec = 53
    if not ok:
        realarg = "real" if not cplx else "complex"
        res.bad("value:%s:%s" % (fn, realarg), "%s = %r, mp at 53 bits gives %s (difference %.3g times the allowed bound)" % (what, got, ref, ratio))
    return res


# ------------------------------------------------------------------------------------------ known-finding regions

def _arg(case):
    x = float.fromhex(case["x"])
    y = float.fromhex(case["xi"]) if "xi" in case else 0.0
    return x, y


def region_cbrt_extreme(case):
    """fp.cbrt is x**(1/3) with 1/3 rounded to a double: the relative error is |ln x| * 1.9e-17, above 2^-48 once
    |log2 |x|| exceeds about 64"""
    if case["fn"] != "cbrt":
        return False
    x, y = _arg(case)
    m = max(abs(x), abs(y))
    return m > 0 and abs(math.log2(m)) > 64


def region_sincospi_near_zero(case):
    """fp.sinpi/fp.cospi reduce x modulo 1/2 to r in [0, 1/2) and evaluate cos(pi*r) or sin(pi*r): just below a zero
    of the function (r close to 1/2) the rounding of pi*r is amplified, e.g. fp.sinpi(0.99999) is off by 2.5e-12
    relative"""
    if case["fn"] not in ("sinpi", "cospi"):
        return False
    x, y = _arg(case)
    if abs(y) > 0.5:
        return False
    t = abs(x) * 2 % 1.0           # position inside the half-period
    if case["fn"] == "sinpi":
        zero_dist = min(abs(x) % 1.0, 1 - abs(x) % 1.0)
    else:
        zero_dist = abs((abs(x) % 1.0) - 0.5)
    return zero_dist < 0.06


REGIONS = {"cbrt_extreme": region_cbrt_extreme, "sincospi_near_zero": region_sincospi_near_zero}
