"""C13 -- exact cases and special values of elementary functions are exact."""
from .. import exact, gen, mpfrref as M, accuracy as acc
from ..core import R
from ..exact import fzero, finf, fninf, fnan, raw_json as J, raw_unjson as U

ID = "C13"
LEVEL = "exploration"
CASE_TIMEOUT = 60.0
RULE = ("Constructed exact pairs: sqrt(m^2 4^e), cbrt(m^3 8^e), root(m^n 2^(ne), n) with m odd of 1..1500 bits, n <= 40, at "
        "precisions from 'the answer just fits' to 'does not fit' (then the correctly rounded m is required); exact "
        "points exp(0)=1, log(1)=0, sin/tan/atan/asin/sinh/asinh/atanh/expm1/log1p(0)=0, cos/cosh/sec/sech(0)=1; "
        "sinpi(n)=0, cospi(n+1/2)=0, sinpi(n+1/2)=+-1, cospi(n)=+-1 for n up to 2^200 at precisions below the size of "
        "n; powm1(x,y) == 0 exactly iff x^y == 1 (x=1, y=0, x=-1 with even integer y; and nonzero otherwise, decided "
        "by MPFR); tan/cot/sec/csc at the p'-bit value nearest to k*pi/2 (p' in {p, 2p, 10p}): finite and within "
        "2^(4-p) of MPFR; inf/nan arguments against the limits the statement and docstrings give (exp(-inf)=0, "
        "log(0)=-inf, atan(+-inf)=+-pi/2, tanh(+-inf)=+-1, sqrt(inf)=inf, nan -> nan). Oracle: construction (exact "
        "rational), table, MPFR. Non-trivial = exact answer with more than 64 bits, or argument within 2 ulp of a "
        "pole, or special argument.")
ASSUMPTIONS = ["CPython integers for the constructed powers", "MPFR for the near-pole values and for deciding x^y != 1"]
TECHNIQUE = "property-based testing (Hypothesis): constructed exact input/output pairs, special-value table, MPFR near poles"

ZERO_AT_ZERO = ["sin", "tan", "atan", "asin", "sinh", "asinh", "atanh", "expm1", "log1p", "tanh", "sinpi"]
ONE_AT_ZERO = ["cos", "cosh", "sec", "sech", "exp", "cospi", "sinc"]
ONE = (0, 1, 0, 1)
MONE = (1, 1, 0, 1)


def shards(tier):
    n = 3000 if tier == "quick" else 50000
    return [("roots", n)] * 6 + [("points", n)] * 3 + [("pi", n)] * 3 + [("powm1", n)] * 2 + [("poles", n // 2)] * 1 + [("special", n // 2)] * 1


def gen_case(d, shard, tier):
    p = gen.prec(d, 1, 1500)
    if shard == "roots":
        mb = d.choice([1, 2, 5, 20, 53, 64, 100, 300, 1500 if tier == "thorough" else 400])
        m = ((1 << (mb - 1)) | d.bits(mb - 1) | 1) if mb > 1 else 1
        kind = d.choice(["sqrt", "cbrt", "root", "root"])
        n = {"sqrt": 2, "cbrt": 3}.get(kind) or d.int(1, 40)
        e = d.int(-200, 200)
        # precision relative to the size of the exact answer
        p = max(1, mb + d.choice([-3, -1, 0, 0, 1, 2, 10, 40])) if d.int(0, 3) else p
        return {"kind": "roots", "fn": kind, "m": str(m), "n": n, "e": e, "p": p, "neg": d.int(0, 5) == 0 and n % 2 == 1,
                "via": d.choice(["mp", "mp", "libmp"]), "rnd": gen.rnd(d), "cls": "roots:%s" % kind}
    if shard == "points":
        fn = d.choice(ZERO_AT_ZERO + ONE_AT_ZERO + ["log1", "ln1", "log10_1", "sqrt0", "sqrt1", "cbrt0", "atanh1", "acos1", "asin0c", "exp0c", "log_base"])
        return {"kind": "points", "fn": fn, "p": p, "k": d.int(1, 60), "b": d.int(2, 50), "cls": "points:" + fn}
    if shard == "pi":
        nb = d.int(1, 200)
        n = d.bits(nb)
        half = d.bool()
        fn = d.choice(["sinpi", "cospi", "expjpi"])
        return {"kind": "pi", "fn": fn, "n": str(-n if d.bool() else n), "half": half, "p": p, "cplx": d.int(0, 3) == 0, "cls": "pi:%s:%s" % (fn, "half" if half else "int")}
    if shard == "powm1":
        kind = d.choice(["x1", "y0", "m1even", "m1odd", "near", "generic"])
        c = {"kind": "powm1", "sub": kind, "p": p, "cls": "powm1:" + kind}
        def any_real():
            t = gen.mpf_finite(d, p, 200, huge=False, nonzero=True)
            return (t[0], t[1], max(-60, min(30, t[2] + t[3])) - t[3], t[3])
        if kind == "x1":
            c["x"], c["y"] = J(ONE), J(any_real())
        elif kind == "y0":
            c["x"], c["y"] = J(any_real()), J(fzero)
        elif kind in ("m1even", "m1odd"):
            k = d.bits(d.int(1, 80))
            c["x"], c["y"] = J(MONE), J(exact.from_int((2 * k if kind == "m1even" else 2 * k + 1) * (-1) ** d.int(0, 1)))
        elif kind == "near":
            j = d.int(2, 3 * p)
            c["x"] = J(exact.mk(0, (1 << j) + d.choice([1, -1]), -j))
            c["y"] = J(exact.mk(d.int(0, 1), d.int(1, 1000), d.int(-10, 3)))
        else:
            x = any_real()
            c["x"], c["y"] = J((0,) + tuple(x[1:])), J(any_real())
        return c
    if shard == "poles":
        fn = d.choice(["tan", "cot", "sec", "csc"])
        k = d.int(1, 1 << d.int(1, 40)) * (-1) ** d.int(0, 1)
        pp = d.choice([p, p, 2 * p, 10 * p])
        p = min(p, 400)
        pp = min(pp, 4000)
        return {"kind": "poles", "fn": fn, "k": str(k), "pp": pp, "p": p, "off": d.choice([0, 0, 1, -1, 2]), "cls": "poles:" + fn}
    fn = d.choice(["exp", "log", "ln", "sqrt", "sin", "cos", "tan", "atan", "sinh", "cosh", "tanh", "asinh", "expm1", "log1p", "cbrt",
                   "acosh", "sinpi", "cospi", "asin", "acos", "atanh", "cot", "sec"])
    return {"kind": "special", "fn": fn, "x": J(d.choice([finf, fninf, fnan, fzero])), "p": p, "cls": "special:" + fn}


def _pair(r):
    if hasattr(r, "_mpf_"):
        return (r._mpf_, fzero)
    return r._mpc_


def check_case(c):
    import mpmath
    from mpmath import mp, libmp
    res = R()
    res.cls = c["cls"]
    p = c["p"]
    kind = c["kind"]
    mp.prec = p
    try:
        if kind == "roots":
            m, n, e = int(c["m"]), c["n"], c["e"]
            x = exact.mk(1 if c["neg"] else 0, m ** n, n * e)
            # directed rounding of roots is not part of the statement (sqrt's is covered by C02): nearest only,
            # except for sqrt where every mode is exact by C02
            rnd = c["rnd"] if (c["via"] == "libmp" and c["fn"] == "sqrt") else "n"
            want = exact.round_dyadic(-m if c["neg"] else m, e, p, rnd)
            res.nontrivial = m.bit_length() > 64 or m.bit_length() > p
            fn = c["fn"]
            what = "%s(%d-bit m ^%d * 2^%d) prec %d via %s rnd %s" % (fn, m.bit_length(), n, n * e, p, c["via"], rnd)
            if c["neg"]:
                # odd root of a negative number: principal complex value, not the real root; nothing exact to check
                res.rejected = True
                return res
            if c["via"] == "libmp":
                if fn == "sqrt":
                    got = libmp.mpf_sqrt(x, p, rnd)
                elif fn == "cbrt":
                    got = libmp.mpf_cbrt(x, p, rnd)
                else:
                    got = libmp.mpf_nthroot(x, n, p, rnd)
            else:
                X = mp.make_mpf(x)
                r = mp.sqrt(X) if fn == "sqrt" else mp.cbrt(X) if fn == "cbrt" else mp.root(X, n)
                if hasattr(r, "_mpc_"):
                    return res.bad("roots:type", what + " returned a complex number")
                got = r._mpf_
            if m.bit_length() <= p:
                if tuple(got) != tuple(want):
                    res.bad("roots:%s:exact" % fn, "%s: got %s, exact root is %s" % (what, exact.raw_str(got), exact.raw_str(want)))
            elif fn == "sqrt":
                if tuple(got) != tuple(want):
                    res.bad("roots:sqrt:rounded", "%s: got %s, correctly rounded root is %s" % (what, exact.raw_str(got), exact.raw_str(want)))
            else:
                ok, _ = acc.check_real(got, exact.mk(0, m, e), p, 4)
                if not ok:
                    res.bad("roots:%s:acc" % fn, "%s: got %s" % (what, exact.raw_str(got)))
            return res
        if kind == "points":
            fn = c["fn"]
            res.nontrivial = True
            def chk(r, want, what):
                g = _pair(r)
                if tuple(g[0]) != tuple(want) or g[1] != fzero:
                    res.bad("points:" + fn, "%s = %s at prec %d, expected exactly %s" % (what, r, p, exact.raw_str(want)))
            zero, one = mp.mpf(0), mp.mpf(1)
            if fn in ZERO_AT_ZERO:
                chk(getattr(mp, fn)(zero), fzero, fn + "(0)")
                chk(getattr(mp, fn)(mp.mpc(0, 0)), fzero, fn + "(0+0j)")
            elif fn in ONE_AT_ZERO:
                chk(getattr(mp, fn)(zero), ONE, fn + "(0)")
                chk(getattr(mp, fn)(mp.mpc(0, 0)), ONE, fn + "(0+0j)")
            elif fn in ("log1", "ln1", "log10_1"):
                f = {"log1": mp.log, "ln1": mp.ln, "log10_1": mp.log10}[fn]
                chk(f(one), fzero, fn)
                chk(f(mp.mpc(1, 0)), fzero, fn + " complex")
            elif fn == "sqrt0":
                chk(mp.sqrt(zero), fzero, "sqrt(0)")
            elif fn == "sqrt1":
                chk(mp.sqrt(one), ONE, "sqrt(1)")
                chk(mp.cbrt(one), ONE, "cbrt(1)")
                chk(mp.root(one, c["k"]), ONE, "root(1,k)")
            elif fn == "cbrt0":
                chk(mp.cbrt(zero), fzero, "cbrt(0)")
                chk(mp.root(zero, c["k"]), fzero, "root(0,k)")
            elif fn == "atanh1":
                r = mp.atanh(one)
                if r._mpf_ != finf:
                    res.bad("points:atanh1", "atanh(1) = %s" % r)
                r = mp.atanh(-one)
                if r._mpf_ != fninf:
                    res.bad("points:atanh1", "atanh(-1) = %s" % r)
            elif fn == "acos1":
                chk(mp.acos(one), fzero, "acos(1)")
                chk(mp.acosh(one), fzero, "acosh(1)")
            elif fn == "asin0c":
                chk(mp.asin(mp.mpc(0, 0)), fzero, "asin(0j)")
                chk(mp.atan2(zero, one), fzero, "atan2(0,1)")
                chk(mp.hypot(zero, zero), fzero, "hypot(0,0)")
            elif fn == "exp0c":
                chk(mp.expj(zero), ONE, "expj(0)")
                chk(mp.expjpi(zero), ONE, "expjpi(0)")
                chk(mp.power(mp.mpf(c["b"]), 0), ONE, "power(b,0)")
            elif fn == "log_base":
                b, k = c["b"], c["k"] % 12
                if b ** k < 2 ** p:
                    r = mp.log(mp.mpf(b) ** k, b)
                    ok, _ = acc.check_real(r._mpf_, exact.from_int(k), p, 4)
                    if not ok:
                        res.bad("points:log_base", "log(%d**%d, %d) = %s at prec %d" % (b, k, b, r, p))
            return res
        if kind == "pi":
            n = int(c["n"])
            fn = c["fn"]
            x = exact.mk(1 if n < 0 else 0, 2 * abs(n) + (1 if c["half"] else 0), -1)
            X = mp.make_mpf(x) if not c["cplx"] else mp.make_mpc((x, fzero))
            r = getattr(mp, fn)(X)
            g = _pair(r)
            res.nontrivial = abs(n).bit_length() > p
            sgn_n = -1 if n & 1 else 1                    # (-1)^n
            if fn == "sinpi":
                want = (fzero, fzero) if not c["half"] else (exact.from_int(sgn_n), fzero)
            elif fn == "cospi":
                want = (exact.from_int(sgn_n), fzero) if not c["half"] else (fzero, fzero)
            else:
                want = (exact.from_int(sgn_n), fzero) if not c["half"] else (fzero, exact.from_int(sgn_n))
            # sin(pi(n+1/2)) = (-1)^n also for negative n (n + 1/2 with n < 0 means -(|n|) + ... handled via the exact value)
            if n < 0 and c["half"]:
                # x = -(2|n|+1)/2 = -( |n| + 1/2 ): sinpi is odd, cospi even
                s = -1 if abs(n) & 1 else 1
                if fn == "sinpi":
                    want = (exact.from_int(-s), fzero)
                elif fn == "expjpi":
                    want = (fzero, exact.from_int(-s))
            if tuple(g[0]) != tuple(want[0]) or tuple(g[1]) != tuple(want[1]):
                res.bad("pi:%s:%s" % (fn, "half" if c["half"] else "int"), "%s(%s) at prec %d = %s, expected exactly (%s, %s)" % (
                    fn, exact.raw_str(x), p, r, exact.raw_str(want[0]), exact.raw_str(want[1])))
            return res
        if kind == "powm1":
            x, y = U(c["x"]), U(c["y"])
            r = mp.powm1(mp.make_mpf(x), mp.make_mpf(y))
            g = _pair(r)
            is_zero = g[0] == fzero and g[1] == fzero
            sub = c["sub"]
            res.nontrivial = True
            what = "powm1(%s, %s) at prec %d = %s" % (exact.raw_str(x), exact.raw_str(y), p, r)
            if sub in ("x1", "y0", "m1even"):
                if not is_zero:
                    res.bad("powm1:zero", what + " but x^y == 1 exactly")
            elif sub == "m1odd":
                if tuple(g[0]) != tuple(exact.from_int(-2)) or g[1] != fzero:
                    res.bad("powm1:m1odd", what + ", expected -2")
            else:
                # x > 0, x != 1, y != 0  =>  x^y != 1
                if x != ONE and y != fzero and is_zero:
                    res.bad("powm1:nonzero", what + " but x^y != 1")
                elif x != ONE and y != fzero:
                    lg = M.fn1("log", x, p + 200)
                    t = M.fn2("mul", lg, y, p + 200)
                    # accuracy of the nonzero value is checked only where x^y is near 1 (|y log x| < 1); the rest
                    # of the domain belongs to C12
                    if not (t[1] and t[2] + t[3] > 0):
                        ref = M.fn1("expm1", t, p + 64)
                        if ref[1]:
                            ok, w = acc.check_real(g[0], ref, p, 4)
                            if not ok and g[1] == fzero:
                                res.bad("powm1:acc", what + "; reference %s (2^%d ulp)" % (exact.raw_str(ref), w))
            return res
        if kind == "poles":
            fn, k, pp = c["fn"], int(c["k"]), c["pp"]
            pi = M.const("pi", pp + 100)
            x = exact.round_dyadic(pi[1] * k, pi[2] - 1, pp, "n")
            if c["off"]:
                x = exact.mk(x[0], x[1] * 4 + c["off"], x[2] - 2) if x[1] else x
            if x == fzero:
                res.rejected = True
                return res
            X = mp.make_mpf(x)
            what = "%s(%d*pi/2 rounded to %d bits %+d) at prec %d" % (fn, k, pp, c["off"], p)
            res.nontrivial = True
            try:
                r = getattr(mp, fn)(X)
            except ZeroDivisionError:
                return res.bad("poles:%s:raises" % fn, what + " raised ZeroDivisionError but the argument is not a pole (no nonzero binary number is)")
            g = _pair(r)
            if g[0][1] == 0 and g[0] != fzero:
                return res.bad("poles:%s:nonfinite" % fn, what + " = %s" % r)
            ref = M.fn1(fn, x, p + 64)
            ok, w = acc.check_real(g[0], ref, p, 4)
            if not ok:
                res.bad("poles:%s:acc" % fn, "%s = %s; MPFR %s (2^%d ulp)" % (what, r, exact.raw_str(ref), w))
            return res
        # specials
        fn, x = c["fn"], U(c["x"])
        X = mp.make_mpf(x)
        res.nontrivial = True
        what = "%s(%s) at prec %d" % (fn, exact.raw_str(x), p)
        table = {
            ("exp", finf): finf, ("exp", fninf): fzero, ("log", finf): finf, ("ln", finf): finf, ("log", fzero): fninf, ("ln", fzero): fninf,
            ("sqrt", finf): finf, ("sinh", finf): finf, ("sinh", fninf): fninf, ("cosh", finf): finf, ("cosh", fninf): finf,
            ("tanh", finf): ONE, ("tanh", fninf): MONE, ("asinh", finf): finf, ("asinh", fninf): fninf, ("expm1", finf): finf,
            ("expm1", fninf): MONE, ("log1p", finf): finf, ("acosh", finf): finf, ("cbrt", finf): finf, ("sin", finf): fnan,
            ("cos", finf): fnan, ("sin", fninf): fnan, ("cos", fninf): fnan, ("tan", finf): fnan, ("tan", fninf): fnan,
        }
        try:
            r = getattr(mp, fn)(X)
        except (ValueError, ZeroDivisionError) as e:
            if x == fnan or (fn, tuple(x)) in table:
                if (fn, tuple(x)) in table or x == fnan:
                    return res.bad("special:%s:raises" % fn, "%s raised %s" % (what, type(e).__name__))
            res.rejected = True
            return res
        g = _pair(r)
        if x == fnan:
            if g[0] != fnan and g[1] != fnan:
                res.bad("special:%s:nan" % fn, "%s = %s, expected nan" % (what, r))
            return res
        key = (fn, tuple(x))
        if key in table:
            want = table[key]
            if tuple(g[0]) != tuple(want) or (g[1] != fzero and want != fnan):
                res.bad("special:%s" % fn, "%s = %s, expected %s" % (what, r, exact.raw_str(want)))
        elif fn == "atan" and x in (finf, fninf):
            half = M.const("pi", p + 64)
            ref = (x[0], half[1], half[2] - 1, half[3])
            ok, w = acc.check_real(g[0], ref, p, 4)
            if not ok or g[1] != fzero:
                res.bad("special:atan", "%s = %s, expected +-pi/2" % (what, r))
        else:
            res.rejected = True
        return res
    finally:
        mp.prec = 53
