"""C07 -- decimal strings convert to correctly rounded binary values."""
from fractions import Fraction

from .. import exact, gen, helpers, mpfrref
from ..core import R
from ..exact import fzero, finf, fninf, fnan, raw_json as J, raw_unjson as U

ID = "C07"
LEVEL = "exploration"
CASE_TIMEOUT = 60.0
HANG_IS_VIOLATION = True
RULE = ("Cases = (decimal literal, precision, rounding mode, entry point). Literals come from a grammar (sign, integer "
        "digits, optional point and fraction digits, optional e+-k, leading/trailing zeros, '.5', '5.', whitespace, "
        "p/q) with 1..1200 digits and exponents {0, small, +-399, +-400, +-401, 1e3..1e6, up to 1e17}, plus targeted "
        "near-boundary literals: the exact decimal expansion of a p-bit rounding boundary (midpoint or representable "
        "number) truncated or bumped at digit 20..700 so that the value lies within 1e-20..1e-700 relative of the "
        "boundary, optionally rewritten with a large negative exponent (>400 fraction digits) so that the "
        "large-exponent code path is taken inside [1e-100, 1e100]. Entry points: libmp.from_str in all five modes, "
        "mpf(s), mpmathify(s), iv.mpf(s). Oracle: exact Fraction value of the literal (|exponent| <= 20000) and/or "
        "MPFR mpfr_strtofr (correctly rounded for any exponent): nearest must be the correctly rounded value "
        "whenever 1e-100 <= |v| <= 1e100; floor/ceil/down/up results must lie on the correct side of v for every "
        "literal; iv.mpf(s) must contain v. Non-trivial = v not representable in p bits and (|exp| > 400 or more "
        "than 30 digits).")
ASSUMPTIONS = ["CPython Fraction arithmetic", "MPFR mpfr_strtofr is correctly rounded (cross-checked against the Fraction oracle on every case where both apply)"]
TECHNIQUE = "property-based testing (Hypothesis) against exact rational values and MPFR strtofr"


def shards(tier):
    n = 2500 if tier == "quick" else 40000
    return [("grammar", n)] * 6 + [("boundary", n)] * 8 + [("frac", n)] * 2


def _digits(d, n):
    """n decimal digits as a string (structured: random / zeros / nines)"""
    k = d.weighted([(6, "rand"), (2, "zeros"), (2, "nines"), (2, "sparse")])
    if n <= 0:
        return ""
    if k == "rand":
        v = d.int(0, 10 ** min(n, 40) - 1)
        s = str(v).rjust(min(n, 40), "0")
        while len(s) < n:
            s += str(d.int(0, 10 ** min(n - len(s), 18) - 1)).rjust(min(n - len(s), 18), "0")
        return s[:n]
    if k == "zeros":
        return "0" * (n - 1) + str(d.int(0, 9))
    if k == "nines":
        return "9" * (n - 1) + str(d.int(0, 9))
    s = ["0"] * n
    for _ in range(d.int(1, 4)):
        s[d.int(0, n - 1)] = str(d.int(1, 9))
    return "".join(s)


def _exp(d):
    k = d.weighted([(4, "none"), (5, "small"), (4, "edge"), (3, "large"), (2, "huge")])
    if k == "none":
        return None
    if k == "small":
        return d.int(-120, 120)
    if k == "edge":
        return d.choice([399, 400, 401, 402, -399, -400, -401, -402, 450, -450])
    if k == "large":
        return d.choice([-1, 1]) * d.int(10**3, 10**6)
    return d.choice([-1, 1]) * d.int(10**7, 10**17)


def gen_case(d, shard, tier):
    p = gen.prec(d, 1, 600)
    rnd = gen.rnd(d)
    via = d.weighted([(6, "from_str"), (2, "mpf"), (1, "mpmathify"), (2, "iv")])
    c = {"p": p, "rnd": rnd, "via": via}
    if shard == "frac":
        a = d.int(-10**d.int(1, 60), 10**d.int(1, 60))
        b = d.int(1, 10**d.int(1, 60))
        c["s"] = "%d/%d" % (a, b)
        c["cls"] = "frac:%s" % via
        return c
    if shard == "grammar":
        ni = d.choice([0, 1, 1, 2, 5, 17, 40, 200, 400, 1200 if tier == "thorough" else 450])
        nf = d.choice([0, 0, 1, 3, 17, 40, 200, 401, 450, 1200 if tier == "thorough" else 500])
        if ni == 0 and nf == 0:
            ni = 1
        s = _digits(d, ni) + ("." + _digits(d, nf) if nf or d.int(0, 4) == 0 else "")
        if s.startswith("."):
            if d.bool():
                s = "0" + s
        e = _exp(d)
        if e is not None:
            s += d.choice(["e", "E"]) + (d.choice(["", "+"]) if e >= 0 else "") + str(e)
        s = d.choice(["", "", "-", "+"]) + s
        if d.int(0, 9) == 0:
            s = " " * d.int(0, 2) + s + " " * d.int(0, 2)
        c["s"] = s
        c["cls"] = "grammar:%s:%s" % (via, rnd)
        return c
    # boundary: decimal expansion of a rounding boundary, truncated / bumped
    kind = d.choice(["tie", "repr", "tie", "repr_pm"])
    m = (1 << (p - 1)) | d.bits(p - 1) if p > 1 else 1
    if kind == "tie":
        m = 2 * m + 1            # p+1 bits, odd: midpoint between two p-bit numbers
    e2 = d.int(-330, 330) - m.bit_length()
    sign = d.choice(["", "-"])
    # exact decimal expansion of m * 2^e2
    if e2 >= 0:
        ip, fp = str(m << e2), ""
    else:
        num = m * 5 ** (-e2)
        sd = str(num).rjust(-e2 + 1, "0")
        ip, fp = sd[:e2] if len(sd) > -e2 else "0", sd[e2:]
    digs = (ip + fp).lstrip("0") or "0"
    lead = len(ip.lstrip("0")) if ip.strip("0") else -(len(fp) - len(fp.lstrip("0")))
    # scientific form: 0.d1d2d3... * 10^lead ; keep k digits, bump last by -1/0/+1, then pad
    k = d.choice([20, 30, 50, 100, 200, 420, 500, 700])
    k = min(k, max(1, len(digs)))
    head = digs[:k]
    tail_mode = d.choice(["exact", "trunc", "bump", "trunc_pad", "bump_pad"])
    if tail_mode == "exact" and len(digs) <= 1500:
        head = digs
    elif tail_mode.startswith("bump"):
        head = str(int(head) + 1).rjust(len(head), "0")
        if len(head) > k:
            lead += 1
    if tail_mode.endswith("pad"):
        head = head + "0" * d.int(1, 450) + str(d.int(0, 9))
    # write as  D.DDDD e X  or as 0.000ddd with many fraction digits, or as integer-ish with negative exponent
    style = d.choice(["sci", "shift_neg", "shift_pos", "plain"])
    if style == "sci":
        s = head[0] + "." + head[1:] + "e%d" % (lead - 1)
    elif style == "shift_neg":
        # all digits after the point with a compensating positive exponent: 0.ddd e lead
        s = "0." + head + "e%d" % lead
    elif style == "shift_pos":
        s = head + "e%d" % (lead - len(head))
    else:
        if 0 < lead <= len(head):
            s = head[:lead] + "." + head[lead:]
        elif lead <= 0 and -lead < 500:
            s = "0." + "0" * (-lead) + head
        else:
            s = head[0] + "." + head[1:] + "e%d" % (lead - 1)
    c["s"] = sign + s
    c["cls"] = "boundary:%s:%s:%s:%s" % (kind, tail_mode, style, rnd if via == "from_str" else via)
    return c


def literal_value(s):
    """exact Fraction of a decimal literal, or None if the exponent is too large to expand"""
    t = s.strip().lower()
    if "/" in t:
        a, b = t.split("/")
        return Fraction(int(a), int(b))
    neg = t.startswith("-")
    t = t.lstrip("+-")
    e = 0
    if "e" in t:
        t, es = t.split("e")
        e = int(es)
    if "." in t:
        a, b = t.split(".")
    else:
        a, b = t, ""
    e -= len(b)
    n = int((a + b) or "0")
    if n == 0:
        return Fraction(0)
    if abs(e) > 20000:
        return None
    v = Fraction(n) * (Fraction(10) ** e)
    return -v if neg else v


def _side(got, lo, hi, rnd, neg):
    """got must be on the correct side: lo/hi are the floor/ceil p-bit neighbours of v"""
    if rnd == "f" or (rnd == "d" and not neg) or (rnd == "u" and neg):
        return exact.cmp_exact(got, lo) <= 0, "above"
    return exact.cmp_exact(got, hi) >= 0, "below"


def check_case(c):
    import mpmath
    from mpmath import mp, iv, libmp
    res = R()
    res.cls = c["cls"]
    s, p, rnd, via = c["s"], c["p"], c["rnd"], c["via"]
    v = literal_value(s)
    # reference neighbours
    lo = hi = near = None
    if v is not None:
        lo, hi, near = exact.round_fraction(v, p, "f"), exact.round_fraction(v, p, "c"), exact.round_fraction(v, p, "n")
    use_mpfr = mpfrref.AVAILABLE and "/" not in s
    if use_mpfr:
        try:
            t = s.strip()
            mlo, mhi, mnear = mpfrref.strtofr(t, p, "f"), mpfrref.strtofr(t, p, "c"), mpfrref.strtofr(t, p, "n")
        except (ValueError, mpfrref.Out):
            use_mpfr = False
    if use_mpfr:
        if any(x[1] == 0 and x != fzero for x in (mlo, mhi, mnear)):
            use_mpfr = False          # outside MPFR's exponent range
        elif v is not None:
            if (tuple(mlo), tuple(mhi), tuple(mnear)) != (tuple(lo), tuple(hi), tuple(near)):
                raise AssertionError("oracles disagree on %r at %d bits" % (s[:80], p))
        else:
            lo, hi, near = mlo, mhi, mnear
    if lo is None:
        res.inconclusive = True
        return res
    zero = lo == fzero and hi == fzero
    neg = s.strip().startswith("-") and not zero
    inexact = tuple(lo) != tuple(hi)
    in_range = None
    if v is not None:
        in_range = v == 0 or Fraction(1, 10**100) <= abs(v) <= 10**100
    else:
        in_range = False
    t = s.strip().lower()
    mexp = 0
    if "e" in t:
        mexp = int(t.split("e")[1])
    if "." in t:
        mexp -= len(t.split("e")[0].split(".")[1].rstrip("0"))
    ndig = sum(ch.isdigit() for ch in t.split("e")[0])
    res.nontrivial = inexact and (abs(mexp) > 400 or ndig > 30)
    what = "%s(%r, prec=%d, rnd=%s)" % (via, s if len(s) < 160 else s[:70] + "..." + s[-60:], p, rnd)
    try:
        if via == "from_str":
            got = libmp.from_str(s, p, rnd)
        elif via in ("mpf", "mpmathify"):
            mp.prec = p
            try:
                got = (mp.mpf(s) if via == "mpf" else mp.mpmathify(s))._mpf_
            finally:
                mp.prec = 53
            rnd = "n"
        else:
            iv.prec = p
            try:
                x = iv.mpf(s.strip())
            finally:
                iv.prec = 53
            a, b = x._mpi_
            for tt in (a, b):
                prob = exact.canonical_problem(tt)
                if prob:
                    return res.bad("iv:noncanonical", what + ": " + prob)
            if exact.cmp_exact(a, lo) > 0 or exact.cmp_exact(b, hi) < 0:
                res.bad("iv:contain", "%s = [%s, %s] does not contain the literal's value (neighbours %s, %s)" % (
                    what, exact.raw_str(a), exact.raw_str(b), exact.raw_str(lo), exact.raw_str(hi)))
            return res
    except ValueError as e:
        return res.bad("rejects-valid-literal", "%s raised ValueError: %s" % (what, e))
    prob = exact.canonical_problem(got)
    if prob:
        return res.bad("noncanonical", what + ": " + prob)
    if got[3] > p:
        return res.bad("bits", "%s has %d bits" % (what, got[3]))
    if rnd == "n":
        if in_range and tuple(got) != tuple(near):
            res.bad("nearest:%s" % ("bigexp" if abs(mexp) > 400 else "smallexp"),
                    "%s = %s, correctly rounded value is %s" % (what, exact.raw_str(got), exact.raw_str(near)))
    else:
        ok, where = _side(got, lo, hi, rnd, neg)
        if not ok:
            res.bad("side:%s:%s" % (rnd, "bigexp" if abs(mexp) > 400 else "smallexp"),
                    "%s = %s lies %s the exact value (neighbours %s, %s)" % (what, exact.raw_str(got), where, exact.raw_str(lo), exact.raw_str(hi)))
        elif abs(mexp) <= 400 and tuple(got) != tuple(exact.round_fraction(v, p, rnd) if v is not None else got):
            res.bad("directed:smallexp", "%s = %s is not the correctly rounded value" % (what, exact.raw_str(got)))
    return res
