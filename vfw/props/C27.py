"""C27 -- series, products, limits and extrapolation converge to the right value."""
import math
from fractions import Fraction as Fr

from ..core import R

ID = "C27"
LEVEL = "exploration"
CASE_TIMEOUT = 120.0
RULE = ("Cases are built from 1-D term 'atoms' whose value at every integer is an exact rational: integer polynomials, "
        "1/(k+c), r^k (dyadic real or complex r, |r| <= 0.9), k r^k, C(n+k-1,k) r^k, x^k/k!, 1/(k+c)^s (s=2..8), "
        "(-1)^k/(k+c)^s (s=1..8), (-1)^k/(mk+n), 1/((k+c)(k+c+m)), 1/((k+c)^2+a^2), two-sided exponentials r^k|s^-k, "
        "Gaussians q^(k^2) t^k, and reflections g(-k). (a) nsum/nprod over finite ranges [a,b] (negative, a==b, b<a, "
        "boxes of 2-3 dimensions, sums of products of atoms) against the exact Fraction value, error <= (2n+4) 2^-p "
        "sum|terms|; sumem of a polynomial over a finite range against the exact integer sum. (b) nsum over [a,inf], "
        "[-inf,b], [-inf,inf] (also with ignore=True for the lattice sum of 1/k^s) and over 2-3 dimensional mixtures "
        "of finite/half-infinite/doubly-infinite ranges of fast converging positive atoms, with the method option drawn "
        "only from those the nsum docstring recommends for the convergence type of the atom (linear: r+s, s, l, e, "
        "d when |r| <= 1/2, a for negative r; algebraic: r+s, r, e, r+s+e, l(u,v); alternating: r+s, r, s, a, l, sidi; "
        "super-linear: r+s, d, s, l), short and long method names, strict on/off; nprod of products with closed forms "
        "(Gamma quotients, telescoping, prod(1+r^(2^k)), doubly infinite cosh/cos form, reflected ranges), options "
        "default/r/e/l/nsum=True; limit of (1+x/n)^n, sin(ax)/(bx), rational functions at +-inf, (an+sqrt(n^2+c))/(bn) "
        "(different limits at +inf and -inf), removable singularities, (ax-sin ax)/x^3, (1-cos ax)/x^2, log(1+ax)/x, "
        "b atan(a/x) (one-sided) with direction and exp options; richardson on sequences that are exactly polynomial in "
        "1/n (algebraic exactness, returned weight) and on partial sums; shanks on exact mixtures of m<=3 geometric "
        "sequences (exactness of column 2m-1, table extension == table from scratch) and on partial sums following "
        "its docstring (error and cancellation estimates read off the table); levin: exactness on model sequences "
        "s + omega_n P(1/(n+1)) (Levin) and s + omega_n sum c_j/(n+1)_j (Sidi) for the t and u variants through all four "
        "interfaces, plus the loop of the docstring (stop when the step between estimates is below eps twice in a row) "
        "on p-series, alternating and geometric-type series with u/t/v; cohen_alt on alternating moment series with "
        "the number of terms its convergence theorem prescribes (both interfaces, error estimate == step); sumem on "
        "[a,inf] with a ~ p/4 (absolute tolerance, as its docstring states) and sumap (inconclusive when its own "
        "error estimate is above 2^(8-p)). Oracle: closed forms (Hurwitz zeta, digamma, Gamma, exp, hyperbolic "
        "functions) evaluated by the frozen reference package mpref (mpmath 1.3.0) at 3p+100 bits plus exact Fraction "
        "corrections for shifted start indices, or exact Fractions alone. Tolerance 2^(10-p) relative to the value (to "
        "the sum of absolute values for multi-term/multi-dimensional cases) plus the absolute 2^(1-p) that nsum's tol "
        "option documents; precisions 30..300 bits. NoConvergence with strict=True, the documented ValueError('levin: "
        "zero weight') and the 0/0 of a Levin transform fed two equal consecutive terms are inconclusive/rejected; a "
        "wrong value returned without strict is a violation and is re-run with strict=True to tell a silent give-up "
        "(bucket silent_noconv:*) from a false convergence claim. Non-trivial = infinite range, or dimension >= 2, or "
        "an explicit acceleration method / direct extrapolator call.")
ASSUMPTIONS = ["mpref (mpmath 1.3.0) evaluates zeta(s,a), psi, gamma, exp, sinh/cosh/cos, pi correctly to 3p+100 bits",
               "the sequences handed to richardson/shanks/levin/cohen_alt are prepared with the repository's own basic "
               "arithmetic (+,-,*,/ of exact rationals) at the raised working precision",
               "the convergence theorem of Cohen, Rodriguez Villegas and Zagier (error <= 2|S|/(3+sqrt 8)^n for "
               "alternating series whose terms are moments of a positive measure on [0,1])",
               "the reference package's nsum/nprod are never used as oracles (they share the defects found here)"]
TECHNIQUE = ("property-based testing (Hypothesis) with closed-form and exact-rational oracles, algebraic exactness "
             "properties for the extrapolators")

INF = "inf"
NINF = "-inf"


def shards(tier):
    m = 1 if tier == "quick" else 25
    return [("finite", 2500 * m), ("finite", 2500 * m),
            ("series", 1800 * m), ("series", 1800 * m), ("series", 1800 * m), ("series", 1800 * m),
            ("dbl", 1800 * m), ("dbl", 1800 * m),
            ("multi", 420 * m), ("multi", 420 * m),
            ("nprod", 900 * m), ("nprod", 900 * m),
            ("limit", 2500 * m),
            ("extrap", 3000 * m), ("extrap", 3000 * m),
            ("em", 1200 * m)]


# ------------------------------------------------------------------------------------------------ small helpers

def _q(v):
    return Fr(v[0], v[1])


def _prec(d, hi=300):
    k = d.weighted([(5, "lo"), (4, "mid"), (2, "hi")])
    if k == "lo":
        return d.int(30, 64)
    if k == "mid":
        return d.int(65, 130)
    return d.int(131, hi)


def _dy(d, maxr=Fr(9, 10), signed=False, emax=6):
    """dyadic rational [num, den], 0 < |r| <= maxr"""
    e = d.int(1, emax)
    den = 2 ** e
    top = int(maxr * den)
    while top < 1:
        e += 1
        den *= 2
        top = int(maxr * den)
    num = d.int(1, top)
    if signed and d.int(0, 2) == 0:
        num = -num
    return [num, den]


def _rat(d, dens=(1, 2, 3, 4, 5, 8), span=3):
    den = d.choice(dens)
    return [d.int(-span * den, span * den), den]


def _neg(b):
    if b == INF:
        return NINF
    if b == NINF:
        return INF
    return -b


# ------------------------------------------------------------------------------------------------ atoms: generation

def g_poly(d):
    deg = d.int(0, 4)
    cs = [d.int(-9, 9) for _ in range(deg + 1)]
    if d.int(0, 3) == 0:
        cs = [abs(c) for c in cs]
    if cs[-1] == 0:
        cs[-1] = 1
    return {"t": "poly", "c": cs}


def g_recip(d):
    den = d.choice([2, 3, 4, 5, 7])
    num = d.int(-6 * den, 6 * den)
    if num % den == 0:
        num += 1
    return {"t": "recip", "c": [num, den]}            # 1/(k + num/den), never an integer shift: no pole


def g_pow(d, maxr=Fr(9, 10), signed=True):
    return {"t": "pow", "r": _dy(d, maxr, signed)}


def g_cpow(d):
    e = d.int(1, 4)
    den = 2 ** e
    lim = (81 * den * den) // 100
    top = math.isqrt(lim)
    re = d.int(-top, top)
    imtop = max(1, math.isqrt(max(1, lim - re * re)))
    if re * re + imtop * imtop > lim:
        imtop = max(1, imtop - 1)
    im = d.int(1, imtop) * d.choice([1, -1])
    if re * re + im * im > lim:
        re = 0
    return {"t": "cpow", "re": [re, den], "im": [im, den]}


def g_kpow(d, maxr=Fr(9, 10), signed=True):
    return {"t": "kpow", "r": _dy(d, maxr, signed)}


def g_binom(d, maxr=Fr(3, 4), signed=False):
    return {"t": "binom", "n": d.int(1, 4), "r": _dy(d, maxr, signed)}


def g_expo(d, signed=True):
    e = d.int(0, 3)
    den = 2 ** e
    num = d.int(1, 4 * den)
    if signed and d.int(0, 2) == 0:
        num = -num
    return {"t": "expo", "x": [num, den]}


def g_hurw(d):
    return {"t": "hurw", "s": d.int(2, 8), "c": _rat(d)}


def g_alt(d):
    return {"t": "alt", "s": d.weighted([(3, 1), (3, 2), (2, 3), (1, 4), (1, 5), (1, 6), (1, 7), (1, 8)]), "c": _rat(d)}


def g_leib(d):
    m = d.int(2, 5)
    return {"t": "leib", "m": m, "n": d.int(1, m - 1)}


def g_tele(d):
    return {"t": "tele", "c": _rat(d), "m": d.int(1, 3)}


def g_lor(d):
    c = [0, 1] if d.int(0, 2) == 0 else _rat(d, span=2)
    ad = d.choice([1, 2, 3, 4])
    an = d.int(max(1, ad // 4), 4 * ad)
    return {"t": "lor", "c": c, "al": [an, ad]}


def g_twoexp(d, maxr=Fr(9, 10)):
    return {"t": "twoexp", "r": _dy(d, maxr), "s": _dy(d, maxr)}


def g_gauss(d, maxq=Fr(7, 8)):
    return {"t": "gauss", "q": _dy(d, maxq, emax=4), "tt": d.choice([[1, 2], [3, 4], [1, 1], [1, 1], [5, 4], [3, 2], [2, 1]])}


def _min_start(g):
    """smallest admissible start index of a series over [a, inf], None = any integer"""
    t = g["t"]
    if t in ("hurw", "alt", "tele"):
        return math.floor(-_q(g["c"])) + 1
    if t in ("binom", "expo"):
        return 0
    return None


def _start(d, g):
    a0 = _min_start(g)
    if a0 is None:
        return d.int(-6, 8)
    return a0 + d.weighted([(3, 0), (2, 1), (4, d.int(0, 6))])


def _conv(g):
    t = g["t"]
    if t == "refl":
        return _conv(g["g"])
    if t in ("pow", "cpow", "kpow", "binom", "twoexp"):
        return "linear"
    if t in ("hurw", "tele", "lor"):
        return "algebraic"
    if t in ("alt", "leib"):
        return "alternating"
    if t in ("expo", "gauss"):
        return "super"
    return "finite"


def _rho(g):
    """largest ratio of a linearly convergent atom (as Fraction)"""
    t = g["t"]
    if t == "refl":
        return _rho(g["g"])
    if t in ("pow", "kpow", "binom"):
        return abs(_q(g["r"]))
    if t == "cpow":
        re, im = _q(g["re"]), _q(g["im"])
        return Fr(math.isqrt(int((re * re + im * im) * 2 ** 20)) + 1, 2 ** 10)
    if t == "twoexp":
        return max(_q(g["r"]), _q(g["s"]))
    if t == "gauss":
        return _q(g["q"]) * max(_q(g["tt"]), 1 / _q(g["tt"]))
    return Fr(0)


def _method(d, g):
    """(method or None, levin_variant or None) among those the nsum docstring recommends for this atom"""
    conv = _conv(g)
    base = g["g"] if g["t"] == "refl" else g
    if conv == "linear":
        ms = [(5, None), (3, "r+s"), (1, "richardson+shanks"), (3, "s"), (1, "shanks"), (2, "l"), (1, "levin"), (1, "r+s+e")]
        realpos = base["t"] not in ("cpow", "binom") and all(_q(base[k]) > 0 for k in ("r", "s") if k in base)
        if realpos:                     # (Euler-Maclaurin through mp.binomial costs up to a minute per call)
            ms.append((1, "e"))
        if _rho(base) <= Fr(1, 2):
            ms += [(2, "d"), (1, "direct")]
        if base["t"] == "pow" and _q(base["r"]) < 0:
            ms += [(2, "a"), (1, "alternating")]
        variants = [None, "u", "t", "v", "all"]
    elif conv == "algebraic":
        ms = [(5, None), (3, "r+s"), (3, "r"), (1, "richardson"), (2, "e"), (1, "euler-maclaurin"), (2, "r+s+e"),
              (2, "l"), (1, "levin")]
        variants = [None, "u", "v"]
    elif conv == "alternating":
        ms = [(5, None), (3, "r+s"), (2, "r"), (3, "s"), (1, "shanks"), (3, "a"), (1, "alternating"), (2, "l"),
              (1, "sidi"), (1, "r+s+e")]
        variants = [None, "u", "t", "v"]
    else:
        ms = [(5, None), (3, "r+s"), (3, "d"), (1, "direct"), (1, "s"), (1, "l")]
        variants = [None, "u", "t"]
    m = d.weighted(ms)
    v = None
    if m in ("l", "levin", "sidi"):
        v = d.choice(variants)
    return m, v


# ------------------------------------------------------------------------------------------------ atoms: exact values

def _cpow_int(re, im, k):
    """(re + i im)^k for an integer k with Fractions"""
    if k < 0:
        n = re * re + im * im
        re, im, k = re / n, -im / n, -k
    a, b = Fr(1), Fr(0)
    for _ in range(k):
        a, b = a * re - b * im, a * im + b * re
    return a, b


def atom_exact(g, k):
    """exact value at the integer k (Fraction; pair of Fractions for the complex atom)"""
    t = g["t"]
    if t == "refl":
        return atom_exact(g["g"], -k)
    if t == "poly":
        return Fr(sum(c * k ** j for j, c in enumerate(g["c"])))
    if t == "recip":
        n, dn = g["c"]
        return Fr(dn, dn * k + n)
    if t == "pow":
        return _q(g["r"]) ** k
    if t == "cpow":
        return _cpow_int(_q(g["re"]), _q(g["im"]), k)
    if t == "kpow":
        return k * _q(g["r"]) ** k
    if t == "binom":
        return math.comb(g["n"] + k - 1, k) * _q(g["r"]) ** k
    if t == "expo":
        return _q(g["x"]) ** k / math.factorial(k)
    if t == "hurw":
        return 1 / (k + _q(g["c"])) ** g["s"]
    if t == "alt":
        return (-1) ** (k % 2) / (k + _q(g["c"])) ** g["s"]
    if t == "leib":
        return Fr((-1) ** (k % 2), g["m"] * k + g["n"])
    if t == "tele":
        c = _q(g["c"])
        return 1 / ((k + c) * (k + c + g["m"]))
    if t == "lor":
        return 1 / ((k + _q(g["c"])) ** 2 + _q(g["al"]) ** 2)
    if t == "twoexp":
        return _q(g["r"]) ** k if k >= 0 else _q(g["s"]) ** (-k)
    if t == "gauss":
        return _q(g["q"]) ** (k * k) * _q(g["tt"]) ** k
    raise ValueError(t)


def atom_absval(g, k):
    """magnitude of the intermediates of a floating-point evaluation at k (Fraction)"""
    t = g["t"]
    if t == "refl":
        return atom_absval(g["g"], -k)
    if t == "poly":
        return Fr(sum(abs(c) * abs(k) ** j for j, c in enumerate(g["c"])))
    v = atom_exact(g, k)
    if isinstance(v, tuple):
        return abs(v[0]) + abs(v[1])
    return abs(v)


def atom_fn(mp, g):
    """the term as a callable of the repository's mpmath (k arrives as mpf)"""
    t = g["t"]
    mpf = mp.mpf
    if t == "refl":
        f = atom_fn(mp, g["g"])
        return lambda k: f(-k)
    if t == "poly":
        cs = g["c"]

        def poly(k):
            s = mpf(cs[-1])
            for c in cs[-2::-1]:
                s = s * k + c
            return s
        return poly
    if t == "recip":
        n, dn = g["c"]
        return lambda k: dn / (dn * k + n)
    if t in ("pow", "kpow", "binom"):
        rn, rd = g["r"]
        r = mpf(rn) / rd                       # dyadic: exact
        if t == "pow":
            return lambda k: r ** k
        if t == "kpow":
            return lambda k: k * r ** k
        n = g["n"]
        return lambda k: mp.binomial(n + k - 1, k) * r ** k
    if t == "cpow":
        z = mp.mpc(mpf(g["re"][0]) / g["re"][1], mpf(g["im"][0]) / g["im"][1])
        return lambda k: z ** k
    if t == "expo":
        x = mpf(g["x"][0]) / g["x"][1]
        return lambda k: x ** k / mp.factorial(k)
    if t == "hurw":
        n, dn = g["c"]
        s = g["s"]
        return lambda k: (dn / (dn * k + n)) ** s
    if t == "alt":
        n, dn = g["c"]
        s = g["s"]
        return lambda k: (-1) ** k * (dn / (dn * k + n)) ** s
    if t == "leib":
        m, n = g["m"], g["n"]
        return lambda k: (-1) ** k / (m * k + n)
    if t == "tele":
        n, dn = g["c"]
        m = g["m"]
        return lambda k: (dn * dn) / ((dn * k + n) * (dn * k + n + m * dn))
    if t == "lor":
        n, dn = g["c"]
        an, ad = g["al"]
        num = (dn * ad) ** 2
        return lambda k: num / ((ad * (dn * k + n)) ** 2 + (an * dn) ** 2)
    if t == "twoexp":
        r = mpf(g["r"][0]) / g["r"][1]
        s = mpf(g["s"][0]) / g["s"][1]
        return lambda k: r ** k if k >= 0 else s ** (-k)
    if t == "gauss":
        q = mpf(g["q"][0]) / g["q"][1]
        tt = mpf(g["tt"][0]) / g["tt"][1]
        return lambda k: q ** (k * k) * tt ** k
    raise ValueError(t)


# ------------------------------------------------------------------------------------------------ atoms: closed forms

def MQ(M, v):
    """Fraction (or pair) -> reference number"""
    if isinstance(v, tuple):
        return M.mpc(MQ(M, v[0]), MQ(M, v[1]))
    v = Fr(v)
    return M.mpf(v.numerator) / v.denominator


def _fsum_exact(g, lo, hi):
    """exact sum over the finite range lo..hi (inclusive); empty range = 0"""
    if g["t"] == "cpow":
        a = b = Fr(0)
        for k in range(lo, hi + 1):
            x, y = atom_exact(g, k)
            a += x
            b += y
        return a, b
    s = Fr(0)
    for k in range(lo, hi + 1):
        s += atom_exact(g, k)
    return s


def _alt_tail(M, x, s):
    """sum_{j>=0} (-1)^j/(j+x)^s for x not a non-positive integer"""
    if s == 1:
        return (M.psi(0, (x + 1) / 2) - M.psi(0, x / 2)) / 2
    return (M.zeta(s, x / 2) - M.zeta(s, (x + 1) / 2)) / M.mpf(2) ** s


def atom_tail(M, g, a):
    """sum_{k>=a} g(k) with the reference package M at its current precision"""
    t = g["t"]
    one = M.mpf(1)
    if t == "pow":
        r = MQ(M, _q(g["r"]))
        return MQ(M, _q(g["r"]) ** a) / (1 - r)
    if t == "cpow":
        z = MQ(M, (_q(g["re"]), _q(g["im"])))
        return MQ(M, atom_exact(g, a)) / (1 - z)
    if t == "kpow":
        r = _q(g["r"])
        return MQ(M, r ** a * (a - (a - 1) * r) / (1 - r) ** 2)
    if t == "binom":
        r = _q(g["r"])
        return MQ(M, 1 / (1 - r) ** g["n"] - _fsum_exact(g, 0, a - 1))
    if t == "expo":
        return M.exp(MQ(M, _q(g["x"]))) - MQ(M, _fsum_exact(g, 0, a - 1))
    if t == "hurw":
        return M.zeta(g["s"], a + MQ(M, _q(g["c"])))
    if t == "alt":
        return (-1) ** (a % 2) * _alt_tail(M, a + MQ(M, _q(g["c"])), g["s"])
    if t == "leib":
        return (-1) ** (a % 2) * _alt_tail(M, a + MQ(M, Fr(g["n"], g["m"])), 1) / g["m"]
    if t == "tele":
        c = _q(g["c"])
        return MQ(M, sum(1 / (a + c + j) for j in range(g["m"])) / g["m"])
    if t == "lor":
        al = MQ(M, _q(g["al"]))
        return M.im(M.psi(0, M.mpc(a + MQ(M, _q(g["c"])), al))) / al
    if t == "twoexp":
        r = _q(g["r"])
        if a >= 0:
            return MQ(M, r ** a / (1 - r))
        return MQ(M, 1 / (1 - r) + _fsum_exact(g, a, -1))
    if t == "gauss":
        return _gauss_sum(M, g, a, +1)
    raise ValueError(t)


def _gauss_sum(M, g, a, step):
    """sum of q^(k^2) t^k over k = a, a+step, a+2 step, ... by direct summation with a geometric tail bound"""
    q = MQ(M, _q(g["q"]))
    tt = MQ(M, _q(g["tt"]))
    small = M.mpf(2) ** (-M.prec - 20)
    s = M.mpf(0)
    k = a
    while True:
        term = q ** (k * k) * tt ** k
        s += term
        nxt = q ** ((k + step) ** 2) * tt ** (k + step)
        if nxt * 2 < term and nxt < small * s:
            return s
        k += step
        if abs(k) > 5000:
            raise ArithmeticError("gauss oracle did not converge")


def atom_full(M, g):
    """sum over all integers (only for the atoms that have one)"""
    t = g["t"]
    if t == "lor":
        al = MQ(M, _q(g["al"]))
        c = MQ(M, _q(g["c"]))
        return M.pi / al * M.sinh(2 * M.pi * al) / (M.cosh(2 * M.pi * al) - M.cos(2 * M.pi * c))
    if t == "twoexp":
        r, s = _q(g["r"]), _q(g["s"])
        return MQ(M, 1 / (1 - r) + s / (1 - s))
    if t == "gauss":
        return _gauss_sum(M, g, 0, +1) + _gauss_sum(M, g, -1, -1)
    if t == "hurw":                       # lattice sum with the singular term ignored: integer shift, even s
        return 2 * M.zeta(g["s"])
    raise ValueError(t)


def atom_sum(M, g, lo, hi):
    if g["t"] == "refl":
        return atom_sum(M, g["g"], _neg(hi), _neg(lo))
    if lo != NINF and hi != INF:
        return MQ(M, _fsum_exact(g, lo, hi))
    if lo != NINF:
        return atom_tail(M, g, lo)
    if hi == INF:
        return atom_full(M, g)
    return atom_full(M, g) - atom_tail(M, g, hi + 1)


def atom_abs_sum(M, g, lo, hi):
    """sum of the magnitudes; the infinite case is only used for atoms that are positive on the range"""
    if g["t"] == "refl":
        return atom_abs_sum(M, g["g"], _neg(hi), _neg(lo))
    if lo != NINF and hi != INF:
        return MQ(M, sum((atom_absval(g, k) for k in range(lo, hi + 1)), Fr(0)))
    return abs(atom_sum(M, g, lo, hi))


# ------------------------------------------------------------------------------------------------ generation

def _opts(d, g, allow_strict=True):
    m, v = _method(d, g)
    o = {}
    if m is not None:
        o["method"] = m
    if v is not None:
        o["levin_variant"] = v
    if allow_strict and d.int(0, 3) == 0:
        o["strict"] = True
    return o


def _cheap_prec(p, g, o):
    """Euler-Maclaurin on exponentially decaying terms (derivatives and quadrature of r^x) costs 10-20 s per call
    above 200 bits: such cases are kept at 30..100 bits"""
    m = o.get("method") or ""
    if _conv(g) in ("linear", "super") and any(x in ("e", "euler-maclaurin") for x in m.split("+")):
        return 30 + (p - 30) % 71
    return p


def _series_atom(d):
    fam = d.weighted([(4, "pow"), (2, "cpow"), (3, "kpow"), (2, "binom"), (3, "expo"), (5, "hurw"), (4, "alt"),
                      (2, "leib"), (2, "tele"), (3, "lor"), (2, "twoexp"), (2, "gauss")])
    return globals()["g_" + fam](d)


def gen_series(d):
    p = _prec(d)
    g = _series_atom(d)
    a = _start(d, g)
    if g["t"] == "kpow" and a == 0 and d.bool():
        a = 1
    o = _opts(d, g)
    p = _cheap_prec(p, g, o)
    if g["t"] == "leib" and o.get("method") in ("a", "alternating"):
        a = abs(a)          # cohen_alt's class: (-1)^k times a moment sequence, i.e. mk+n > 0 from the first term on
    if d.int(0, 3) == 0:
        atom, rng = {"t": "refl", "g": g}, [NINF, -a]
    else:
        atom, rng = g, [a, INF]
    return {"kind": "nsum", "p": p, "ranges": [rng], "terms": [{"c": 1, "gs": [atom]}], "opts": o,
            "iv": d.int(0, 2)}


def gen_dbl(d):
    p = _prec(d)
    fam = d.weighted([(4, "lor"), (4, "twoexp"), (4, "gauss"), (2, "lattice")])
    o = None
    if fam == "lattice":
        g = {"t": "hurw", "s": d.choice([2, 4, 6, 8]), "c": [d.int(-4, 4), 1]}
        o = _opts(d, g)
        o["ignore"] = True
        rng = [NINF, INF]
    else:
        g = globals()["g_" + fam](d)
        kind = d.weighted([(5, "full"), (3, "down"), (2, "up_refl")])
        if kind == "full":
            rng = [NINF, INF]
        elif kind == "down":
            rng = [NINF, d.int(-6, 6)]
        else:
            rng = [d.int(-6, 6), INF]
            g = {"t": "refl", "g": g}
        if kind == "full" and d.int(0, 3) == 0:
            g = {"t": "refl", "g": g}
    if o is None:
        o = _opts(d, g)
    p = _cheap_prec(p, g, o)
    return {"kind": "nsum", "p": p, "ranges": [rng], "terms": [{"c": 1, "gs": [g]}], "opts": o, "iv": d.int(0, 2)}


def _finite_atom(d, lo, hi):
    fam = d.weighted([(5, "poly"), (4, "recip"), (4, "pow"), (1, "kpow"), (1, "lor"), (1, "leib"), (1, "hurw")])
    if fam == "pow":
        return g_pow(d, Fr(3, 1) if max(abs(lo), abs(hi)) <= 40 else Fr(9, 10), True)
    if fam == "kpow":
        return g_kpow(d, Fr(9, 10), True)
    if fam == "hurw":
        g = g_hurw(d)
        if g["c"][0] % g["c"][1] == 0:          # keep the shift non-integer: no pole anywhere
            g["c"] = [2 * g["c"][0] + 1, 2 * g["c"][1]]
        return g
    return globals()["g_" + fam](d)


def _finite_range(d, wide=True):
    k = d.weighted([(2, "single"), (5, "small"), (3 if wide else 0, "wide"), (1, "empty")])
    a = d.int(-40, 40)
    if k == "single":
        return a, a
    if k == "small":
        return a, a + d.int(1, 12)
    if k == "empty":
        return a, a - d.int(1, 3)
    a = d.int(-200, 200)
    return a, a + d.int(13, 300)


def gen_finite(d):
    p = _prec(d)
    op = d.weighted([(6, "nsum"), (4, "nprod"), (2, "sumem")])
    if op == "sumem":
        a = d.int(-3000, 3000)
        b = a + d.int(0, 4000)
        deg = d.int(0, 7)
        cs = [d.int(-20, 20) for _ in range(deg + 1)]
        if cs[-1] == 0:
            cs[-1] = 1
        return {"kind": "sumem_poly", "p": p, "c": cs, "lo": a, "hi": b}
    if op == "nprod":
        lo, hi = _finite_range(d, wide=False)
        if hi - lo > 12:
            hi = lo + 12
        fam = d.weighted([(3, "poly"), (3, "recip"), (2, "pow"), (2, "ratio")])
        if fam == "ratio":
            g = {"t": "ratio", "c": g_recip(d)["c"], "m": d.int(1, 3)}       # (k+c+m)/(k+c): telescoping
        elif fam == "pow":
            g = g_pow(d, Fr(2, 1), True)
        else:
            g = globals()["g_" + fam](d)
        return {"kind": "nprod_finite", "p": p, "g": g, "lo": lo, "hi": hi, "iv": d.int(0, 2)}
    nd = d.weighted([(6, 1), (3, 2), (2, 3)])
    ranges = []
    for i in range(nd):
        lo, hi = _finite_range(d, wide=(nd == 1))
        if nd > 1 and hi - lo > 9:
            hi = lo + 9
        ranges.append([lo, hi])
    nt = 1 if nd == 1 else d.int(1, 2)
    terms = []
    for _ in range(nt):
        terms.append({"c": d.choice([1, 1, -1, 2, 3, -5]) if nt > 1 else 1,
                      "gs": [_finite_atom(d, lo, hi) for lo, hi in ranges]})
    return {"kind": "nsum", "p": p, "ranges": ranges, "terms": terms, "opts": {}, "iv": d.int(0, 2)}


def _fast_atom(d, rng, maxr):
    """positive, fast converging atom admissible on the (infinite) range kind rng"""
    if rng == "full":
        fam = d.weighted([(4, "twoexp"), (3, "gauss")])
    else:
        fam = d.weighted([(4, "pow"), (2, "kpow"), (1, "binom"), (2, "expo"), (2, "twoexp"), (1, "gauss")])
    if fam == "pow":
        return g_pow(d, maxr, False)
    if fam == "kpow":
        return g_kpow(d, maxr, False)
    if fam == "binom":
        return g_binom(d, min(maxr, Fr(1, 2)), False)
    if fam == "expo":
        g = g_expo(d, False)
        if _q(g["x"]) > 2:
            g["x"] = [g["x"][0], g["x"][1] * 2]
        return g
    if fam == "twoexp":
        return g_twoexp(d, maxr)
    return g_gauss(d, min(maxr, Fr(1, 2)))


def gen_multi(d):
    nd = d.weighted([(7, 2), (3, 3)])
    kinds = [d.weighted([(3, "fin"), (5, "up"), (2, "down"), (2, "full")]) for _ in range(nd)]
    if all(k == "fin" for k in kinds):
        kinds[d.int(0, nd - 1)] = "up"
    if nd == 3 and all(k != "fin" for k in kinds) and d.int(0, 3) != 0:
        kinds[d.int(0, 2)] = "fin"      # three infinite directions cost seconds per case: keep them rare
    ninf = sum(1 for k in kinds if k != "fin")
    if ninf >= 3:                       # a doubly infinite direction doubles the work per shell: at most one in 3-D
        seen = False
        for i, k in enumerate(kinds):
            if k == "full":
                if seen:
                    kinds[i] = "up"
                seen = True
    m = d.weighted([(5, None), (2, "r+s"), (3, "s"), (1, "shanks"), (3, "d"), (1, "direct"), (1, "l")])
    heavy = m in ("d", "direct", "l")
    if ninf >= 3:
        p = d.int(30, 40)
        maxr = Fr(1, 8) if heavy else Fr(1, 4)
    elif ninf == 2:
        p = d.int(30, 110)
        maxr = Fr(1, 4) if heavy else Fr(3, 4)
        if heavy and p > 70:
            maxr = Fr(1, 8)
    else:
        p = _prec(d, 200)
        maxr = Fr(1, 2) if heavy else Fr(7, 8)
    nt = d.weighted([(3, 1), (2, 2)])
    ranges = []
    fsize = 1
    for k in kinds:
        if k == "fin":
            lo = d.int(-8, 8)
            hi = lo + d.int(0, 5 if fsize < 6 else 1)
            fsize *= hi - lo + 1
            ranges.append([lo, hi])
        elif k == "up":
            ranges.append([d.int(0, 5), INF])
        elif k == "down":
            ranges.append([NINF, -d.int(0, 5)])
        else:
            ranges.append([NINF, INF])
    terms = []
    for _ in range(nt):
        gs = []
        for k, (lo, hi) in zip(kinds, ranges):
            if k == "fin":
                gs.append(_finite_atom(d, lo, hi))
            elif k == "full":
                gs.append(_fast_atom(d, "full", maxr))
            elif k == "up":
                g = _fast_atom(d, "up", maxr)
                gs.append(g)
            else:
                g = _fast_atom(d, "up", maxr)
                gs.append({"t": "refl", "g": g})
        terms.append({"c": d.choice([1, 1, 2, 3, -1, -2]) if nt > 1 else 1, "gs": gs})
    o = {}
    if m is not None:
        o["method"] = m
    if d.int(0, 3) == 0:
        o["strict"] = True
    return {"kind": "nsum", "p": p, "ranges": ranges, "terms": terms, "opts": o, "iv": d.int(0, 2)}


def gen_nprod(d):
    p = _prec(d)
    fam = d.weighted([(4, "sinprod"), (4, "sinhprod"), (3, "cube"), (3, "tele2"), (2, "pow2"), (3, "dblsinh")])
    c = {"kind": "nprod", "p": p, "fam": fam}
    if fam in ("sinprod", "sinhprod"):
        xd = d.choice([1, 2, 3, 4])
        xn = d.int(1, 3 * xd)
        c["x"] = [xn, xd]
        a0 = (xn // xd + 1) if fam == "sinprod" else 1
        c["a"] = a0 + d.weighted([(3, 0), (3, d.int(0, 5))])
    elif fam == "cube":
        c["a"] = d.int(2, 7)
    elif fam == "tele2":
        c["a"] = d.int(1, 7)
    elif fam == "pow2":
        c["r"] = _dy(d, Fr(7, 8), True, emax=4)
        c["a"] = d.int(0, 3)
    else:
        den = d.choice([2, 3, 4, 5, 8])
        num = d.int(-2 * den, 2 * den)
        if num % den == 0:
            num += 1
        c["c"] = [num, den]
        xd = d.choice([1, 2, 4])
        c["x"] = [d.int(1, 2 * xd), xd]
        c["style"] = d.choice(["plain", "mpf", "mpf"])
    if fam == "pow2":
        m = d.weighted([(5, None), (3, "d"), (1, "direct"), (1, "r+s")])
    else:
        m = d.weighted([(6, None), (3, "r"), (2, "r+s"), (1, "richardson"), (2, "e"), (1, "r+s+e"), (1, "l")])
    o = {}
    if m is not None:
        o["method"] = m
        if "e" in m:
            c["p"] = 30 + (p - 30) % 50        # Euler-Maclaurin on log f costs ~20 s per call at 200 bits
    if fam != "pow2" and d.int(0, 4) == 0:
        o["nsum"] = True
    if d.int(0, 3) == 0:
        o["strict"] = True
    c["opts"] = o
    c["refl"] = fam != "dblsinh" and d.int(0, 3) == 0        # f(-k) over [-inf, -a]
    return c


def gen_limit(d):
    p = _prec(d)
    fam = d.weighted([(4, "expn"), (3, "sinc"), (4, "ratinf"), (3, "remov"), (2, "xsin"), (2, "cosq"), (2, "log1p"),
                      (3, "sgninf"), (3, "atanrecip")])
    c = {"kind": "limit", "p": p, "fam": fam, "dir": d.choice([1, 1, -1])}
    if fam == "expn":
        xd = d.choice([1, 2, 4, 8])
        xn = d.int(1, 4 * xd) * d.choice([1, -1])
        if c["dir"] == -1:                  # n -> -inf: keep 1 + x/n away from 0
            xn, xd = d.choice([1, -1]) * d.int(1, 7), 8
        c["x"] = [xn, xd]
    elif fam == "sgninf":              # (a n + sqrt(n^2 + c)) / (b n) -> (a +- 1)/b at +-inf
        c["a"] = d.int(2, 9) * d.choice([1, -1])
        c["b"] = d.int(1, 9) * d.choice([1, -1])
        c["c"] = d.int(0, 9)
    elif fam in ("sinc", "xsin", "cosq", "log1p", "atanrecip"):
        c["al"] = [d.int(1, 12), d.choice([1, 2, 3, 4])]
        c["be"] = [d.int(1, 12) * d.choice([1, -1]), d.choice([1, 2, 3])]
        if fam == "log1p":
            c["al"] = [d.int(1, 3), d.choice([4, 5, 8])]          # 1 + a x stays positive for |x| <= 1
    elif fam == "ratinf":
        deg = d.int(1, 3)
        if c["dir"] == -1:
            deg = 2
            c["P"] = [d.int(-9, 9), d.int(-9, 9), d.int(1, 9) * d.choice([1, -1])]
            c["Q"] = [d.int(1, 9), 0, d.int(1, 9)]
        else:
            c["P"] = [d.int(-9, 9) for _ in range(deg)] + [d.int(1, 9) * d.choice([1, -1])]
            c["Q"] = [d.int(0, 9) for _ in range(deg)] + [d.int(1, 9)]
    else:
        c["m"] = d.int(2, 6)
        c["x0"] = [d.int(1, 24) * d.choice([1, -1]), 8]
    m = d.weighted([(6, None), (3, "r"), (2, "r+s"), (1, "richardson")])
    o = {}
    if m is not None:
        o["method"] = m
    if d.int(0, 3) == 0:
        o["exp"] = True
    if d.int(0, 3) == 0:
        o["strict"] = True
    c["opts"] = o
    return c


def _acc_atom(d, conv):
    if conv == "algebraic":
        g = d.choice([g_hurw, g_tele, g_lor])(d)
    elif conv == "alternating":
        g = d.choice([g_alt, g_alt, g_leib])(d)
    else:
        g = d.choice([g_pow, g_kpow, g_binom])(d, Fr(7, 8), True)
    a = _start(d, g)
    if g["t"] == "kpow" and a <= 0:
        a = 1
    return g, a


def gen_extrap(d):
    k = d.weighted([(3, "rich_exact"), (2, "rich_series"), (3, "shanks_exact"), (2, "shanks_series"), (4, "levin"),
                    (3, "levin_exact"), (3, "cohen")])
    if k == "levin_exact":
        deg = d.int(0, 5)
        cs = [d.int(2, 9) * d.choice([1, -1])] + [d.int(-3, 3) for _ in range(deg)]
        return {"kind": k, "p": _prec(d, 200), "method": d.choice(["levin", "sidi"]), "variant": d.choice(["t", "u"]),
                "c": cs, "s": [d.int(-40, 40), d.choice([1, 3, 7])], "n": deg + 2 + d.int(0, 6),
                "iface": d.choice(["update", "update_psum", "step", "step_psum"])}
    if k == "rich_exact":
        N = d.int(0, 10)
        m = d.int(0, N)
        mono = d.int(0, 3) != 0
        cs = [d.int(1, 9) if mono else d.int(-9, 9) for _ in range(m)]
        return {"kind": k, "p": d.int(53, 300), "N": N, "odd": d.bool(), "L": [d.int(-40, 40), d.choice([1, 3, 7])],
                "c": cs, "junk": d.int(-5, 5)}
    if k == "rich_series":
        g, a = _acc_atom(d, d.choice(["algebraic", "algebraic", "alternating"]))
        return {"kind": k, "p": _prec(d, 200), "g": g, "a": a}
    if k == "shanks_exact":
        m = d.int(1, 3)
        qs = []
        pool = [n for n in range(-28, 29) if n not in (0, 16)]
        while len(qs) < m:
            n = d.choice(pool)
            if all(abs(n - x) >= 2 for x in qs):
                qs.append(n)
        return {"kind": k, "p": _prec(d), "q": qs, "a": [d.int(1, 9) * d.choice([1, -1]) for _ in range(m)],
                "A": [d.int(-40, 40), d.choice([1, 3, 5])], "n": 2 * m + 1 + d.int(0, 6), "rand": d.bool(),
                "split": d.int(2, 20)}
    if k == "shanks_series":
        g, a = _acc_atom(d, d.choice(["alternating", "alternating", "linear"]))
        return {"kind": k, "p": _prec(d, 200), "g": g, "a": a, "extra": d.int(0, 9), "split": d.int(2, 30)}
    if k == "levin":
        conv = d.choice(["algebraic", "alternating", "linear"])
        g, a = _acc_atom(d, conv)
        if conv == "algebraic":
            var = d.choice(["u", "v"])
            meth = "levin"
        elif conv == "alternating":
            var = d.choice(["u", "t", "v"])
            meth = d.choice(["levin", "levin", "sidi"])
        else:
            var = d.choice(["u", "t", "v"])
            meth = "levin"
        return {"kind": k, "p": _prec(d, 200), "g": g, "a": a, "variant": var, "method": meth,
                "iface": d.choice(["update", "update_psum", "step", "step_psum"]), "chunk": d.int(1, 7)}
    g, a = _acc_atom(d, "alternating")
    a = abs(a) if g["t"] == "leib" else a
    if d.int(0, 3) == 0:
        g = g_pow(d, Fr(7, 8), False)
        g["r"][0] = -g["r"][0]
        a = d.int(-3, 6)
    return {"kind": "cohen", "p": _prec(d, 250), "g": g, "a": a, "iface": d.choice(["update", "update_psum"]),
            "chunk": d.int(1, 7)}


def gen_em(d):
    k = d.weighted([(3, "sumem"), (3, "sumap")])
    p = _prec(d, 160)
    if k == "sumem":
        g = d.choice([g_hurw, g_hurw, g_tele, g_lor])(d)
        a0 = _min_start(g) or 0
        return {"kind": "sumem", "p": p, "g": g, "a": max(a0, 0) + p // 4 + 4 + d.int(0, 10)}
    g = d.choice([g_hurw, g_hurw, g_tele, g_lor])(d)
    a0 = math.ceil(1 - _q(g["c"]))        # the summand must be analytic for Re(x) >= a: keep a + c >= 1
    return {"kind": "sumap", "p": p, "g": g, "a": max(a0, 1) + d.int(0, 5)}


def gen_case(d, shard, tier):
    if shard == "finite":
        return gen_finite(d)
    if shard == "series":
        return gen_series(d)
    if shard == "dbl":
        return gen_dbl(d)
    if shard == "multi":
        return gen_multi(d)
    if shard == "nprod":
        return gen_nprod(d)
    if shard == "limit":
        return gen_limit(d)
    if shard == "extrap":
        return gen_extrap(d)
    return gen_em(d)


# ------------------------------------------------------------------------------------------------ checking

def _ref(M, x):
    if hasattr(x, "_mpf_"):
        return M.make_mpf(x._mpf_)
    if hasattr(x, "_mpc_"):
        return M.make_mpc(x._mpc_)
    if isinstance(x, complex):
        return M.mpc(x)
    return M.mpf(x)


def _iv(mp, lo, hi, style):
    def e(v):
        if v == INF:
            return mp.inf
        if v == NINF:
            return -mp.inf
        return mp.mpf(v) if style == 2 else v
    return (e(lo), e(hi)) if style == 1 else [e(lo), e(hi)]


def _tname(g):
    return "refl(%s)" % g["g"]["t"] if g["t"] == "refl" else g["t"]


def _diagnose(bucket, rerun, NoConvergence):
    """A wrong value returned without strict=True: does the routine itself know that it did not converge?  If the
    same call with strict=True raises NoConvergence the root cause is the silent fall-through at the end of
    adaptive_extrapolation (best estimate returned without any signal), otherwise a false convergence claim."""
    if rerun is None:
        return bucket, ""
    try:
        rerun()
    except NoConvergence:
        if bucket.startswith("lowprec_false_convergence:"):
            bucket = bucket[len("lowprec_false_convergence:"):]
        if bucket.startswith("nprod_em"):
            return bucket + ":silent_noconv", " [the same call with strict=True raises NoConvergence: the non-converged estimate was returned silently]"
        return ("silent_noconv:" + bucket), " [the same call with strict=True raises NoConvergence: the non-converged estimate was returned silently]"
    except Exception:
        return bucket, ""
    return bucket, " [the same call with strict=True returns normally: convergence was claimed]"


def _judge(res, M, p, got, exact, scale, bucket, what, absfloor=True, factor=None, rerun=None, NoConvergence=None):
    """compare in the reference package; returns the error in units of the bound"""
    g = _ref(M, got)
    if not (M.isfinite(g)):
        bucket, note = _diagnose(bucket, rerun, NoConvergence)
        res.bad(bucket, "%s returned %s, expected %s%s" % (what, got, M.nstr(exact, 25), note))
        return None
    err = abs(g - exact)
    if factor is None:
        bound = M.mpf(2) ** (10 - p) * scale
    else:
        bound = factor * M.mpf(2) ** (-p) * scale
    if absfloor:
        bound += M.mpf(2) ** (1 - p)
    if bound == 0:
        ok = err == 0
        ratio = 0.0 if ok else float("inf")
    else:
        ok = err <= bound
        ratio = float(err / bound)
    res.metrics["max_err_over_bound"] = min(ratio, 1e30)
    if not ok:
        bucket, note = _diagnose(bucket, rerun, NoConvergence)
        res.bad(bucket, "%s = %s, expected %s (error %.3g times the allowed %s)%s" % (
            what, M.nstr(g, 30), M.nstr(exact, 30), ratio,
            "2^(10-p) relative" if factor is None else "rounding bound", note))
    return ratio


def _check_nsum(c, res, mp, M):
    p = c["p"]
    ranges = c["ranges"]
    terms = c["terms"]
    opts = dict(c["opts"])
    nd = len(ranges)
    infinite = [i for i, (lo, hi) in enumerate(ranges) if lo == NINF or hi == INF]
    empty = any(lo != NINF and hi != INF and hi < lo for lo, hi in ranges)
    g0 = terms[0]["gs"][0]
    meth = opts.get("method")
    if nd == 1 and len(terms) == 1:
        shape = "inf" if infinite else "finite"
        if infinite and ranges[0][0] == NINF:
            shape = "dbl" if ranges[0][1] == INF else "neg"
        res.cls = "nsum:%s:%s:%s" % (_tname(g0), shape, meth or "default")
    else:
        res.cls = "nsum:%dd:%s:%s" % (nd, "".join("f" if i not in infinite else
                                                   ("b" if ranges[i][0] == NINF and ranges[i][1] == INF else
                                                    "d" if ranges[i][0] == NINF else "u") for i in range(nd)),
                                       meth or "default")
    res.nontrivial = bool(infinite) or nd >= 2 or meth is not None
    comp = [(t["c"], [atom_fn(mp, g) for g in t["gs"]]) for t in terms]
    if nd == 1 and len(terms) == 1 and terms[0]["c"] == 1:
        f = comp[0][1][0]
    else:
        def f(*xs):
            tot = mp.zero
            for cf, fs in comp:
                v = cf
                for fn, x in zip(fs, xs):
                    v = v * fn(x)
                tot = tot + v
            return tot
    what = "nsum(%s, ranges=%s, %s) at prec %d" % (
        " + ".join("%d*%s" % (t["c"], "*".join(_atomstr(g) for g in t["gs"])) for t in terms), ranges, opts, p)
    mp.prec = p
    ivs = [_iv(mp, lo, hi, c.get("iv", 0)) for lo, hi in ranges]
    uses_levin = any(x in ("l", "levin", "sidi") for x in (meth or "").split("+"))
    try:
        got = mp.nsum(f, *ivs, **opts)
    except mp.NoConvergence:
        if opts.get("strict"):
            res.inconclusive = True
            return
        raise
    except ValueError as e:
        if "zero weight" in str(e):
            res.rejected = True         # documented: all terms handed to levin must be non-zero
            return
        raise
    except ZeroDivisionError:
        if uses_levin:
            res.rejected = True         # two equal consecutive terms: the Levin transform itself is undefined (0/0)
            return
        raise
    finally:
        mp.prec = 53
    rerun = None
    if infinite and not opts.get("strict"):
        def rerun():
            mp.prec = p
            try:
                mp.nsum(f, *ivs, strict=True, **opts)
            finally:
                mp.prec = 53
    # ---- oracle
    exact = M.mpf(0)
    scale = M.mpf(0)
    single = nd == 1 and len(terms) == 1
    if not empty:
        for t in terms:
            v = M.mpf(t["c"])
            s = M.mpf(abs(t["c"]))
            for g, (lo, hi) in zip(t["gs"], ranges):
                sv = atom_sum(M, g, lo, hi)
                v = v * sv
                if single and infinite:
                    s = s * abs(sv)
                else:
                    s = s * atom_abs_sum(M, g, lo, hi)
            exact += v
            scale += s
    if not infinite:
        n = len(terms)
        for lo, hi in ranges:
            n *= max(0, hi - lo + 1)
        bucket = "finite:nsum" if nd == 1 else "finite:nsum:%dd" % nd
        _judge(res, M, p, got, exact, scale, bucket, what, absfloor=False, factor=2 * n + 4)
        return
    if nd == 1:
        shape = "dbl" if ranges[0] == [NINF, INF] else ("neg" if ranges[0][0] == NINF else "pos")
        conv = _conv(g0)
        bucket = "nsum:%s:%s:%s" % (conv, shape, _mclass(meth))
        uses_shanks = meth is None or "s" in _mclass(meth).split("+")
        if opts.get("ignore"):
            bucket = "nsum:ignore:%s" % _mclass(meth)
        if conv == "linear" and len(terms) == 1 and uses_shanks and not opts.get("ignore"):
            # Inputs on which Wynn's epsilon table degenerates although the series converges.  shanks(randomized=True)
            # replaces an exactly vanishing difference by a random multiple of eps, and adaptive_extrapolation accepts
            # |est1 - est2| <= tol before looking at the cancellation estimate.  Three shapes: the partial sums are an
            # exact (sum of) geometric sequence(s) with dyadic ratio, so the table hits the limit exactly
            # (exact_geometric); a term that is exactly zero inside the range, k r^k at k = 0 (zero_term); a first
            # stretch of terms that is exactly geometric with another ratio than the tail, a two-sided exponential
            # summed across k = 0 (geometric_prefix).
            sub = "exact_geometric"
            if shape != "dbl":
                gg, j0, dirn = _first_index(g0, ranges[0])
                crossing = (j0 < 0 and dirn > 0) or (j0 > 0 and dirn < 0)
                if gg["t"] == "kpow" and crossing:
                    sub = "zero_term"
                elif gg["t"] == "twoexp" and crossing and abs(j0) >= 2:
                    sub = "geometric_prefix"
            bucket = "shanks_degenerate:%s:%s" % (sub, _mclass(meth))
        if conv == "algebraic" and p < 40 and not bucket.startswith("shanks_degenerate"):
            bucket = "lowprec_false_convergence:" + bucket     # maxterms = 10*dps <= 100: four extrapolation attempts only
    else:
        bucket = "nsum:multi:%dd:%s" % (nd, _mclass(meth))
    _judge(res, M, p, got, exact, scale, bucket, what, rerun=rerun, NoConvergence=mp.NoConvergence)


def _first_index(g, rng):
    """(un-reflected atom, first index in summation order, direction) of a half-infinite range"""
    lo, hi = rng
    if g["t"] == "refl":
        return _first_index(g["g"], [_neg(hi), _neg(lo)])
    if lo == NINF:
        return g, hi, -1
    return g, lo, +1


def _mclass(m):
    if m is None:
        return "default"
    long = {"richardson": "r", "shanks": "s", "levin": "l", "alternating": "a", "euler-maclaurin": "e", "direct": "d"}
    return "+".join(long.get(x, x) for x in m.split("+"))


def _atomstr(g):
    t = g["t"]
    if t == "refl":
        return "refl[%s]" % _atomstr(g["g"])
    return "%s%s" % (t, {k: v for k, v in g.items() if k != "t"})


def _check_nprod_finite(c, res, mp, M):
    p, g, lo, hi = c["p"], c["g"], c["lo"], c["hi"]
    res.cls = "nprod:finite:%s" % g["t"]
    if g["t"] == "ratio":
        n, dn = g["c"]
        m = g["m"]
        f = lambda k: (dn * k + n + m * dn) / (dn * k + n)
        ex = lambda k: Fr(dn * k + n + m * dn, dn * k + n)
        ab = ex
    else:
        f = atom_fn(mp, g)
        ex = lambda k: atom_exact(g, k)
        ab = lambda k: atom_absval(g, k)
    mp.prec = p
    try:
        got = mp.nprod(f, _iv(mp, lo, hi, c.get("iv", 0)))
    finally:
        mp.prec = 53
    exact = Fr(1)
    scale = Fr(1)
    for k in range(lo, hi + 1):
        exact *= ex(k)
        scale *= abs(ab(k))
    n = max(0, hi - lo + 1)
    _judge(res, M, p, got, MQ(M, exact), MQ(M, scale), "finite:nprod",
           "nprod(%s, [%d, %d]) at prec %d" % (_atomstr(g) if g["t"] != "ratio" else g, lo, hi, p),
           absfloor=False, factor=2 * n + 4)


def _check_sumem_poly(c, res, mp, M):
    p, cs, lo, hi = c["p"], c["c"], c["lo"], c["hi"]
    res.cls = "sumem:poly"
    res.nontrivial = True
    g = {"t": "poly", "c": cs}
    f = atom_fn(mp, g)
    mp.prec = p
    try:
        got = mp.sumem(f, [lo, hi])
    finally:
        mp.prec = 53
    exact = sum(sum(cf * k ** j for j, cf in enumerate(cs)) for k in range(lo, hi + 1))
    scale = sum(sum(abs(cf) * abs(k) ** j for j, cf in enumerate(cs)) for k in range(lo, hi + 1))
    _judge(res, M, p, got, M.mpf(exact), M.mpf(scale), "sumem:poly",
           "sumem(poly%s, [%d, %d]) at prec %d" % (cs, lo, hi, p))


def _nprod_fn(mp, c):
    fam = c["fam"]
    mpf = mp.mpf
    if fam == "sinprod":
        xn, xd = c["x"]
        return lambda k: ((xd * k) ** 2 - xn ** 2) / (xd * k) ** 2
    if fam == "sinhprod":
        xn, xd = c["x"]
        return lambda k: ((xd * k) ** 2 + xn ** 2) / (xd * k) ** 2
    if fam == "cube":
        return lambda k: (k ** 3 - 1) / (k ** 3 + 1)
    if fam == "tele2":
        return lambda k: (1 + 1 / k) ** 2 / (1 + 2 / k)
    if fam == "pow2":
        r = mpf(c["r"][0]) / c["r"][1]
        return lambda k: 1 + r ** (2 ** k)
    n, dn = c["c"]
    xn, xd = c["x"]
    num = (xn * dn) ** 2
    if c.get("style") == "plain":        # pure arithmetic on k, as in the docstring examples
        return lambda k: 1 + num / (xd * (dn * k + n)) ** 2
    return lambda k: 1 + mpf(num) / (xd * (dn * k + n)) ** 2      # full precision even when k arrives as a Python int


def _nprod_exact(M, c):
    fam = c["fam"]
    a = c.get("a")
    if fam == "sinprod":
        x = MQ(M, _q(c["x"]))
        if _q(c["x"]).denominator == 1:
            xi = _q(c["x"]).numerator
            return MQ(M, Fr(math.factorial(a - 1) ** 2, math.factorial(a - xi - 1) * math.factorial(a + xi - 1)))
        return M.gamma(a) ** 2 / (M.gamma(a - x) * M.gamma(a + x))
    if fam == "sinhprod":
        x = MQ(M, _q(c["x"]))
        return M.gamma(a) ** 2 / abs(M.gamma(M.mpc(a, x))) ** 2
    if fam == "cube":
        return MQ(M, Fr((a - 1) * a, a * a - a + 1))
    if fam == "tele2":
        return MQ(M, Fr(a + 1, a))
    if fam == "pow2":
        r = _q(c["r"])
        return MQ(M, 1 / (1 - r ** (2 ** a)))
    x = MQ(M, _q(c["x"]))
    cc = MQ(M, _q(c["c"]))
    return (M.cosh(2 * M.pi * x) - M.cos(2 * M.pi * cc)) / (1 - M.cos(2 * M.pi * cc))


def _check_nprod(c, res, mp, M):
    p, fam = c["p"], c["fam"]
    opts = dict(c["opts"])
    meth = opts.get("method")
    res.cls = "nprod:%s:%s%s%s" % (fam, meth or "default", ":nsum" if opts.get("nsum") else "", ":refl" if c.get("refl") else "")
    res.nontrivial = True
    f0 = _nprod_fn(mp, c)
    if fam == "dblsinh":
        f, rng = f0, [NINF, INF]
    elif c.get("refl"):
        f, rng = (lambda k: f0(-k)), [NINF, -c["a"]]
    else:
        f, rng = f0, [c["a"], INF]
    what = "nprod(%s%s, %s, %s) at prec %d" % (
        {k: v for k, v in c.items() if k in ("fam", "x", "c", "r", "style")}, " reflected k -> -k" if c.get("refl") else "", rng, opts, p)
    mp.prec = p
    try:
        got = mp.nprod(f, _iv(mp, rng[0], rng[1], 0), **opts)
    except mp.NoConvergence:
        if opts.get("strict"):
            res.inconclusive = True
            return
        raise
    except ZeroDivisionError as e:
        if c.get("refl") and not (opts.get("nsum") or ("e" in (meth or ""))):
            res.bad("nprod:neg_inf_range", "%s raised ZeroDivisionError: the factors were evaluated at +k instead of -k" % what)
            return
        raise
    finally:
        mp.prec = 53
    exact = _nprod_exact(M, c)
    via_nsum = opts.get("nsum") or ("e" in (meth or ""))
    rerun = None
    if not opts.get("strict"):
        def rerun():
            mp.prec = p
            try:
                mp.nprod(f, _iv(mp, rng[0], rng[1], 0), strict=True, **opts)
            finally:
                mp.prec = 53
    if c.get("refl") and not via_nsum and abs(_ref(M, got) - exact) > M.mpf(2) ** -6 * abs(exact):
        # grossly wrong (not a convergence question): the factors of a product over [-inf, b] were taken at +k
        # (repaired in /repo; kept as a regression bucket)
        bucket = "nprod:neg_inf_range"
        rerun = None
    elif "e" in _mclass(meth).split("+"):
        bucket = "nprod_em"                    # exp(nsum(log f)) with the Euler-Maclaurin tail
    elif fam == "dblsinh":
        bucket = "nprod:dbl:%s" % _mclass(meth)
        if c.get("style") == "plain" and not via_nsum and p > 53:
            # nprod hands the Python int 0 (not an mpf) to f for the central factor of a doubly infinite product:
            # a summand written with plain arithmetic then evaluates f(0) in double precision
            mp.prec = p
            try:
                f0v = f(0)
                f0m = f(mp.mpf(0))
            finally:
                mp.prec = 53
            if isinstance(f0v, float) and abs(_ref(M, f0v) - _ref(M, f0m)) > M.mpf(2) ** (8 - p) * abs(_ref(M, f0m)):
                bucket = "nprod:dbl:f0_python_int"
                rerun = None
    else:
        bucket = "nprod:%s:%s" % ("super" if fam == "pow2" else "algebraic", _mclass(meth) + (":nsum" if via_nsum else ""))
    if p < 40 and fam != "pow2" and bucket.startswith("nprod:") and bucket not in ("nprod:neg_inf_range", "nprod:dbl:f0_python_int"):
        bucket = "lowprec_false_convergence:" + bucket
    _judge(res, M, p, got, exact, abs(exact), bucket, what, rerun=rerun, NoConvergence=mp.NoConvergence)


def _check_limit(c, res, mp, M):
    p, fam = c["p"], c["fam"]
    opts = dict(c["opts"])
    meth = opts.get("method")
    res.cls = "limit:%s:%s%s" % (fam, meth or "default", ":exp" if opts.get("exp") else "")
    res.nontrivial = True
    mpf = mp.mpf
    dirn = c["dir"]
    kw = {}
    mp.prec = p                  # the (non-dyadic) parameters of the functions are numbers of the target precision
    if fam == "expn":
        xn, xd = c["x"]
        x = mpf(xn) / xd
        f = lambda n: (1 + x / n) ** n
        pt = mp.inf * dirn
        exact = M.exp(MQ(M, _q(c["x"])))
    elif fam == "ratinf":
        P, Q = c["P"], c["Q"]

        def f(n):
            a = mpf(P[-1])
            for co in P[-2::-1]:
                a = a * n + co
            b = mpf(Q[-1])
            for co in Q[-2::-1]:
                b = b * n + co
            return a / b
        pt = mp.inf * dirn
        exact = MQ(M, Fr(P[-1], Q[-1]))
    elif fam == "sgninf":
        a_, b_, c_ = c["a"], c["b"], c["c"]
        f = lambda n: (a_ * n + mp.sqrt(n * n + c_)) / (b_ * n)
        pt = mp.inf * dirn
        exact = MQ(M, Fr(a_ + dirn, b_))
    elif fam == "remov":
        m = c["m"]
        x0 = mpf(c["x0"][0]) / c["x0"][1]
        f = lambda x: (x ** m - x0 ** m) / (x - x0)
        pt = x0
        kw["direction"] = dirn
        exact = MQ(M, m * _q(c["x0"]) ** (m - 1))
    else:
        al = mpf(c["al"][0]) / c["al"][1]
        be = mpf(c["be"][0]) / c["be"][1]
        alq, beq = _q(c["al"]), _q(c["be"])
        pt = 0
        kw["direction"] = dirn
        if fam == "sinc":
            f = lambda x: mp.sin(al * x) / (be * x)
            exact = MQ(M, alq / beq)
        elif fam == "xsin":
            f = lambda x: (al * x - mp.sin(al * x)) / (be * x ** 3)
            exact = MQ(M, alq ** 3 / (6 * beq))
        elif fam == "cosq":
            f = lambda x: (1 - mp.cos(al * x)) / (be * x ** 2)
            exact = MQ(M, alq ** 2 / (2 * beq))
        elif fam == "atanrecip":
            f = lambda x: be * mp.atan(al / x)
            exact = MQ(M, beq) * M.pi / 2 * dirn
        else:
            f = lambda x: mp.log(1 + al * x) / (be * x)
            exact = MQ(M, alq / beq)
    what = "limit(%s, %s, %s) at prec %d" % ({k: v for k, v in c.items() if k not in ("kind", "p", "opts")}, kw, opts, p)
    opts.update(kw)
    mp.prec = p
    try:
        got = mp.limit(f, pt, **dict(opts))
    except mp.NoConvergence:
        if opts.get("strict"):
            res.inconclusive = True
            return
        raise
    finally:
        mp.prec = 53
    rerun = None
    if not opts.get("strict"):
        def rerun():
            mp.prec = p
            try:
                mp.limit(f, pt, strict=True, **dict(opts))
            finally:
                mp.prec = 53
    bucket = "limit:%s:%s%s" % ("inf" if fam in ("expn", "ratinf", "sgninf") else "finite", _mclass(meth),
                                ":exp" if opts.get("exp") else "")
    uses_shanks = meth is None or "s" in _mclass(meth).split("+")
    if fam == "ratinf" and uses_shanks:
        # two equal consecutive samples f(n) = f(n+1) (a rational function may well have them) make the first
        # difference of Wynn's epsilon table vanish: the degenerate-table defect of shanks(randomized=True)
        P, Q = c["P"], c["Q"]
        ev = lambda n: Fr(sum(co * n ** j for j, co in enumerate(P)), sum(co * n ** j for j, co in enumerate(Q)))
        pts = [dirn * (2 ** k if opts.get("exp") else k) for k in range(1, 41)]
        vals = [ev(n) for n in pts]
        if any(vals[i] == vals[i + 1] for i in range(len(vals) - 1)):
            bucket = "shanks_degenerate:equal_elements:limit"
    if p < 40 and not bucket.startswith("shanks_degenerate"):
        bucket = "lowprec_false_convergence:" + bucket
    _judge(res, M, p, got, exact, abs(exact), bucket, what, rerun=rerun, NoConvergence=mp.NoConvergence)


# ---- direct calls of the extrapolators

def _terms_mp(mp, g, a, n):
    """first n terms g(a), g(a+1), ... as numbers of the repository's mpmath at its current precision"""
    out = []
    for k in range(a, a + n):
        v = atom_exact(g, k)
        if isinstance(v, tuple):
            out.append(mp.mpc(mp.mpf(v[0].numerator) / v[0].denominator, mp.mpf(v[1].numerator) / v[1].denominator))
        else:
            out.append(mp.mpf(v.numerator) / v.denominator)
    return out


def _check_rich_exact(c, res, mp, M):
    p, N = c["p"], c["N"]
    res.cls = "richardson:exact"
    res.nontrivial = True
    n = 2 * N + 2 + (1 if c["odd"] else 0)
    if n < 3:
        n = 3
    L = _q(c["L"])
    cs = c["c"]
    seqx = [Fr(c["junk"])] + [L + sum(Fr(cf, i ** (j + 1)) for j, cf in enumerate(cs)) for i in range(1, n)]
    # which branch does richardson take (decided with exact signs; ties cannot be predicted)?
    d1, d2 = seqx[-1] - seqx[-2], seqx[-2] - seqx[-3]
    sg = lambda v: (v > 0) - (v < 0)
    used = seqx
    if sg(d1) != sg(d2):
        used = seqx[::2]
    Neff = len(used) // 2 - 1
    deg = max([j + 1 for j, cf in enumerate(cs) if cf] or [0])
    if deg > Neff or (Neff == 0 and used is not seqx):
        res.rejected = True
        return
    if Neff == 0:
        wts = [Fr(1)]
    else:
        wts = [Fr((Neff + k) ** Neff * (-1) ** (k + Neff), math.factorial(k) * math.factorial(Neff - k)) for k in range(Neff + 1)]
    maxc = max([abs(w) for w in wts] + [Fr(1)])
    mp.prec = 3 * p + 100
    try:
        seq = [mp.mpf(v.numerator) / v.denominator for v in seqx]
        mp.prec = p
        v, cgot = mp.richardson(seq)
    finally:
        mp.prec = 53
    what = "richardson(seq) with seq[i] = %s + sum_j c_j/i^j, c=%s, len %d, prec %d" % (L, cs, n, p)
    amp = sum(abs(w) * abs(used[Neff + k]) for k, w in enumerate(wts))
    factor = (8 * Neff + 16)
    ratio = _judge(res, M, p, v, MQ(M, L), MQ(M, amp), "richardson:exactness", what, absfloor=False, factor=factor)
    if MQ(M, amp) * factor * M.mpf(2) ** (-p) > M.mpf(2) ** (-12) * max(1, abs(MQ(M, L))):
        res.nontrivial = False            # the rounding bound is too loose to see anything
    _judge(res, M, p, cgot, MQ(M, maxc), MQ(M, maxc), "richardson:weight", what + " (returned weight)", absfloor=False)


def _check_rich_series(c, res, mp, M):
    p, g, a = c["p"], c["g"], c["a"]
    res.cls = "richardson:series:%s" % g["t"]
    res.nontrivial = True
    wp = 4 * (p + 10)
    exact = atom_tail(M, g, a)
    mp.prec = wp
    try:
        tol = mp.mpf(2) ** (-p - 10)
        S = []
        s = mp.zero
        last = None
        v = None
        done = False
        maxn = max(40, 3 * p)
        n = 0
        while n < maxn:
            for t in _terms_mp(mp, g, a + n, 10):
                s = s + t
                S.append(s)
            n += 10
            v, cw = mp.richardson(S)
            if last is not None and abs(v - last) <= tol * abs(v) and cw * mp.mpf(2) ** (-wp) <= tol:
                done = True
                break
            last = v
    finally:
        mp.prec = 53
    if not done:
        res.inconclusive = True
        return
    _judge(res, M, p, v, exact, abs(exact), "richardson:series",
           "richardson(partial sums of %s from k=%d, %d terms) at working prec %d" % (_atomstr(g), a, n, wp))


def _check_shanks_exact(c, res, mp, M):
    p = c["p"]
    m = len(c["q"])
    res.cls = "shanks:exact:m%d%s" % (m, ":rand" if c["rand"] else "")
    res.nontrivial = True
    A = _q(c["A"])
    qs = [Fr(q, 16) for q in c["q"]]
    n = c["n"]
    seqx = [A + sum(a * q ** k for a, q in zip(c["a"], qs)) for k in range(n)]
    wp = 3 * p + 60
    mp.prec = wp
    try:
        seq = [mp.mpf(v.numerator) / v.denominator for v in seqx]
        T = mp.shanks(seq, randomized=True) if c["rand"] else mp.shanks(seq)
        T2 = None
        if not c["rand"]:
            k = min(max(2, c["split"]), n)
            T1 = mp.shanks(seq[:k])
            T1 = [list(r) for r in T1]
            T2 = mp.shanks(seq, T1)
    finally:
        mp.prec = 53
    what = "shanks(A + sum a_j q_j^k, A=%s, a=%s, q=%s/16, %d elements%s) at working prec %d" % (
        A, c["a"], c["q"], n, ", randomized" if c["rand"] else "", wp)
    scale = MQ(M, max(abs(v) for v in seqx))
    col = 2 * m - 1
    rows = [r for r in T if len(r) > col]
    if not T or not rows:
        res.inconclusive = True           # an accidental zero difference stopped the table early
        return
    for r in rows[:3]:
        _judge(res, M, p, r[col], MQ(M, A), scale, "shanks:exactness", what + " (column %d)" % col, absfloor=False)
    # (entries to the right of the exact column are 1/roundoff noise -- the docstring only calls the last entry
    # "typically" the best estimate -- so only the column where the algorithm is exact is judged)
    if len(T[-1]) % 2:
        res.bad("shanks:table", "%s: last row has odd length %d, so [-1][-1] is not an extrapolate" % (what, len(T[-1])))
    if T2 is not None:
        same = len(T2) == len(T) and all(len(x) == len(y) and all(u == v for u, v in zip(x, y)) for x, y in zip(T, T2))
        if not same:
            res.bad("shanks:extend", "%s: extending the table of the first %d elements differs from the table computed "
                    "from scratch (rows %d vs %d)" % (what, min(max(2, c["split"]), n), len(T2), len(T)))


def _check_shanks_series(c, res, mp, M):
    p, g, a = c["p"], c["g"], c["a"]
    res.cls = "shanks:series:%s" % g["t"]
    res.nontrivial = True
    wp = 4 * (p + 10)
    exact = atom_tail(M, g, a)
    n = p // 2 + 12 + c["extra"]
    if _conv(g) == "linear":
        n = 12 + c["extra"]
    mp.prec = wp
    try:
        ts = _terms_mp(mp, g, a, n)
        S = []
        s = mp.zero
        for t in ts:
            s = s + t
            S.append(s)
        T = mp.shanks(S)
        k = min(max(2, c["split"]), n)
        T2 = mp.shanks(S, [list(r) for r in mp.shanks(S[:k])])
        same = len(T2) == len(T) and all(len(x) == len(y) and all(u == v for u, v in zip(x, y)) for x, y in zip(T, T2))
        row = T[-1] if T else []
        ok = False
        if len(row) >= 4:
            tol = mp.mpf(2) ** (-p - 10)
            ok = abs(row[-1] - row[-3]) <= tol * abs(row[-1]) and abs(row[-2]) * mp.mpf(2) ** (-wp) <= tol * abs(row[-1])
        # (a table cut short by an exact zero difference carries no error estimate: inconclusive)
    finally:
        mp.prec = 53
    what = "shanks(partial sums of %s from k=%d, %d terms) at working prec %d" % (_atomstr(g), a, n, wp)
    if not same:
        res.bad("shanks:extend", what + ": extending the table of the first %d elements differs from scratch" % k)
    if not ok:
        res.inconclusive = True
        return
    _judge(res, M, p, row[-1], exact, abs(exact), "shanks:series", what)


def _check_levin(c, res, mp, M):
    p, g, a = c["p"], c["g"], c["a"]
    res.cls = "levin:%s:%s:%s:%s" % (c["method"], c["variant"], _conv(g), c["iface"])
    res.nontrivial = True
    exact = atom_tail(M, g, a)
    wp = 3 * p
    iface = c["iface"]
    mp.prec = wp
    try:
        eps = mp.mpf(2) ** (-p)
        L = mp.levin(method=c["method"], variant=c["variant"])
        A, S = [], []
        s = mp.zero
        n = 0
        v = None
        done = False
        hits = 0
        try:
            while n < 60 + 2 * p:           # (the docstring allows 1000; a series that needs more than this is inconclusive)
                chunk = 1 if iface.startswith("step") else c["chunk"]
                for t in _terms_mp(mp, g, a + n, chunk):
                    s = s + t
                    A.append(t)
                    S.append(s)
                n += chunk
                if iface == "update":
                    v, e = L.update(A)
                elif iface == "update_psum":
                    v, e = L.update_psum(S)
                elif iface == "step":
                    v, e = L.step(A[-1])
                else:
                    v, e = L.step_psum(S[-1])
                # the docstring's loop (stop when the step e between two estimates is below eps), made robust against
                # two estimates that merely coincide: the step has to be small twice in a row
                hits = hits + 1 if (n >= 3 and e < eps * abs(v)) else 0
                if hits >= 2:
                    done = True
                    break
        except ValueError as ex:
            if "zero weight" in str(ex):
                res.rejected = True
                return
            raise
        except ZeroDivisionError:
            res.rejected = True       # two equal consecutive terms: the transform is 0/0 by its definition
            return
    finally:
        mp.prec = 53
    if not done:
        res.inconclusive = True
        return
    _judge(res, M, p, v, exact, abs(exact), "levin:%s:%s:%s" % (c["method"], c["variant"], _conv(g)),
           "levin(method=%s, variant=%s).%s on %s from k=%d, stopped after %d terms, working prec %d, target prec %d" % (
               c["method"], c["variant"], iface, _atomstr(g), a, n, wp, p))


def _check_cohen(c, res, mp, M):
    """cohen_alt on (-1)^k a_k with a_k the moments of a positive measure on [0,1] (1/(k+x)^s with x > 0, r^k):
    Cohen, Rodriguez Villegas and Zagier prove |S - S_n| <= 2 |S| / (3+sqrt 8)^n for the n-term estimate, so
    n = (p+14)/2.54 terms must give 2^(10-p) with a large margin -- no stopping heuristic is involved."""
    p, g, a = c["p"], c["g"], c["a"]
    res.cls = "cohen_alt:%s:%s" % (g["t"], c["iface"])
    res.nontrivial = True
    exact = atom_tail(M, g, a)
    wp = p + 20
    n = int((p + 14) / 2.54) + 2 + c["chunk"]
    mp.prec = wp
    try:
        AC = mp.cohen_alt()
        ts = _terms_mp(mp, g, a, n)
        S = []
        s = mp.zero
        for t in ts:
            s = s + t
            S.append(s)
        if c["iface"] == "update":
            v0, e0 = AC.update(ts[:n - 1])
            v, e = AC.update(ts)
        else:
            v0, e0 = AC.update_psum(S[:n - 1])
            v, e = AC.update_psum(S)
        est_ok = abs(e - abs(v - v0)) <= mp.mpf(2) ** (-p) * abs(v)
    finally:
        mp.prec = 53
    what = "cohen_alt().%s on the first %d terms of %s from k=%d, working prec %d, target prec %d" % (
        c["iface"], n, _atomstr(g), a, wp, p)
    _judge(res, M, p, v, exact, abs(exact), "cohen_alt:%s" % c["iface"], what)
    if not est_ok:
        res.bad("cohen_alt:error_estimate", "%s: the returned error estimate %s is not the distance to the previous "
                "estimate %s" % (what, e, abs(v - v0)))


def _levin_model(c):
    """exact model sequence s_n = s + omega_n * P_n on which the Levin (P_n = sum_j c_j/(n+1)^j) or Sidi
    (P_n = sum_j c_j/(n+1)_j) transformation of order > deg P is exact; omega_n = a_n (t) or (n+1) a_n (u) with
    a_0 = s_0, a_n = s_n - s_{n-1}.  Returns the list of Fractions or None if a denominator vanishes."""
    s = _q(c["s"])
    cs = c["c"]

    def P(n):
        tot = Fr(0)
        for j, cf in enumerate(cs):
            if c["method"] == "levin":
                den = (n + 1) ** j
            else:
                den = 1
                for i in range(j):
                    den *= n + 1 + i
            tot += Fr(cf, den)
        return tot
    w = (lambda n: Fr(1)) if c["variant"] == "t" else (lambda n: Fr(n + 1))
    q0 = w(0) * P(0)
    if q0 == 1:
        return None
    seq = [s / (1 - q0)]                       # s_0 - s = w_0 s_0 P_0
    for n in range(1, c["n"]):
        qn = w(n) * P(n)
        if qn == 1 or qn == 0:
            return None
        e = (seq[-1] - s) * qn / (qn - 1)      # e_n = w_n (e_n - e_{n-1}) P_n
        seq.append(s + e)
    if any(seq[i] == seq[i - 1] for i in range(1, len(seq))) or seq[0] == 0:
        return None
    # the transformation of order k = len-1 is numerator/denominator with denominator
    # sum_j (-1)^j C(k,j) (j+1)^(k-1) / omega_j  (Sidi: Pochhammer (j+1)_(k-1)); a vanishing denominator is 0/0
    k = len(seq) - 1
    a = [seq[0]] + [seq[i] - seq[i - 1] for i in range(1, len(seq))]
    den = Fr(0)
    for j in range(k + 1):
        if c["method"] == "levin":
            wt = Fr(j + 1) ** (k - 1) if k >= 1 else Fr(1)
        else:
            wt = Fr(1)
            for i in range(k - 1):
                wt *= j + 1 + i
        den += (-1) ** j * math.comb(k, j) * wt / (w(j) * a[j])
    if den == 0:
        return None
    return seq


def _check_levin_exact(c, res, mp, M):
    p = c["p"]
    res.cls = "levin:exact:%s:%s:%s" % (c["method"], c["variant"], c["iface"])
    res.nontrivial = True
    seqx = _levin_model(c)
    if seqx is None:
        res.rejected = True
        return
    s = _q(c["s"])
    wp = 3 * p + 60
    iface = c["iface"]
    mp.prec = wp
    try:
        S = [mp.mpf(v.numerator) / v.denominator for v in seqx]
        A = [S[0]] + [S[i] - S[i - 1] for i in range(1, len(S))]
        L = mp.levin(method=c["method"], variant=c["variant"])
        try:
            if iface == "update":
                v, e = L.update(A)
            elif iface == "update_psum":
                v, e = L.update_psum(S)
            elif iface == "step":
                for t in A:
                    v, e = L.step(t)
            else:
                for t in S:
                    v, e = L.step_psum(t)
        except ZeroDivisionError:
            res.rejected = True
            return
    finally:
        mp.prec = 53
    scale = MQ(M, max(abs(x) for x in seqx))
    _judge(res, M, p, v, MQ(M, s), scale, "levin:exactness:%s:%s" % (c["method"], c["variant"]),
           "levin(method=%s, variant=%s).%s on the %d-element model sequence s_n = %s + omega_n*P_n, P coefficients %s, "
           "working prec %d" % (c["method"], c["variant"], iface, len(seqx), s, c["c"], wp), absfloor=False)


def _check_sumem(c, res, mp, M):
    p, g, a = c["p"], c["g"], c["a"]
    res.cls = "sumem:%s" % g["t"]
    res.nontrivial = True
    f = atom_fn(mp, g)
    mp.prec = p
    try:
        got, err = mp.sumem(f, [a, mp.inf], error=True)
        eps = mp.mpf(2) ** (-p)
        conv = err <= eps
    finally:
        mp.prec = 53
    if not conv:
        res.inconclusive = True
        return
    exact = atom_tail(M, g, a)
    # sumem's tol is an absolute error (docstring: "accurate to within tol (which defaults to the present epsilon)")
    _judge(res, M, p, got, exact, max(abs(exact), M.mpf(1)), "sumem:infinite",
           "sumem(%s, [%d, inf]) at prec %d" % (_atomstr(g), a, p), absfloor=False)


def _check_sumap(c, res, mp, M):
    p, g, a = c["p"], c["g"], c["a"]
    res.cls = "sumap:%s" % g["t"]
    res.nontrivial = True
    f = atom_fn(mp, g)
    mp.prec = p
    try:
        got, err = mp.sumap(f, [a, mp.inf], error=True)
        bad_est = not (err <= mp.mpf(2) ** (8 - p) * abs(got))
    finally:
        mp.prec = 53
    if bad_est:
        res.inconclusive = True         # sumap itself reports that its quadratures did not reach the precision
        return
    exact = atom_tail(M, g, a)
    _judge(res, M, p, got, exact, abs(exact), "sumap:%s" % _conv(g) if g["t"] != "lor" else "sumap:lorentzian",
           "sumap(%s, [%d, inf], error=True) at prec %d (reported error %s)" % (_atomstr(g), a, p, mp.nstr(err, 3)))


CHECKS = {"nsum": _check_nsum, "nprod_finite": _check_nprod_finite, "sumem_poly": _check_sumem_poly,
          "nprod": _check_nprod, "limit": _check_limit, "rich_exact": _check_rich_exact,
          "rich_series": _check_rich_series, "shanks_exact": _check_shanks_exact,
          "shanks_series": _check_shanks_series, "levin": _check_levin, "cohen": _check_cohen, "levin_exact": _check_levin_exact,
          "sumem": _check_sumem, "sumap": _check_sumap}


def check_case(c):
    import mpmath
    from mpmath import mp
    import mpref
    M = mpref.mp
    res = R()
    oldref = M.prec
    try:
        M.prec = 3 * c["p"] + 100
        mp.prec = 53
        CHECKS[c["kind"]](c, res, mp, M)
    finally:
        mp.prec = 53
        M.prec = oldref
    return res
