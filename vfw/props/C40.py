"""C40 -- pickling and copying preserve values exactly."""
import copy
import pickle

from .. import exact, gen, helpers
from ..core import R
from ..exact import fzero, finf, fninf, fnan, raw_json as J, raw_unjson as U

ID = "C40"
LEVEL = "exploration"
CASE_TIMEOUT = 60.0
HANG_IS_VIOLATION = True
RULE = ("Cases = (object, method) where object is an mpf/mpc from the structural generators (specials, mantissas up to "
        "20000 bits, astronomically large exponents) or a matrix (0x0 .. 8x8, mixed int/mpf/mpc entries, sparse "
        "zeros), and method is pickle protocol 0..5, copy.copy, copy.deepcopy or matrix.copy(); for matrices a "
        "generated mutation script is applied to the copy (and, separately, to the original). Oracle (round trip + "
        "model): type(y) is type(x); raw tuples identical (hence ==, hash, repr equal; nan compared by "
        "representation); matrix shape and every entry identical; after mutating the copy the original still equals "
        "the model of its entries and vice versa. Non-trivial = special value, or more than 64 bits, or a matrix "
        "with at least two entry types.")
ASSUMPTIONS = ["CPython pickle/copy"]
TECHNIQUE = "property-based testing (Hypothesis), round-trip oracle and reference model of matrix entries"


def shards(tier):
    n = 2500 if tier == "quick" else 60000
    return [("num", n)] * 8 + [("matrix", n // 2)] * 8


def _entry(d, p):
    ty = d.choice(["int", "mpf", "mpc", "zero", "mpf"])
    if ty == "zero":
        return ["int", "0"]
    if ty == "int":
        return ["int", str(d.int(-10**6, 10**6))]
    if ty == "mpf":
        return ["mpf", J(gen.mpf_any(d, p, 200, huge=False))]
    return ["mpc", [J(gen.mpf_finite(d, p, 200, huge=False)), J(gen.mpf_finite(d, p, 200, huge=False))]]


def gen_case(d, shard, tier):
    p = gen.prec(d, 1, 300)
    how = d.choice(["p0", "p1", "p2", "p3", "p4", "p5", "copy", "deepcopy"])
    if shard == "num":
        maxbits = 20000 if d.int(0, 9) == 0 else 600
        if d.bool():
            x = ["mpf", J(gen.mpf_any(d, p, maxbits, huge=True))]
        else:
            x = ["mpc", [J(gen.mpf_any(d, p, maxbits, huge=True)), J(gen.mpf_any(d, p, 300, huge=True))]]
        return {"kind": "num", "x": x, "how": how, "p": p, "cls": "num:%s:%s" % (x[0], how)}
    rows, cols = d.int(0, 8), d.int(0, 8)
    if rows == 0 or cols == 0:
        rows = cols = 0 if d.bool() else 1
    ents = [[_entry(d, p) for _ in range(cols)] for _ in range(rows)]
    how = d.choice(["p0", "p2", "p4", "p5", "copy", "deepcopy", "mcopy"])
    muts = []
    for _ in range(d.int(0, 4)):
        if rows and cols:
            muts.append([d.int(0, rows - 1), d.int(0, cols - 1), _entry(d, p)])
    return {"kind": "matrix", "rows": rows, "cols": cols, "ents": ents, "how": how, "muts": muts, "mut_orig": d.bool(),
            "p": p, "cls": "matrix:%s" % how}


def _dup(x, how):
    if how.startswith("p"):
        return pickle.loads(pickle.dumps(x, int(how[1])))
    if how == "copy":
        return copy.copy(x)
    if how == "deepcopy":
        return copy.deepcopy(x)
    if how == "mcopy":
        return x.copy()
    raise ValueError(how)


def _raws(x):
    if hasattr(x, "_mpf_"):
        return ("f", tuple(x._mpf_))
    if hasattr(x, "_mpc_"):
        return ("c", tuple(x._mpc_[0]), tuple(x._mpc_[1]))
    return ("o", x)


def _mk(mp, e):
    ty, v = e
    if ty == "int":
        return int(v)
    if ty == "mpf":
        return mp.make_mpf(U(v))
    return mp.make_mpc((U(v[0]), U(v[1])))


def _entries(M):
    return [[_raws(M[i, j]) for j in range(M.cols)] for i in range(M.rows)]


def check_case(c):
    import mpmath
    from mpmath import mp
    res = R()
    res.cls = c["cls"]
    mp.prec = c["p"]
    try:
        how = c["how"]
        if c["kind"] == "num":
            x = _mk(mp, c["x"])
            y = _dup(x, how)
            rx, ry = _raws(x), _raws(y)
            res.nontrivial = any(t[1] == 0 or t[3] > 64 for t in rx[1:])
            bucket = "num:%s:%s" % (c["x"][0], how)
            if type(y) is not type(x):
                return res.bad(bucket + ":type", "type %r became %r" % (type(x), type(y)))
            if rx != ry:
                return res.bad(bucket, "representation changed: %r -> %r" % (rx, ry))
            for t in ry[1:]:
                prob = exact.canonical_problem(t)
                if prob:
                    return res.bad(bucket + ":noncanonical", prob)
            nan = any(t == fnan for t in rx[1:])
            if not nan:
                if not (x == y) or x != y:
                    res.bad(bucket + ":eq", "copy does not compare equal")
                if hash(x) != hash(y):
                    res.bad(bucket + ":hash", "hash differs")
            if len(str(rx)) < 5000 and repr(x) != repr(y):
                res.bad(bucket + ":repr", "repr differs")
            return res
        rows, cols = c["rows"], c["cols"]
        M = mp.matrix(rows, cols)
        model = [[None] * cols for _ in range(rows)]
        kinds = set()
        for i in range(rows):
            for j in range(cols):
                M[i, j] = _mk(mp, c["ents"][i][j])
                kinds.add(c["ents"][i][j][0])
        # the model is what the matrix itself reports right after construction (entries are converted on
        # assignment); the property is about copies, so the original is the reference
        model = _entries(M)
        res.nontrivial = len(kinds) >= 2
        try:
            N = _dup(M, how)
        except (pickle.PicklingError, AttributeError, TypeError):
            if how.startswith("p"):
                # this tree cannot pickle matrices at all (the matrix class is created per context and is not
                # importable by name); the statement's matrix clause is about copying.  Counted as rejected;
                # if pickling ever succeeds the round trip is checked like any other copy.
                res.rejected = True
                return res
            raise
        bucket = "matrix:" + how
        if type(N) is not type(M):
            return res.bad(bucket + ":type", "type %r became %r" % (type(M), type(N)))
        if (N.rows, N.cols) != (rows, cols):
            return res.bad(bucket + ":shape", "shape %r became %r" % ((rows, cols), (N.rows, N.cols)))
        if _entries(N) != model:
            return res.bad(bucket, "entries changed by %s" % how)
        if rows and cols and not any(fnan in e[1:] for row in model for e in row if e[0] != "o"):
            if not (M == N):
                res.bad(bucket + ":eq", "copy does not compare equal to the original")
        # independence
        A, B = (M, N) if c["mut_orig"] else (N, M)
        for i, j, e in c["muts"]:
            A[i, j] = _mk(mp, e)
        if _entries(B) != model:
            res.bad(bucket + ":independence", "mutating %s changed the %s" % (("the original", "copy") if c["mut_orig"] else ("the copy", "original")))
        if c["muts"]:
            i, j, e = c["muts"][-1]
            if _entries(A)[i][j] != _raws(mp.matrix([[_mk(mp, e)]])[0, 0]):
                res.bad(bucket + ":mutation", "assignment into the %s did not take effect" % ("original" if c["mut_orig"] else "copy"))
        return res
    finally:
        mp.prec = 53
