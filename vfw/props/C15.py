"""C15 -- complex interval (rectangle) operations contain every possible exact result."""
from .. import exact, gen, helpers, mpfrref as M, accuracy as acc
from ..core import R
from ..exact import fzero, finf, fninf, fnan, raw_json as J, raw_unjson as U
from .C14 import interval, members, vle, _me

ID = "C15"
LEVEL = "exploration"
CASE_TIMEOUT = 120.0
RULE = ("Cases = (operation, rectangle operand(s), precision p in [10, 400], member points). Rectangles = pairs of real "
        "intervals (point, 1-ulp, narrow, wide, touching or straddling the axes, in each half-plane, inside and outside "
        "the strip |Im| <= 1.1, Re < 1.4616 that the complex gamma code treats specially, next to the negative real "
        "axis). Operations through iv.mpc: + - * /, ** (integer and complex exponents), abs, exp, log, cos, sin, gamma, "
        "rgamma, loggamma, factorial. Member points: the 4 corners, the centre, edge midpoints, points one ulp inside "
        "the corners and random interior dyadic points. Oracle: MPC evaluates the operation at each member point with "
        "both parts rounded down and both rounded up at p+64 bits (component-wise rigorous enclosure; MPC is correctly "
        "rounded); for the gamma family, which MPC lacks, frozen mpmath 1.3.0 at 2p+100 bits with a 2^-(p+30) margin. "
        "Violation only if the whole enclosure of a component lies outside the returned interval of that component. "
        "Non-trivial = rectangle with nonzero width in both directions, or in the special gamma region.")
ASSUMPTIONS = ["MPC directed rounding gives rigorous component-wise enclosures",
               "gamma family: mpmath 1.3.0 at 2p+100 bits is accurate to p+30 bits (an error shared with 1.3.0 would be missed)"]
TECHNIQUE = "property-based testing (Hypothesis) with member-point enclosures from MPC directed rounding"

FUNS = ["exp", "log", "cos", "sin", "gamma", "rgamma", "loggamma", "factorial"]


def shards(tier):
    n = 1500 if tier == "quick" else 25000
    return [("arith", n)] * 6 + [("fun", n)] * 7 + [("pow", n)] * 3


def rect(d, p, mm=6):
    x, kx = interval(d, p, maxmag=mm)
    y, ky = interval(d, p, maxmag=mm)
    for iv_ in (x, y):
        for k in (0, 1):
            t = U(iv_[k])
            if not exact.is_finite(t):
                iv_[k] = J(exact.from_int(3 if k else -3))
        if exact.cmp_exact(U(iv_[0]), U(iv_[1])) > 0:
            iv_[0], iv_[1] = iv_[1], iv_[0]
    return [x, y], kx + "/" + ky


def rect_members(d, r, p):
    xs = [U(t) for t in members(d, r[0], p, n=1)]
    ys = [U(t) for t in members(d, r[1], p, n=1)]
    pts = []
    for i, x in enumerate(xs):
        for j, y in enumerate(ys):
            if i < 3 or j < 3 or (i == j):
                pts.append([J(x), J(y)])
    return pts[:16]


def gen_case(d, shard, tier):
    p = max(10, gen.prec(d, 10, 400))
    if shard == "arith":
        op = d.choice(["add", "sub", "mul", "div", "abs", "neg"])
        z, kz = rect(d, p)
        w, kw = rect(d, p)
        return {"kind": "arith", "op": op, "p": p, "z": z, "w": w, "pz": rect_members(d, z, p), "pw": rect_members(d, w, p)[:6],
                "cls": "arith:%s" % op}
    if shard == "fun":
        fn = d.choice(FUNS)
        mm = 4 if fn in ("exp", "gamma", "rgamma", "loggamma", "factorial", "cos", "sin") else 8
        z, kz = rect(d, p, mm)
        if fn in ("gamma", "rgamma", "loggamma", "factorial") and d.bool():
            # inside / next to the region  |Im| <= 1.1, Re < 1.4616
            cx = exact.mk(d.int(0, 1), d.int(1, 300), -7)
            cy = exact.mk(d.int(0, 1), d.int(0, 160), -7)
            wx = exact.mk(0, d.int(1, 64), -d.int(6, p))
            wy = exact.mk(0, d.int(1, 64), -d.int(6, p))
            z = [[J(cx), J(exact.mk(*_me(exact.add_exact(cx, wx))))], [J(cy), J(exact.mk(*_me(exact.add_exact(cy, wy))))]]
            kz = "gamma_region"
        return {"kind": "fun", "fn": fn, "p": p, "z": z, "pz": rect_members(d, z, p), "cls": "fun:%s:%s" % (fn, kz)}
    z, kz = rect(d, p, 3)
    c = {"kind": "pow", "p": p, "z": z, "pz": rect_members(d, z, p), "cls": "pow"}
    if d.bool():
        c["n"] = d.int(-12, 30)
        c["cls"] = "pow:int"
    else:
        w, kw = rect(d, p, 2)
        c["w"], c["pw"] = w, rect_members(d, w, p)[:5]
        c["cls"] = "pow:complex"
    return c


def _mk(iv, mp, r):
    (a, b), (cc, dd) = (U(r[0][0]), U(r[0][1])), (U(r[1][0]), U(r[1][1]))
    return iv.mpc(iv.mpf((mp.make_mpf(a), mp.make_mpf(b))), iv.mpf((mp.make_mpf(cc), mp.make_mpf(dd))))


def enclose(name, args, q, p):
    """component-wise enclosure ((re_lo, re_hi), (im_lo, im_hi)) or None"""
    if name in ("gamma", "rgamma", "loggamma", "factorial"):
        import mpref
        old = mpref.mp.prec
        try:
            mpref.mp.prec = 2 * p + 100
            z = mpref.mp.make_mpc(args[0])
            try:
                v = getattr(mpref.mp, name)(z)
            except (ValueError, ZeroDivisionError):
                return None
            v = mpref.mp.mpc(v)
            re, im = v._mpc_
        finally:
            mpref.mp.prec = old
        if not (exact.is_finite(re) and exact.is_finite(im)):
            return None
        mag = max(re[2] + re[3] if re[1] else -10**9, im[2] + im[3] if im[1] else -10**9)
        eps = (0, 1, mag - p - 30, 1)
        def pm(t):
            return acc.sub_raw(t, eps), exact.mk(*_me(exact.add_exact(t, eps)))
        return pm(re), pm(im)
    try:
        if isinstance(name, tuple):
            n = name[1]
            lo = M.cfn2("pow", args[0], (exact.from_int(n), fzero), q, "f", "f")
            hi = M.cfn2("pow", args[0], (exact.from_int(n), fzero), q, "c", "c")
        elif len(args) == 1:
            if name == "abs":
                l, h = M.c_real_fn("abs", args[0], q, "f"), M.c_real_fn("abs", args[0], q, "c")
                return (l, h), (fzero, fzero)
            if name == "neg":
                return ((1 - args[0][0][0],) + tuple(args[0][0][1:]) if args[0][0][1] else fzero,) * 2, \
                       ((1 - args[0][1][0],) + tuple(args[0][1][1:]) if args[0][1][1] else fzero,) * 2
            lo, hi = M.cfn1(name, args[0], q, "f", "f"), M.cfn1(name, args[0], q, "c", "c")
        else:
            lo, hi = M.cfn2(name, args[0], args[1], q, "f", "f"), M.cfn2(name, args[0], args[1], q, "c", "c")
    except M.Out:
        return None
    for t in lo + hi:
        if t[1] == 0 and t != fzero:
            return None
    return (lo[0], hi[0]), (lo[1], hi[1])


def check_case(c):
    import mpmath
    from mpmath import mp, iv
    res = R()
    res.cls = c["cls"]
    p = c["p"]
    q = p + 64
    iv.prec = p
    DOC = (ValueError, ZeroDivisionError, NotImplementedError, OverflowError, TypeError, mpmath.libmp.NoConvergence,
           mpmath.libmp.ComplexResult, RecursionError, AttributeError)
    try:
        Z = _mk(iv, mp, c["z"])
        pz = [(U(t[0]), U(t[1])) for t in c["pz"]]
        kind = c["kind"]
        what = "%s on z=%s" % (c["cls"], [[exact.raw_str(U(t)) for t in iv_] for iv_ in c["z"]])
        try:
            if kind == "arith":
                op = c["op"]
                W = _mk(iv, mp, c["w"])
                pw = [(U(t[0]), U(t[1])) for t in c["pw"]]
                what += " w=%s" % ([[exact.raw_str(U(t)) for t in iv_] for iv_ in c["w"]])
                if op == "abs":
                    r = abs(Z)
                    name, pairs = "abs", [(z,) for z in pz]
                elif op == "neg":
                    r = -Z
                    name, pairs = "neg", [(z,) for z in pz]
                else:
                    import operator
                    r = {"add": operator.add, "sub": operator.sub, "mul": operator.mul, "div": operator.truediv}[op](Z, W)
                    name, pairs = op, [(z, w) for z in pz for w in pw]
                bucket = "arith:" + op
            elif kind == "fun":
                fn = c["fn"]
                r = getattr(iv, fn if fn != "log" else "ln")(Z)
                name, pairs = fn, [(z,) for z in pz]
                bucket = "fun:" + fn
            else:
                if "n" in c:
                    r = Z ** c["n"]
                    name, pairs = ("pow_int", c["n"]), [(z,) for z in pz]
                    bucket = "pow:int"
                else:
                    W = _mk(iv, mp, c["w"])
                    pw = [(U(t[0]), U(t[1])) for t in c["pw"]]
                    r = Z ** W
                    name, pairs = "pow", [(z, w) for z in pz for w in pw]
                    bucket = "pow:complex"
        except DOC:
            res.rejected = True
            return res
        what += " prec %d" % p
        if hasattr(r, "_mpci_"):
            (a, b), (cc, dd) = r._mpci_
        elif hasattr(r, "_mpi_"):
            (a, b), (cc, dd) = r._mpi_, (fzero, fzero)
        else:
            res.rejected = True
            return res
        for t in (a, b, cc, dd):
            prob = exact.canonical_problem(t)
            if prob:
                return res.bad(bucket + ":noncanonical", what + ": " + prob)
        if fnan in (a, b, cc, dd):
            res.rejected = True
            return res
        if not vle(a, b) or not vle(cc, dd):
            return res.bad(bucket + ":order", "%s = [%s,%s] + i[%s,%s] has a lower endpoint above the upper one" % (
                what, exact.raw_str(a), exact.raw_str(b), exact.raw_str(cc), exact.raw_str(dd)))
        zr = c["z"]
        res.nontrivial = tuple(zr[0][0]) != tuple(zr[0][1]) and tuple(zr[1][0]) != tuple(zr[1][1])
        for args in pairs[:30]:
            enc = enclose(name, args, q, p)
            if enc is None:
                continue
            (rl, rh), (il, ih) = enc
            msg = None
            if (b != finf and not vle(rl, b)) or (a != fninf and not vle(a, rh)):
                msg = "real part"
            elif hasattr(r, "_mpci_") and ((dd != finf and not vle(il, dd)) or (cc != fninf and not vle(cc, ih))):
                msg = "imaginary part"
            if msg:
                res.bad(bucket, "%s = [%s,%s] + i[%s,%s] misses the %s at member point %s: enclosure re [%s,%s] im [%s,%s]" % (
                    what, exact.raw_str(a), exact.raw_str(b), exact.raw_str(cc), exact.raw_str(dd), msg,
                    [[exact.raw_str(t) for t in z] for z in args], exact.raw_str(rl)[:40], exact.raw_str(rh)[:40], exact.raw_str(il)[:40], exact.raw_str(ih)[:40]))
                break
        return res
    finally:
        iv.prec = 53
