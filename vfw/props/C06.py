"""C06 -- floor, ceil, nint, frac, int(), fmod and % follow their exact definitions."""
from .. import exact, gen, helpers
from ..core import R
from ..exact import fzero, finf, fninf, fnan, raw_json as J, raw_unjson as U

ID = "C06"
LEVEL = "exploration"
CASE_TIMEOUT = 30.0          # each case is a micro/milli-second integer kernel
HANG_IS_VIOLATION = True
RULE = ("Cases = (function, real or complex argument from the structural generators emphasising |x|<1, exact "
        "integers/half-integers/quarter-integers with even and odd integer part, more bits than the precision, huge "
        "exponents; for %/fmod a nonzero divisor incl. powers of two, |y|>>|x| (early-return path), |y|<<|x| (zero "
        "shortcut), opposite signs, exact multiples; precision; optional rounding keyword). Oracle: the exact integer "
        "part / remainder computed with CPython integers (modular exponentiation for astronomically distant "
        "exponents), then rounded by the independent rounding routine; raw tuples must be identical. int() must be "
        "the exact truncation. Non-trivial = result differs from the input and (|x|<1, or tie, or more bits than p, "
        "or a shortcut path is taken).")
ASSUMPTIONS = ["CPython integer arithmetic (divmod, pow with modulus)"]
TECHNIQUE = "property-based testing (Hypothesis) against exact integer arithmetic"

ONE = (0, 1, 0, 1)


def shards(tier):
    n = 9000 if tier == "quick" else 120000
    return [("ipart", n)] * 7 + [("mod", n)] * 7 + [("cplx", n)] * 2


def _arg(d, p, maxbits):
    k = d.weighted([(6, "any"), (4, "below1"), (5, "halfint"), (3, "int"), (2, "special")])
    if k == "special":
        return d.choice([fzero, finf, fninf, fnan]), k
    if k == "any":
        return gen.mpf_finite(d, p, maxbits, huge=True), k
    if k == "below1":
        m, _ = gen.mantissa(d, p, maxbits)
        return exact.mk(d.int(0, 1), m, -m.bit_length() - d.choice([0, 0, 1, 2, 60, 5000])), k
    if k == "int":
        m, _ = gen.mantissa(d, p, maxbits)
        return exact.mk(d.int(0, 1), m, d.int(0, 200)), k
    # n + 1/2, n + 1/4, n + 3/4 with n even/odd of various sizes
    nb = d.choice([0, 1, 2, 3, p - 2, p - 1, p, p + 1, 2 * p])
    n = ((1 << max(0, nb - 1)) | d.bits(max(0, nb - 1))) if nb > 0 else 0
    q = d.choice([2, 1, 3, 2, 2])
    return exact.mk(d.int(0, 1), 4 * n + q, -2), k


def gen_case(d, shard, tier):
    maxbits = 1500 if tier == "quick" else 6000
    p = gen.prec(d, 1, 2000)
    if shard == "ipart":
        x, k = _arg(d, p, maxbits)
        fn = d.choice(["floor", "ceil", "nint", "frac", "int"])
        if fn == "int" and x[1] and x[2] > 20000:
            x = (x[0], x[1], x[2] % 20000, x[3])
        c = {"kind": "ipart", "fn": fn, "x": J(x), "p": p, "via": d.choice(["mp", "libmp"]),
             "rnd": gen.rnd(d) if d.int(0, 2) == 0 else None, "cls": "ipart:%s:%s" % (fn, k)}
        return c
    if shard == "cplx":
        x, k = _arg(d, p, maxbits)
        y, k2 = _arg(d, p, maxbits)
        fn = d.choice(["floor", "ceil", "nint", "frac"])
        return {"kind": "cplx", "fn": fn, "x": J(x), "y": J(y), "p": p, "cls": "cplx:%s" % fn}
    x, k = _arg(d, p, maxbits)
    yk = d.weighted([(4, "any"), (3, "pow2"), (3, "bigger"), (3, "smaller"), (3, "divisor"), (2, "small_int"), (1, "special")])
    if yk == "special" or x[1] == 0:
        y = d.choice([fzero, finf, fninf, fnan, ONE]) if yk == "special" else gen.mpf_finite(d, p, maxbits, nonzero=True)
    elif yk == "any":
        y = gen.mpf_finite(d, p, maxbits, huge=False, nonzero=True)
    elif yk == "pow2":
        y = exact.mk(d.int(0, 1), 1, x[2] + d.int(-x[3] - 3, 3))
    elif yk == "bigger":
        m, _ = gen.mantissa(d, p, 200)
        y = exact.mk(d.int(0, 1), m, x[2] + x[3] + d.choice([-1, 0, 1, 2, 50]))
    elif yk == "smaller":
        m, _ = gen.mantissa(d, p, 200)
        y = exact.mk(d.int(0, 1), m, x[2] - m.bit_length() - d.choice([-2, -1, 0, 1, 2, 40, 10**4]))
    elif yk == "divisor":
        q = d.int(1, 1 << d.int(1, 40))
        m = x[1]
        # y divides x (or nearly)
        y = exact.mk(d.int(0, 1), max(1, m // q if m % q == 0 else m + d.int(0, 2)), x[2] - d.int(0, 5))
    else:
        y = exact.from_int(d.choice([1, 2, 3, 7, 10, 1000, -1, -3]))
    via = d.choice(["op", "fmod", "libmp", "rop_int", "op_int"])
    c = {"kind": "mod", "x": J(x), "y": J(y), "p": p, "via": via, "cls": "mod:%s:%s" % (yk, via)}
    if via == "libmp":
        c["rnd"] = gen.rnd(d)
    return c


# ------------------------------------------------------------------------------------------ oracle

def floor_int(x):
    """exact floor of finite raw as raw (never expands huge negative exponents)"""
    sign, man, exp, bc = x
    if man == 0 or exp >= 0:
        return x
    if exp + bc < 1:          # |x| < 1
        return exact.from_int(-1) if sign else fzero
    q = man >> (-exp)
    if sign:
        q = -(q + 1)         # man has fractional bits (man odd, exp<0)
    return exact.from_int(q)


def ceil_int(x):
    sign, man, exp, bc = x
    if man == 0 or exp >= 0:
        return x
    f = floor_int(x)
    return exact.mk(*_me(exact.add_exact(f, ONE)))


def _me(me):
    m, e = me
    return (1 if m < 0 else 0, abs(m), e)


def nint_int(x):
    sign, man, exp, bc = x
    if man == 0 or exp >= 0:
        return x
    if exp + bc < 0:          # |x| < 1/2
        return fzero
    sh = -exp
    q, r = divmod(man, 1 << sh)
    half = 1 << (sh - 1)
    if r > half or (r == half and q & 1):
        q += 1
    return exact.from_int(-q if sign else q)


def trunc_int(x):
    sign, man, exp, bc = x
    if exp >= 0:
        return (-man if sign else man) << exp
    if exp + bc < 1:
        return 0
    q = man >> (-exp)
    return -q if sign else q


def mod_exact(x, y):
    """exact x % y (sign of y) for finite raws, y != 0, returned as ('raw', raw) or ('sum', a, b) meaning a+b"""
    if x[1] == 0:
        return ("raw", fzero)
    xs, xe = exact.to_man_exp(x)
    ys, ye = exact.to_man_exp(y)
    if ye >= xe + x[3]:
        # |x| < 2^(xe+bc) <= 2^ye <= |y|
        if (xs < 0) == (ys < 0):
            return ("raw", x)
        return ("sum", x, y)
    if xe >= ye:
        k = xe - ye
        a = (xs * pow(2, k, abs(ys))) % ys
        return ("raw", exact.mk(*_me((a, ye))))
    k = ye - xe        # bounded by x's bit count here
    a = xs % (ys << k)
    return ("raw", exact.mk(*_me((a, xe))))


def round_mod(me, p, rnd):
    if me[0] == "raw":
        return exact.round_raw(me[1], p, rnd)
    return exact.add_round(me[1], me[2], p, rnd)


def _get(fn, *a, **k):
    try:
        r = fn(*a, **k)
    except ZeroDivisionError:
        return "ZeroDivisionError"
    except (ValueError, OverflowError) as e:
        return type(e).__name__
    if hasattr(r, "_mpf_"):
        return r._mpf_
    if hasattr(r, "_mpc_"):
        return r._mpc_
    return r


def _cmp(res, bucket, got, want, what):
    if isinstance(got, str) or isinstance(want, str):
        if got != want:
            res.bad(bucket, "%s: got %s expected %s" % (what, got if isinstance(got, str) else exact.raw_str(got),
                                                      want if isinstance(want, str) else exact.raw_str(want)))
        return
    prob = exact.canonical_problem(got)
    if prob:
        res.bad(bucket + ":noncanonical", "%s: %s" % (what, prob))
    elif tuple(got) != tuple(want):
        res.bad(bucket, "%s: got %s, expected %s" % (what, exact.raw_str(got), exact.raw_str(want)))


def expected_ipart(fn, x, p, rnd):
    if x[1] == 0:
        if fn == "frac" and x in (finf, fninf, fnan):
            return fnan
        return x
    if fn == "floor":
        return exact.round_raw(floor_int(x), p, rnd)
    if fn == "ceil":
        return exact.round_raw(ceil_int(x), p, rnd)
    if fn == "nint":
        return exact.round_raw(nint_int(x), p, rnd)
    if fn == "frac":
        f = floor_int(x)
        return exact.add_round(x, f, p, rnd, sub=True)
    raise ValueError(fn)


def check_case(c):
    import mpmath
    from mpmath import mp, libmp
    res = R()
    res.cls = c["cls"]
    p = c["p"]
    kind = c["kind"]
    mp.prec = p
    try:
        if kind == "ipart":
            x = U(c["x"])
            fn = c["fn"]
            rnd = c.get("rnd") or "n"
            what = "%s(%s) prec %d rnd %s via %s" % (fn, exact.raw_str(x), p, rnd, c["via"])
            res.nontrivial = bool(x[1]) and x[2] < 0
            if fn == "int":
                if x[1] == 0 and x != fzero:
                    try:
                        int(mp.make_mpf(x))
                        res.bad("int:special", what + " did not raise")
                    except (ValueError, OverflowError):
                        pass
                    return res
                got = int(mp.make_mpf(x))
                want = trunc_int(x) if x[1] else 0
                if got != want or type(got) is not int:
                    res.bad("int", "%s: got %r want %r" % (what, got, want))
                return res
            if c["via"] == "libmp":
                got = _get(getattr(libmp, "mpf_" + fn), x, p, rnd)
            else:
                kw = {"rounding": rnd} if c.get("rnd") else {}
                got = _get(getattr(mp, fn), mp.make_mpf(x), **kw)
            want = expected_ipart(fn, x, p, rnd)
            _cmp(res, "%s:%s" % (fn, c["via"]), got, want, what)
            if fn == "frac" and not isinstance(got, str) and x[1] and got[1]:
                # frac in [0, 1] after rounding (1 only by rounding up of 1 - tiny)
                if got[0] == 1 or exact.cmp_exact(got, ONE) > 0:
                    res.bad("frac:range", "%s = %s outside [0,1]" % (what, exact.raw_str(got)))
            return res
        if kind == "cplx":
            x, y = U(c["x"]), U(c["y"])
            fn = c["fn"]
            z = mp.make_mpc((x, y))
            got = _get(getattr(mp, fn), z)
            what = "%s(mpc(%s, %s)) prec %d" % (fn, exact.raw_str(x), exact.raw_str(y), p)
            want = (expected_ipart(fn, x, p, "n"), expected_ipart(fn, y, p, "n"))
            res.nontrivial = bool(x[1] and y[1])
            if isinstance(got, str):
                return res.bad("cplx:" + fn, what + " raised " + got)
            if len(got) == 4:       # real result for zero imaginary part
                got = (got, fzero)
            for g, w, part in ((got[0], want[0], "re"), (got[1], want[1], "im")):
                _cmp(res, "cplx:%s" % fn, g, w, what + " " + part)
            return res
        # mod
        x, y = U(c["x"]), U(c["y"])
        via = c["via"]
        rnd = c.get("rnd") or "n"
        what = "(%s) %% (%s) prec %d via %s rnd %s" % (exact.raw_str(x), exact.raw_str(y), p, via, rnd)
        X, Y = mp.make_mpf(x), mp.make_mpf(y)
        if via == "rop_int":
            if not (exact.is_finite(x) and (x[1] == 0 or 0 <= x[2] < 3000)):
                via = "op"
            else:
                X = trunc_int(x) if x[1] else 0
        if via == "op_int":
            if not (exact.is_finite(y) and y[1] and 0 <= y[2] < 3000):
                via = "op"
            else:
                Y = trunc_int(y)
        if via == "libmp":
            got = _get(libmp.mpf_mod, x, y, p, rnd)
        elif via == "fmod":
            got = _get(mp.fmod, X, Y)
        else:
            got = _get(lambda: X % Y)
        if not exact.is_finite(x) or not exact.is_finite(y):
            want = fnan
            if y == fzero:
                want = None
            res.nontrivial = True
        elif y == fzero:
            want = "ZeroDivisionError"
        else:
            me = mod_exact(x, y)
            want = round_mod(me, p, rnd)
            res.nontrivial = bool(x[1]) and (me[0] == "sum" or tuple(want) != tuple(x))
            # definitional checks on the exact remainder (oracle self-check + statement wording)
            if me[0] == "raw" and me[1][1]:
                r = me[1]
                if r[0] != y[0]:
                    raise AssertionError("oracle: remainder sign")
        if want is not None:
            _cmp(res, "mod:%s" % via, got, want, what)
        return res
    finally:
        mp.prec = 53
