"""C36 -- Chebyshev and Fourier approximations reproduce what they represent (chebyfit, fourier, fourierval)."""
from fractions import Fraction

from .. import exact, gen
from ..core import R
from ..exact import raw_json as J, raw_unjson as U

ID = "C36"
LEVEL = "exploration"
CASE_TIMEOUT = 120.0
RULE = (
    "chebyfit(f, [a, b], N, error=True/False): (1) f = generated polynomial of degree 0..10 with integer or dyadic "
    "coefficients (evaluated exactly in rational arithmetic and rounded to 40 guard bits inside the callback), "
    "N = degree+1 .. degree+4, intervals symmetric, one-sided, generic, narrow and far from the origin, wide; endpoints "
    "Python ints, dyadic or non-dyadic (p-bit roundings of rationals) mpf, both signs.  Oracle: the result is a list of "
    "N mpf (highest degree first); with R = max(|a|,|b|), S = sum|c_k| R^k, F = max|f| on [a,b] and "
    "A = sum_{k<N} ||T_k(alpha x + beta)||_1 evaluated at R (the size of the expanded Chebyshev basis, which the "
    "docstring calls ill-conditioned; alpha = 2/(b-a), beta = -(a+b)/(b-a)), every coefficient satisfies "
    "|d_i - c_i| R^i <= T with T = 2^(10-p) max(S, A F), the exactly evaluated returned polynomial differs from f by "
    "at most N T on 4N+1 points of [a,b], and 0 <= err <= 2 N T.  (2) f = exp(s x + t), sin(s x + t), cos(s x + t) "
    "(reference library at prec+30 bits) with N >= |s|(b-a) + 3 so that the Chebyshev coefficients decay at least by "
    "a factor 4: only the consistency of the reported error: max over 4N+1 points (which contain the N points used by "
    "chebyfit) of |f - P| (P evaluated exactly, f at 3p+100 bits) satisfies actual <= 4 err + N T' and "
    "err <= 2 actual + N T', T' = 2^(10-p) A F.  fourier(f, [a, b], N), N <= 6: f = planted trigonometric polynomial "
    "sum C_k cos(k m x) + S_k sin(k m x), m = 2 pi/(b-a), degree <= N, dyadic coefficients times 2^j (|j| <= 6), "
    "evaluated by the reference library with 80 guard bits; intervals with b-a in [1/8, 32] and max(|a|,|b|) <= 2(b-a) "
    "(the phase m x is computed in working precision, so its conditioning is part of the natural scale); oracle: two "
    "lists of N+1 mpf with |c_k - C_k|, |s_k - S_k| <= 2^(10-p) sum(|C|+|S|) (c_0 is the mean, as documented).  A "
    "separate class scales the coefficients by 2^-(p+8..p+48) (bucket fourier:absolute_cutoff when a coefficient is "
    "returned as exactly 0 because of the absolute cutoff 10 eps).  fourierval((c, s), [a, b], x): lists of 0..12 "
    "arbitrary p-bit coefficients of possibly different lengths, x within two periods of the interval; oracle: the "
    "definition evaluated by the reference library at 3p+100 bits; tolerance 2^-p ((4 n + 4) scale + 8 sum_k "
    "(|c_k|+|s_k|) |k m x|), n = number of terms (a few ulp per term plus the conditioning of the phase).  mp.prec "
    "is unchanged after every call.  Precisions 30..200.  Non-trivial = degree >= 2.")
ASSUMPTIONS = ["exact rational arithmetic of CPython (fractions)",
               "the frozen reference mpmath 1.3.0 (mpref) evaluates exp, sin, cos and pi correctly at the raised precision",
               "F is estimated from 4N+1 sample points (times 2)"]
TECHNIQUE = "property-based testing (Hypothesis), exact rational oracle and high precision reference evaluation"

F = exact.to_fraction

PALETTE = [[30, 53, 64, 100], [31, 53, 77, 120], [40, 60, 90, 150], [47, 53, 113, 200], [35, 70, 128, 160],
           [53, 56, 85, 180], [33, 64, 106, 140]]


def shards(tier):
    k = 1 if tier == "quick" else 25
    return ([("cheb", 1500 * k)] * 5 + [("fourier%d" % i, 500 * k) for i in range(7)] + [("fval", 2000 * k)] * 4)


# ------------------------------------------------------------------------------------------------ generation

def _prec(d):
    k = d.weighted([(5, "low"), (4, "mid"), (2, "high"), (1, "edge")])
    if k == "low":
        return d.int(30, 70)
    if k == "mid":
        return d.int(71, 130)
    if k == "high":
        return d.int(131, 200)
    return d.choice([30, 53, 64, 100, 113, 200])


def _dy(d, bits=12, kmax=8):
    """dyadic rational as [num, k] = num / 2^k"""
    if d.int(0, 2) == 0:
        return [d.int(-20, 20), 0]
    return [d.int(-(1 << bits), 1 << bits), d.int(0, kmax)]


def _endpoint_pair(d, narrow_ok=True):
    """(a, b) as [num, den, how] with a < b"""
    style = d.weighted([(3, "generic"), (3, "sym"), (2, "onesided"), (2 if narrow_ok else 0, "narrowfar"),
                        (2 if narrow_ok else 0, "wide"), (2, "nondyadic")])
    if style == "sym":
        r = Fraction(d.int(1, 64), 1 << d.int(0, 4))
        a, b = -r, r
    elif style == "onesided":
        r = Fraction(d.int(1, 64), 1 << d.int(0, 4))
        a, b = (Fraction(0), r) if d.bool() else (-r, Fraction(0))
    elif style == "narrowfar":
        a = Fraction(d.int(1, 100) * d.choice([-1, 1]))
        L = Fraction(d.int(1, 3), 1 << d.int(1, 12))
        b = a + L
    elif style == "wide":
        a = -Fraction(d.int(0, 200))
        b = Fraction(d.int(1, 200))
    elif style == "nondyadic":
        a = Fraction(d.int(-40, 40), d.choice([3, 5, 7, 9, 10, 11]))
        b = a + Fraction(d.int(1, 40), d.choice([3, 5, 7, 9, 10]))
    else:
        a = Fraction(d.int(-256, 256), 1 << d.int(0, 5))
        b = a + Fraction(d.int(1, 128), 1 << d.int(0, 6))
    out = []
    for v in (a, b):
        how = "int" if (v.denominator == 1 and d.bool()) else "mpf"
        out.append([v.numerator, v.denominator, how])
    return out[0], out[1], style


def _gen_cheb(d, tier):
    p = _prec(d)
    a, b, style = _endpoint_pair(d)
    if d.int(0, 3) > 0:
        deg = d.int(0, 10)
        coef = [_dy(d) for _ in range(deg + 1)]
        if coef[deg][0] == 0:
            coef[deg][0] = 1
        N = deg + 1 + d.choice([0, 0, 1, 2, 3])
        return {"kind": "cheb_poly", "p": p, "coef": coef, "N": N, "a": a, "b": b, "error": d.int(0, 3) > 0,
                "cls": "cheb:poly:%s:deg%d" % (style, deg)}
    fn = d.choice(["exp", "sin", "cos"])
    # keep |s| (b-a) <= 10 so that N <= 16 suffices
    La = Fraction(b[0], b[1]) - Fraction(a[0], a[1])
    q = Fraction(d.int(1, 160), 16)                  # |s| (b-a), at most 10
    k = max(0, (La.numerator // La.denominator).bit_length()) + 6
    s = [max(1, int(q / La * (1 << k))) * d.choice([-1, 1]), k]
    sv = abs(Fraction(s[0], 1 << k))
    need = int(sv * La) + 3
    N = need + d.int(0, 3)
    # keep the argument of exp moderate: shift t so that s*mid + t is small
    mid = (Fraction(b[0], b[1]) + Fraction(a[0], a[1])) / 2
    t0 = -Fraction(s[0], 1 << k) * mid
    t = [int(t0 * 16) + d.int(-32, 32), 4]
    return {"kind": "cheb_fun", "p": p, "fn": fn, "s": s, "t": t, "N": N, "a": a, "b": b,
            "cls": "cheb:%s:%s:N%d" % (fn, style, N)}


def _fourier_interval(d):
    """b-a in [1/8, 32], a in [-2L, L] (so that max(|a|,|b|) <= 2L)"""
    style = d.weighted([(3, "generic"), (2, "sym"), (2, "zero"), (2, "pi"), (2, "nondyadic")])
    if style == "pi":
        # [-pi, pi], [0, 2pi], [0, pi] ... as p-bit roundings: stored as a marker, resolved in check_case
        return ["pi", d.choice([[-1, 1], [0, 2], [0, 1], [-1, 0], [-2, 2], [1, 3]])], None, style
    if style == "sym":
        r = Fraction(d.int(1, 128), 8)
        a, b = -r, r
    elif style == "zero":
        r = Fraction(d.int(1, 256), 8)
        a, b = Fraction(0), r
    elif style == "nondyadic":
        L = Fraction(d.int(1, 60), d.choice([3, 5, 7, 9]))
        if L < Fraction(1, 8):
            L = Fraction(1, 3)
        a = L * Fraction(d.int(-20, 10), 10)
        b = a + L
    else:
        L = Fraction(d.int(1, 256), 8)
        a = L * Fraction(d.int(-16, 8), 8)
        b = a + L
    out = []
    for v in (a, b):
        how = "int" if (v.denominator == 1 and d.bool()) else "mpf"
        out.append([v.numerator, v.denominator, how])
    return out[0], out[1], style


def _gen_fourier(d, shard, tier):
    pal = PALETTE[int(shard[7:]) % len(PALETTE)]
    p = d.choice(pal)
    a, b, style = _fourier_interval(d)
    N = d.weighted([(2, 2), (2, 3), (2, 4), (1, 5), (1, 6), (1, 1), (1, 0)])
    D = d.int(0, N) if d.int(0, 2) == 0 else N
    cc = [_dy(d) for _ in range(D + 1)]
    ss = [[0, 0]] + [_dy(d) for _ in range(D)]
    if D and cc[D][0] == 0 and ss[D][0] == 0:
        cc[D][0] = 1
    tiny = d.int(0, 11) == 0
    sc = -(p + d.int(8, 48)) if tiny else d.int(-6, 6)
    return {"kind": "fourier", "p": p, "N": N, "cc": cc, "ss": ss, "a": a, "b": b, "sc": sc, "tiny": tiny,
            "xs": [_dy(d, 10, 6) for _ in range(2)],
            "cls": "fourier:%s:%s:deg%d" % ("tiny" if tiny else "planted", style, D)}


def _coef_raw(d, p):
    k = d.weighted([(6, "rand"), (1, "zero"), (2, "small"), (1, "struct")])
    if k == "zero":
        return exact.fzero
    if k == "small":
        return exact.from_int(d.int(-9, 9))
    if k == "struct":
        m, _ = gen.mantissa(d, p, p)
        return exact.mk(d.int(0, 1), m, d.int(-20, 20) - m.bit_length())
    m = (1 << (p - 1)) | d.bits(p - 1)
    return exact.mk(d.int(0, 1), m, d.int(-8, 8) - p)


def _gen_fval(d, tier):
    p = _prec(d)
    a, b, style = _fourier_interval(d)
    nc, ns = d.int(0, 12), d.int(0, 12)
    if d.int(0, 3) == 0:
        ns = nc
    cs = [J(_coef_raw(d, p)) for _ in range(nc)]
    ss = [J(_coef_raw(d, p)) for _ in range(ns)]
    # x = a + u (b - a), u in [-2, 3]
    u = [d.int(-2 * 1024, 3 * 1024), 10]
    xhow = d.choice(["mpf", "mpf", "round"])
    return {"kind": "fval", "p": p, "cs": cs, "ss": ss, "a": a, "b": b, "u": u, "xhow": xhow,
            "cls": "fval:%s:n%d" % (style, max(nc, ns))}


def gen_case(d, shard, tier):
    if shard == "cheb":
        return _gen_cheb(d, tier)
    if shard.startswith("fourier"):
        return _gen_fourier(d, shard, tier)
    return _gen_fval(d, tier)


# ------------------------------------------------------------------------------------------------ helpers

def _endpoint(mp, spec, p):
    """(object passed to mpmath, exact Fraction value of it)"""
    num, den, how = spec
    v = Fraction(num, den)
    if how == "int":
        return int(v), v
    raw = exact.round_fraction(v, p, "n")
    return mp.make_mpf(raw), F(raw)


def _interval(mp, a, b, p):
    import mpref
    if a[0] == "pi":
        old = mpref.mp.prec
        try:
            mpref.mp.prec = p
            pr = (+mpref.mp.pi)._mpf_
        finally:
            mpref.mp.prec = old
        piF = F(pr)
        out = []
        for mult in a[1]:
            v = piF * mult           # multiples 0, +-1, +-2 (exact), 3 (rounded below)
            raw = exact.round_fraction(v, p, "n") if v else exact.fzero
            out.append((mp.make_mpf(raw), F(raw)))
        return out[0], out[1]
    return _endpoint(mp, a, p), _endpoint(mp, b, p)


def _show(v):
    if hasattr(v, "_mpf_"):
        return "mpf(%s)" % exact.raw_str(v._mpf_)
    return repr(v)


def _fl(v):
    try:
        return float(v)
    except (OverflowError, ZeroDivisionError):
        return float("inf") if v > 0 else float("-inf")


def _cheb_basis_size(alpha, beta, N, Rr):
    """A = sum_{k<N} sum_i |coefficient of x^i in T_k(alpha x + beta)| R^i  (exact)"""
    Tb = [Fraction(1)]
    Ta = [beta, alpha]
    tot = Fraction(0)
    polys = [Tb, Ta]
    for k in range(N):
        if k >= len(polys):
            A_, B_ = polys[-1], polys[-2]
            T = [Fraction(0)] + [2 * alpha * t for t in A_]
            for i, c in enumerate(A_):
                T[i] += 2 * beta * c
            for i, c in enumerate(B_):
                T[i] -= c
            polys.append(T)
        tot += sum(abs(c) * Rr ** i for i, c in enumerate(polys[k]))
    return tot


def _cos_table(n):
    """cos(pi j / n), j = 0..n as Fractions accurate to 2^-80 (reference library)"""
    import mpref
    old = mpref.mp.prec
    try:
        mpref.mp.prec = 100
        return [F(mpref.mp.cospi(mpref.mp.mpf(j) / n)._mpf_) for j in range(n + 1)]
    finally:
        mpref.mp.prec = old


def _polyval_exact(co_low_first, x):
    v = Fraction(0)
    for c in reversed(co_low_first):
        v = v * x + c
    return v


def _is_mpf_list(mp, lst, n):
    return isinstance(lst, list) and len(lst) == n and all(isinstance(v, mp.mpf) for v in lst)


# ------------------------------------------------------------------------------------------------ chebyfit

def _check_cheb(c, res):
    from mpmath import mp
    import mpref
    p = c["p"]
    mp.prec = p
    (ao, aF), (bo, bF) = _interval(mp, c["a"], c["b"], p)
    N = c["N"]
    L = bF - aF
    Rr = max(abs(aF), abs(bF))
    alpha = 2 / L
    beta = -(aF + bF) / L
    A = _cheb_basis_size(alpha, beta, N, Rr)
    ct = _cos_table(4 * N)
    pts = [(aF + bF) / 2 + L / 2 * v for v in ct]
    pts = [min(max(x, aF), bF) for x in pts]
    poly = c["kind"] == "cheb_poly"
    if poly:
        coef = [Fraction(n, 1 << k) for n, k in c["coef"]]
        deg = len(coef) - 1
        res.nontrivial = deg >= 2

        def f(x):
            v = _polyval_exact(coef, F(x._mpf_))
            if v == 0:
                return mp.zero
            return mp.make_mpf(exact.round_fraction(v, mp.prec + 40, "n"))

        fvals = [_polyval_exact(coef, x) for x in pts]
        S = sum(abs(ck) * Rr ** k for k, ck in enumerate(coef))
        fdesc = "polynomial %s (low to high)" % [str(v) for v in coef]
    else:
        sF = Fraction(c["s"][0], 1 << c["s"][1])
        tF = Fraction(c["t"][0], 1 << c["t"][1])
        fn = c["fn"]
        res.nontrivial = N >= 3
        M = mpref.mp

        def fref(xraw, prec):
            old = M.prec
            try:
                M.prec = prec
                arg = M.make_mpf(xraw) * M.mpf(sF.numerator) / sF.denominator + M.mpf(tF.numerator) / tF.denominator
                return getattr(M, fn)(arg)._mpf_
            finally:
                M.prec = old

        def f(x):
            return mp.make_mpf(fref(x._mpf_, mp.prec + 30))

        H = 3 * p + 100
        fvals = [F(fref(exact.round_fraction(x, H, "n") if x else exact.fzero, H + 20)) for x in pts]
        pts = [F(exact.round_fraction(x, H, "n")) if x else x for x in pts]
        S = Fraction(0)
        fdesc = "%s(%s*x + %s)" % (fn, sF, tF)
    Fmax = 2 * max(abs(v) for v in fvals)
    what = "chebyfit(%s, [%s, %s], %d%s) at prec %d" % (fdesc, _show(ao), _show(bo), N,
                                                       ", error=True" if c.get("error", True) else "", p)
    want_err = c.get("error", True)
    out = mp.chebyfit(f, [ao, bo], N, error=True) if want_err else mp.chebyfit(f, [ao, bo], N)
    if mp.prec != p:
        res.bad("chebyfit:prec_leak", "%s left mp.prec = %d" % (what, mp.prec))
        mp.prec = p
    if want_err:
        if not (isinstance(out, tuple) and len(out) == 2):
            res.bad("chebyfit:type", "%s returned %r" % (what, type(out)))
            return res
        dlist, err = out
        if not isinstance(err, mp.mpf):
            res.bad("chebyfit:type", "%s returned an error estimate of type %r" % (what, type(err)))
            return res
    else:
        dlist, err = out, None
    if not _is_mpf_list(mp, dlist, N):
        res.bad("chebyfit:type", "%s returned %r (expected a list of %d mpf)" % (what, dlist, N))
        return res
    got_low = [F(v._mpf_) for v in dlist][::-1]
    T = Fraction(1 << 10, 1 << p) * max(S, A * Fmax)
    pvals = [_polyval_exact(got_low, x) for x in pts]
    actual = max(abs(pv - fv) for pv, fv in zip(pvals, fvals))
    if poly:
        full = coef + [Fraction(0)] * (N - len(coef))
        for i in range(N):
            dev = abs(got_low[i] - full[i]) * Rr ** i
            if dev > T:
                res.bad("chebyfit:coefficient", "%s: coefficient of x^%d is %s, exact %s; weighted deviation %.3g exceeds "
                                                "%.3g (S = %.3g, A = %.3g, F = %.3g)" % (
                    what, i, mp.nstr(dlist[N - 1 - i], 20), full[i], _fl(dev), _fl(T), _fl(S), _fl(A), _fl(Fmax)))
                break
        if actual > N * T:
            res.bad("chebyfit:value", "%s: the returned polynomial deviates from f by %.3g on [a, b], allowed %.3g" % (
                what, _fl(actual), _fl(N * T)))
        if err is not None:
            eF = F(err._mpf_)
            if eF < 0 or eF > 2 * N * T:
                res.bad("chebyfit:error_estimate", "%s reports the error %s for an exactly representable polynomial; "
                                                   "allowed rounding level %.3g" % (what, mp.nstr(err, 10), _fl(2 * N * T)))
    else:
        eF = F(err._mpf_)
        allow = N * T
        if eF < 0 or actual > 4 * eF + allow:
            res.bad("chebyfit:error_estimate:low", "%s reports the error %s but the actual error at a sample point is %.6g "
                                                   "(rounding allowance %.3g)" % (what, mp.nstr(err, 10), _fl(actual), _fl(allow)))
        elif eF > 2 * actual + allow:
            res.bad("chebyfit:error_estimate:high", "%s reports the error %s but the largest actual error on 4N+1 points "
                                                    "(including the points chebyfit samples) is %.6g (rounding allowance "
                                                    "%.3g)" % (what, mp.nstr(err, 10), _fl(actual), _fl(allow)))
        res.metrics["err_over_allow_log2"] = 0
    return res


# ------------------------------------------------------------------------------------------------ fourier

def _trig_ref(cc, ss, Lf, xraw, prec):
    """sum cc[k] cos(2 pi k x / L) + ss[k] sin(2 pi k x / L) with the reference library at `prec` bits (raw result);
    cc, ss lists of Fractions (exactly representable), L a Fraction, x raw"""
    import mpref
    M = mpref.mp
    old = M.prec
    try:
        M.prec = prec
        x = M.make_mpf(xraw)
        th = 2 * M.pi * x * Lf.denominator / Lf.numerator
        tot = M.mpf(0)
        for k in range(max(len(cc), len(ss))):
            ck = cc[k] if k < len(cc) else 0
            sk = ss[k] if k < len(ss) else 0
            if not ck and not sk:
                continue
            co, si = M.cos_sin(k * th)
            if ck:
                tot += M.mpf(ck.numerator) / ck.denominator * co
            if sk:
                tot += M.mpf(sk.numerator) / sk.denominator * si
        return (+tot)._mpf_
    finally:
        M.prec = old


def _check_fval_one(mp, res, what_prefix, cs_objs, ss_objs, ao, bo, aF, bF, x, p, bucket="fourierval"):
    """fourierval against its definition; cs_objs/ss_objs are repo mpf lists"""
    Lf = bF - aF
    csF = [F(v._mpf_) for v in cs_objs]
    ssF = [F(v._mpf_) for v in ss_objs]
    xF = F(x._mpf_)
    what = "%sfourierval((%s, %s), [%s, %s], %s) at prec %d" % (
        what_prefix, [_show(v) for v in cs_objs], [_show(v) for v in ss_objs], _show(ao), _show(bo), _show(x), p)
    got = mp.fourierval((cs_objs, ss_objs), [ao, bo], x)
    if mp.prec != p:
        res.bad(bucket + ":prec_leak", "%s left mp.prec = %d" % (what, mp.prec))
        mp.prec = p
    if not isinstance(got, mp.mpf):
        res.bad(bucket + ":type", "%s returned %r" % (what, type(got)))
        return
    H = 3 * p + 100
    ref = F(_trig_ref(csF, ssF, Lf, x._mpf_, H))
    nterms = sum(1 for v in csF if v) + sum(1 for v in ssF if v)
    scale = sum(abs(v) for v in csF) + sum(abs(v) for v in ssF)
    phase = abs(Fraction(710, 113) * xF / Lf)              # 2 pi |x| / L (upper bound)
    cond = sum((abs(v) * k) for k, v in enumerate(csF)) + sum((abs(v) * k) for k, v in enumerate(ssF))
    tol = Fraction(1, 1 << p) * ((4 * nterms + 4) * scale + 8 * cond * phase)
    dev = abs(F(got._mpf_) - ref)
    if dev > tol:
        res.bad(bucket + ":value", "%s = %s but the definition gives %s (difference %.3g, allowed %.3g)" % (
            what, mp.nstr(got, 25), _fl(ref), _fl(dev), _fl(tol)))


def _check_fourier(c, res):
    from mpmath import mp
    p = c["p"]
    mp.prec = p
    (ao, aF), (bo, bF) = _interval(mp, c["a"], c["b"], p)
    Lf = bF - aF
    N = c["N"]
    sc = Fraction(2) ** c["sc"]
    cc = [Fraction(n, 1 << k) * sc for n, k in c["cc"]]
    ss = [Fraction(n, 1 << k) * sc for n, k in c["ss"]]
    D = len(cc) - 1
    res.nontrivial = D >= 2
    memo = {}

    def f(t):
        key = t._mpf_
        v = memo.get(key)
        if v is None:
            v = memo[key] = _trig_ref(cc, ss, Lf, key, mp.prec + 80)
        return mp.make_mpf(v)

    what = "fourier(sum C_k cos(k m x) + S_k sin(k m x) with C = %s, S = %s, [%s, %s], %d) at prec %d" % (
        [str(v) for v in cc], [str(v) for v in ss], _show(ao), _show(bo), N, p)
    out = mp.fourier(f, [ao, bo], N)
    if mp.prec != p:
        res.bad("fourier:prec_leak", "%s left mp.prec = %d" % (what, mp.prec))
        mp.prec = p
    if not (isinstance(out, tuple) and len(out) == 2 and _is_mpf_list(mp, out[0], N + 1) and _is_mpf_list(mp, out[1], N + 1)):
        res.bad("fourier:type", "%s returned %r (expected two lists of %d mpf)" % (what, out, N + 1))
        return res
    gc, gs = out
    scale = sum(abs(v) for v in cc) + sum(abs(v) for v in ss)
    T = Fraction(1 << 10, 1 << p) * scale
    cutoff = Fraction(10, 1 << (p - 1)) * Fraction(17, 16)
    for name, got, want in (("c", gc, cc), ("s", gs, ss)):
        for k in range(N + 1):
            w = want[k] if k < len(want) else Fraction(0)
            g = F(got[k]._mpf_)
            if abs(g - w) > T:
                if g == 0 and abs(w) < cutoff:
                    res.bad("fourier:absolute_cutoff", "%s: %s_%d is returned as exactly 0 but the planted coefficient is %s "
                                                       "(scale of the function %.3g): the cutoff 10*eps is absolute" % (
                        what, name, k, w, _fl(scale)))
                else:
                    res.bad("fourier:coefficient", "%s: %s_%d = %s, planted %s (= %.17g); deviation %.3g exceeds 2^(10-p)*scale = "
                                                   "%.3g" % (what, name, k, mp.nstr(got[k], 25), w, _fl(w), _fl(abs(g - w)), _fl(T)))
                return res
    # the pair returned by fourier is the documented input of fourierval
    for xn, xk in c["xs"]:
        x = mp.mpf(xn) / (1 << xk)
        _check_fval_one(mp, res, "after fourier: ", gc, gs, ao, bo, aF, bF, x, p, bucket="fourierval")
    return res


def _check_fval(c, res):
    from mpmath import mp
    p = c["p"]
    mp.prec = p
    (ao, aF), (bo, bF) = _interval(mp, c["a"], c["b"], p)
    cs = [mp.make_mpf(U(v)) for v in c["cs"]]
    ss = [mp.make_mpf(U(v)) for v in c["ss"]]
    deg = 0
    for lst in (cs, ss):
        for k, v in enumerate(lst):
            if v and k > deg:
                deg = k
    res.nontrivial = deg >= 2
    u = Fraction(c["u"][0], 1 << c["u"][1])
    xv = aF + u * (bF - aF)
    xraw = exact.round_fraction(xv, p, "n") if xv else exact.fzero
    x = mp.make_mpf(xraw)
    _check_fval_one(mp, res, "", cs, ss, ao, bo, aF, bF, x, p)
    return res


def check_case(c):
    import mpmath
    from mpmath import mp
    res = R()
    res.cls = c["cls"]
    try:
        if c["kind"] in ("cheb_poly", "cheb_fun"):
            return _check_cheb(c, res)
        if c["kind"] == "fourier":
            return _check_fourier(c, res)
        return _check_fval(c, res)
    finally:
        mp.prec = 53


# ------------------------------------------------------------------------------------------ known-finding regions

def region_fourier_tiny(case):
    """fourier of a function whose size is below 10*eps: the absolute cutoff returns zeros"""
    return case.get("kind") == "fourier" and bool(case.get("tiny"))


REGIONS = {"fourier_tiny": region_fourier_tiny}
