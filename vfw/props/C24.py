"""C24 -- function evaluations terminate (bounded work) or raise a documented exception."""
import sys

from .. import exact, gen, catalogue as cat
from ..core import R, time_limit, CaseTimeout
from ..exact import fzero, finf, fninf, fnan, raw_json as J, raw_unjson as U
from . import _special

ID = "C24"
LEVEL = "exploration"
CASE_TIMEOUT = 400.0
BUDGET = 5 * 10**7
RULE = ("Cases = (function from the elementary and special-function catalogue (~230 names), finite real or complex "
        "arguments with |component| <= 1e6, precision p in [10, 3300] drawn uniformly as well as from the algorithm "
        "thresholds, i.e. not only 'nice' precisions). Arguments are biased toward the edges of validity of asymptotic "
        "expansions: integers and integers +- 2^-k, large negative real part with small imaginary part (psi, polygamma, "
        "loggamma), |z| ~ p ln 2 (erfc/ei/expint switches), order ~ argument for Bessel functions, |z| ~ 1 for 2F1/"
        "polylog/lerchphi, nomes near the unit circle. Oracle (deterministic work budget): the call must return, or "
        "raise one of ValueError, ZeroDivisionError, NoConvergence, NotImplementedError, ComplexResult, OverflowError, "
        "TypeError, before the harness has counted %d function entries plus backward jumps (sys.monitoring PY_START and "
        "JUMP events; a pure function of code and input, unlike wall-clock time). The largest count of any terminating "
        "call of the run is recorded in the evidence. Second budget: CPU time of the process inside the call (ITIMER_"
        "VIRTUAL; 90 s quick / 600 s thorough, far above the few seconds of the costliest legitimate call), which "
        "catches loops whose iterations grow ever more expensive. A call stopped by the 600 s wall-clock safety net "
        "before either budget is inconclusive. Any other exception type (MemoryError, RecursionError, "
        "UnboundLocalError, ...) violates 'raises a documented exception'. Non-trivial = work count above 20000 events "
        "or an exception was raised.") % BUDGET
ASSUMPTIONS = ["'bounded amount of computation' is read as: at most 5e7 interpreter events (function entries + loop iterations)"]
TECHNIQUE = "property-based testing (Hypothesis) with a deterministic work budget counted through sys.monitoring"


class BudgetExceeded(BaseException):
    pass


class CpuBudgetExceeded(BaseException):
    pass


# Second budget: CPU time consumed by this process inside the call (ITIMER_VIRTUAL, i.e. not wall-clock time and not
# affected by other processes).  An event budget alone misses loops whose iterations get ever more expensive (integers
# that grow without bound): such a loop executes few events per second.  The largest legitimate call of the generated
# domain uses a few seconds at the precisions of the tier; the budget is far above that.
CPU_BUDGET = {"quick": 90, "thorough": 600}


class cpu_limit:
    def __init__(self, seconds):
        self.seconds = seconds

    def _handler(self, signum, frame):
        raise CpuBudgetExceeded()

    def __enter__(self):
        import signal
        self._old = signal.signal(signal.SIGVTALRM, self._handler)
        signal.setitimer(signal.ITIMER_VIRTUAL, self.seconds)
        return self

    def __exit__(self, et, ev, tb):
        import signal
        signal.setitimer(signal.ITIMER_VIRTUAL, 0)
        signal.signal(signal.SIGVTALRM, self._old)
        return False


_state = {"cnt": 0, "on": False, "init": False}
TOOL = 2


def _init():
    if _state["init"]:
        return
    mon = sys.monitoring
    try:
        mon.use_tool_id(TOOL, "vfw-budget")
    except ValueError:
        pass

    def on_start(code, off):
        _state["cnt"] += 1
        if _state["cnt"] > BUDGET:
            raise BudgetExceeded()

    def on_jump(code, src, dst):
        if dst < src:
            _state["cnt"] += 1
            if _state["cnt"] > BUDGET:
                raise BudgetExceeded()

    mon.register_callback(TOOL, mon.events.PY_START, on_start)
    mon.register_callback(TOOL, mon.events.JUMP, on_jump)
    _state["init"] = True


def counted(f, *a, **k):
    _init()
    mon = sys.monitoring
    _state["cnt"] = 0
    mon.set_events(TOOL, mon.events.PY_START | mon.events.JUMP)
    try:
        return f(*a, **k)
    finally:
        mon.set_events(TOOL, 0)


def shards(tier):
    if tier == "quick":
        return [("f", 350)] * 4 + [("m", 90)] * 4 + [("s", 15)] * 2 + [("switch", 2500)] * 6
    return [("f", 8000)] * 5 + [("m", 2000)] * 5 + [("s", 300)] * 2 + [("switch", 8000)] * 4


def _edge_args(d, name, p):
    args = cat.gen_args(d, name, p)
    spec = cat.FUNCS[name][0]
    k = d.weighted([(4, "plain"), (4, "integer"), (3, "near_int"), (3, "big"), (3, "negre_smallim"), (2, "switch"), (2, "unit")])
    idx = [i for i, ch in enumerate(spec) if ch in "zxptum"]
    if not idx or k == "plain":
        return args, k
    i = d.choice(idx)
    ch = spec[i]
    if k == "integer":
        n = d.int(-30, 60) if ch not in "pUw" else d.int(1, 60)
        args[i] = ["mpf", J(exact.from_int(n))]
    elif k == "near_int":
        n = d.int(-30, 30) if ch not in "pUw" else d.int(1, 30)
        kk = d.int(1, 2 * min(p, 300))
        args[i] = ["mpf", J(exact.mk(0 if n >= 0 else 1, (abs(n) << kk) + d.choice([1, -1]) if n else 1, -kk))]
    elif k == "big":
        v = d.int(1, 10**6)
        r = exact.mk(d.int(0, 1) if ch not in "pUw" else 0, v * 8 + d.int(0, 7), -3)
        if ch in "zm" and d.bool():
            args[i] = ["mpc", [J(r), J(exact.mk(d.int(0, 1), d.int(1, 10**6), -d.int(0, 10)))]]
        else:
            args[i] = ["mpf", J(r)]
    elif k == "negre_smallim":
        if ch in "zm":
            re = exact.mk(1, d.int(1, 10**5) * 4 + d.int(0, 3), -2)
            im = exact.mk(d.int(0, 1), d.int(1, 1000), -d.int(3, 40))
            args[i] = ["mpc", [J(re), J(im)]]
    elif k == "switch":
        # |z| close to p*ln 2 or sqrt(p ln 2)
        t = d.choice([p * 0.6931, (p * 0.6931) ** 0.5, p, p / 2.0])
        v = int(t * 16) + d.int(-16, 16)
        args[i] = ["mpf", J(exact.mk(0 if ch in "pUw" else d.int(0, 1), max(1, v), -4))]
    elif k == "unit":
        kk = d.int(1, min(p, 200))
        r = exact.mk(d.int(0, 1) if ch not in "pUw" else 0, (1 << kk) + d.choice([1, -1]), -kk)
        args[i] = ["mpf", J(r)] if ch not in "zm" or d.bool() else ["mpc", [J(r), J(exact.mk(d.int(0, 1), 1, -d.int(1, 60)))]]
    return args, k


SWITCH_FUNCS = ["erf", "erfc", "erfc", "ncdf", "ei", "e1", "li", "si", "ci", "shi", "chi", "erfi", "fresnels", "fresnelc", "airyai", "airybi",
                "expint", "gammainc", "besselj", "bessely", "besseli", "besselk", "struveh", "struvel"]


def gen_switch(d, tier):
    """arguments scanned finely across the series/asymptotic-expansion switch-over: x^2 ~ (p+c) ln 2 or x ~ (p+c) ln 2"""
    name = d.choice(SWITCH_FUNCS)
    p = d.int(10, 700 if tier == "quick" else 3300)
    c0 = d.int(-12, 60)
    base = (p + c0) * 0.6931471805599453
    if name in ("erf", "erfc", "ncdf", "erfi", "fresnels", "fresnelc", "airyai", "airybi") and d.int(0, 3):
        t = max(base, 0.01) ** 0.5
    else:
        t = max(base, 0.01) * d.choice([1.0, 1.0, 0.5, 2.0])
    v = int(t * 64) + d.int(-32, 32)
    x = exact.mk(d.int(0, 1) if name in ("erf", "erfc", "ncdf", "erfi", "airyai", "airybi", "si", "shi") and d.int(0, 3) == 0 else 0, max(1, v), -6)
    spec = cat.FUNCS[name][0]
    args = cat.gen_args(d, name, p)
    args[len(spec) - 1] = ["mpf", J(x)] if d.int(0, 5) or spec[-1] not in "z" else ["mpc", [J(x), J(exact.mk(d.int(0, 1), 1, -d.int(1, 40)))]]
    return {"name": name, "p": p, "args": args, "tier": tier, "cls": "%s:switchscan" % name}


def gen_case(d, shard, tier):
    if shard == "switch":
        return gen_switch(d, tier)
    name = d.choice(cat.names(shard))
    if shard == "f":
        p = d.int(10, 3300) if d.bool() else d.choice([47, 48, 49, 50, 53, 100, 119, 120, 121, 122, 123, 400, 600, 1000, 1500, 2500, 3000])
        if tier == "quick":
            p = min(p, 1200)
    elif shard == "m":
        p = d.int(10, 400 if tier == "quick" else 1500)
    else:
        p = d.int(10, 80 if tier == "quick" else 300)
    args, k = _edge_args(d, name, p)
    return {"name": name, "p": p, "args": args, "tier": tier, "cls": "%s:%s" % (name, k)}


def check_case(c):
    import mpmath
    from mpmath import mp
    res = R()
    res.cls = c["cls"]
    name, p = c["name"], c["p"]
    DOC = cat.documented_exceptions()
    what = "%s(%s) at prec %d" % (name, ", ".join(_special._fmt(a) for a in c["args"]), p)
    mp.prec = p
    try:
        args = cat.build_args(mp, c["args"])
        f = getattr(mp, name)
        import time as _time
        cpu0 = _time.process_time()
        try:
            with time_limit(600.0):
                with cpu_limit(CPU_BUDGET[c.get("tier", "quick")]):
                    counted(f, *args)
        except DOC:
            res.nontrivial = True
        except CpuBudgetExceeded:
            res.bad("cpu-budget:%s" % name, "%s did not finish within %d s of CPU time of this process (%d events counted; the loop "
                    "iterations keep getting more expensive, e.g. ever growing integers)" % (what, CPU_BUDGET[c.get("tier", "quick")], _state["cnt"]))
            return res
        except BudgetExceeded:
            res.bad("budget:%s" % name, "%s did not finish within %d interpreter events (function entries + loop iterations)" % (what, BUDGET))
            return res
        except CaseTimeout:
            res.inconclusive = True
            return res
        except (MemoryError, RecursionError) as e:
            res.bad("exception:%s:%s" % (type(e).__name__, name), "%s raised %s" % (what, type(e).__name__))
            return res
        # other exception types propagate: the runner reports exceptions raised inside mpmath as violations
        cnt = _state["cnt"]
        res.metrics["max_events"] = cnt
        res.metrics["max_events:" + name] = cnt
        if cnt > 20000:
            res.nontrivial = True
        return res
    finally:
        sys.monitoring.set_events(TOOL, 0)
        mp.prec = 53
