"""C24 -- function evaluations terminate (bounded work) or raise a documented exception."""
import sys

from .. import exact, gen, catalogue as cat
from ..core import R, time_limit, CaseTimeout
from ..exact import fzero, finf, fninf, fnan, raw_json as J, raw_unjson as U
from . import _special

ID = "C24"
LEVEL = "exploration"
CASE_TIMEOUT = 400.0
BUDGET = 5 * 10**7
RULE = ("Cases = (function from the elementary and special-function catalogue (~230 names), finite real or complex "
        "arguments with |component| <= 1e6, precision p in [10, 3300] drawn uniformly as well as from the algorithm "
        "thresholds, i.e. not only 'nice' precisions). Arguments are biased toward the edges of validity of asymptotic "
        "expansions: integers and integers +- 2^-k, large negative real part with small imaginary part (psi, polygamma, "
        "loggamma), |z| ~ p ln 2 (erfc/ei/expint switches), order ~ argument for Bessel functions, |z| ~ 1 for 2F1/"
        "polylog/lerchphi, nomes near the unit circle. Oracle (deterministic work budget): the call must return, or "
        "raise one of ValueError, ZeroDivisionError, NoConvergence, NotImplementedError, ComplexResult, OverflowError, "
        "TypeError, before the harness has counted %d function entries plus backward jumps (sys.monitoring PY_START and "
        "JUMP events; a pure function of code and input, unlike wall-clock time). The largest count of any terminating "
        "call of the run is recorded in the evidence (budget is > 100x that). A call stopped by the 300 s wall-clock "
        "safety net before the event budget is inconclusive. Any other exception type (MemoryError, RecursionError, "
        "UnboundLocalError, ...) violates 'raises a documented exception'. Non-trivial = work count above 20000 events "
        "or an exception was raised.") % BUDGET
ASSUMPTIONS = ["'bounded amount of computation' is read as: at most 5e7 interpreter events (function entries + loop iterations)"]
TECHNIQUE = "property-based testing (Hypothesis) with a deterministic work budget counted through sys.monitoring"


class BudgetExceeded(BaseException):
    pass


_state = {"cnt": 0, "on": False, "init": False}
TOOL = 2


def _init():
    if _state["init"]:
        return
    mon = sys.monitoring
    try:
        mon.use_tool_id(TOOL, "vfw-budget")
    except ValueError:
        pass

    def on_start(code, off):
        _state["cnt"] += 1
        if _state["cnt"] > BUDGET:
            raise BudgetExceeded()

    def on_jump(code, src, dst):
        if dst < src:
            _state["cnt"] += 1
            if _state["cnt"] > BUDGET:
                raise BudgetExceeded()

    mon.register_callback(TOOL, mon.events.PY_START, on_start)
    mon.register_callback(TOOL, mon.events.JUMP, on_jump)
    _state["init"] = True


def counted(f, *a, **k):
    _init()
    mon = sys.monitoring
    _state["cnt"] = 0
    mon.set_events(TOOL, mon.events.PY_START | mon.events.JUMP)
    try:
        return f(*a, **k)
    finally:
        mon.set_events(TOOL, 0)


def shards(tier):
    if tier == "quick":
        return [("f", 350)] * 6 + [("m", 90)] * 7 + [("s", 15)] * 3
    return [("f", 8000)] * 6 + [("m", 2000)] * 7 + [("s", 300)] * 3


def _edge_args(d, name, p):
    args = cat.gen_args(d, name, p)
    spec = cat.FUNCS[name][0]
    k = d.weighted([(4, "plain"), (4, "integer"), (3, "near_int"), (3, "big"), (3, "negre_smallim"), (2, "switch"), (2, "unit")])
    idx = [i for i, ch in enumerate(spec) if ch in "zxptum"]
    if not idx or k == "plain":
        return args, k
    i = d.choice(idx)
    ch = spec[i]
    if k == "integer":
        n = d.int(-30, 60) if ch not in "pUw" else d.int(1, 60)
        args[i] = ["mpf", J(exact.from_int(n))]
    elif k == "near_int":
        n = d.int(-30, 30) if ch not in "pUw" else d.int(1, 30)
        kk = d.int(1, 2 * min(p, 300))
        args[i] = ["mpf", J(exact.mk(0 if n >= 0 else 1, (abs(n) << kk) + d.choice([1, -1]) if n else 1, -kk))]
    elif k == "big":
        v = d.int(1, 10**6)
        r = exact.mk(d.int(0, 1) if ch not in "pUw" else 0, v * 8 + d.int(0, 7), -3)
        if ch in "zm" and d.bool():
            args[i] = ["mpc", [J(r), J(exact.mk(d.int(0, 1), d.int(1, 10**6), -d.int(0, 10)))]]
        else:
            args[i] = ["mpf", J(r)]
    elif k == "negre_smallim":
        if ch in "zm":
            re = exact.mk(1, d.int(1, 10**5) * 4 + d.int(0, 3), -2)
            im = exact.mk(d.int(0, 1), d.int(1, 1000), -d.int(3, 40))
            args[i] = ["mpc", [J(re), J(im)]]
    elif k == "switch":
        # |z| close to p*ln 2 or sqrt(p ln 2)
        t = d.choice([p * 0.6931, (p * 0.6931) ** 0.5, p, p / 2.0])
        v = int(t * 16) + d.int(-16, 16)
        args[i] = ["mpf", J(exact.mk(0 if ch in "pUw" else d.int(0, 1), max(1, v), -4))]
    elif k == "unit":
        kk = d.int(1, min(p, 200))
        r = exact.mk(d.int(0, 1) if ch not in "pUw" else 0, (1 << kk) + d.choice([1, -1]), -kk)
        args[i] = ["mpf", J(r)] if ch not in "zm" or d.bool() else ["mpc", [J(r), J(exact.mk(d.int(0, 1), 1, -d.int(1, 60)))]]
    return args, k


def gen_case(d, shard, tier):
    name = d.choice(cat.names(shard))
    if shard == "f":
        p = d.int(10, 3300) if d.bool() else d.choice([47, 48, 49, 50, 53, 100, 119, 120, 121, 122, 123, 400, 600, 1000, 1500, 2500, 3000])
        if tier == "quick":
            p = min(p, 1200)
    elif shard == "m":
        p = d.int(10, 400 if tier == "quick" else 1500)
    else:
        p = d.int(10, 80 if tier == "quick" else 300)
    args, k = _edge_args(d, name, p)
    return {"name": name, "p": p, "args": args, "cls": "%s:%s" % (name, k)}


def check_case(c):
    import mpmath
    from mpmath import mp
    res = R()
    res.cls = c["cls"]
    name, p = c["name"], c["p"]
    DOC = cat.documented_exceptions()
    what = "%s(%s) at prec %d" % (name, ", ".join(_special._fmt(a) for a in c["args"]), p)
    mp.prec = p
    try:
        args = cat.build_args(mp, c["args"])
        f = getattr(mp, name)
        try:
            with time_limit(300.0):
                counted(f, *args)
        except DOC:
            res.nontrivial = True
        except BudgetExceeded:
            res.bad("budget:%s" % name, "%s did not finish within %d interpreter events (function entries + loop iterations)" % (what, BUDGET))
            return res
        except CaseTimeout:
            res.inconclusive = True
            return res
        except (MemoryError, RecursionError) as e:
            res.bad("exception:%s:%s" % (type(e).__name__, name), "%s raised %s" % (what, type(e).__name__))
            return res
        # other exception types propagate: the runner reports exceptions raised inside mpmath as violations
        cnt = _state["cnt"]
        res.metrics["max_events"] = cnt
        res.metrics["max_events:" + name] = cnt
        if cnt > 20000:
            res.nontrivial = True
        return res
    finally:
        sys.monitoring.set_events(TOOL, 0)
        mp.prec = 53
