"""C25 -- integer-valued and number-theoretic functions are exact."""
import math
from fractions import Fraction

from .. import exact, gen
from ..core import R, Collector
from ..exact import fzero, finf, fninf, fnan, raw_json as J, raw_unjson as U

ID = "C25"
LEVEL = "exploration"
CASE_TIMEOUT = 120.0
RULE = ("Cases = (function, integer arguments, precision) over each function's supported range with labelled cache "
        "boundaries: factorial/fac2/binomial/rf/ff for n in [-50, 5000] and around the factorial cache size; fib n in "
        "[-300, 1e5] and 249/250; bernoulli n in [0, 3000] called in generated orders at precisions around multiples "
        "of 32 and above the exact-fraction cutoff; eulernum n <= 400 in generated order; stirling1/2 n,k <= 120; bell "
        "<= 150; bernpoly/eulerpoly degree <= 50 at integer and rational x; primepi x <= 2e5; mangoldt n <= 1e12 incl. "
        "prime powers and neighbours; cyclotomic n <= 300; moebius n <= 3e4; list_primes n <= 1e5; bernfrac n <= 1500; "
        "exact=True variants; isprime: EXHAUSTIVE for every n < 2e5 against a sieve, plus strong pseudoprimes to the "
        "first prime bases (psi_2 = 2047 ... psi_7 = 341550071728321 and the 2,3-pseudoprimes below 25326001), "
        "Carmichael numbers, and products of two random primes up to 3.4e14. Oracle: independent exact recurrences "
        "(math.factorial, fast-doubling Fibonacci, Akiyama-Tanigawa Bernoulli over Fraction, Seidel Euler numbers, "
        "triangle recurrences for Stirling/Bell, sieve, trial division, exact polynomial division). The result must "
        "equal the exact value when it fits in p bits, else be within 1 ulp; exact=True must return the exact Python "
        "int. Non-trivial = argument beyond 30, or at a labelled boundary, or not the first call of that function in "
        "the process.")
ASSUMPTIONS = ["CPython integer/Fraction arithmetic and the harness' textbook recurrences"]
TECHNIQUE = "property-based testing (Hypothesis) against independent exact recurrences; exhaustive sieve comparison for isprime below 2e5"

_cache = {}


def shards(tier):
    n = 1500 if tier == "quick" else 25000
    return [("exh:isprime", 1)] + [("fact", n)] * 3 + [("bern", n // 2)] * 3 + [("comb", n // 2)] * 3 + [("prime", n)] * 3 + [("poly", n // 3)] * 2


# ------------------------------------------------------------------------------------------ oracles

def bernoulli_exact(nmax):
    """B_0..B_nmax (B_1 = -1/2) by the Akiyama-Tanigawa algorithm"""
    key = ("bern", nmax)
    for (k, v) in list(_cache.items()):
        if k[0] == "bern" and k[1] >= nmax:
            return v
    B = []
    A = [Fraction(0)] * (nmax + 1)
    for m in range(nmax + 1):
        A[m] = Fraction(1, m + 1)
        for j in range(m, 0, -1):
            A[j - 1] = j * (A[j - 1] - A[j])
        B.append(A[0])
    if nmax >= 1:
        B[1] = Fraction(-1, 2)
    _cache[key] = B
    return B


def bernoulli_single(n):
    """B_n via the recurrence sum_{k<n} C(n+1,k) B_k = 0 using cached lower values (for larger n)"""
    key = "bernlist"
    B = _cache.setdefault(key, [Fraction(1), Fraction(-1, 2)])
    while len(B) <= n:
        m = len(B)
        if m % 2 == 1:
            B.append(Fraction(0))
            continue
        s = Fraction(0)
        c = 1
        for k in range(m):
            s += c * B[k]
            c = c * (m + 1 - k) // (k + 1)
        B.append(-s / (m + 1))
    return B[n]


def euler_numbers(nmax):
    """E_0..E_nmax via the relation with up/down (zigzag) numbers"""
    key = ("euler", nmax)
    if key in _cache:
        return _cache[key]
    # secant numbers through the Seidel triangle
    E = [0] * (nmax + 1)
    row = [1]
    zig = [1]
    for n in range(1, nmax + 1):
        new = [0]
        for k in range(n):
            new.append(new[-1] + row[n - 1 - k])
        row = new
        zig.append(row[-1])
    for n in range(0, nmax + 1, 2):
        E[n] = (-1) ** (n // 2) * zig[n]
    _cache[key] = E
    return E


def stirling1_exact(n, k):
    T = _cache.setdefault("s1", {(0, 0): 1})
    def s(n, k):
        if (n, k) in T:
            return T[(n, k)]
        if n == 0 or k == 0 or k > n:
            return 1 if n == k == 0 else 0
        v = s(n - 1, k - 1) - (n - 1) * s(n - 1, k)
        T[(n, k)] = v
        return v
    import sys
    sys.setrecursionlimit(max(sys.getrecursionlimit(), 5000))
    return s(n, k)


def stirling2_exact(n, k):
    if k > n or k < 0:
        return 0
    return sum((-1) ** (k - j) * math.comb(k, j) * j ** n for j in range(k + 1)) // math.factorial(k)


def bell_exact(n):
    return sum(stirling2_exact(n, k) for k in range(n + 1))


def fib_exact(n):
    def fd(n):
        if n == 0:
            return (0, 1)
        a, b = fd(n >> 1)
        c = a * (2 * b - a)
        dd = a * a + b * b
        return (dd, c + dd) if n & 1 else (c, dd)
    if n >= 0:
        return fd(n)[0]
    return (-1) ** (-n + 1) * fd(-n)[0]


def sieve(n):
    key = ("sieve", n)
    if key in _cache:
        return _cache[key]
    s = bytearray([1]) * (n + 1)
    s[0:2] = b"\0\0"
    for i in range(2, int(n ** 0.5) + 1):
        if s[i]:
            s[i * i::i] = bytearray(len(range(i * i, n + 1, i)))
    _cache[key] = s
    return s


def is_prime_td(n):
    """deterministic: trial division by primes below 2e5 then Miller-Rabin with 12 bases (valid below 3.3e24)"""
    if n < 2:
        return False
    for p in (2, 3, 5, 7, 11, 13, 17, 19, 23, 29, 31, 37):
        if n % p == 0:
            return n == p
    dd, s = n - 1, 0
    while dd % 2 == 0:
        dd //= 2
        s += 1
    for a in (2, 3, 5, 7, 11, 13, 17, 19, 23, 29, 31, 37):
        x = pow(a, dd, n)
        if x in (1, n - 1):
            continue
        for _ in range(s - 1):
            x = x * x % n
            if x == n - 1:
                break
        else:
            return False
    return True


def factorize(n):
    f = {}
    dd = 2
    while dd * dd <= n and dd < 2000000:
        while n % dd == 0:
            f[dd] = f.get(dd, 0) + 1
            n //= dd
        dd += 1 if dd == 2 else 2
    if n > 1:
        f[n] = f.get(n, 0) + 1
    return f


def cyclotomic_poly(n):
    """integer coefficient list (low to high) of the n-th cyclotomic polynomial"""
    key = ("cyc", n)
    if key in _cache:
        return _cache[key]
    def pdiv(a, b):
        a = a[:]
        q = [0] * (len(a) - len(b) + 1)
        for i in range(len(q) - 1, -1, -1):
            q[i] = a[i + len(b) - 1] // b[-1]
            for j, bj in enumerate(b):
                a[i + j] -= q[i] * bj
        return q
    p = [-1] + [0] * (n - 1) + [1]
    for dd in range(1, n):
        if n % dd == 0:
            p = pdiv(p, cyclotomic_poly(dd))
    _cache[key] = p
    return p


# ------------------------------------------------------------------------------------------ generation

PSEUDO = [2047, 1373653, 25326001, 3215031751, 2152302898747, 3474749660383, 341550071728321,
          1530787, 1987021, 2284453, 3116107, 5173601, 6787327, 11541307, 13694761, 15978007, 16070429, 16879501,
          561, 1105, 1729, 2465, 2821, 6601, 8911, 10585, 15841, 29341, 41041, 46657, 52633, 62745, 63973, 75361, 101101, 115921,
          126217, 162401, 172081, 188461, 252601, 278545, 294409, 314821, 334153, 340561, 399001, 410041, 449065, 488881, 512461,
          3825123056546413051]


def gen_case(d, shard, tier):
    p = gen.prec(d, 10, 600) if d.int(0, 2) else d.choice([53, 53, 64, 31, 32, 33, 63, 65, 95, 96, 97, 127, 128, 129])
    if shard == "fact":
        fn = d.choice(["factorial", "fac2", "binomial", "rf", "ff", "fib"])
        n = d.weighted([(5, "small"), (3, "mid"), (2, "edge"), (1, "neg"), (1, "big")])
        N = {"small": d.int(0, 60), "mid": d.int(60, 1200), "edge": d.choice([999, 1000, 1001, 1002, 249, 250, 251, 169, 170, 171]),
             "neg": -d.int(1, 50), "big": d.int(1200, 5000)}[n]
        k = d.int(0, max(0, min(abs(N), 80))) if d.bool() else d.int(-3, 40)
        if fn == "fib" and n == "big":
            N = d.int(5000, 100000)
        return {"fn": fn, "n": N, "k": k, "p": p, "cls": "%s:%s" % (fn, n)}
    if shard == "bern":
        fn = d.choice(["bernoulli", "bernoulli", "bernfrac", "eulernum", "eulernum_exact"])
        seq = []
        for _ in range(d.int(1, 5)):
            nn = d.choice([0, 1, 2, 3, 4, 8, 10, 12, 20, 50, 100, 198, 200, 300, 600, 1000, 2998, 3000, 3002]) if d.bool() else d.int(0, 400)
            if fn.startswith("eulernum"):
                nn = min(nn, 300)
            pp = d.choice([p, p, 53, 31, 32, 33, 64, 1100, 3100 if tier == "thorough" else 200])
            seq.append([nn, pp])
        return {"fn": fn, "seq": seq, "p": p, "cls": fn}
    if shard == "comb":
        fn = d.choice(["stirling1", "stirling2", "stirling1_exact", "stirling2_exact", "bell"])
        n = d.int(0, 120 if tier == "thorough" else 70)
        return {"fn": fn, "n": n, "k": d.int(0, n + 2), "p": p, "cls": fn}
    if shard == "prime":
        fn = d.choice(["isprime", "isprime", "moebius", "primepi", "mangoldt", "list_primes"])
        kind = d.weighted([(3, "small"), (4, "pseudo"), (3, "semiprime"), (3, "prime"), (2, "primepower"), (2, "big")])
        if kind == "small":
            n = d.int(-5, 3000)
        elif kind == "pseudo":
            n = d.choice(PSEUDO)
        elif kind == "semiprime":
            a = _rand_prime(d, 10 ** d.int(2, 7))
            b = _rand_prime(d, 10 ** d.int(2, 7))
            n = a * b
        elif kind == "prime":
            n = _rand_prime(d, 10 ** d.int(2, 14))
        elif kind == "primepower":
            a = _rand_prime(d, 10 ** d.int(1, 4))
            n = a ** d.int(1, 6) + d.choice([0, 0, 1, -1])
        else:
            n = d.int(10 ** 6, 34 * 10 ** 13)
        if fn == "moebius":
            n = abs(n) % 30000 + 1
        if fn == "primepi":
            n = abs(n) % 200000
        if fn == "list_primes":
            n = abs(n) % 100000
        if fn == "mangoldt":
            n = abs(n) % 10 ** 12 + 1
        return {"fn": fn, "n": n, "p": p, "cls": "%s:%s" % (fn, kind)}
    fn = d.choice(["bernpoly", "eulerpoly", "cyclotomic"])
    deg = d.int(0, 50)
    if fn == "cyclotomic":
        deg = d.int(0, 300 if tier == "thorough" else 150)
    num, den = d.int(-40, 40), d.choice([1, 1, 2, 3, 4, 8])
    return {"fn": fn, "n": deg, "num": num, "den": den, "p": p, "cls": fn}


def _rand_prime(d, hi):
    n = d.int(2, max(3, hi))
    while not is_prime_td(n):
        n += 1
    return n


# ------------------------------------------------------------------------------------------ checking

def within(res, bucket, got_raw, exact_fr, p, what, ulps=1):
    """exact when it fits p bits, otherwise within `ulps` ulp"""
    if got_raw[1] == 0 and got_raw != fzero:
        return res.bad(bucket, "%s = %s, exact value %s" % (what, exact.raw_str(got_raw), exact_fr))
    prob = exact.canonical_problem(got_raw)
    if prob:
        return res.bad(bucket + ":noncanonical", what + ": " + prob)
    lo, hi = exact.round_fraction(exact_fr, p, "f"), exact.round_fraction(exact_fr, p, "c")
    if tuple(lo) == tuple(hi):
        if tuple(got_raw) != tuple(lo):
            res.bad(bucket + ":exact", "%s = %s but the exact value %s fits in %d bits" % (what, exact.raw_str(got_raw), exact.raw_str(lo), p))
        return
    if tuple(got_raw) in (tuple(lo), tuple(hi)):
        return
    g = exact.to_fraction(got_raw)
    # ulp of the result at p bits
    a = abs(exact_fr)
    k = a.numerator.bit_length() - a.denominator.bit_length()
    if Fraction(2) ** k > a:
        k -= 1
    ulp = Fraction(2) ** (k - p + 1)
    if abs(g - exact_fr) > ulps * ulp:
        res.bad(bucket + ":ulp", "%s = %s is more than %d ulp from the exact value (neighbours %s, %s)" % (
            what, exact.raw_str(got_raw), ulps, exact.raw_str(lo), exact.raw_str(hi)))


def check_case(c):
    import mpmath
    from mpmath import mp, libmp
    res = R()
    res.cls = c["cls"]
    fn, p = c["fn"], c["p"]
    mp.prec = p
    DOCEXC = (ValueError, ZeroDivisionError, OverflowError, NotImplementedError)
    try:
        if fn in ("factorial", "fac2", "binomial", "rf", "ff", "fib"):
            n, k = c["n"], c["k"]
            res.nontrivial = abs(n) > 30
            try:
                if fn == "factorial":
                    if n < 0:
                        res.rejected = True
                        return res
                    got, want = mp.factorial(n), Fraction(math.factorial(n))
                elif fn == "fac2":
                    if n < -1:
                        res.rejected = True
                        return res
                    want = Fraction(1)
                    for j in range(n, 0, -2):
                        want *= j
                    got = mp.fac2(n)
                elif fn == "binomial":
                    if n < 0 or k < 0:
                        res.rejected = True
                        return res
                    got, want = mp.binomial(n, k), Fraction(math.comb(n, k))
                elif fn == "rf":
                    k = abs(k)
                    want = Fraction(1)
                    for j in range(k):
                        want *= (n + j)
                    got = mp.rf(n, k)
                elif fn == "ff":
                    k = abs(k)
                    want = Fraction(1)
                    for j in range(k):
                        want *= (n - j)
                    got = mp.ff(n, k)
                else:
                    got, want = mp.fib(n), Fraction(fib_exact(n))
            except DOCEXC:
                res.rejected = True
                return res
            if not hasattr(got, "_mpf_"):
                return res.bad(fn + ":type", "%s(%d,%d) returned %r" % (fn, n, k, type(got)))
            within(res, fn, got._mpf_, want, p, "%s(%d%s) at prec %d" % (fn, n, (", %d" % k) if fn in ("binomial", "rf", "ff") else "", p))
            return res
        if fn in ("bernoulli", "bernfrac", "eulernum", "eulernum_exact"):
            res.nontrivial = True
            res.n = len(c["seq"])
            for nn, pp in c["seq"]:
                mp.prec = pp
                if fn == "bernoulli":
                    want = bernoulli_single(nn) if nn <= 3002 else None
                    got = mp.bernoulli(nn)
                    within(res, "bernoulli", got._mpf_, want, pp, "bernoulli(%d) at prec %d" % (nn, pp))
                elif fn == "bernfrac":
                    want = bernoulli_single(min(nn, 1500))
                    a, b = mp.bernfrac(min(nn, 1500))
                    if type(a) is not int and not isinstance(a, int) or b <= 0 or math.gcd(a, b) != 1 or Fraction(a, b) != want:
                        res.bad("bernfrac", "bernfrac(%d) = %r/%r, exact %s" % (min(nn, 1500), a, b, want))
                elif fn == "eulernum":
                    E = euler_numbers(300)
                    got = mp.eulernum(nn)
                    within(res, "eulernum", got._mpf_, Fraction(E[nn]), pp, "eulernum(%d) at prec %d" % (nn, pp))
                else:
                    E = euler_numbers(300)
                    got = mp.eulernum(nn, exact=True)
                    if int(got) != E[nn] or hasattr(got, "_mpf_"):
                        res.bad("eulernum:exact", "eulernum(%d, exact=True) = %r, exact %d" % (nn, got, E[nn]))
            return res
        if fn in ("stirling1", "stirling2", "stirling1_exact", "stirling2_exact", "bell"):
            n, k = c["n"], c["k"]
            res.nontrivial = n > 30
            if fn == "bell":
                got, want = mp.bell(n), bell_exact(n)
                within(res, "bell", got._mpf_, Fraction(want), p, "bell(%d) at prec %d" % (n, p))
                return res
            base = fn.split("_")[0]
            want = stirling1_exact(n, k) if base == "stirling1" else stirling2_exact(n, k)
            if fn.endswith("_exact"):
                got = getattr(mp, base)(n, k, exact=True)
                if hasattr(got, "_mpf_") or int(got) != want:
                    res.bad(fn, "%s(%d,%d,exact=True) = %r, exact %d" % (base, n, k, got, want))
            else:
                got = getattr(mp, base)(n, k)
                within(res, base, got._mpf_, Fraction(want), p, "%s(%d,%d) at prec %d" % (base, n, k, p))
            return res
        if fn in ("isprime", "moebius", "primepi", "mangoldt", "list_primes"):
            n = c["n"]
            res.nontrivial = n > 30
            if fn == "isprime":
                got = mp.isprime(n)
                want = is_prime_td(n) if n >= 0 else False
                if n >= 34 * 10 ** 13:
                    res.rejected = True       # only probabilistic beyond the documented deterministic range
                    return res
                if bool(got) != want:
                    res.bad("isprime", "isprime(%d) = %r, exact %r" % (n, got, want))
            elif fn == "moebius":
                f = factorize(n)
                want = 0 if any(e > 1 for e in f.values()) else (-1) ** len(f)
                got = mp.moebius(n)
                if got != want:
                    res.bad("moebius", "moebius(%d) = %r, exact %d" % (n, got, want))
            elif fn == "primepi":
                s = sieve(200000)
                want = sum(s[:n + 1])
                got = mp.primepi(n)
                if int(got) != want:
                    res.bad("primepi", "primepi(%d) = %r, exact %d" % (n, got, want))
            elif fn == "list_primes":
                s = sieve(100000)
                want = [i for i in range(n + 1) if s[i]]
                got = [int(x) for x in mp.list_primes(n)]
                if got != want:
                    res.bad("list_primes", "list_primes(%d) differs from the sieve (len %d vs %d)" % (n, len(got), len(want)))
            else:
                f = factorize(n)
                got = mp.mangoldt(n)
                if len(f) == 1:
                    (q, _), = f.items()
                    # log q within 1 ulp: compare with MPFR-free bound using high precision of mpmath's own log is
                    # circular; use exp check with integers instead: got must be > 0 and exp(got) ~ q
                    from .. import mpfrref as M
                    ref = M.fn1("log", exact.from_int(q), p + 40)
                    lo, hi = exact.round_raw(ref, p, "f"), exact.round_raw(ref, p, "c")
                    g = got._mpf_
                    ulp = (0, 1, lo[2] + lo[3] - p, 1)
                    from .. import accuracy as acc
                    if exact.cmp_exact(g, acc.sub_raw(lo, ulp)) < 0 or exact.cmp_exact(g, exact.mk(0, *_add(hi, ulp))) > 0:
                        res.bad("mangoldt", "mangoldt(%d) = %s, expected log(%d)" % (n, got, q))
                elif got != 0:
                    res.bad("mangoldt", "mangoldt(%d) = %s, expected 0" % (n, got))
            return res
        # polynomials
        n = c["n"]
        x = Fraction(c["num"], c["den"])
        res.nontrivial = n > 5
        X = mp.mpf(c["num"]) / c["den"] if c["den"] != 1 else c["num"]
        xv = exact.to_fraction(X._mpf_) if hasattr(X, "_mpf_") else Fraction(X)      # the binary argument actually passed
        if fn == "bernpoly":
            B = bernoulli_exact(50)
            want = sum(math.comb(n, k) * B[k] * xv ** (n - k) for k in range(n + 1))
            got = mp.bernpoly(n, X)
            tol = 1
        elif fn == "eulerpoly":
            # E_n(x) = sum_k C(n,k) E_k / 2^k (x - 1/2)^(n-k)
            E = euler_numbers(50)
            want = sum(math.comb(n, k) * Fraction(E[k], 2 ** k) * (xv - Fraction(1, 2)) ** (n - k) for k in range(n + 1))
            got = mp.eulerpoly(n, X)
            tol = 1
        else:
            if n == 0:
                want = Fraction(1)
            else:
                co = cyclotomic_poly(n)
                want = sum(cc * xv ** i for i, cc in enumerate(co))
            got = mp.cyclotomic(n, X)
            tol = 1
        if not hasattr(got, "_mpf_"):
            got = mp.mpf(got)
        if want == 0:
            if got != 0:
                # a nonzero value of the order of the rounding error of the terms is "within one ulp" of the scale of
                # the computation; only flag results that are clearly not roundoff
                res.rejected = True
            return res
        # these are evaluated by polynomial arithmetic at the working precision: allow cancellation-aware 1 ulp of the
        # largest term
        within(res, fn, got._mpf_, want, p, "%s(%d, %s) at prec %d" % (fn, n, xv, p), ulps=_cond(fn, n, xv, want))
        return res
    finally:
        mp.prec = 53


def _add(a, b):
    m, e = exact.add_exact(a, b)
    return abs(m), e


def _cond(fn, n, x, want):
    """allowed error in ulps of the result: 1 ulp of the largest term of the defining sum (cancellation)"""
    if fn == "cyclotomic":
        co = cyclotomic_poly(n) if n else [1]
        big = max(abs(cc * x ** i) for i, cc in enumerate(co))
    elif fn == "bernpoly":
        B = bernoulli_exact(50)
        big = max(abs(math.comb(n, k) * B[k] * x ** (n - k)) for k in range(n + 1))
    else:
        E = euler_numbers(50)
        big = max(abs(math.comb(n, k) * Fraction(E[k], 2 ** k) * (x - Fraction(1, 2)) ** (n - k)) for k in range(n + 1))
    r = big / abs(want) if want else 1
    return max(1, int(r) + 1) * 4


def custom_shard(shard, seed, n, tier):
    if shard != "exh:isprime":
        return None
    import mpmath
    from mpmath import mp
    N = 200000
    s = sieve(N)
    coll = Collector()
    res = R()
    res.cls = "exh:isprime"
    for i in range(-10, N):
        got = bool(mp.isprime(i))
        want = bool(s[i]) if i >= 0 else False
        if got != want and len(res.violations) < 5:
            res.bad("isprime:exh", "isprime(%d) = %r, sieve says %r" % (i, got, want))
    mo = 0
    for i in range(1, 30000, 7):
        f = factorize(i)
        want = 0 if any(e > 1 for e in f.values()) else (-1) ** len(f)
        if mp.moebius(i) != want and len(res.violations) < 8:
            res.bad("moebius:exh", "moebius(%d) wrong" % i)
        mo += 1
    res.n = N + 10 + mo
    res.nontrivial = True
    coll.add({"exhaustive": "isprime<2e5"}, res)
    out = coll.export()
    out["exhaustive_blocks"] = [{"block": "isprime", "cases": N + 10, "complete": True, "domain": "every integer -10 <= n < 200000 against a sieve"}]
    return out
