"""C39 -- mag, nint_distance, classification helpers, ldexp/frexp are exact."""
import math
from fractions import Fraction

from .. import exact, gen, helpers
from ..core import R
from ..exact import fzero, finf, fninf, fnan, raw_json as J, raw_unjson as U

ID = "C39"
LEVEL = "exploration"
CASE_TIMEOUT = 30.0
HANG_IS_VIOLATION = True
RULE = ("Cases = (helper, argument) with arguments of every numeric type the docstrings list: mpf and mpc from the "
        "structural generators (half-integers with even and odd integer part, |x| just below/above 1/2 and 1, exact "
        "integers, powers of two, huge exponents, specials), Python int, float, complex, and mpq rationals. Oracle on "
        "the exact value: mag m is an int with |x| <= 2^m and m <= ceil(log2|x|)+2 (-inf for 0, +inf for inf, nan for "
        "nan); nint_distance (n, d): n integer with |Re x - n| <= 1/2, d = -inf iff x is an integer, else "
        "2^(d-1) <= |x - n| < 2^(d+1); isint/isnpint/isnormal/isinf/isnan/isfinite equal their definitions; "
        "ldexp(x,n) == x*2^n exactly (no rounding, even with more bits than the precision); frexp gives y in [1/2,1) "
        "with y*2^n == x exactly. Non-trivial = non-integer input with more than one bit, or complex, or special.")
ASSUMPTIONS = ["CPython int/Fraction arithmetic"]
TECHNIQUE = "property-based testing (Hypothesis) against exact definitions"


def shards(tier):
    n = 9000 if tier == "quick" else 120000
    return [("mag", n)] * 4 + [("nintd", n)] * 5 + [("cls", n)] * 4 + [("ldexp", n)] * 3


def _real(d, p, huge):
    k = d.weighted([(5, "any"), (5, "halfint"), (3, "near_half"), (3, "int"), (2, "pow2"), (2, "special")])
    if k == "special":
        return d.choice([fzero, finf, fninf, fnan])
    if k == "any":
        return gen.mpf_finite(d, p, 400, huge=huge)
    if k == "int":
        m, _ = gen.mantissa(d, p, 300)
        return exact.mk(d.int(0, 1), m, d.int(0, 100))
    if k == "pow2":
        return exact.mk(d.int(0, 1), 1, d.int(-300, 300))
    if k == "halfint":
        nb = d.int(0, 80)
        n = d.bits(nb)
        return exact.mk(d.int(0, 1), 4 * n + d.choice([2, 2, 1, 3]), -2)
    # near 1/2 or 1: 1/2 +- 2^-k, 1 +- 2^-k
    j = d.int(2, 200)
    base = d.choice([1, 2]) << (j - 1)          # 1/2 or 1 scaled by 2^j
    return exact.mk(d.int(0, 1), base + d.choice([-1, 1]), -j)


def _arg(d, p, huge=False):
    ty = d.weighted([(6, "mpf"), (4, "mpc"), (2, "int"), (2, "float"), (1, "complex"), (2, "mpq")])
    if ty == "mpf":
        return ["mpf", J(_real(d, p, huge))]
    if ty == "mpc":
        return ["mpc", [J(_real(d, p, False)), J(_real(d, p, False) if d.int(0, 3) else fzero)]]
    if ty == "int":
        return ["int", str(d.int(-10**40, 10**40) if d.bool() else d.int(-5, 5))]
    if ty == "float":
        return ["float", gen.pyfloat(d).hex()]
    if ty == "complex":
        return ["complex", [gen.pyfloat(d).hex(), gen.pyfloat(d).hex()]]
    q = d.int(1, 10**6)
    pn = d.int(-10**8, 10**8)
    if d.int(0, 3) == 0:
        pn = q * d.int(-50, 50) + d.choice([0, 0, 1, -1])
    if d.int(0, 4) == 0 and q % 2 == 0:
        pn = q // 2 * (2 * d.int(-20, 20) + 1)          # exact half integer
    return ["mpq", [str(pn), str(q)]]


def gen_case(d, shard, tier):
    p = gen.prec(d, 1, 300)
    if shard == "ldexp":
        x = _real(d, p, True)
        return {"kind": "ldexp", "x": J(x), "n": d.int(-10**6, 10**6) if d.bool() else d.int(-70, 70), "p": p, "cls": "ldexp"}
    a = _arg(d, p, huge=(shard == "mag"))
    return {"kind": shard, "a": a, "p": p, "gaussian": d.bool(), "cls": "%s:%s" % (shard, a[0])}


def _build(mp, a):
    """(object, (re, im) as Fractions or specials, exact raws)"""
    ty, v = a
    if ty == "mpf":
        r = U(v)
        return mp.make_mpf(r), (r, fzero)
    if ty == "mpc":
        return mp.make_mpc((U(v[0]), U(v[1]))), (U(v[0]), U(v[1]))
    if ty == "int":
        return int(v), (exact.from_int(int(v)), fzero)
    if ty == "float":
        f = float.fromhex(v)
        return f, (helpers.float_raw(f), fzero)
    if ty == "complex":
        f, g = float.fromhex(v[0]), float.fromhex(v[1])
        return complex(f, g), (helpers.float_raw(f), helpers.float_raw(g))
    if ty == "mpq":
        from mpmath.rational import mpq
        pn, q = int(v[0]), int(v[1])
        return mpq(pn, q), Fraction(pn, q)
    raise ValueError(ty)


def _fin(t):
    return t[1] != 0 or t == fzero


def check_case(c):
    import mpmath
    from mpmath import mp
    res = R()
    res.cls = c["cls"]
    mp.prec = c["p"]
    try:
        kind = c["kind"]
        if kind == "ldexp":
            x, n = U(c["x"]), c["n"]
            X = mp.make_mpf(x)
            r = mp.ldexp(X, n)
            want = x if x[1] == 0 else (x[0], x[1], x[2] + n, x[3])
            res.nontrivial = x[3] > c["p"]
            if tuple(r._mpf_) != tuple(want):
                res.bad("ldexp", "ldexp(%s, %d) = %s" % (exact.raw_str(x), n, exact.raw_str(r._mpf_)))
            if exact.is_finite(x):
                y, e = mp.frexp(X)
                if x == fzero:
                    if y != 0 or e != 0:
                        res.bad("frexp", "frexp(0) = %r" % ((y, e),))
                else:
                    yr = y._mpf_
                    # y in [1/2, 1): top bit position 0
                    if yr[2] + yr[3] != 0 or yr[0] != x[0] or yr[1] != x[1] or yr[2] + e != x[2] or type(e) is not int:
                        res.bad("frexp", "frexp(%s) = (%s, %r)" % (exact.raw_str(x), exact.raw_str(yr), e))
            return res
        obj, val = _build(mp, c["a"])
        ty = c["a"][0]
        if ty == "mpq":
            fr = val
            re_s = im_s = None
            special = False
            is_nan = is_inf = False
        else:
            re, im = val
            is_nan = re == fnan or im == fnan
            is_inf = (re in (finf, fninf) or im in (finf, fninf))
            special = is_nan or is_inf
        res.nontrivial = ty in ("mpc", "complex", "mpq") or special or (ty == "mpf" and val[0][1] > 1 and val[0][2] < 0)
        if kind == "mag":
            m = mp.mag(obj)
            what = "mag(%r)" % (c["a"],)
            if ty == "mpq":
                if fr == 0:
                    if m != mp.ninf:
                        res.bad("mag:zero", what + " = %r" % m)
                    return res
                if type(m) is not int or abs(fr) > Fraction(2) ** m or abs(fr) * 8 <= Fraction(2) ** m:
                    res.bad("mag:mpq", "%s = %r for %s" % (what, m, fr))
                return res
            if is_nan and ty in ("mpc", "complex") and not (re == fnan and im in (fnan, fzero)):
                res.rejected = True      # complex with one nan part: not specified
                return res
            if is_nan:
                if not (m != m):
                    res.bad("mag:nan", what + " = %r, expected nan" % (m,))
                return res
            if is_inf:
                if m != mp.inf:
                    res.bad("mag:inf", what + " = %r, expected +inf" % (m,))
                return res
            if re == fzero and im == fzero:
                if m != mp.ninf:
                    res.bad("mag:zero", what + " = %r, expected -inf" % (m,))
                return res
            if type(m) is not int:
                return res.bad("mag:type", what + " returned %r" % type(m))
            # |x|^2 <= 4^m and m <= ceil(log2|x|) + 2  <=>  |x| > 2^(m-3)
            tops = [t[2] + t[3] for t in (re, im) if t[1]]
            top = max(tops)
            if top + 1 < m - 3 or m < top - 1:
                return res.bad("mag", "%s = %d but top bit position is %d" % (what, m, top))
            if abs(top) < 5000 and all(abs(t[2]) < 5000 for t in (re, im) if t[1]):
                a2 = exact.to_fraction(re) ** 2 + exact.to_fraction(im) ** 2
                if a2 > Fraction(4) ** m:
                    res.bad("mag:bound", "%s = %d but |x| > 2^m" % (what, m))
                elif a2 * 64 <= Fraction(4) ** m:
                    res.bad("mag:loose", "%s = %d is more than 2 above optimal" % (what, m))
            return res
        if kind == "nintd":
            what = "nint_distance(%r)" % (c["a"],)
            if special:
                res.rejected = True      # behaviour for inf/nan is not specified
                return res
            if ty != "mpq":
                if any(t[1] and (t[2] > 3000 or t[2] < -5000) for t in (re, im)):
                    res.rejected = True
                    return res
                fr_re, fr_im = exact.to_fraction(re), exact.to_fraction(im)
            else:
                fr_re, fr_im = fr, Fraction(0)
            n, dd = mp.nint_distance(obj)
            if type(n) is not int and not (isinstance(n, int)):
                return res.bad("nintd:type", what + " n has type %r" % type(n))
            if abs(fr_re - n) > Fraction(1, 2):
                return res.bad("nintd:n", "%s: n=%d is not a nearest integer of Re x = %s" % (what, n, fr_re))
            dist2 = (fr_re - n) ** 2 + fr_im ** 2
            if dist2 == 0:
                if dd != mp.ninf:
                    res.bad("nintd:d", "%s: x is an integer but d=%r" % (what, dd))
                return res
            if type(dd) is not int:
                return res.bad("nintd:d", "%s: x is not an integer but d=%r" % (what, dd))
            # 2^(d-1) <= |x-n| < 2^(d+1)
            if not (Fraction(4) ** (dd - 1) <= dist2 < Fraction(4) ** (dd + 1)):
                res.bad("nintd:d", "%s: d=%d but |x-n|^2 = %s" % (what, dd, float(dist2)))
            return res
        # classification
        what = "%r" % (c["a"],)
        if ty == "mpq":
            integer = fr.denominator == 1
            checks = {"isint": integer, "isnpint": integer and fr <= 0, "isnormal": fr != 0, "isinf": False, "isnan": False,
                      "isfinite": True}
            g_int = integer
        else:
            def isint_raw(t):
                return t == fzero or (t[1] != 0 and t[2] >= 0)
            zero = re == fzero and im == fzero
            integer = isint_raw(re) and im == fzero
            g_int = isint_raw(re) and isint_raw(im)
            if ty in ("mpc", "complex"):
                # documented: complex is "normal" if its magnitude is normal
                normal = (not special) and not zero
            else:
                normal = (not special) and not zero
            checks = {"isint": integer, "isnpint": integer and (re == fzero or re[0] == 1), "isnormal": normal,
                      "isinf": is_inf and not is_nan or is_inf, "isnan": is_nan, "isfinite": not special}
        for name, want in checks.items():
            got = getattr(mp, name)(obj)
            if bool(got) != want:
                if name == "isinf" and is_nan:
                    continue        # isinf of a value with a nan part is not specified
                res.bad("cls:%s" % name, "%s(%s) = %r, definition gives %r" % (name, what, got, want))
        if c["gaussian"]:
            got = mp.isint(obj, gaussian=True)
            if got != g_int:
                res.bad("cls:isint:gaussian", "isint(%s, gaussian=True) = %r, definition gives %r" % (what, got, g_int))
        return res
    finally:
        mp.prec = 53
