"""C38 -- contexts are isolated from each other; a clone computes what mp computes."""
import sys

from .. import exact, gen
from ..core import R, time_limit, CaseTimeout
from ..exact import fzero, raw_json as J, raw_unjson as U
from ..helpers import dps_to_prec, prec_to_dps
from . import C33

ID = "C38"
LEVEL = "exploration"
CASE_TIMEOUT = 300.0
RULE = ("Histories of 8..25 steps over the contexts {mp, two clones of mp, iv, fp} living in one process: set prec / dps / "
        "pretty / trap_complex on one context; evaluate a function (constants, elementary and special functions, quad with "
        "both rules, zetazero, matrix solves) on one context -- normally, with arguments that make it fail, or aborted by a "
        "fault injected at a generated internal call event; mix numbers of one context into an operation of another; "
        "probe. Oracle (model + fresh process): after every step every context other than the one acted on has exactly "
        "its model values of (prec, dps, pretty, trap_complex); a probe evaluates a call on a clone (or on mp) at that "
        "context's precision and must be raw-identical to mp evaluated at the same precision in a pristine forked process "
        "(exact for correctly rounded operations and constants, within the accuracy class otherwise); results must be of "
        "the acting context's own types (clone.mpf, float for fp). Non-trivial = at least two contexts hold different "
        "precisions at the time of a probe.")
ASSUMPTIONS = ["a forked child of an interpreter that only imported mpmath has the state of a fresh process"]
TECHNIQUE = "stateful property-based testing (generated histories over several contexts) with a model of the settings and a fresh-process oracle"

_ctxs = {}


def shards(tier):
    n = 45 if tier == "quick" else 3000
    return [("hist", n)] * 16


def gen_case(d, shard, tier):
    steps = []
    names = ["mp", "c1", "c2", "iv", "fp"]
    for _ in range(d.int(8, 25)):
        k = d.weighted([(5, "set"), (6, "eval"), (2, "fail"), (2, "abort"), (2, "mix"), (6, "probe")])
        cx = d.choice(names)
        if k == "set":
            what = d.choice(["prec", "prec", "dps", "pretty", "trap_complex"])
            if cx == "fp" and what in ("prec", "dps"):
                cx = d.choice(["mp", "c1", "c2", "iv"])
            val = d.int(15, 400) if what == "prec" else d.int(5, 120) if what == "dps" else d.bool()
            steps.append(["set", cx, what, val])
        elif k in ("eval", "abort", "probe"):
            (prog, args), (tol, tag) = C33._prog(d, tier)
            if prog in ("memo", "zetazero", "siegelz"):
                prog, args, tol, tag = "const", ["pi"], "exact", "const:pi"      # keep the histories cheap
            if k == "abort" and prog in ("quad", "hyp"):
                prog, args, tol, tag = "fn", ["gamma", 7, 4], 9, "fn:gamma"     # tracing makes heavy calls too slow
            if cx == "fp" and prog == "quad":
                prog, args, tol, tag = "fn", ["exp", 3, 4], 5, "fn:exp"
            if k == "probe":
                cx = d.choice(["mp", "c1", "c2", "c1", "c2"])
            st = [k, cx, prog, args, tol, tag]
            if k == "abort":
                st.append(d.int(0, 1000))
            steps.append(st)
        elif k == "fail":
            steps.append(["fail", cx, d.choice(["log0", "div0", "gamma_pole", "quad_raise", "sqrt_trap"])])
        else:
            steps.append(["mix", d.choice(["c1", "c2"]), d.choice(["mp", "c1", "c2"]), d.int(1, 50)])
    return {"steps": steps, "cls": "hist"}


def _get_ctxs(mpmath):
    if not _ctxs:
        _ctxs["mp"] = mpmath.mp
        _ctxs["c1"] = mpmath.mp.clone()
        _ctxs["c2"] = mpmath.mp.clone()
        _ctxs["iv"] = mpmath.iv
        _ctxs["fp"] = mpmath.fp
    return _ctxs


def _settings(name, ctx):
    if name == "fp":
        return (53, 15, bool(getattr(ctx, "pretty", False)), bool(getattr(ctx, "trap_complex", False)))
    return (ctx.prec, ctx.dps, bool(ctx.pretty), bool(getattr(ctx, "trap_complex", False)))


def check_case(c):
    import mpmath
    from .C11 import Injector, InjectedFault
    from ..zygote import _jsonable
    res = R()
    res.cls = c["cls"]
    ctxs = _get_ctxs(mpmath)
    DOC = (ValueError, ZeroDivisionError, mpmath.libmp.NoConvergence, NotImplementedError, OverflowError, TypeError,
           mpmath.libmp.ComplexResult, AttributeError)
    # reset to a known state and build the model
    for n_, cx in ctxs.items():
        if n_ != "fp":
            cx.prec = 53
        cx.pretty = False
        if n_ in ("mp", "c1", "c2"):
            cx.trap_complex = False
    model = {n_: _settings(n_, cx) for n_, cx in ctxs.items()}

    def audit(acted, what):
        for n_, cx in ctxs.items():
            got = _settings(n_, cx)
            if n_ == acted:
                continue
            if got != model[n_]:
                res.bad("isolation:%s->%s" % (acted.rstrip("12"), n_.rstrip("12")), "%s on context %s changed context %s: (prec, dps, pretty, trap_complex) %r -> %r" % (
                    what, acted, n_, model[n_], got))
                # repair
                if n_ != "fp":
                    cx.prec = model[n_][0]
                cx.pretty = model[n_][2]
        got = _settings(acted, ctxs[acted])
        return got

    try:
        nprobe = 0
        for st in c["steps"]:
            op, name = st[0], st[1]
            cx = ctxs[name]
            if op == "set":
                what, val = st[2], st[3]
                if name == "fp" and what in ("prec", "dps"):
                    continue
                setattr(cx, what, val)
                prec, dps, pretty, trap = model[name]
                if what == "prec":
                    prec, dps = val, prec_to_dps(val)
                elif what == "dps":
                    prec, dps = dps_to_prec(val), val
                elif what == "pretty":
                    pretty = bool(val)
                elif name in ("mp", "c1", "c2"):
                    trap = bool(val)
                want = (prec, dps, pretty, trap)
                if name in ("iv", "fp") and what == "trap_complex":
                    want = _settings(name, cx)      # not a documented setting of these contexts
                got = audit(name, "setting %s=%r" % (what, val))
                if got != want:
                    res.bad("set:%s:%s" % (name.rstrip("12"), what), "%s.%s = %r gives %r, expected %r" % (name, what, val, got, want))
                model[name] = got
                continue
            if op in ("eval", "abort", "probe"):
                prog, args, tol, tag = st[2], st[3], st[4], st[5]
                if name in ("iv", "fp") and (prog not in ("const", "fn", "quad") or (prog == "const" and not hasattr(cx, args[0]))
                                             or (name == "iv" and prog == "quad")):
                    # (interval quadrature does not converge in reasonable time; not a context-isolation question)
                    prog, args, tol = "fn", ["exp", 3, 4], 5
                before = _settings(name, cx)
                run = lambda: C33.run_program(mpmath, cx, prog, args)
                r = None
                try:
                    with time_limit(25.0):
                        if op == "abort":
                            cnt = Injector()
                            try:
                                cnt.run(run)
                            except DOC:
                                pass
                            if cnt.n:
                                inj = Injector(1 + st[6] * (cnt.n - 1) // 1000, InjectedFault("x"))
                                try:
                                    inj.run(run)
                                except (InjectedFault,) + DOC:
                                    pass
                            if name != "fp":
                                cx.prec = before[0]       # leaks of the acting context are C11's business
                        else:
                            try:
                                r = run()
                            except DOC:
                                r = None
                except CaseTimeout:
                    res.inconclusive = True
                    if name != "fp":
                        cx.prec = before[0]
                audit(name, "%s %s%r" % (op, prog, args))
                if name != "fp" and _settings(name, cx)[0] != before[0]:
                    cx.prec = before[0]
                if op == "probe" and r is not None:
                    # type ownership
                    for leaf in _leaves(r):
                        if name in ("mp", "c1", "c2") and (hasattr(leaf, "_mpf_") or hasattr(leaf, "_mpc_")):
                            if type(leaf) not in (cx.mpf, cx.mpc, cx.constant):
                                res.bad("type:%s" % name.rstrip("12"), "%s%r on %s returned %r, not the context's own type" % (prog, args, name, type(leaf)))
                                break
                    p = cx.prec
                    fresh = C33._fresh_value({"ctx": "mp", "prec": p, "prog": prog, "args": args})
                    nprobe += 1
                    if "ok" in fresh:
                        precs = set(v[0] for k_, v in model.items() if k_ != "fp")
                        if len(precs) > 1:
                            res.nontrivial = True
                        C33._compare(res, "clone-differs:%s" % tag.split(":")[0], _jsonable(r), fresh["ok"], p, tol,
                                     "%s%r on context %s at prec %d (other contexts at %r)" % (prog, args, name, p, sorted(precs)))
                continue
            if op == "fail":
                which = st[2]
                before = _settings(name, cx)
                try:
                    if which == "log0":
                        cx.log(0) if name != "iv" else cx.log(cx.mpf(0))
                    elif which == "div0":
                        cx.mpf(1) / cx.mpf(0) if name != "fp" else 1 / cx.mpf(0)
                    elif which == "gamma_pole":
                        cx.gamma(-2)
                    elif which == "quad_raise":
                        def bad(x):
                            raise ValueError("boom")
                        cx.quad(bad, [0, 1])
                    else:
                        old = getattr(cx, "trap_complex", False)
                        try:
                            if name in ("mp", "c1", "c2"):
                                cx.trap_complex = True
                            cx.sqrt(-1)
                        finally:
                            if name in ("mp", "c1", "c2"):
                                cx.trap_complex = old
                except (ValueError, ZeroDivisionError, mpmath.libmp.ComplexResult, TypeError, AttributeError, NotImplementedError, OverflowError):
                    pass
                audit(name, "failing call %s" % which)
                if name != "fp" and cx.prec != before[0]:
                    cx.prec = before[0]
                continue
            if op == "mix":
                a, b, v = st[1], st[2], st[3]
                ca, cb = ctxs[a], ctxs[b]
                x = cb.mpf(v) / 7
                try:
                    y = ca.mpf(x)
                    if type(y) is not ca.mpf:
                        res.bad("type:mix", "%s.mpf(number of %s) has type %r" % (a, b, type(y)))
                    z = ca.sqrt(y) + 1
                    if type(z) is not ca.mpf:
                        res.bad("type:mix", "result of an operation in %s has type %r" % (a, type(z)))
                except DOC:
                    pass
                audit(a, "mixing numbers of %s into %s" % (b, a))
        res.n = max(1, nprobe)
        return res
    finally:
        sys.settrace(None)
        for n_, cx in ctxs.items():
            if n_ != "fp":
                cx.prec = 53
            cx.pretty = False


def _leaves(r):
    if isinstance(r, (list, tuple)):
        for x in r:
            for y in _leaves(x):
                yield y
    elif hasattr(r, "rows") and hasattr(r, "cols"):
        for i in range(r.rows):
            for j in range(r.cols):
                yield r[i, j]
    else:
        yield r
