"""C11 -- working precision is restored after every call, normal or failing."""
import os
import sys

from .. import exact, gen, catalogue as cat
from ..core import R, time_limit, CaseTimeout, REPO
from ..exact import fzero, finf, fninf, fnan, raw_json as J, raw_unjson as U
from ..helpers import dps_to_prec, prec_to_dps

ID = "C11"
LEVEL = "fault_enumeration"
CASE_TIMEOUT = 200.0
RULE = ("Programs x crash points. (1) Catalogue sweep: every public callable of the catalogue (~230 elementary/special "
        "functions) plus the callback-taking routines (quad, quadgl, quadts, quadosc, nsum, nprod, limit, diff, diffs, "
        "taylor, findroot with several solvers, odefun, chebyfit, fourier, invertlaplace with all three methods, sumem, "
        "polyroots, pslq, identify, findpoly, expm/logm/sqrtm/cosm, lu_solve, eig, svd, zetazero, nzeros, siegelz, "
        "besseljzero) is called from a generated starting precision -- including values that are not the image of an "
        "integer dps (101, 166, 1000) and precisions set through dps -- (a) normally, (b) with a user callback that "
        "raises at its j-th invocation, (c) with a fault injected at the k-th entry into any function of the mpmath "
        "package (sys.settrace 'call' events; k is stratified over the N entries counted in a first pass; the fault is "
        "either a BaseException subclass modelling KeyboardInterrupt/MemoryError or a ZeroDivisionError modelling an "
        "internal numerical failure). (2) PrecisionManager programs: generated nestings of workprec/workdps/extraprec/"
        "extradps used as context managers and as decorators, re-entering the same manager object, with raising bodies "
        "and interleaved direct assignments of prec/dps. Oracle (model): (prec, dps) after the call equal the pair before "
        "it and ctx._prec_rounding[0] == ctx.prec; after an assignment they follow the documented conversion formulas "
        "(written independently in the harness). The harness restores the precision itself after recording, so one "
        "leak does not poison later cases. Non-trivial = the call changed the precision internally at least once and "
        "exited by an exception, or the starting precision is not dps_to_prec(n).")
ASSUMPTIONS = ["sys.settrace call events enumerate the points at which an internal primitive may raise",
               "documented conversion formulas prec = round((dps+1)*log2(10)), dps = round(prec/log2(10)) - 1"]
TECHNIQUE = "fault injection at generated internal crash points (sys.settrace) and raising callbacks, model of (prec, dps)"

PKG = os.path.join(REPO, "mpmath") + os.sep


SETTERS = ("_set_prec", "_set_dps", "prec_to_dps", "dps_to_prec")


class InjectedFault(BaseException):
    pass


class CallbackFault(Exception):
    pass


# callback-taking / heavyweight routines: name -> builder(mp, cb) returning a thunk; cb wraps a python function so it
# can be made to raise at its j-th call
def _programs(mp):
    def f_exp(x):
        return mp.exp(-x * x)

    def f_poly(x):
        return x ** 3 - 2 * x + 1

    def f_sum(k):
        return 1 / mp.mpf(k) ** 2

    P = {
        "quad": lambda cb: lambda: mp.quad(cb(f_exp), [0, 1]),
        "quad_inf": lambda cb: lambda: mp.quad(cb(f_exp), [0, mp.inf]),
        "quadgl": lambda cb: lambda: mp.quadgl(cb(f_exp), [0, 2]),
        "quadts": lambda cb: lambda: mp.quadts(cb(f_exp), [-1, 1]),
        "quad2d": lambda cb: lambda: mp.quad(cb(lambda x, y: x * y + 1), [0, 1], [0, 1]),
        "quadosc": lambda cb: lambda: mp.quadosc(cb(lambda x: mp.sin(x) / (1 + x)), [0, mp.inf], omega=1),
        "nsum": lambda cb: lambda: mp.nsum(cb(f_sum), [1, mp.inf]),
        "nsum_finite": lambda cb: lambda: mp.nsum(cb(f_sum), [1, 20]),
        "nprod": lambda cb: lambda: mp.nprod(cb(lambda k: 1 - 1 / mp.mpf(k) ** 2), [2, mp.inf]),
        "limit": lambda cb: lambda: mp.limit(cb(lambda n: (1 + 1 / n) ** n), mp.inf),
        "diff": lambda cb: lambda: mp.diff(cb(f_exp), 0.5),
        "diff2": lambda cb: lambda: mp.diff(cb(f_exp), 0.5, 3),
        "diffs": lambda cb: lambda: list(mp.diffs(cb(f_exp), 0.5, 3)),
        "taylor": lambda cb: lambda: mp.taylor(cb(mp.sin), 0.25, 4),
        "findroot": lambda cb: lambda: mp.findroot(cb(f_poly), 0.3),
        "findroot_mnewton": lambda cb: lambda: mp.findroot(cb(f_poly), 0.3, solver="mnewton"),
        "findroot_muller": lambda cb: lambda: mp.findroot(cb(f_poly), 0.3, solver="muller"),
        "findroot_illinois": lambda cb: lambda: mp.findroot(cb(f_poly), (0, 0.8), solver="illinois"),
        "findroot_anderson": lambda cb: lambda: mp.findroot(cb(f_poly), (0, 0.8), solver="anderson"),
        "findroot_2d": lambda cb: lambda: mp.findroot(cb(lambda x, y: [x * x + y - 2, x - y]), (1.2, 0.8)),
        "odefun": lambda cb: lambda: mp.odefun(cb(lambda x, y: -y), 0, 1)(1.5),
        "chebyfit": lambda cb: lambda: mp.chebyfit(cb(mp.cos), [1, 2], 4),
        "fourier": lambda cb: lambda: mp.fourier(cb(lambda x: x * x), [0, 1], 2),
        "invertlaplace_talbot": lambda cb: lambda: mp.invertlaplace(cb(lambda p_: 1 / (p_ + 1)), 0.7, method="talbot"),
        "invertlaplace_stehfest": lambda cb: lambda: mp.invertlaplace(cb(lambda p_: 1 / (p_ + 1)), 0.7, method="stehfest"),
        "invertlaplace_dehoog": lambda cb: lambda: mp.invertlaplace(cb(lambda p_: 1 / (p_ + 1)), 0.7, method="dehoog"),
        "sumem": lambda cb: lambda: mp.sumem(cb(lambda k: 1 / mp.mpf(k) ** 2), [5, mp.inf]),
        "polyroots": lambda cb: lambda: mp.polyroots([1, -3, 1, 5]),
        "polyroots_err": lambda cb: lambda: mp.polyroots([1, 0, -2], error=True),
        "pslq": lambda cb: lambda: mp.pslq([mp.pi, 1, mp.e], maxcoeff=100, maxsteps=1000),
        "identify": lambda cb: lambda: mp.identify(mp.sqrt(2) + 1),
        "findpoly": lambda cb: lambda: mp.findpoly(mp.sqrt(2), 3),
        "expm": lambda cb: lambda: mp.expm(mp.matrix([[1, 2], [0.5, -1]])),
        "expm_pade": lambda cb: lambda: mp.expm(mp.matrix([[1, 2], [0.5, -1]]), method="pade"),
        "logm": lambda cb: lambda: mp.logm(mp.matrix([[3, 1], [0.5, 2]])),
        "sqrtm": lambda cb: lambda: mp.sqrtm(mp.matrix([[3, 1], [0.5, 2]])),
        "sqrtm_negdet": lambda cb: lambda: mp.sqrtm(mp.matrix([[1, 2], [3, 1]])),
        "cosm": lambda cb: lambda: mp.cosm(mp.matrix([[1, 2], [0.5, -1]])),
        "powm": lambda cb: lambda: mp.powm(mp.matrix([[3, 1], [0.5, 2]]), 0.5),
        "lu_solve": lambda cb: lambda: mp.lu_solve(mp.matrix([[3, 1], [1, 2]]), mp.matrix([1, 2])),
        "lu_solve_singular": lambda cb: lambda: mp.lu_solve(mp.matrix([[1, 2], [2, 4]]), mp.matrix([1, 2])),
        "qr_solve": lambda cb: lambda: mp.qr_solve(mp.matrix([[3, 1], [1, 2], [1, 1]]), mp.matrix([1, 2, 3])),
        "inverse": lambda cb: lambda: mp.inverse(mp.matrix([[3, 1], [1, 2]])),
        "det": lambda cb: lambda: mp.det(mp.matrix([[3, 1], [1, 2]])),
        "eig": lambda cb: lambda: mp.eig(mp.matrix([[3, 1], [1, 2]])),
        "eigsy": lambda cb: lambda: mp.eigsy(mp.matrix([[3, 1], [1, 2]])),
        "svd": lambda cb: lambda: mp.svd_r(mp.matrix([[3, 1], [1, 2]])),
        "zetazero": lambda cb: lambda: mp.zetazero(3),
        "nzeros": lambda cb: lambda: mp.nzeros(30),
        "siegelz": lambda cb: lambda: mp.siegelz(40),
        "besseljzero": lambda cb: lambda: mp.besseljzero(1, 2),
        "lambertw": lambda cb: lambda: mp.lambertw(3),
        "lambertw_k": lambda cb: lambda: mp.lambertw(mp.mpc(-2, 1), -1),
        "hyper": lambda cb: lambda: mp.hyper([1, 0.5], [2.5, 3], 0.75),
        "hypercomb": lambda cb: lambda: mp.besselk(2.5, 3.5),
        "meijerg": lambda cb: lambda: mp.meijerg([[1], []], [[0.5], [0]], 0.5),
        "jtheta": lambda cb: lambda: mp.jtheta(3, 0.5, 0.3),
        "ellipfun": lambda cb: lambda: mp.ellipfun("sn", 0.5, 0.3),
        "qp": lambda cb: lambda: mp.qp(0.5, 0.3),
        "betainc": lambda cb: lambda: mp.betainc(2, 3, 0.2, 0.7),
        "gammainc": lambda cb: lambda: mp.gammainc(2.5, 1, 3),
        "hyperfac": lambda cb: lambda: mp.hyperfac(3.5),
        "bessely": lambda cb: lambda: mp.bessely(0.5, 3),
        "besselj_frac": lambda cb: lambda: mp.besselj(0.5, 3),
        "stieltjes": lambda cb: lambda: mp.stieltjes(1),
        "primezeta": lambda cb: lambda: mp.primezeta(3),
        "nint_distance": lambda cb: lambda: mp.nint_distance(mp.mpf(2.5)),
        "autoprec": lambda cb: lambda: mp.autoprec(cb(lambda x: mp.exp(x) - 1))(mp.mpf("1e-10")),
        "maxcalls": lambda cb: lambda: mp.maxcalls(cb(mp.sin), 10)(1),
        "memoize": lambda cb: lambda: mp.memoize(cb(mp.sin))(1),
        "plot_free": lambda cb: lambda: mp.linspace(0, 1, 4),
    }
    return P


CALLBACK_PROGRAMS = ["quad", "quad_inf", "quadgl", "quadts", "quad2d", "quadosc", "nsum", "nsum_finite", "nprod", "limit", "diff",
                     "diff2", "diffs", "taylor", "findroot", "findroot_mnewton", "findroot_muller", "findroot_illinois",
                     "findroot_anderson", "findroot_2d", "odefun", "chebyfit", "fourier", "invertlaplace_talbot",
                     "invertlaplace_stehfest", "invertlaplace_dehoog", "sumem", "autoprec", "maxcalls", "memoize"]


def shards(tier):
    if tier == "quick":
        return [("cat", 900)] * 4 + [("prog", 160)] * 7 + [("pm", 1500)] * 3 + [("assign", 2000)] * 2
    return [("cat", 15000)] * 4 + [("prog", 3000)] * 7 + [("pm", 25000)] * 3 + [("assign", 30000)] * 2


def start_prec(d):
    k = d.weighted([(3, "odd"), (3, "dps"), (2, "rand"), (1, "std")])
    if k == "odd":
        return ["prec", d.choice([101, 166, 1000, 54, 55, 67, 30, 17, 200, 333])]
    if k == "dps":
        return ["dps", d.choice([15, 16, 20, 30, 50, 7, 100])]
    if k == "rand":
        return ["prec", d.int(12, 400)]
    return ["prec", 53]


def gen_case(d, shard, tier):
    sp = start_prec(d)
    if shard == "cat":
        name = d.choice(cat.names("fm" if tier == "quick" else "fms"))
        mode = d.weighted([(3, "normal"), (5, "inject"), (2, "badarg")])
        c = {"kind": "cat", "name": name, "sp": sp, "mode": mode, "args": cat.gen_args(d, name, 53), "cls": "cat:%s" % mode}
        if mode == "inject":
            c["frac"] = d.int(0, 1000)
            c["exc"] = d.choice(["base", "base", "zde", "value"])
        return c
    if shard == "prog":
        P = sorted(_programs_names())
        name = d.choice(P)
        mode = d.weighted([(2, "normal"), (6, "inject"), (4 if name in CALLBACK_PROGRAMS else 0, "callback")])
        c = {"kind": "prog", "name": name, "sp": sp, "mode": mode, "cls": "prog:%s" % mode}
        if mode == "inject":
            c["frac"] = d.int(0, 1000)
            c["exc"] = d.choice(["base", "base", "zde", "value"])
        elif mode == "callback":
            c["j"] = d.choice([1, 1, 2, 3, 5, 8, 13, 30])
        return c
    if shard == "pm":
        # a small program over precision managers
        def prog(depth):
            steps = []
            for _ in range(d.int(1, 3)):
                k = d.weighted([(4, "with"), (2, "reenter"), (2, "assign"), (2, "raise"), (2, "call"), (2, "decorated")])
                if k == "with" and depth < 3:
                    steps.append(["with", d.choice(["workprec", "workdps", "extraprec", "extradps"]), d.int(1, 120), d.bool(), prog(depth + 1)])
                elif k == "reenter" and depth < 3:
                    steps.append(["reenter", d.choice(["workprec", "workdps", "extraprec", "extradps"]), d.int(1, 120), prog(depth + 1)])
                elif k == "assign":
                    steps.append(["assign", d.choice(["prec", "dps"]), d.int(2, 300)])
                elif k == "raise":
                    steps.append(["raise"])
                elif k == "decorated" and depth < 3:
                    steps.append(["decorated", d.choice(["workprec", "workdps", "extraprec", "extradps"]), d.int(1, 80), d.bool(), d.bool()])
                else:
                    steps.append(["call", d.choice(["sqrt", "exp", "gamma", "zeta", "quad"])])
            return steps
        return {"kind": "pm", "sp": sp, "prog": prog(0), "cls": "pm"}
    return {"kind": "assign", "seq": [[d.choice(["prec", "dps"]), d.int(1, 5000) if d.bool() else d.int(1, 60)] for _ in range(d.int(1, 6))],
            "ctx": d.choice(["mp", "mp", "iv", "clone"]), "cls": "assign"}


def _programs_names():
    import mpmath
    return list(_programs(mpmath.mp).keys())


# ------------------------------------------------------------------------------------------ fault injection

class Injector:
    """count or inject at the k-th 'call' event of a function whose code lives in the repository's mpmath package"""

    def __init__(self, k=None, exc=None):
        self.k = k
        self.exc = exc
        self.n = 0
        self.fired = False
        self.where = None

    def trace(self, frame, event, arg):
        if event == "call" and frame.f_code.co_filename.startswith(PKG):
            # the precision setter and its conversion helpers are the restoring mechanism itself, not a point at
            # which "an internal computation fails": no crash points inside them
            nm = frame.f_code.co_name
            if nm in SETTERS or (frame.f_back is not None and frame.f_back.f_code.co_name in SETTERS):
                return None
            self.n += 1
            if self.k is not None and self.n == self.k and not self.fired:
                self.fired = True
                self.where = "%s:%s" % (os.path.basename(frame.f_code.co_filename), frame.f_code.co_name)
                raise self.exc
        return None

    def run(self, thunk):
        old = sys.gettrace()
        sys.settrace(self.trace)
        try:
            return thunk()
        finally:
            sys.settrace(old)


def set_start(ctx, sp):
    if sp[0] == "prec":
        ctx.prec = sp[1]
    else:
        ctx.dps = sp[1]
    return ctx.prec, ctx.dps


def snapshot(ctx):
    return ctx.prec, ctx.dps, ctx._prec_rounding[0]


def judge(res, bucket, ctx, before, what):
    after = snapshot(ctx)
    if after != before:
        res.bad(bucket, "%s left (prec, dps, cell) = %r, it was %r on entry" % (what, after, before))
    # repair so the next case starts clean
    ctx.prec = 53


def check_case(c):
    import mpmath
    from mpmath import mp, iv
    res = R()
    res.cls = c["cls"]
    DOC = cat.documented_exceptions()
    kind = c["kind"]
    try:
        if kind == "assign":
            return _assign(res, mpmath, c)
        if kind == "pm":
            return _pm(res, mp, c)
        set_start(mp, c["sp"])
        before = snapshot(mp)
        nonimage = before[0] != dps_to_prec(before[1])
        if kind == "cat":
            name = c["name"]
            args = cat.build_args(mp, c["args"])
            if c["mode"] == "badarg":
                args = args[:-1] + ["not a number"] if d_bad(c) else args + [None, None, None]
            thunk = lambda: getattr(mp, name)(*args)
            label = name
        else:
            name = c["name"]
            cnt = {"n": 0}
            j = c.get("j")

            def cb(f):
                if c["mode"] != "callback":
                    return f

                def g(*a, **k):
                    cnt["n"] += 1
                    if cnt["n"] == j:
                        raise CallbackFault("callback failure #%d" % j)
                    return f(*a, **k)
                return g
            thunk = _programs(mp)[name](cb)
            label = "prog:" + name
        mode = c["mode"]
        raised = None
        with time_limit(150.0):
            if mode == "inject":
                counter = Injector()
                try:
                    counter.run(thunk)
                except DOC:
                    pass
                except CallbackFault:
                    pass
                mp.prec = before[0]
                if snapshot(mp) != before:
                    set_start(mp, c["sp"])
                N = counter.n
                if N == 0:
                    res.rejected = True
                    return res
                k = 1 + (c["frac"] * (N - 1)) // 1000
                exc = {"base": InjectedFault("injected"), "zde": ZeroDivisionError("injected"), "value": ValueError("injected")}[c["exc"]]
                inj = Injector(k, exc)
                try:
                    inj.run(thunk)
                except InjectedFault:
                    raised = "InjectedFault"
                except DOC:
                    raised = "doc"
                except CallbackFault:
                    raised = "cb"
                res.nontrivial = inj.fired
                what = "%s with %s injected at call event %d/%d (%s), start %r" % (label, c["exc"], k, N, inj.where, c["sp"])
                judge(res, "leak:%s:inject" % label, mp, before, what)
                return res
            try:
                thunk()
            except DOC:
                raised = "doc"
            except CallbackFault:
                raised = "cb"
            except mpmath.libmp.NoConvergence:
                raised = "doc"
        res.nontrivial = nonimage or raised is not None
        what = "%s (%s%s), start %r" % (label, mode, (" j=%d" % c["j"]) if "j" in c else "", c["sp"])
        judge(res, "leak:%s:%s" % (label, mode if mode != "badarg" else "normal"), mp, before, what)
        return res
    except CaseTimeout:
        res.inconclusive = True
        return res
    finally:
        sys.settrace(None)
        mp.prec = 53
        iv.prec = 53


def d_bad(c):
    return len(c["args"]) % 2 == 0


def _assign(res, mpmath, c):
    from mpmath import mp, iv
    ctx = {"mp": mp, "iv": iv, "clone": mp.clone()}[c["ctx"]]
    res.nontrivial = True
    for attr, v in c["seq"]:
        setattr(ctx, attr, v)
        if attr == "prec":
            want = (max(1, int(v)), prec_to_dps(max(1, int(v))))
        else:
            want = (dps_to_prec(v), max(1, int(v)))
        got = (ctx.prec, ctx.dps)
        if got != want:
            res.bad("assign:%s:%s" % (c["ctx"], attr), "%s.%s = %d gives (prec, dps) = %r, documented formulas give %r" % (c["ctx"], attr, v, got, want))
        if c["ctx"] != "iv" and ctx._prec_rounding[0] != ctx.prec:
            res.bad("assign:cell", "_prec_rounding[0] = %r but prec = %r" % (ctx._prec_rounding[0], ctx.prec))
    ctx.prec = 53
    return res


class _Boom(Exception):
    pass


def _pm(res, mp, c):
    """interpret a generated program over precision managers against a model stack"""
    set_start(mp, c["sp"])
    res.nontrivial = True
    managers = {}

    def mgr(kind, v, norm=False):
        key = (kind, v, norm)
        if key not in managers:
            f = getattr(mp, kind)
            managers[key] = f(v, normalize_output=norm) if norm else f(v)
        return managers[key]

    def expected_inside(kind, v, cur):
        prec, dps = cur
        if kind == "workprec":
            return (v, prec_to_dps(v))
        if kind == "workdps":
            return (dps_to_prec(v), v)
        if kind == "extraprec":
            return (prec + v, prec_to_dps(prec + v))
        return (dps_to_prec(dps + v), dps + v)

    def run(steps, depth):
        for st in steps:
            op = st[0]
            if op in ("with", "reenter"):
                kind, v = st[1], st[2]
                body = st[-1]
                outer = (mp.prec, mp.dps)
                # 'with' uses a fresh manager (the documented idiom); only 'reenter' shares one object
                m = getattr(mp, kind)(v)
                boom = False
                try:
                    with m:
                        inside = (mp.prec, mp.dps)
                        want = expected_inside(kind, v, outer)
                        if inside != want:
                            res.bad("pm:inside:%s" % kind, "%s(%d) from %r gives %r inside, expected %r" % (kind, v, outer, inside, want))
                        if op == "reenter":
                            # enter the SAME manager object again
                            with m:
                                run(body, depth + 1)
                            mid = (mp.prec, mp.dps)
                            if mid != inside:
                                res.bad("pm:reenter:%s" % kind, "after re-entering the same %s(%d) object the outer body sees %r, it was %r" % (kind, v, mid, inside))
                                mp.prec = inside[0]
                        else:
                            run(body, depth + 1)
                except _Boom:
                    boom = True
                after = (mp.prec, mp.dps)
                if after != outer:
                    res.bad("pm:restore:%s%s" % (kind, ":exc" if boom else ""), "%s(%d)%s left %r, expected the previous %r" % (kind, v, " (body raised)" if boom else "", after, outer))
                    mp.prec = outer[0]
                if boom and depth > 0:
                    raise _Boom()
            elif op == "assign":
                setattr(mp, st[1], st[2])
            elif op == "raise":
                raise _Boom()
            elif op == "decorated":
                kind, v, norm, fail = st[1], st[2], st[3], st[4]
                outer = (mp.prec, mp.dps)

                def body(x):
                    if fail:
                        raise _Boom()
                    return mp.sqrt(x)
                g = mgr(kind, v, norm)(body)
                try:
                    r = g(mp.mpf(2))
                except _Boom:
                    pass
                after = (mp.prec, mp.dps)
                if after != outer:
                    res.bad("pm:decorator:%s" % kind, "decorated function under %s(%d) left %r, expected %r" % (kind, v, after, outer))
                    mp.prec = outer[0]
            else:
                outer = (mp.prec, mp.dps)
                f = {"sqrt": lambda: mp.sqrt(2), "exp": lambda: mp.exp(1), "gamma": lambda: mp.gamma(2.5), "zeta": lambda: mp.zeta(3),
                     "quad": lambda: mp.quad(mp.sin, [0, 1])}[st[1]]
                f()
                if (mp.prec, mp.dps) != outer:
                    res.bad("pm:call", "%s changed the precision inside a manager" % st[1])
                    mp.prec = outer[0]

    try:
        run(c["prog"], 0)
    except _Boom:
        pass
    mp.prec = 53
    return res
