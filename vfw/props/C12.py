"""C12 -- elementary functions are accurate to the working precision (relative error < 2^(4-p))."""
from .. import exact, gen, helpers, mpfrref as M, accuracy as acc
from ..core import R
from ..exact import fzero, finf, fninf, fnan, raw_json as J, raw_unjson as U

ID = "C12"
LEVEL = "exploration"
CASE_TIMEOUT = 120.0
RULE = ("Cases = (function, exact real or complex argument(s), precision p in [10, 1100] (thorough: up to 4096 incl. the "
        "algorithm thresholds 400/600/1500/2500/3000 +-1)). Argument classes: generic mantissas of 1..10p bits with "
        "magnitudes 2^-2000..2^2000 (exp-like functions limited so the result exponent stays below 2^40), multiples of "
        "pi/2 computed by MPFR at 4p bits and rounded to p..4p bits, 1 +- 2^-k and -1 +- 2^-k for log/acos/atanh/"
        "asin/acosh, tiny and huge arguments, complex numbers with a tiny (2^-k, k <= 2p) or zero real or imaginary "
        "part on both sides of every branch cut, points near +-1 and +-i, the acos/asin crossover circles. Oracle: "
        "MPFR 4.2 (real) / MPC 1.3 (complex) at p+64 bits or more, correctly rounded by an independent implementation; "
        "on branch cuts the signed zero handed to MPC follows mpmath's documented counter-clockwise-continuity "
        "convention (log, sqrt, power, acosh: +0 on the negative axis side; asin, acos, atanh: -0 for x > 1, +0 for "
        "x < -1; atan, asinh on the imaginary axis: +0 real for y > 1, -0 for y < -1). Functions without a direct "
        "MPFR/MPC counterpart are composed in MPFR/MPC arithmetic at p+100..p+300 bits (inconclusive when the "
        "composition is ill-conditioned). Error metric exactly as the statement: for exp, log, sin, cos, sinh, cosh "
        "each of Re and Im must satisfy |err| <= 2^(4-p)|ref part| (a zero reference part must be exactly zero); for "
        "the others |err_Re|, |err_Im| <= 2^(4-p) max(|ref Re|, |ref Im|). Result type: mpf inside the real domain, "
        "mpc outside. Non-trivial = inexact result and argument with a structure class, or more than 53 bits, or "
        "|exponent| > 64.")
ASSUMPTIONS = ["MPFR 4.2.0 / MPC 1.3.1 results are correctly rounded (they share no code with mpmath)",
               "branch-cut sides follow mpmath's documented convention (checked against the docstring values asin(2), "
               "acos(2), atanh(2), log(-1), sqrt(-1), acosh(-2), atan(2j))"]
TECHNIQUE = "property-based testing (Hypothesis) against MPFR/MPC at p+64 bits"
TOL = 4

# name -> (mpfr name or None, mpc name or None, parts_metric)
DIRECT = {
    "exp": ("exp", "exp", True), "ln": ("log", "log", True), "log": ("log", "log", True), "log10": ("log10", "log10", False),
    "sqrt": ("sqrt", "sqrt", False), "sin": ("sin", "sin", True), "cos": ("cos", "cos", True), "tan": ("tan", "tan", False),
    "sinh": ("sinh", "sinh", True), "cosh": ("cosh", "cosh", True), "tanh": ("tanh", "tanh", False),
    "asin": ("asin", "asin", False), "acos": ("acos", "acos", False), "atan": ("atan", "atan", False),
    "asinh": ("asinh", "asinh", False), "acosh": ("acosh", "acosh", False), "atanh": ("atanh", "atanh", False),
    "cbrt": ("cbrt", None, False), "sec": ("sec", None, False), "csc": ("csc", None, False), "cot": ("cot", None, False),
    "sech": ("sech", None, False), "csch": ("csch", None, False), "coth": ("coth", None, False),
    "log1p": ("log1p", None, False), "expm1": ("expm1", None, False), "sinpi": ("sinpi", None, False),
    "cospi": ("cospi", None, False),
}
RECIP = {"sec": "cos", "csc": "sin", "cot": "tan", "sech": "cosh", "csch": "sinh", "coth": "tanh"}
INV_RECIP = {"asec": "acos", "acsc": "asin", "acot": "atan", "asech": "acosh", "acsch": "asinh", "acoth": "atanh"}
TWO_ARG = ["atan2", "hypot", "power", "root", "powm1", "logb"]
OTHER = ["sinc", "expj", "expjpi", "arg"]
ALL = sorted(set(DIRECT) | set(INV_RECIP) | set(TWO_ARG) | set(OTHER))
EXPLIKE = {"exp", "sinh", "cosh", "tanh", "expm1", "sech", "csch", "coth", "expj", "expjpi"}


def shards(tier):
    n = 1800 if tier == "quick" else 30000
    return [("real", n)] * 7 + [("complex", n)] * 7 + [("two", n)] * 2


# ------------------------------------------------------------------------------------------ generation

def _pi_multiple(d, p):
    """k*pi/2 computed by MPFR at 4p bits and rounded to r bits"""
    k = d.choice([1, 2, 3, 4, 5, 7, 10, 355, 1000003]) if d.bool() else d.int(1, 1 << d.int(1, 60))
    r = d.choice([p, p, p + 1, 2 * p, 4 * p, 53])
    pi = M.const("pi", 4 * p + 80)
    v = exact.round_dyadic(pi[1] * k, pi[2] - 1, r, d.choice("nfc"))
    return (d.int(0, 1),) + tuple(v[1:])


def real_arg(d, p, fn):
    k = d.weighted([(6, "generic"), (4, "near_one"), (3 if fn in ("sin", "cos", "tan", "sec", "csc", "cot", "sinc", "expj") else 0, "pi"),
                    (3, "tiny"), (2, "huge"), (3, "simple"), (2, "long"), (2 if fn in ("sinpi", "cospi", "expjpi") else 0, "halfint")])
    if k == "generic":
        m, _ = gen.mantissa(d, p, 2 * p + 20)
        x = exact.mk(d.int(0, 1), m, d.int(-12, 10) - m.bit_length())
    elif k == "near_one":
        j = d.int(2, 2 * p)
        x = exact.mk(d.int(0, 1), (1 << j) + d.choice([1, -1, 3, -3]), -j)
    elif k == "pi":
        x = _pi_multiple(d, p)
    elif k == "tiny":
        m, _ = gen.mantissa(d, p, p + 5)
        x = exact.mk(d.int(0, 1), m, -d.int(20, 2000) - m.bit_length())
    elif k == "huge":
        m, _ = gen.mantissa(d, p, p + 5)
        x = exact.mk(d.int(0, 1), m, d.int(10, 2000) - m.bit_length())
    elif k == "simple":
        x = exact.mk(d.int(0, 1), d.int(1, 200), d.int(-8, 3))
    elif k == "halfint":
        n = d.int(0, 1 << d.int(1, 80))
        x = exact.mk(d.int(0, 1), 4 * n + d.choice([0, 1, 2, 3]), -2)
        if d.bool():
            x = exact.mk(x[0], (x[1] << 60) + d.choice([1, -1]), x[2] - 60) if x[1] else x
    else:
        bc = d.choice([2 * p, 10 * p])
        m = (1 << (bc - 1)) | (d.bits(64) << max(0, bc - 70)) | d.bits(min(60, bc - 1)) | 1
        x = exact.mk(d.int(0, 1), m, d.int(-6, 6) - bc)
    if fn in EXPLIKE and x[1] and x[2] + x[3] > 38:
        x = (x[0], x[1], 38 - x[3] - d.int(0, 30), x[3])
    return x, k


def complex_arg(d, p, fn):
    k = d.weighted([(6, "generic"), (4, "tiny_im"), (4, "tiny_re"), (3, "zero_im"), (3, "zero_re"), (3, "near_pm1"), (2, "near_pmi"),
                    (2, "unit_circle"), (2, "big")])
    def comp(lo=-12, hi=8):
        m, _ = gen.mantissa(d, p, p + 20)
        return exact.mk(d.int(0, 1), m, d.int(lo, hi) - m.bit_length())
    def tiny(ref):
        m, _ = gen.mantissa(d, p, 40)
        kk = d.int(1, 2 * p)
        return exact.mk(d.int(0, 1), m, (ref[2] + ref[3] if ref[1] else 0) - kk - m.bit_length())
    if k == "generic":
        z = (comp(), comp())
    elif k == "tiny_im":
        a = real_arg(d, p, fn)[0]
        if a[1] and abs(a[2] + a[3]) > 40:
            a = comp()
        z = (a, tiny(a))
    elif k == "tiny_re":
        b = comp()
        z = (tiny(b), b)
    elif k == "zero_im":
        a = real_arg(d, p, fn)[0]
        if a[1] and abs(a[2] + a[3]) > 40:
            a = comp()
        z = (a, fzero)
    elif k == "zero_re":
        z = (fzero, comp())
    elif k == "near_pm1":
        j = d.int(1, p)
        re = exact.mk(d.int(0, 1), (1 << j) + d.choice([1, -1, 0]), -j)
        z = (re, tiny(re) if d.bool() else fzero)
    elif k == "near_pmi":
        j = d.int(1, p)
        im = exact.mk(d.int(0, 1), (1 << j) + d.choice([1, -1, 0]), -j)
        z = (tiny(im) if d.bool() else fzero, im)
    elif k == "unit_circle":
        # a point close to the unit circle (log cancellation, acos/asin crossovers 0.6417 / 1.5)
        a = exact.mk(d.int(0, 1), d.choice([3, 5, 7, 12, 4, 21]), 0)
        b = exact.mk(d.int(0, 1), d.choice([4, 12, 24, 5, 3, 20]), 0)
        sc = {(3, 4): 5, (5, 12): 13, (7, 24): 25, (12, 5): 13, (4, 3): 5, (21, 20): 29}.get((a[1], b[1]))
        if sc is None:
            z = (comp(-2, 1), comp(-2, 1))
        else:
            # (a + bi)/sc rounded to p bits: modulus 1 up to rounding
            z = (exact.round_rational(a[1] * (-1) ** a[0], sc, p, "n"), exact.round_rational(b[1] * (-1) ** b[0], sc, p, "n"))
            if d.bool():
                # move off the circle by a relative 2^-kk: |z|^2 - 1 of order 2^-kk (moderate cancellation in log|z|)
                kk = d.int(8, 60)
                i = d.int(0, 1)
                t = z[i]
                t = exact.mk(t[0], t[1] * ((1 << kk) + d.choice([1, -1])), t[2] - kk)
                z = (t, z[1]) if i == 0 else (z[0], t)
    else:
        z = (comp(5, 30), comp(5, 30))
    if fn in EXPLIKE:
        re = z[0]
        if re[1] and re[2] + re[3] > 30:
            z = ((re[0], re[1], 30 - re[3], re[3]), z[1])
        im = z[1]
        if fn in ("expj", "expjpi", "sinh", "cosh", "tanh", "sech", "csch", "coth") and im[1] and im[2] + im[3] > 30:
            z = (z[0], (im[0], im[1], 30 - im[3], im[3]))
    if fn in ("sin", "cos", "tan", "sec", "csc", "cot", "sinc"):
        im = z[1]
        if im[1] and im[2] + im[3] > 30:
            z = (z[0], (im[0], im[1], 30 - im[3], im[3]))
    # tanh-like results are +-1 (or +-i) plus an exponentially small term: MPC's correct-rounding loop would need
    # about |Re z| (resp. |Im z|) * 1.44 bits.  Keep that below a few thousand bits so the oracle stays cheap.
    if fn in ("tanh", "coth", "sech", "csch"):
        re = z[0]
        if re[1] and re[2] + re[3] > 9:
            z = ((re[0], re[1], 9 - re[3], re[3]), z[1])
    if fn in ("tan", "cot", "sec", "csc"):
        im = z[1]
        if im[1] and im[2] + im[3] > 9:
            z = (z[0], (im[0], im[1], 9 - im[3], im[3]))
    return z, k


def gen_case(d, shard, tier):
    if tier == "quick":
        p = d.choice([10, 11, 24, 53, 64, 100, 113, 200]) if d.int(0, 3) else d.int(10, 1100)
    else:
        p = d.choice([10, 53, 113, 399, 400, 401, 599, 600, 601, 1499, 1500, 1501, 2499, 2500, 2501, 2999, 3000, 3001, 4096]) if d.bool() else d.int(10, 3300)
    if shard == "two":
        fn = d.choice(TWO_ARG)
        c = {"fn": fn, "p": p}
        if fn in ("atan2", "hypot"):
            c["a"] = ["mpf", J(real_arg(d, p, fn)[0])]
            c["b"] = ["mpf", J(real_arg(d, p, fn)[0])]
        elif fn == "root":
            cx = d.int(0, 2) == 0
            c["a"] = ["mpc", [J(t) for t in complex_arg(d, p, fn)[0]]] if cx else ["mpf", J(real_arg(d, p, fn)[0])]
            c["n"] = d.choice([1, 2, 3, 4, 5, 7, 20, 21, 50, 200, -1, -2, -3, -20]) if d.bool() else d.int(-20, 200)
            if c["n"] == 0:
                c["n"] = 3
        elif fn == "logb":
            c["a"] = ["mpf", J((0,) + tuple(real_arg(d, p, fn)[0][1:]))]
            c["b"] = ["mpf", J(exact.mk(0, d.int(2, 1000), d.int(-3, 3)))]
        else:
            cx = d.int(0, 2) == 0
            if cx:
                c["a"] = ["mpc", [J(t) for t in complex_arg(d, p, fn)[0]]]
                c["b"] = ["mpc", [J(t) for t in complex_arg(d, p, fn)[0]]] if d.bool() else ["mpf", J(real_arg(d, p, "generic")[0])]
            else:
                a = real_arg(d, p, fn)[0]
                if a[1] and abs(a[2] + a[3]) > 60:
                    a = (a[0], a[1], -a[3] + d.int(-30, 30), a[3])
                c["a"] = ["mpf", J(a)]
                b = real_arg(d, p, "generic")[0]
                if b[1] and b[2] + b[3] > 20:
                    b = (b[0], b[1], 20 - b[3], b[3])
                c["b"] = ["mpf", J(b)]
        c["cls"] = "two:%s" % fn
        return c
    names = [n for n in ALL if n not in TWO_ARG]
    fn = d.choice(names)
    if shard == "real":
        x, k = real_arg(d, p, fn)
        return {"fn": fn, "p": p, "a": ["mpf", J(x)], "cls": "real:%s:%s" % (fn, k)}
    z, k = complex_arg(d, p, fn)
    return {"fn": fn, "p": p, "a": ["mpc", [J(z[0]), J(z[1])]], "cls": "complex:%s:%s" % (fn, k)}


# ------------------------------------------------------------------------------------------ reference

class Inconclusive(Exception):
    pass


def cut_signs(fn, z):
    """(neg_re_zero, neg_im_zero) for the MPC argument according to mpmath's branch-cut convention"""
    re, im = z
    neg_im = False
    neg_re = False
    if im == fzero and fn in ("asin", "acos", "atanh") and re[1] and not re[0]:
        # x > 1 side: continuity from below
        neg_im = True
    if re == fzero and fn in ("atan", "asinh") and im[1] and im[0]:
        neg_re = True
    return neg_re, neg_im


def ref_complex(fn, z, q):
    """reference value of fn(z) as a pair of raws at about q bits"""
    mc = M.MC(q)
    if fn in DIRECT and DIRECT[fn][1]:
        nr, ni = cut_signs(fn, z)
        return mc.out(mc.f(DIRECT[fn][1], mc.z(z, nr, ni)))
    if fn in RECIP:
        w = mc.f(RECIP[fn], mc.z(z))
        return mc.out(mc.ui_div(1, w))
    if fn in INV_RECIP:
        base = INV_RECIP[fn]
        big = M.MC(q + 200)
        w = big.ui_div(1, big.z(z))
        wr = big.out(w)
        # ill-conditioned next to the branch points +-1 (or +-i) of the inverse function
        for pt in ((exact.from_int(1), fzero), (exact.from_int(-1), fzero), (fzero, exact.from_int(1)), (fzero, exact.from_int(-1))):
            dr, di = acc.sub_raw(wr[0], pt[0]), acc.sub_raw(wr[1], pt[1])
            top = max([t[2] + t[3] for t in (dr, di) if t is not None and t[1]] or [-10**6])
            if top < -150:
                raise Inconclusive()
        # the reciprocal of a number on the real/imaginary axis is on the same axis: keep exact zeros and pick the side
        if z[1] == fzero:
            wr = (wr[0], fzero)
        if z[0] == fzero:
            wr = (fzero, wr[1])
        nr, ni = cut_signs(base, wr)
        return mc.out(mc.f(base, mc.z(wr, nr, ni)))
    if fn == "cbrt":
        return ref_root(z, 3, q)
    if fn == "log1p":
        big = M.MC(q + 200)
        one = big.z((exact.from_int(1), fzero))
        w = big.out(big.f("add", big.z(z), one))     # exact if enough bits
        big2 = M.MC(max(q + 200, z[0][3] + z[1][3] + abs(z[0][2]) + abs(z[1][2]) + 50)) if max(abs(z[0][2]), abs(z[1][2])) < 5000 else None
        if big2 is None:
            raise Inconclusive()
        w = big2.out(big2.f("add", big2.z(z), big2.z((exact.from_int(1), fzero))))
        return mc.out(mc.f("log", mc.z(w)))
    if fn == "expm1":
        # exp(z) - 1 with cancellation control
        big = M.MC(q + 200)
        e = big.f("exp", big.z(z))
        r = big.out(big.f("sub", e, big.z((exact.from_int(1), fzero))))
        top_in = max([t[2] + t[3] for t in z if t[1]] or [-10**6])
        if top_in < -150:
            raise Inconclusive()
        return r
    if fn in ("sinpi", "cospi", "expjpi"):
        # sinpi(x+iy) = sinpi(x) cosh(pi y) + i cospi(x) sinh(pi y)   (MPFR sinpi/cospi take the exact x)
        # cospi(x+iy) = cospi(x) cosh(pi y) - i sinpi(x) sinh(pi y);   expjpi(z) = e^(-pi y) (cospi x + i sinpi x)
        x, y = z
        qq = q + 100
        sx, cx = M.fn1("sinpi", x, qq), M.fn1("cospi", x, qq)
        if y == fzero:
            py = fzero
        else:
            py = M.fn2("mul", y, M.const("pi", qq + 60), qq + 60)
            if py[2] + py[3] > 45:
                raise Inconclusive()
        if fn == "expjpi":
            e = M.fn1("exp", (1 - py[0],) + tuple(py[1:]) if py[1] else py, qq)
            return (M.fn2("mul", e, cx, q), M.fn2("mul", e, sx, q))
        ch, sh = M.fn1("cosh", py, qq), M.fn1("sinh", py, qq)
        if fn == "sinpi":
            return (M.fn2("mul", sx, ch, q), M.fn2("mul", cx, sh, q))
        im = M.fn2("mul", sx, sh, q)
        return (M.fn2("mul", cx, ch, q), (1 - im[0],) + tuple(im[1:]) if im[1] else im)
    if fn == "expj":
        big = M.MC(q)
        return big.out(big.f("exp", big.mul_i(big.z(z), 1)))
    if fn == "sinc":
        if z[0] == fzero and z[1] == fzero:
            return (exact.from_int(1), fzero)
        big = M.MC(q + 20)
        return big.out(big.f("div", big.f("sin", big.z(z)), big.z(z)))
    if fn == "arg":
        return (M.c_real_fn("arg", (z[0], z[1]), q), fzero)
    raise KeyError(fn)


def ref_root(z, n, q):
    """principal n-th root of complex z via exp(log(z)/n) in MPC arithmetic"""
    big = M.MC(q + 120)
    if z[0] == fzero and z[1] == fzero:
        return (fzero, fzero)
    lg = big.f("log", big.z(z))
    nn = M.from_raw(exact.from_int(n))
    w = big.f_fr("div_fr", lg, nn)
    wr = big.out(w)
    if wr[0][1] and wr[0][2] + wr[0][3] > 100:
        raise Inconclusive()
    return big.out(big.f("exp", w))


def ref_real(fn, x, q):
    """reference for a real argument: returns ('real', raw) or ('complex', pair)"""
    if fn in DIRECT and fn != "cbrt":
        name = DIRECT[fn][0]
        r = M.fn1(name, x, q)
        if r != fnan:
            return "real", r
        return "complex", unwrap(ref_complex(fn, (x, fzero), q))
    if fn == "cbrt":
        if not x[0]:
            return "real", M.fn1("cbrt", x, q)
        return "complex", ref_root((x, fzero), 3, q)
    if fn in INV_RECIP:
        base = INV_RECIP[fn]
        if x == fzero:
            raise Inconclusive()
        w = M.fn2("div", exact.from_int(1), x, q + 200)
        for pt in (1, -1):
            dd = acc.sub_raw(w, exact.from_int(pt))
            if dd[1] == 0 or dd[2] + dd[3] < -150:
                if dd[1] == 0:
                    break
                raise Inconclusive()
        r = M.fn1(DIRECT[base][0], w, q)
        if r != fnan:
            return "real", r
        nr, ni = cut_signs(base, (w, fzero))
        mc = M.MC(q)
        return "complex", mc.out(mc.f(DIRECT[base][1], mc.z((w, fzero), nr, ni)))
    if fn == "sinc":
        if x == fzero:
            return "real", exact.from_int(1)
        s = M.fn1("sin", x, q + 20)
        return "real", M.fn2("div", s, x, q + 10)
    if fn == "expj":
        s, c = M.sin_cos(x, q)
        return "complex", (c, s)
    if fn == "expjpi":
        return "complex", (M.fn1("cospi", x, q), M.fn1("sinpi", x, q))
    if fn == "arg":
        if x == fzero or not x[0]:
            return "real", fzero
        return "real", M.const("pi", q)
    raise KeyError(fn)


def _guard(f):
    """runs inside the forked child: turn the module's control-flow exceptions into picklable values"""
    try:
        return f()
    except (Inconclusive, M.Out):
        return ("inconclusive", "inconclusive")


def unwrap(v):
    return v[0] if isinstance(v, tuple) and len(v) == 2 and isinstance(v[1], str) else v


def _as_pair(r):
    if hasattr(r, "_mpf_"):
        return (r._mpf_, fzero), "mpf"
    return r._mpc_, "mpc"


def check_case(c):
    import mpmath
    from mpmath import mp
    res = R()
    res.cls = c["cls"]
    fn, p = c["fn"], c["p"]
    q = p + 64
    mp.prec = p
    try:
        a = c["a"]
        if a[0] == "mpf":
            araw = U(a[1])
            A = mp.make_mpf(araw)
        else:
            araw = (U(a[1][0]), U(a[1][1]))
            A = mp.make_mpc(araw)
        what = "%s(%s) at prec %d" % (fn, (exact.raw_str(araw) if a[0] == "mpf" else "(%s, %s)" % (exact.raw_str(araw[0]), exact.raw_str(araw[1]))), p)
        try:
            if fn in TWO_ARG:
                return _two(res, mp, c, A, araw, what, q)
            try:
                got = getattr(mp, fn)(A)
            except ZeroDivisionError:
                got = "pole"
            except (ValueError, OverflowError) as e:
                got = "exc:" + type(e).__name__
            loose = False
            try:
                if a[0] == "mpf":
                    kind, ref = M.SERVER.call("vfw.props.C12", "ref_real", (fn, araw, q))
                    if kind == "real":
                        ref = (ref, fzero)
                else:
                    ref = M.SERVER.call("vfw.props.C12", "ref_complex", (fn, araw, q))
                    kind = "complex"
            except M.RemoteError as e:
                if e.name in ("Inconclusive", "Out"):
                    raise Inconclusive()
                raise
            if isinstance(ref, tuple) and len(ref) == 2 and isinstance(ref[1], str):
                ref, loose = ref[0], True
        except (Inconclusive, M.Out, M.Hang):
            res.inconclusive = True
            return res
        refnan = M.c_isnan(ref)
        refinf = any(t in (finf, fninf) for t in ref)
        if isinstance(got, str):
            if refnan or refinf:
                res.rejected = True
                return res
            if got == "pole" and fn in ("cot", "csc", "coth", "csch", "acot", "asec", "acsc", "asech", "acsch", "acoth", "log", "ln", "log10", "atanh", "log1p") :
                # documented poles: only legitimate if the argument is exactly at the pole
                zero = (araw == fzero) if a[0] == "mpf" else (araw[0] == fzero and araw[1] == fzero)
                at_pm1 = a[0] == "mpf" and araw[1] == 1 and araw[2] == 0
                if zero or at_pm1:
                    res.rejected = True
                    return res
            return res.bad("exception:%s" % fn, "%s raised %s but the function is finite there (reference %s)" % (
                what, got, exact.raw_str(ref[0])))
        if refnan or refinf:
            res.rejected = True      # poles / overflow of the reference: C13 covers special values
            return res
        gpair, gty = _as_pair(got)
        for t in gpair:
            prob = exact.canonical_problem(t)
            if prob:
                return res.bad("noncanonical:%s" % fn, what + ": " + prob)
        # result type: real inside the real domain
        if a[0] == "mpf" and fn not in ("expj", "expjpi"):
            if kind == "real" and gty == "mpc" and gpair[1] != fzero:
                return res.bad("type:%s" % fn, what + " returned a complex number inside the real domain: " + str(got))
            if kind == "complex" and gty == "mpf" and ref[1] != fzero:
                return res.bad("type:%s" % fn, what + " returned a real number outside the real domain")
        parts = fn in DIRECT and DIRECT[fn][2]
        metric = "parts" if parts and not loose else "max"
        ok, worst, which = acc.check_complex(gpair, ref, p, TOL, metric)
        res.metrics["err_log2_ulps:" + fn] = worst
        inexact = any(t[3] > p - 2 for t in ref if t[1])
        res.nontrivial = True
        if not ok:
            # the known log-near-the-unit-circle defect loses at most a few bits; beyond 2^8 ulp it is a different failure
            kind_ = "acc-gross" if (fn in ("ln", "log", "log10") and worst > 8) else "acc"
            res.bad("%s:%s:%s" % (kind_, fn, "real" if a[0] == "mpf" else "complex"),
                    "%s = %s; reference (%s, %s); error about 2^%d ulp (%s, metric %s)" % (
                        what, str(got)[:160], exact.raw_str(ref[0])[:60], exact.raw_str(ref[1])[:60], worst, which, metric))
        return res
    finally:
        mp.prec = 53


def _two(res, mp, c, A, araw, what, q):
    fn, p = c["fn"], c["p"]
    res.nontrivial = True
    if fn == "root":
        n = c["n"]
        try:
            got = mp.root(A, n)
        except ZeroDivisionError:
            res.rejected = True
            return res
        what = "root(%s, %d) at prec %d" % (what, n, p)
        z = (araw, fzero) if c["a"][0] == "mpf" else araw
        if z[0] == fzero and z[1] == fzero:
            res.rejected = True
            return res
        if c["a"][0] == "mpf" and not araw[0]:
            # positive real radicand: real root
            if n > 0:
                ref = (M.fn_ui("rootn_ui", araw, n, q), fzero)
            else:
                r = M.fn_ui("rootn_ui", araw, -n, q + 20)
                ref = (M.fn2("div", exact.from_int(1), r, q), fzero)
        else:
            ref = ref_root(z, n, q)
    elif fn in ("atan2", "hypot"):
        braw = U(c["b"][1])
        B = mp.make_mpf(braw)
        what = "%s(%s, %s) at prec %d" % (fn, exact.raw_str(araw), exact.raw_str(braw), p)
        got = getattr(mp, fn)(A, B)
        ref = (M.fn2(fn, araw, braw, q), fzero)
    elif fn == "logb":
        braw = U(c["b"][1])
        what = "log(%s, %s) at prec %d" % (exact.raw_str(araw), exact.raw_str(braw), p)
        if araw == fzero or braw == exact.from_int(1):
            res.rejected = True
            return res
        got = mp.log(A, mp.make_mpf(braw))
        la, lb = M.fn1("log", araw, q + 40), M.fn1("log", braw, q + 40)
        ref = (M.fn2("div", la, lb, q), fzero)
    else:
        b = c["b"]
        if b[0] == "mpf":
            braw = (U(b[1]), fzero)
            B = mp.make_mpf(braw[0])
        else:
            braw = (U(b[1][0]), U(b[1][1]))
            B = mp.make_mpc(braw)
        z = (araw, fzero) if c["a"][0] == "mpf" else araw
        what = "%s(%s, %s) at prec %d" % (fn, c["a"], c["b"], p)
        if z[0] == fzero and z[1] == fzero:
            res.rejected = True
            return res
        try:
            got = getattr(mp, fn)(A, B)
        except (ZeroDivisionError, OverflowError):
            res.rejected = True
            return res
        realcase = c["a"][0] == "mpf" and b[0] == "mpf" and not araw[0]
        if c["a"][0] == "mpf" and b[0] == "mpf" and araw[0] and braw[0][1] and braw[0][2] >= 0:
            # negative real base, integer exponent: the power is real, sign by parity (exact cases like (-1)^800 - 1 = 0)
            odd = braw[0][2] == 0 and braw[0][1] & 1
            v = M.fn2("pow", (0,) + tuple(araw[1:]), braw[0], q + 40)
            if v[1] == 0:
                res.rejected = True
                return res
            if odd:
                v = (1,) + tuple(v[1:])
            if fn == "powm1":
                d1 = M.fn2("sub", v, exact.from_int(1), q + 40)
                if d1[1] and d1[2] + d1[3] < -20:
                    # cancellation: recompute the power with enough extra bits
                    extra = -(d1[2] + d1[3]) + 40
                    if extra > 20000:
                        raise Inconclusive()
                    v = M.fn2("pow", (0,) + tuple(araw[1:]), braw[0], q + 40 + extra)
                    if odd:
                        v = (1,) + tuple(v[1:])
                v = M.fn2("sub", v, exact.from_int(1), q)
            ref = (v, fzero)
            return _finish_two(res, got, ref, p, fn, c, what)
        big = q + 120
        if realcase:
            if fn == "power":
                ref = (M.fn2("pow", araw, braw[0], q), fzero)
            else:
                # x^y - 1 = expm1(y log x)
                lg = M.fn1("log", araw, big)
                t = M.fn2("mul", lg, braw[0], big)
                if t[1] and t[2] + t[3] > 60:
                    raise Inconclusive()
                ref = (M.fn1("expm1", t, q), fzero)
        else:
            mc = M.MC(big)
            lg = mc.f("log", mc.z(z))
            t = mc.f("mul", lg, mc.z(braw))
            tr = mc.out(t)
            if any(x[1] and x[2] + x[3] > 60 for x in tr):
                raise Inconclusive()
            e = mc.f("exp", t)
            if fn == "powm1":
                if all((not x[1]) or x[2] + x[3] < -60 for x in tr):
                    raise Inconclusive()
                e = mc.f("sub", e, mc.z((exact.from_int(1), fzero)))
                er = mc.out(e)
                if all((not x[1]) or x[2] + x[3] < -30 for x in er):
                    # x^y is close to 1 (e.g. through the periodicity of exp): the subtraction cancelled, so the
                    # composed reference is not accurate enough to judge
                    raise Inconclusive()
            ref = mc.out(e)
    return _finish_two(res, got, ref, p, fn, c, what)


def _finish_two(res, got, ref, p, fn, c, what):
    if M.c_isnan(ref) or any(t in (finf, fninf) for t in ref):
        res.rejected = True
        return res
    gpair, gty = _as_pair(got)
    ok, worst, which = acc.check_complex(gpair, ref, p, TOL, "max")
    res.metrics["err_log2_ulps:" + fn] = worst
    if not ok:
        # the known log-near-the-unit-circle defect loses at most a few bits; anything beyond 2^8 ulp is a different failure
        kind = "acc-gross" if (fn in ("ln", "log", "log10") and worst > 8) else "acc"
        res.bad("%s:%s:%s" % (kind, fn, c["a"][0]), "%s = %s; reference (%s, %s); error about 2^%d ulp" % (
            what, str(got)[:160], exact.raw_str(ref[0])[:60], exact.raw_str(ref[1])[:60], worst))
    return res


# ------------------------------------------------------------------------------------------ known-finding regions

def _parts(case):
    a = case["a"]
    if a[0] == "mpf":
        return [U(a[1]), fzero]
    return [U(a[1][0]), U(a[1][1])]


def _top(t):
    return t[2] + t[3] if t[1] else -10**9


def _near_unit(t, k):
    """| |t| - 1 | < 2^-k"""
    if not t[1]:
        return False
    d = acc.sub_raw((0,) + tuple(t[1:]), exact.from_int(1))
    return d[1] == 0 or _top(d) < -k + 1


def region_inv_small_complex(case):
    """asin/asinh/atan/atanh (and acos/acosh, which share the code) of a complex number of small modulus, and the
    reciprocal-defined inverse functions of a complex number of large modulus: mpc_atan/mpc_atanh subtract two
    logarithms at prec+15 bits and acos_asin loses about log2(1/|z|) bits"""
    fn = case["fn"]
    if case["a"][0] != "mpc":
        return False
    re, im = _parts(case)
    big = max(_top(re), _top(im))
    if fn in ("asin", "asinh", "atan", "atanh"):
        return big <= -3
    if fn in INV_RECIP:
        return big >= 4
    return False


def region_inv_recip_near_unit(case):
    """asec/acsc/acot/asech/acsch/acoth are evaluated as f(1/z) with 1/z rounded to the working precision: near the
    branch points of f (|z| close to 1) the rounding of 1/z is amplified (wrong values, -inf, or a real result just
    outside the real domain)"""
    if case["fn"] not in INV_RECIP:
        return False
    re, im = _parts(case)
    big = max(_top(re), _top(im))
    return -1 <= big <= 1


def region_acos_near_branch_point(case):
    """acos/acosh/asin/asinh/atanh/atan within 2^-6 of their branch points +-1 (+-i): a few bits are lost"""
    fn = case["fn"]
    re, im = _parts(case)
    if fn in ("acos", "acosh", "asin", "atanh"):
        return _near_unit(re, 6) and _top(im) < -6
    if fn in ("asinh", "atan"):
        return _near_unit(im, 6) and _top(re) < -6
    return False


def region_sincospi_complex(case):
    """sinpi/cospi of a complex number with |Im| >= 8: pi*Im is rounded without guard bits for the size of the
    exponential"""
    if case["fn"] not in ("sinpi", "cospi") or case["a"][0] != "mpc":
        return False
    return _top(_parts(case)[1]) >= 4


def region_power_huge(case):
    """power/powm1 whose result has a binary exponent beyond about +-2^10: y*log(x) is computed with a fixed number
    of guard bits"""
    if case["fn"] not in ("power", "powm1"):
        return False
    a = _parts(case)
    b = case["b"]
    bt = max(_top(U(b[1])) if b[0] == "mpf" else max(_top(U(b[1][0])), _top(U(b[1][1]))), -10**9)
    at = max(abs(_top(a[0])) if a[0][1] else 0, abs(_top(a[1])) if a[1][1] else 0, 1)
    return bt + at.bit_length() >= 10


def region_trig_near_pole_complex(case):
    """tan/cot/sec/csc (tanh/coth/sech/csch) of a complex number next to a pole on the real (imaginary) axis:
    documented TODO in mpc_tan"""
    fn = case["fn"]
    if case["a"][0] != "mpc":
        return False
    re, im = _parts(case)
    if fn in ("tan", "cot", "sec", "csc"):
        x, y = re, im
    elif fn in ("tanh", "coth", "sech", "csch"):
        x, y = im, re
    else:
        return False
    if _top(y) > -8 or not x[1]:
        return False
    t = M.fn1("tan", x, 64)
    return t[1] != 0 and (_top(t) >= 8 or _top(t) <= -8)


def region_acosh_lost_imag(case):
    """acosh(x + iy) with |y| below about 2^-p |x|: acos drops the tiny imaginary part to exactly zero, and acosh
    then picks the branch from the sign of that zero, so the large imaginary part of the result gets the wrong sign
    for y < 0"""
    if case["fn"] not in ("acosh", "asech") or case["a"][0] != "mpc":
        return False
    re, im = _parts(case)
    return im[1] != 0 and _top(im) < max(_top(re), 0) - case["p"] + 10


def region_log_near_unit_circle(case):
    """log of a complex number with | |z|^2 - 1 | < 2^-20: the real part log|z| loses a few bits (2^5 ulp seen)"""
    if case["fn"] not in ("ln", "log", "log10") or case["a"][0] != "mpc":
        return False
    re, im = _parts(case)
    if any(t[1] and abs(t[2]) > 20000 for t in (re, im)):
        return False
    v = exact.to_fraction(re) ** 2 + exact.to_fraction(im) ** 2 - 1
    return abs(v) < exact.Fraction(1, 1 << 20)


REGIONS = {
    "log_near_unit_circle": region_log_near_unit_circle,
    "acosh_lost_imag": region_acosh_lost_imag,
    "inv_small_complex": region_inv_small_complex,
    "inv_recip_near_unit": region_inv_recip_near_unit,
    "acos_near_branch_point": region_acos_near_branch_point,
    "sincospi_complex": region_sincospi_complex,
    "power_huge": region_power_huge,
    "trig_near_pole_complex": region_trig_near_pole_complex,
}
