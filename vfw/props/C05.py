"""C05 -- comparisons are exact and equal numbers hash equally."""
import operator
from fractions import Fraction

from .. import exact, gen, helpers
from ..core import R
from ..exact import fzero, finf, fninf, fnan, raw_json as J, raw_unjson as U

ID = "C05"
LEVEL = "exploration"
CASE_TIMEOUT = 30.0          # each case is a micro/milli-second integer kernel
HANG_IS_VIOLATION = True
RULE = ("Cases = pairs (a, b) over the types mpf, mpc, int, float, complex built from one exact value and its "
        "neighbours: the same value in another type, value +- 1 ulp, same top bit but different low bits (forces the "
        "subtraction fallback of the comparison), opposite signs, exponents around multiples of 61 and >= 61 (hash "
        "reduction), |value| >= 2^1024, astronomically large exponents, specials, complex with every sign "
        "combination. Oracle: exact rational comparison for <,<=,>,>=,==,!= in both operand orders (nan unordered "
        "and unequal, mpc ordering raises TypeError); whenever a == b is True, hash(a) == hash(b), len({a,b}) == 1 "
        "and {a:1}[b] works, with CPython's hash of int/float/complex as the reference side. Non-trivial = equal "
        "values of different types, or unequal values with equal top-bit position.")
ASSUMPTIONS = ["CPython's comparison and hash of int/float/complex/Fraction"]
TECHNIQUE = "property-based testing (Hypothesis) against exact rational comparison and CPython's numeric hash"


def shards(tier):
    n = 12000 if tier == "quick" else 150000
    return [("cmp", n)] * 8 + [("hash", n)] * 8


def safe_cmp(s, t):
    """exact comparison of finite raws that never materialises a huge shift"""
    if s[1] == 0 or t[1] == 0:
        ss = 0 if s == fzero else (-1 if s[0] else 1)
        ts = 0 if t == fzero else (-1 if t[0] else 1)
        if s[1] == 0 and t[1] == 0:
            return 0
        return (ss > ts) - (ss < ts) if s[1] == 0 or t[1] == 0 and ss != ts else 0
    if s[0] != t[0]:
        return -1 if s[0] else 1
    a, b = s[2] + s[3], t[2] + t[3]
    if a != b:
        r = 1 if a > b else -1
        return -r if s[0] else r
    return exact.cmp_exact(s, t)


def _value(d, p):
    """a finite raw with hash/compare relevant structure"""
    k = d.weighted([(5, "any"), (3, "int"), (3, "float"), (3, "exp61"), (2, "huge"), (1, "zero")])
    if k == "zero":
        return fzero
    if k == "any":
        return gen.mpf_finite(d, p, 300, huge=True, nonzero=True)
    if k == "int":
        m, _ = gen.mantissa(d, p, 200)
        return exact.mk(d.int(0, 1), m, d.choice([0, 1, 5, 60, 61, 62, 122, 1000, 1024, 3000]))
    if k == "float":
        return helpers.float_raw(gen.pyfloat(d) or 1.5)
    if k == "exp61":
        m, _ = gen.mantissa(d, p, 130)
        e = 61 * d.int(-40, 40) + d.int(-2, 2)
        return exact.mk(d.int(0, 1), m, e)
    m, _ = gen.mantissa(d, p, 100)
    return exact.mk(d.int(0, 1), m, d.choice([-1, 1]) * (1 << d.int(30, 70)) + d.int(-3, 3))


def _neighbour(d, v, p):
    k = d.weighted([(6, "same"), (4, "ulp"), (4, "lowbits"), (2, "neg"), (3, "indep"), (1, "special")])
    if k == "same" or v == fzero and k in ("ulp", "lowbits"):
        return v, k
    if k == "special":
        return d.choice([finf, fninf, fnan, fzero]), k
    if k == "neg":
        return ((1 - v[0],) + tuple(v[1:]) if v[1] else v), k
    if k == "indep":
        return _value(d, p), k
    sign, man, exp, bc = v
    if k == "ulp":
        sh = d.choice([0, 1, 3, 60, 200])
        return exact.mk(sign, (man << sh) + d.choice([-1, 1]), exp - sh), k
    # same top bit, other low bits, different exponent
    sh = d.int(1, 120)
    return exact.mk(sign, (man << sh) ^ d.bits(min(sh + bc - 1, 64)) | 1, exp - sh), k


def _as_type(d, v, allow):
    """express raw value v in one of the python/mpmath types if exactly possible"""
    opts = ["mpf"]
    if v[1] == 0 or v[2] >= 0 and v[2] + v[3] <= 20000:
        if v in (fzero,) or v[1]:
            opts.append("int")
    if v[1] == 0 or (v[3] <= 53 and -1074 <= v[2] and v[2] + v[3] <= 1024 and (v[2] + v[3] > -1022 or v[2] >= -1074)):
        opts.append("float")
    opts = [o for o in opts if o in allow]
    ty = d.choice(opts)
    return ty


def gen_case(d, shard, tier):
    p = 53
    v = _value(d, p) if d.int(0, 15) else d.choice([finf, fninf, fnan])
    if shard == "cmp":
        w, k = _neighbour(d, v, p) if exact.is_finite(v) else (d.choice([v, finf, fninf, fnan, fzero, exact.from_int(1)]), "special")
        ta = _as_type(d, v, ("mpf", "int", "float"))
        tb = _as_type(d, w, ("mpf", "int", "float"))
        if ta != "mpf" and tb != "mpf":
            ta = "mpf"
        return {"kind": "cmp", "a": [ta, J(v)], "b": [tb, J(w)], "rel": k, "cls": "cmp:%s,%s:%s" % (ta, tb, k)}
    # hash / equality across real and complex types
    im = fzero if d.int(0, 2) else (_value(d, p) if d.int(0, 3) else d.choice([finf, fninf, fnan]))
    w_re, k1 = (_neighbour(d, v, p) if exact.is_finite(v) else (v, "same"))
    w_im, k2 = (_neighbour(d, im, p) if exact.is_finite(im) and d.int(0, 2) == 0 else (im, "same"))
    if d.int(0, 2):
        w_re, k1 = v, "same"
    ta = d.choice(["mpf", "mpc"]) if im == fzero else "mpc"
    allow_b = ["mpf", "mpc", "int", "float", "complex"]
    tb = d.choice(allow_b)
    return {"kind": "hash", "a": [ta, J(v), J(im)], "b": [tb, J(w_re), J(w_im)], "cls": "hash:%s,%s:%s%s" % (ta, tb, k1[0], k2[0])}


def _build(mp, ty, re, im=fzero):
    """returns (object, exact (re, im) raws) or None if not representable in that type"""
    def fl(t):
        if t == fnan:
            return float("nan")
        if t == finf:
            return float("inf")
        if t == fninf:
            return float("-inf")
        if t == fzero:
            return 0.0
        if t[3] > 53 or t[2] < -1074 or t[2] + t[3] > 1024:
            return None
        f = float(exact.to_fraction(t))
        if helpers.float_raw(f) != tuple(t):
            return None
        return f
    if ty == "mpf":
        if im != fzero:
            return None
        return mp.make_mpf(re), (re, fzero)
    if ty == "mpc":
        return mp.make_mpc((re, im)), (re, im)
    if ty == "int":
        if im != fzero or not exact.is_finite(re) or (re[1] and (re[2] < 0 or re[2] + re[3] > 20000)):
            return None
        n = exact.to_man_exp(re)[0] << re[2] if re[1] else 0
        return n, (re, fzero)
    if ty == "float":
        if im != fzero:
            return None
        f = fl(re)
        return None if f is None else (f, (re, fzero))
    if ty == "complex":
        f, g = fl(re), fl(im)
        if f is None or g is None:
            return None
        return complex(f, g), (re, im)
    raise ValueError(ty)


OPS = [("<", operator.lt), ("<=", operator.le), (">", operator.gt), (">=", operator.ge), ("==", operator.eq), ("!=", operator.ne)]


def check_case(c):
    import mpmath
    from mpmath import mp
    res = R()
    res.cls = c["cls"]
    if c["kind"] == "cmp":
        (ta, va), (tb, vb) = c["a"], c["b"]
        va, vb = U(va), U(vb)
        A = _build(mp, ta, va)
        B = _build(mp, tb, vb)
        if A is None or B is None:
            res.rejected = True
            return res
        a, b = A[0], B[0]
        nan = va == fnan or vb == fnan
        if nan:
            cmpv = None
        elif not exact.is_finite(va) or not exact.is_finite(vb):
            order = {fninf: -1, finf: 1}
            x = order.get(tuple(va), 0)
            y = order.get(tuple(vb), 0)
            cmpv = (x > y) - (x < y) if (x or y) and x != y else (0 if x == y and x else None)
            if cmpv is None:
                # one infinite, one finite handled above; both finite impossible here
                cmpv = (x > y) - (x < y)
        else:
            cmpv = safe_cmp(va, vb)
        res.nontrivial = (ta != tb and cmpv == 0) or (cmpv not in (0, None) and va[1] and vb[1] and va[2] + va[3] == vb[2] + vb[3])
        for name, f in OPS:
            for (x, y, sw) in ((a, b, False), (b, a, True)):
                cv = cmpv if not sw or cmpv is None else -cmpv
                if cv is None:
                    want = name == "!="
                else:
                    want = {"<": cv < 0, "<=": cv <= 0, ">": cv > 0, ">=": cv >= 0, "==": cv == 0, "!=": cv != 0}[name]
                got = f(x, y)
                if got is not True and got is not False:
                    got = bool(got)
                if got != want:
                    res.bad("cmp:%s:%s,%s" % (name, ta if not sw else tb, tb if not sw else ta),
                            "%r %s %r is %r, exact comparison gives %r  (raw %s vs %s)" % (
                                x, name, y, got, want, exact.raw_str(va), exact.raw_str(vb)))
        if cmpv == 0:
            _hash_check(res, a, b, ta, tb)
        return res
    # hash kind
    ta, ar, ai = c["a"]
    tb, br, bi = c["b"]
    A = _build(mp, ta, U(ar), U(ai))
    B = _build(mp, tb, U(br), U(bi))
    if A is None or B is None:
        res.rejected = True
        return res
    a, (are, aim) = A
    b, (bre, bim) = B
    nan = fnan in (are, aim, bre, bim)
    want = (not nan) and tuple(are) == tuple(bre) and tuple(aim) == tuple(bim)
    res.nontrivial = want and ta != tb
    for name, val in (("a==b", a == b), ("b==a", b == a), ("not a!=b", not (a != b)), ("not b!=a", not (b != a))):
        if bool(val) != want:
            res.bad("eq:%s,%s" % (ta, tb), "%s is %r, exact equality is %r for a=%r b=%r" % (name, val, want, a, b))
    if want:
        _hash_check(res, a, b, ta, tb)
    return res


def _hash_check(res, a, b, ta, tb):
    try:
        ha, hb = hash(a), hash(b)
    except OverflowError:
        return
    if ha != hb:
        res.bad("hash:%s,%s" % tuple(sorted((ta, tb))), "a == b but hash(a)=%d != hash(b)=%d for a=%r (%s) b=%r (%s)" % (ha, hb, a, ta, b, tb))
        return
    if len({a, b}) != 1:
        res.bad("set:%s,%s" % (ta, tb), "len({a, b}) != 1 for equal a=%r b=%r" % (a, b))
    if {a: 1}.get(b) != 1:
        res.bad("dict:%s,%s" % (ta, tb), "{a: 1}[b] fails for equal a=%r b=%r" % (a, b))
