"""C14 -- real interval operations contain every possible exact result."""
from fractions import Fraction

from .. import exact, gen, helpers, mpfrref as M, accuracy as acc
from ..core import R
from ..exact import fzero, finf, fninf, fnan, raw_json as J, raw_unjson as U

ID = "C14"
LEVEL = "exploration"
CASE_TIMEOUT = 120.0
RULE = ("Cases = (operation, interval operand(s), interval precision p in [2, 1100], member points). Intervals: point, 1-ulp "
        "wide, narrow, wide, straddling or touching 0, half-infinite, infinite, endpoints with more bits than p, "
        "intervals around the minimum of gamma (1.4616...) and around poles/zeros of tan, log, 1/x. Operations through "
        "the iv API: + - * /, ** (integer exponents |n| <= 200 and a few huge ones, real interval exponents), abs, "
        "neg, pos, exp, log, sqrt, sin, cos, tan, atan2, gamma, rgamma, loggamma, factorial; conversions iv.mpf(int|"
        "float|mp.mpf|Fraction) and every interval string form ('x', 'a +- b', 'a (b)', 'a (b%)', '[a, b]', "
        "'x[y,z]e'). Member points of each input: both endpoints, the midpoint, points one ulp (at 4p bits) inside each "
        "endpoint and random dyadic points. Oracle: MPFR evaluates the operation at each member point with RNDD and RNDU "
        "at p+64 bits, giving a rigorous enclosure [lo, hi] of the exact value (MPFR functions are correctly rounded); "
        "violation iff hi < a or lo > b for the returned [a, b] (enclosure straddling an endpoint = inconclusive); "
        "string forms: the exact rational range denoted must be inside the result. Results (-inf, +inf) or exceptions "
        "= no interval returned. Also a <= b and canonical endpoints. Non-trivial = non-point input or endpoint with "
        "more bits than p, result finite.")
ASSUMPTIONS = ["MPFR directed rounding gives rigorous enclosures (correctly rounded functions)", "CPython Fraction for string forms"]
TECHNIQUE = "property-based testing (Hypothesis) with member-point enclosures from MPFR directed rounding"

UNARY = {"exp": "exp", "log": "log", "sqrt": "sqrt", "sin": "sin", "cos": "cos", "tan": "tan", "gamma": "gamma",
         "rgamma": None, "loggamma": "lngamma", "factorial": None, "abs": "abs", "neg": "neg", "pos": None}
GAMMA_MIN = exact.mk(0, 0x17626cc7a4a4a7, -52)         # 1.4616321449683623 (53-bit rounding, used only to place generated intervals)
# argmin of gamma on (0, inf) to 300 bits: 1.46163214496836234126265954232572132846819620400644635129598840859878644...
GAMMA_MIN_HI = exact.mk(0, 1488698631733748543345123856936620195538858685151493858380679170690628102643901131041224327, -299)


def shards(tier):
    n = 2500 if tier == "quick" else 40000
    return [("arith", n)] * 5 + [("fun", n)] * 6 + [("pow", n)] * 2 + [("conv", n)] * 3


def _point(d, p, maxbits, span=12):
    m, _ = gen.mantissa(d, p, maxbits)
    return exact.mk(d.int(0, 1), m, d.int(-span, span) - m.bit_length())


def interval(d, p, positive=False, center=None, maxmag=12):
    """returns [a, b] raws with a <= b"""
    k = d.weighted([(3, "point"), (4, "ulp"), (4, "narrow"), (4, "wide"), (3 if not positive else 0, "straddle0"),
                    (2 if not positive else 0, "touch0"), (1, "halfinf"), (1 if not positive else 0, "inf"), (2, "longbits")])
    a = center if center is not None else _point(d, p, d.choice([8, p, p]), maxmag)
    if positive and a[0]:
        a = (0,) + tuple(a[1:])
    if k == "point":
        b = a
    elif k == "longbits":
        a = _point(d, p, d.choice([p + 1, 2 * p, 3 * p]), maxmag) if center is None else a
        if positive and a[0]:
            a = (0,) + tuple(a[1:])
        w = exact.mk(0, d.int(1, 1000), a[2] + a[3] - d.int(1, 2 * p) - 10)
        b = exact.mk(*_me(exact.add_exact(a, w)))
    elif k == "ulp":
        w = exact.mk(0, 1, a[2] + a[3] - p - d.int(-1, 2))
        b = exact.mk(*_me(exact.add_exact(a, w)))
    elif k == "narrow":
        w = exact.mk(0, d.int(1, 255), a[2] + a[3] - d.int(4, p + 8))
        b = exact.mk(*_me(exact.add_exact(a, w)))
    elif k == "wide":
        w = exact.mk(0, d.int(1, 255), a[2] + a[3] - d.int(-3, 6))
        b = exact.mk(*_me(exact.add_exact(a, w)))
    elif k == "straddle0":
        a = (1,) + tuple(a[1:]) if a[1] else exact.from_int(-1)
        b = _point(d, p, 20, maxmag)
        b = (0,) + tuple(b[1:])
    elif k == "touch0":
        if d.bool():
            a, b = fzero, (0,) + tuple(a[1:]) if a[1] else exact.from_int(1)
        else:
            a, b = (1,) + tuple(a[1:]) if a[1] else exact.from_int(-1), fzero
    elif k == "halfinf":
        if d.bool() or positive:
            b = finf
        else:
            a, b = fninf, a
    else:
        a, b = fninf, finf
    if exact.is_finite(a) and exact.is_finite(b) and exact.cmp_exact(a, b) > 0:
        a, b = b, a
    return [J(a), J(b)], k


def _me(me):
    m, e = me
    return (1 if m < 0 else 0, abs(m), e)


def members(d, iv, p, n=3):
    """member points of [a, b] as raws"""
    a, b = U(iv[0]), U(iv[1])
    pts = []
    fa, fb = exact.is_finite(a), exact.is_finite(b)
    if fa:
        pts.append(a)
    if fb:
        pts.append(b)
    if fa and fb and tuple(a) != tuple(b):
        m, e = exact.add_exact(a, b)
        pts.append(exact.mk(*_me((m, e - 1))))
        # one ulp (at 4p bits) inside each endpoint
        wid = acc.sub_raw(b, a)
        eps = (0, 1, wid[2] + wid[3] - 4 * p - 3, 1)
        pts.append(exact.mk(*_me(exact.add_exact(a, eps))))
        pts.append(acc.sub_raw(b, eps))
        for _ in range(n):
            # random dyadic inside: a + wid * t, t in (0,1) with 30 bits
            t = d.int(1, (1 << 30) - 1)
            mm, ee = exact.mul_exact(wid, (0, t, -30, t.bit_length()))
            pts.append(exact.mk(*_me(exact.add_exact(a, exact.mk(*_me((mm, ee)))))))
    elif fa and not fb:
        for k in (1, 7, 100):
            pts.append(exact.mk(*_me(exact.add_exact(a, exact.from_int(k)))))
    elif fb and not fa:
        for k in (1, 7, 100):
            pts.append(acc.sub_raw(b, exact.from_int(k)))
    elif not fa and not fb:
        pts += [fzero, exact.from_int(1), exact.from_int(-3)]
    return [J(t) for t in pts]


def gen_case(d, shard, tier):
    p = gen.prec(d, 2, 1100 if tier == "thorough" else 400)
    if shard in ("fun", "pow"):
        p = max(p, 10)      # transcendental interval functions: precisions below 10 bits are not meaningful targets
    if shard == "arith":
        op = d.choice(["add", "sub", "mul", "div", "abs", "neg", "pos", "radd_num", "mul_num", "div_num"])
        x, kx = interval(d, p)
        y, ky = interval(d, p)
        c = {"kind": "arith", "op": op, "p": p, "x": x, "y": y, "px": members(d, x, p), "py": members(d, y, p),
             "num": helpers.typed_operand(d, p, ("int", "float", "mpf"), maxbits=2 * p), "cls": "arith:%s:%s,%s" % (op, kx, ky)}
        return c
    if shard == "fun":
        fn = d.choice(["exp", "log", "sqrt", "sin", "cos", "tan", "gamma", "rgamma", "loggamma", "factorial", "atan2", "sin", "cos", "gamma"])
        positive = fn in ("log", "sqrt", "loggamma")
        center = None
        if fn in ("gamma", "rgamma", "loggamma", "factorial") and d.int(0, 2) == 0:
            # around the minimum of gamma (for factorial: x+1 around it)
            g = GAMMA_MIN if fn != "factorial" else acc.sub_raw(GAMMA_MIN, exact.from_int(1))
            off = exact.mk(d.int(0, 1), d.int(0, 255), -d.int(8, p + 10))
            center = exact.mk(*_me(exact.add_exact(g, off))) if off[1] else g
        if fn in ("sin", "cos", "tan") and d.int(0, 2) == 0:
            pi = M.const("pi", p + 40)
            k = d.int(-8, 8)
            center = exact.round_dyadic(pi[1] * k, pi[2] - 1, d.choice([p, p + 5, 2 * p]), d.choice("fc")) if k else None
        mm = 6 if fn in ("exp", "gamma", "rgamma", "loggamma", "factorial") else 12
        x, kx = interval(d, p, positive=positive, center=center, maxmag=mm)
        if fn in ("gamma", "rgamma", "loggamma", "factorial") and d.int(0, 2) == 0:
            # an interval that straddles the minimum of gamma by small amounts on both sides
            xm = GAMMA_MIN_HI if fn != "factorial" else acc.sub_raw(GAMMA_MIN_HI, exact.from_int(1))
            d1 = exact.mk(0, d.int(1, 255), -d.int(6, p + 20))
            d2 = exact.mk(0, d.int(1, 255), -d.int(6, p + 20))
            bits = d.choice([p, p, 2 * p, 300])
            a = exact.round_raw(acc.sub_raw(xm, d1), bits, "f")
            b = exact.round_raw(exact.mk(*_me(exact.add_exact(xm, d2))), bits, "c")
            x, kx = [J(a), J(b)], "straddle_min"
        c = {"kind": "fun", "fn": fn, "p": p, "x": x, "px": members(d, x, p), "cls": "fun:%s:%s" % (fn, kx)}
        if fn in ("gamma", "rgamma", "loggamma", "factorial"):
            # the location of the minimum of gamma (300-bit value, verified with MPFR digamma) is a member point of
            # every interval containing it: the extremum is where a wrong monotonicity case analysis shows
            xm = GAMMA_MIN_HI if fn != "factorial" else acc.sub_raw(GAMMA_MIN_HI, exact.from_int(1))
            a, b = U(x[0]), U(x[1])
            if vle(a, xm) and vle(xm, b):
                c["px"].append(J(xm))
                c["cls"] += ":contains_min"
        if fn == "atan2":
            y, ky = interval(d, p)
            c["y"], c["py"] = y, members(d, y, p)
        return c
    if shard == "pow":
        kind = d.choice(["int", "int", "real", "huge"])
        x, kx = interval(d, p, positive=(kind == "real"), maxmag=4)
        c = {"kind": "pow", "sub": kind, "p": p, "x": x, "px": members(d, x, p), "cls": "pow:%s:%s" % (kind, kx)}
        if kind == "int":
            c["n"] = d.int(-60, 200) if d.bool() else d.choice([0, 1, 2, 3, -1, -2, -3])
        elif kind == "huge":
            j = d.int(10, max(12, 2 * p))
            c["x"] = [J(exact.mk(0, (1 << j) - d.int(1, 9), -j)), J(exact.mk(0, (1 << j) + d.int(1, 9), -j))]
            c["px"] = members(d, c["x"], p)
            c["n"] = d.int(10**3, 10**9)
        else:
            y, ky = interval(d, p, maxmag=3)
            c["y"], c["py"] = y, members(d, y, p)
        return c
    # conversions
    kind = d.choice(["int", "float", "mpf", "fraction", "str_plain", "str_pm", "str_paren", "str_pct", "str_bracket", "str_digits", "pair"])
    c = {"kind": "conv", "sub": kind, "p": p, "cls": "conv:" + kind}
    def lit():
        s = "%s%d.%s" % (d.choice(["", "-"]), d.int(0, 10 ** d.int(0, 30)), "".join(str(d.int(0, 9)) for _ in range(d.int(0, 40))))
        if d.int(0, 2) == 0:
            s += "e%d" % d.int(-60, 60)
        return s
    def plit():
        return lit().lstrip("-")
    if kind == "int":
        c["v"] = str(d.int(-2 ** (3 * p), 2 ** (3 * p)))
    elif kind == "float":
        c["v"] = gen.pyfloat(d).hex()
    elif kind == "mpf":
        c["v"] = J(gen.mpf_finite(d, p, 3 * p, huge=False))
    elif kind == "fraction":
        c["v"] = [str(d.int(-10**30, 10**30)), str(d.int(1, 10**30))]
    elif kind == "str_plain":
        c["v"] = lit()
    elif kind == "str_pm":
        c["v"] = "%s +- %s" % (lit(), plit())
    elif kind == "str_paren":
        c["v"] = "%s (%s)" % (lit(), plit())
    elif kind == "str_pct":
        c["v"] = "%s (%s%%)" % (lit(), plit())
    elif kind == "str_bracket":
        a, b = lit(), lit()
        c["v"] = "[%s, %s]" % (a, b)
    elif kind == "str_digits":
        x = "%s%d.%s" % (d.choice(["", "-"]), d.int(0, 999), "".join(str(d.int(0, 9)) for _ in range(d.int(0, 12))))
        y = "".join(str(d.int(0, 9)) for _ in range(d.int(1, 4)))
        z = "".join(str(d.int(0, 9)) for _ in range(len(y)))
        c["v"] = "%s[%s,%s]%s" % (x, y, z, d.choice(["", "e%d" % d.int(-30, 30)]))
    else:
        x, _ = interval(d, p)
        c["v"] = x
    return c


# ------------------------------------------------------------------------------------------ oracle

def enclose1(name, x, q):
    """(lo, hi) enclosing f(x) for raw x, or None if undefined/non-finite"""
    if name == "rgamma":
        g = enclose1("gamma", x, q + 10)
        if g is None:
            # at the poles of gamma rgamma is exactly 0
            if x == fzero or (x[0] and x[2] >= 0):
                return fzero, fzero
            return None
        glo, ghi = g
        if glo[1] == 0 or ghi[1] == 0 or glo[0] != ghi[0]:
            return None
        one = exact.from_int(1)
        return M.fn2("div", one, ghi, q, "f"), M.fn2("div", one, glo, q, "c")
    if name == "factorial":
        big = M.fn2("add", x, exact.from_int(1), max(q, x[3] + abs(x[2]) + 8) if x[1] and abs(x[2]) < 4000 else q, "n")
        return enclose1("gamma", big, q)
    if name == "pos":
        return x, x
    if name == "gamma" and (x == fzero or (x[1] and x[0] and x[2] >= 0)):
        return None
    lo, hi = M.fn1(name, x, q, "f"), M.fn1(name, x, q, "c")
    if lo == fnan or hi == fnan:
        return None
    return lo, hi


def enclose2(name, x, y, q):
    lo, hi = M.fn2(name, x, y, q, "f"), M.fn2(name, x, y, q, "c")
    if lo == fnan or hi == fnan:
        return None
    return lo, hi


def vle(a, b):
    """a <= b for raws incl. infinities"""
    if a == fninf or b == finf:
        return True
    if a == finf or b == fninf:
        return False
    return exact.cmp_exact(a, b) <= 0


def outside(enc, a, b):
    """True iff the enclosure [lo,hi] lies entirely outside [a,b]"""
    lo, hi = enc
    if hi != finf and a != fninf and not vle(a, hi):
        return "below"
    if lo != fninf and b != finf and not vle(lo, b):
        return "above"
    return None


def _mkiv(iv, mp, pair):
    a, b = U(pair[0]), U(pair[1])
    return iv.mpf((mp.make_mpf(a), mp.make_mpf(b)))


def _result(res, bucket, r, what):
    if not hasattr(r, "_mpi_"):
        res.rejected = True
        return None
    a, b = r._mpi_
    for t in (a, b):
        prob = exact.canonical_problem(t)
        if prob:
            res.bad(bucket + ":noncanonical", what + ": " + prob)
            return None
    if a == fnan or b == fnan:
        res.rejected = True
        return None
    if not vle(a, b):
        res.bad(bucket + ":order", "%s = [%s, %s] has a > b" % (what, exact.raw_str(a), exact.raw_str(b)))
        return None
    return a, b


def check_case(c):
    import mpmath
    from mpmath import mp, iv
    res = R()
    res.cls = c["cls"]
    p = c["p"]
    q = p + 64
    iv.prec = p
    # any of these means "no interval was returned" (RecursionError: mpi_gamma recurses z -> z+1 without bound for
    # intervals reaching far to the left, e.g. [-inf, x]; not a containment question)
    DOC = (ValueError, ZeroDivisionError, NotImplementedError, OverflowError, TypeError, mpmath.libmp.NoConvergence,
           mpmath.libmp.ComplexResult, RecursionError)
    try:
        kind = c["kind"]
        if kind == "conv":
            return _conv(res, iv, mp, c, p, DOC)
        X = _mkiv(iv, mp, c["x"])
        px = [U(t) for t in c["px"]]
        what = "%s %s on x=[%s, %s]" % (kind, c.get("op") or c.get("fn") or c.get("sub"), exact.raw_str(U(c["x"][0])), exact.raw_str(U(c["x"][1])))
        if "y" in c:
            Y = _mkiv(iv, mp, c["y"])
            py = [U(t) for t in c["py"]]
            what += " y=[%s, %s]" % (exact.raw_str(U(c["y"][0])), exact.raw_str(U(c["y"][1])))
        what += " prec %d" % p
        try:
            if kind == "arith":
                op = c["op"]
                bucket = "arith:" + op
                if op in ("radd_num", "mul_num", "div_num"):
                    num, nraw = helpers.realize(mp, c["num"])
                    if not exact.is_finite(nraw):
                        res.rejected = True
                        return res
                    py = [nraw]
                    r = {"radd_num": lambda: num + X, "mul_num": lambda: X * num, "div_num": lambda: num / X}[op]()
                    name = {"radd_num": "add", "mul_num": "mul", "div_num": "div"}[op]
                    pairs = [(t, u) for t in px for u in py] if op != "div_num" else [(u, t) for t in px for u in py]
                elif op in ("abs", "neg", "pos"):
                    r = abs(X) if op == "abs" else (-X if op == "neg" else +X)
                    name, pairs = op, [(t,) for t in px]
                else:
                    r = {"add": lambda: X + Y, "sub": lambda: X - Y, "mul": lambda: X * Y, "div": lambda: X / Y}[op]()
                    name, pairs = op, [(t, u) for t in px for u in py]
            elif kind == "fun":
                fn = c["fn"]
                bucket = "fun:" + fn
                if fn == "atan2":
                    r = iv.atan2(Y, X)
                    name, pairs = "atan2", [(u, t) for t in px for u in py]
                else:
                    r = getattr(iv, fn)(X)
                    name, pairs = UNARY.get(fn) or fn, [(t,) for t in px]
            else:
                sub = c["sub"]
                bucket = "pow:" + sub
                if sub in ("int", "huge"):
                    n = c["n"]
                    r = X ** n
                    name, pairs = ("pow_z", n), [(t,) for t in px]
                else:
                    r = X ** Y
                    name, pairs = "pow", [(t, u) for t in px for u in py]
        except DOC:
            res.rejected = True
            return res
        ab = _result(res, bucket, r, what)
        if ab is None:
            return res
        a, b = ab
        if a == fninf and b == finf:
            res.rejected = True
            return res
        res.nontrivial = tuple(U(c["x"][0])) != tuple(U(c["x"][1])) or U(c["x"][0])[3] > p
        for args in pairs[:40]:
            try:
                if isinstance(name, tuple):
                    lo, hi = M.pow_z(args[0], name[1], q, "f"), M.pow_z(args[0], name[1], q, "c")
                    enc = None if fnan in (lo, hi) else (lo, hi)
                elif len(args) == 1:
                    enc = enclose1(name, args[0], q)
                else:
                    enc = enclose2(name, args[0], args[1], q)
            except M.Out:
                enc = None
            if enc is None or enc[0] in (finf, fninf) or enc[1] in (finf, fninf):
                continue        # the operation is undefined (pole) or overflows at this member point
            side = outside(enc, a, b)
            if side:
                res.bad(bucket, "%s = [%s, %s] misses the value at member point %s: enclosure [%s, %s] lies %s" % (
                    what, exact.raw_str(a), exact.raw_str(b), [exact.raw_str(t) for t in args], exact.raw_str(enc[0]), exact.raw_str(enc[1]), side))
                break
        return res
    finally:
        iv.prec = 53


def _conv(res, iv, mp, c, p, DOC):
    sub, v = c["sub"], c["v"]
    res.nontrivial = True
    try:
        if sub == "int":
            r = iv.mpf(int(v))
            lo = hi = Fraction(int(v))
        elif sub == "float":
            f = float.fromhex(v)
            if f != f or f in (float("inf"), float("-inf")):
                res.rejected = True
                return res
            r = iv.mpf(f)
            lo = hi = Fraction(f)
        elif sub == "mpf":
            t = U(v)
            r = iv.mpf(mp.make_mpf(t))
            lo = hi = exact.to_fraction(t)
        elif sub == "fraction":
            fr = Fraction(int(v[0]), int(v[1]))
            r = iv.mpf(fr)
            lo = hi = fr
        elif sub == "pair":
            a, b = U(v[0]), U(v[1])
            r = iv.mpf((mp.make_mpf(a), mp.make_mpf(b)))
            got = _result(res, "conv:pair", r, "iv.mpf(pair)")
            if got and (not vle(got[0], a) or not vle(b, got[1])):
                res.bad("conv:pair", "iv.mpf((a,b)) = [%s,%s] does not contain [%s,%s]" % (exact.raw_str(got[0]), exact.raw_str(got[1]), exact.raw_str(a), exact.raw_str(b)))
            return res
        else:
            from .C07 import literal_value
            s = v
            r = iv.mpf(s)
            t = s.replace(" ", "")
            if sub == "str_plain":
                lo = hi = literal_value(t)
            elif sub in ("str_pm", "str_paren", "str_pct"):
                if sub == "str_pm":
                    x, y = t.split("+-")
                else:
                    x, y = t.rstrip(")").split("(")
                pct = y.endswith("%")
                y = y.rstrip("%")
                xv, yv = literal_value(x), literal_value(y)
                if pct:
                    yv = abs(xv) * yv / 100
                lo, hi = xv - yv, xv + yv
            elif sub == "str_bracket":
                x, y = t.strip("[]").split(",")
                lo, hi = literal_value(x), literal_value(y)
                if lo > hi:
                    res.rejected = True          # '[a, b]' with a > b does not denote a range
                    return res
            else:
                x, rest = t.split("[")
                y, rest = rest.split(",")
                z, e = rest.split("]")
                lo, hi = literal_value(x + y + e), literal_value(x + z + e)
                if lo > hi:
                    res.rejected = True
                    return res
    except DOC:
        res.rejected = True
        return res
    what = "iv.mpf(%r) at prec %d" % (v if not isinstance(v, list) else v, p)
    ab = _result(res, "conv:" + sub, r, what)
    if ab is None:
        return res
    a, b = ab
    flo = exact.round_fraction(lo, p + 64, "f") if lo != 0 else fzero
    fhi = exact.round_fraction(hi, p + 64, "c") if hi != 0 else fzero
    # exact containment test with Fractions
    if (a != fninf and exact.to_fraction(a) > lo) or (b != finf and exact.to_fraction(b) < hi):
        res.bad("conv:" + sub, "%s = [%s, %s] does not contain the denoted range [%s, %s]" % (
            what, exact.raw_str(a), exact.raw_str(b), exact.raw_str(flo), exact.raw_str(fhi)))
    return res


# ------------------------------------------------------------------------------------------ known-finding regions

def region_value_near_representable(case):
    """Interval functions take their endpoints from mpf_<f>(x, prec, round_floor/round_ceiling).  Those routines
    round a fixed-point approximation (about prec+10..20 bits) in the requested direction, so when the exact value
    lies within about 2^-(prec+6) (relative) of a prec-bit number -- e.g. exp(x) = 1 + x + x^2/2 with x^2/2 below the
    working precision -- the approximation is exactly representable and no outward step is taken.  The region is
    exactly that situation: some endpoint image is that close to the prec-bit grid."""
    p = case["p"]
    kind = case["kind"]
    if kind == "fun":
        fn = case["fn"]
        name = UNARY.get(fn) or fn
        if fn == "atan2":
            return False
        pts = [(U(t),) for t in case["x"]]
    elif kind == "pow" and case["sub"] == "real":
        name = "pow"
        pts = [(U(a), U(b)) for a in case["x"] for b in case["y"]]
    else:
        return False
    q = p + 80
    for args in pts:
        if any(not exact.is_finite(t) for t in args):
            continue
        try:
            enc = enclose1(name, args[0], q) if len(args) == 1 else enclose2(name, args[0], args[1], q)
        except M.Out:
            continue
        if enc is None or enc[0][1] == 0:
            continue
        v = enc[0]
        for w in (exact.round_raw(v, p, "f"), exact.round_raw(v, p, "c")):
            d = acc.sub_raw(v, w)
            if d[1] == 0 or (d[2] + d[3]) - (v[2] + v[3]) < -(p + 6):
                return True
    return False


REGIONS = {"value_near_representable": region_value_near_representable}
