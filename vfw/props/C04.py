"""C04 -- complex arithmetic is correctly rounded per component; division/reciprocal/negative powers
are accurate to a few ulps in modulus; mpc equality is exact."""
from fractions import Fraction

from .. import exact, gen, helpers
from ..core import R
from ..exact import fzero, finf, fninf, fnan, raw_json as J, raw_unjson as U

ID = "C04"
LEVEL = "exploration"
CASE_TIMEOUT = 30.0          # each case is a micro/milli-second integer kernel
HANG_IS_VIOLATION = True
RULE = ("Cases = (operation, complex operands whose components come from the structural mantissa classes with "
        "correlated magnitudes [equal, one tiny, one zero, pure real/imaginary, far-apart exponents], real/int/float/"
        "complex second operands, precision, rounding mode). Entry points: libmp mpc_add/sub/mul/mul_mpf/add_mpf/"
        "mul_int/square/pow_int/div/reciprocal/mpf_div, mpc operators (incl. reflected, mixed with int/float/complex/"
        "mpf) and fadd/fsub/fmul with complex arguments and rounding=. Oracle: exact Gaussian-rational result; "
        "+,-,*,z*x,z+x and z**n (n>=0, n*(|de|+max bc) <= 8000) must equal the correctly rounded component exactly; "
        "/, reciprocal, negative powers must satisfy |res-exact| <= 2^(3-p)|exact| (exact comparison of squared "
        "moduli). Equality mpc==complex/int/float/mpf must equal exact componentwise equality. Non-trivial = both "
        "operands have nonzero real and imaginary parts and an exact component needs more than p bits.")
ASSUMPTIONS = ["CPython int/Fraction arithmetic", "'a few units in the last place' is read as 8 ulp (2^(3-p) relative, in modulus)"]
TECHNIQUE = "property-based testing (Hypothesis) against exact Gaussian-rational arithmetic"


def shards(tier):
    n = 5000 if tier == "quick" else 60000
    return [("libmp", n)] * 8 + [("mp", n)] * 5 + [("eq", n)] * 3


def comp_pair(d, p, maxbits):
    """two raws with correlated magnitudes"""
    k = d.weighted([(6, "indep"), (4, "near"), (3, "tiny"), (2, "zero_re"), (2, "zero_im"), (2, "far")])
    a = gen.mpf_finite(d, p, maxbits, huge=False, nonzero=True)
    if abs(a[2]) > 3000:
        a = (a[0], a[1], a[2] % 3000, a[3])
    if k == "indep":
        b = gen.mpf_finite(d, p, maxbits, huge=False, nonzero=True)
        if abs(b[2]) > 3000:
            b = (b[0], b[1], b[2] % 3000, b[3])
    elif k == "near":
        m, _ = gen.mantissa(d, p, maxbits)
        b = exact.mk(d.int(0, 1), m, a[2] + a[3] - m.bit_length() + d.int(-2, 2))
    elif k == "tiny":
        m, _ = gen.mantissa(d, p, maxbits)
        b = exact.mk(d.int(0, 1), m, a[2] + a[3] - m.bit_length() - d.choice([p - 1, p, p + 1, p + 5, 2 * p, 101, 150]))
    elif k == "far":
        m, _ = gen.mantissa(d, p, maxbits)
        b = exact.mk(d.int(0, 1), m, a[2] - d.choice([99, 100, 101, 102, 200, 1000]) * d.choice([1, -1]))
    elif k == "zero_re":
        return (fzero, a), k
    else:
        return (a, fzero), k
    if d.bool():
        a, b = b, a
    return (a, b), k


def gen_case(d, shard, tier):
    maxbits = 600 if tier == "quick" else 2000
    p = gen.prec(d, 1, 1000 if tier == "quick" else 3000)
    z, kz = comp_pair(d, p, maxbits)
    c = {"layer": shard, "p": p, "z": helpers.mpc_json(z)}
    if shard == "libmp":
        op = d.weighted([(5, "add"), (4, "sub"), (8, "mul"), (3, "mul_mpf"), (2, "add_mpf"), (2, "sub_mpf"), (2, "mul_int"),
                         (3, "square"), (6, "pow_int"), (5, "div"), (3, "reciprocal"), (2, "mpf_div"), (2, "div_mpf"),
                         (1, "pos"), (1, "neg")])
        c["op"] = op
        c["rnd"] = gen.rnd(d)
        if op in ("add", "sub", "mul", "div"):
            w, kw = comp_pair(d, p, maxbits)
            if d.int(0, 5) == 0:
                # related operand: conjugate-ish / same components (cancellation in ac-bd)
                w = (z[0], z[1]) if d.bool() else (z[1], z[0])
                if d.bool():
                    w = (w[0], (1 - w[1][0],) + tuple(w[1][1:]) if w[1][1] else w[1])
            c["w"] = helpers.mpc_json(w)
        elif op in ("mul_mpf", "add_mpf", "sub_mpf", "mpf_div", "div_mpf", "mul_imag_mpf"):
            c["x"] = J(gen.mpf_finite(d, p, maxbits, huge=False, nonzero=True))
            x = U(c["x"])
            if abs(x[2]) > 3000:
                c["x"] = J((x[0], x[1], x[2] % 3000, x[3]))
        elif op == "mul_int":
            c["n"] = d.choice([0, 1, -1, 3, 1023, 1024, d.int(-10**6, 10**6)])
        elif op == "pow_int":
            c["n"] = d.choice([0, 1, 2, 3, 4, 5, -1, -2, -3]) if d.bool() else d.int(-60, 200)
        c["cls"] = "libmp:%s:%s" % (op, c["rnd"])
        return c
    if shard == "mp":
        op = d.weighted([(4, "add"), (4, "sub"), (6, "mul"), (4, "div"), (4, "pow"), (3, "fadd"), (3, "fsub"), (4, "fmul")])
        c["op"] = op
        c["swap"] = d.bool()
        oty = d.choice(["mpc", "mpc", "mpf", "int", "float", "complex"])
        if op == "pow":
            c["n"] = d.choice([0, 1, 2, 3, -1, -2]) if d.bool() else d.int(-40, 120)
            c["cls"] = "mp:pow"
            return c
        if oty == "mpc":
            w, _ = comp_pair(d, p, maxbits)
            c["w"] = ["mpc", helpers.mpc_json(w)]
        elif oty == "complex":
            c["w"] = ["complex", [gen.pyfloat(d).hex(), gen.pyfloat(d).hex()]]
        else:
            c["w"] = helpers.typed_operand(d, p, (oty,), maxbits=maxbits)
        if op in ("fadd", "fsub", "fmul"):
            c["rnd"] = gen.rnd(d) if d.int(0, 3) else None
            mode = d.choice(["ctx", "prec", "exact"])
            c["mode"] = mode
            if mode == "prec":
                c["kp"] = gen.prec(d, 1, 1000)
        c["cls"] = "mp:%s:%s" % (op, oty)
        return c
    # eq
    oty = d.choice(["complex", "int", "float", "mpf", "mpc"])
    c["oty"] = oty
    same = d.bool()
    c["same"] = same
    if oty in ("complex", "float"):
        # make z from floats so that equality is reachable
        f1, f2 = gen.pyfloat(d), (gen.pyfloat(d) if oty == "complex" else 0.0)
        c["z"] = helpers.mpc_json((helpers.float_raw(f1), helpers.float_raw(f2)))
        g1, g2 = (f1, f2) if same else (gen.pyfloat(d), f2 if d.bool() else gen.pyfloat(d))
        c["w"] = [g1.hex(), g2.hex()]
    elif oty == "int":
        n = d.int(-10**30, 10**30)
        c["z"] = helpers.mpc_json((exact.from_int(n), fzero if d.int(0, 3) else exact.from_int(d.int(-2, 2))))
        c["w"] = str(n if same else n + d.choice([1, -1]))
    else:
        w = z if same else comp_pair(d, p, maxbits)[0]
        if oty == "mpf":
            c["z"] = helpers.mpc_json((z[0], fzero if d.int(0, 3) else z[1]))
            w = (U(c["z"][0]) if same else w[0], fzero)
        c["w"] = helpers.mpc_json(w)
    c["cls"] = "eq:%s" % oty
    return c


# ------------------------------------------------------------------------------------------ oracle

def _prod(a, b):
    m, e = exact.mul_exact(a, b)
    return exact.mk(1 if m < 0 else 0, abs(m), e)


def _neg(t):
    return (1 - t[0],) + tuple(t[1:]) if t[1] else t


def mul_round(z, w, p, rnd):
    a, b = z
    c, dd = w
    re = exact.add_round(_prod(a, c), _prod(b, dd), p, rnd, sub=True)
    im = exact.add_round(_prod(a, dd), _prod(b, c), p, rnd)
    return re, im


def cfrac(z):
    return exact.to_fraction(z[0]), exact.to_fraction(z[1])


def pow_exact(z, n):
    """exact (re, im) Fractions of z**n for n >= 0 via integer arithmetic"""
    (ma, ea), (mb, eb) = exact.to_man_exp(z[0]), exact.to_man_exp(z[1])
    if ma == 0 and mb == 0:
        return (0, 0, 0) if n else (1, 0, 0)
    e = min(ea, eb) if ma and mb else (ea if ma else eb)
    A = ma << (ea - e) if ma else 0
    B = mb << (eb - e) if mb else 0
    re, im = 1, 0
    x, y = A, B
    k = n
    while k:
        if k & 1:
            re, im = re * x - im * y, re * y + im * x
        x, y = x * x - y * y, 2 * x * y
        k >>= 1
    return re, im, e * n


def modulus_ok(got, ex_re, ex_im, p, ulps_log2=3):
    """|got - exact|^2 <= 2^(2*(ulps_log2-p)) |exact|^2 with Fractions"""
    gr, gi = cfrac(got)
    dr, di = gr - ex_re, gi - ex_im
    lhs = dr * dr + di * di
    rhs = (ex_re * ex_re + ex_im * ex_im) * Fraction(1, 1 << (2 * (p - ulps_log2))) if p >= ulps_log2 else \
        (ex_re * ex_re + ex_im * ex_im) * (1 << (2 * (ulps_log2 - p)))
    return lhs <= rhs


def _fmt(z):
    return "(%s, %s)" % (exact.raw_str(z[0]), exact.raw_str(z[1]))


def _check_canon(res, bucket, got, what):
    for t in got:
        prob = exact.canonical_problem(t)
        if prob:
            res.bad(bucket + ":noncanonical", "%s: %s" % (what, prob))
            return False
    return True


def _cmp_exact(res, bucket, got, want, what, passthrough=None):
    """passthrough: the unrounded imaginary part of z when the operation is z +- (real): if the only
    discrepancy is that this part came back unrounded, the violation gets the dedicated bucket of the
    recorded finding C04-add-real-unrounded-imag"""
    if not _check_canon(res, bucket, got, what):
        return
    if tuple(got[0]) != tuple(want[0]) or tuple(got[1]) != tuple(want[1]):
        if passthrough is not None and tuple(got[0]) == tuple(want[0]) and tuple(got[1]) == tuple(passthrough):
            bucket = "known-shape:real-addend-imag-unrounded"
        res.bad(bucket, "%s: got %s, correctly rounded is %s" % (what, _fmt(got), _fmt(want)))


def _longbits(z, w, p):
    return all(t[1] for t in z) and (w is None or all(t[1] for t in w))


def check_case(c):
    import mpmath
    from mpmath import mp, libmp
    res = R()
    res.cls = c["cls"]
    p = c["p"]
    z = helpers.mpc_unjson(c["z"])
    layer = c["layer"]
    if layer == "libmp":
        op, rnd = c["op"], c["rnd"]
        bucket = "libmp:%s:%s" % (op, rnd)
        what = "mpc_%s(%s, ..., %d, %r)" % (op, _fmt(z), p, rnd)
        if op in ("add", "sub", "mul", "div"):
            w = helpers.mpc_unjson(c["w"])
            what = "mpc_%s(%s, %s, %d, %r)" % (op, _fmt(z), _fmt(w), p, rnd)
            res.nontrivial = _longbits(z, w, p)
            if op == "div":
                if w[0] == fzero and w[1] == fzero:
                    return res
                got = libmp.mpc_div(z, w, p, rnd)
                if not _check_canon(res, bucket, got, what):
                    return res
                a, b = cfrac(z)
                cc, dd = cfrac(w)
                den = cc * cc + dd * dd
                er, ei = (a * cc + b * dd) / den, (b * cc - a * dd) / den
                if p >= 4 and not modulus_ok(got, er, ei, p):
                    res.bad(bucket, "%s = %s: modulus error above 8 ulp" % (what, _fmt(got)))
                return res
            fn = getattr(libmp, "mpc_" + op)
            got = fn(z, w, p, rnd)
            if op == "add":
                want = (exact.add_round(z[0], w[0], p, rnd), exact.add_round(z[1], w[1], p, rnd))
            elif op == "sub":
                want = (exact.add_round(z[0], w[0], p, rnd, sub=True), exact.add_round(z[1], w[1], p, rnd, sub=True))
            else:
                want = mul_round(z, w, p, rnd)
            _cmp_exact(res, bucket, got, want, what)
            return res
        if op in ("mul_mpf", "add_mpf", "sub_mpf", "div_mpf", "mpf_div", "mul_imag_mpf"):
            x = U(c["x"])
            what = "mpc_%s(%s, %s, %d, %r)" % (op, _fmt(z), exact.raw_str(x), p, rnd)
            res.nontrivial = True
            if op == "mpf_div":
                if z[0] == fzero and z[1] == fzero:
                    return res
                got = libmp.mpc_mpf_div(x, z, p, rnd)
                if not _check_canon(res, bucket, got, what):
                    return res
                a, b = cfrac(z)
                xx = exact.to_fraction(x)
                den = a * a + b * b
                if p >= 4 and not modulus_ok(got, xx * a / den, -xx * b / den, p):
                    res.bad(bucket, "%s = %s: modulus error above 8 ulp" % (what, _fmt(got)))
                return res
            fn = getattr(libmp, "mpc_" + op)
            got = fn(z, x, p, rnd)
            if op == "mul_mpf":
                want = tuple(exact.round_dyadic(*exact.mul_exact(t, x), p, rnd) for t in z)
            elif op == "add_mpf":
                want = (exact.add_round(z[0], x, p, rnd), exact.round_raw(z[1], p, rnd))
            elif op == "sub_mpf":
                want = (exact.add_round(z[0], x, p, rnd, sub=True), exact.round_raw(z[1], p, rnd))
            elif op == "mul_imag_mpf":
                # z * (i x) = -b x + i a x, each component correctly rounded in the requested direction
                m1, e1 = exact.mul_exact(z[1], x)
                m2, e2 = exact.mul_exact(z[0], x)
                want = (exact.round_dyadic(-m1, e1, p, rnd), exact.round_dyadic(m2, e2, p, rnd))
            else:
                xm, xe = exact.to_man_exp(x)
                want = []
                for t in z:
                    tm, te = exact.to_man_exp(t)
                    if xm < 0:
                        tm, xm2 = -tm, -xm
                    else:
                        xm2 = xm
                    want.append(exact.round_rational(tm, xm2, p, rnd, te - xe))
                want = tuple(want)
            _cmp_exact(res, bucket, got, want, what, passthrough=z[1] if op in ("add_mpf", "sub_mpf") else None)
            return res
        if op == "mul_int":
            n = c["n"]
            got = libmp.mpc_mul_int(z, n, p, rnd)
            want = tuple(exact.round_dyadic(exact.to_man_exp(t)[0] * n, exact.to_man_exp(t)[1], p, rnd) for t in z)
            res.nontrivial = n not in (0, 1, -1)
            _cmp_exact(res, bucket, got, want, what + " n=%d" % n)
            return res
        if op == "square":
            got = libmp.mpc_square(z, p, rnd)
            want = mul_round(z, z, p, rnd)
            res.nontrivial = _longbits(z, None, p)
            _cmp_exact(res, bucket, got, want, what)
            return res
        if op in ("pos", "neg"):
            got = getattr(libmp, "mpc_" + op)(z, p, rnd)
            zz = z if op == "pos" else (_neg(z[0]), _neg(z[1]))
            want = (exact.round_raw(zz[0], p, rnd), exact.round_raw(zz[1], p, rnd))
            _cmp_exact(res, bucket, got, want, what)
            return res
        if op == "reciprocal":
            if z[0] == fzero and z[1] == fzero:
                return res
            got = libmp.mpc_reciprocal(z, p, rnd)
            if not _check_canon(res, bucket, got, what):
                return res
            a, b = cfrac(z)
            den = a * a + b * b
            res.nontrivial = True
            if p >= 4 and not modulus_ok(got, a / den, -b / den, p):
                res.bad(bucket, "%s = %s: modulus error above 8 ulp" % (what, _fmt(got)))
            return res
        if op == "pow_int":
            n = c["n"]
            # directed rounding of z**n is not part of the statement (only fadd/fsub/fmul are); nearest only
            return _check_pow(res, "libmp:pow_int:n", lambda: libmp.mpc_pow_int(z, n, p, "n"), z, n, p, "n", what + " n=%d" % n)
        raise ValueError(op)

    if layer == "mp":
        op = c["op"]
        mp.prec = p
        try:
            zz = mp.make_mpc(z)
            if op == "pow":
                n = c["n"]
                def call():
                    r = zz ** n
                    if hasattr(r, "_mpf_"):
                        return (r._mpf_, fzero)
                    return r._mpc_
                return _check_pow(res, "mp:pow", call, z, n, p, "n", "mpc%s ** %d at prec %d" % (_fmt(z), n, p))
            wty, wv = c["w"]
            if wty == "mpc":
                wr = helpers.mpc_unjson(wv)
                w = mp.make_mpc(wr)
            elif wty == "complex":
                f1, f2 = float.fromhex(wv[0]), float.fromhex(wv[1])
                w = complex(f1, f2)
                wr = (helpers.float_raw(f1), helpers.float_raw(f2))
            else:
                w, r0 = helpers.realize(mp, c["w"])
                wr = (r0, fzero)
            if any(t[1] == 0 and t != fzero for t in wr):
                res.rejected = True
                return res    # specials are C02's business
            rnd = "n"
            ep = p
            kw = {}
            bop = {"fadd": "add", "fsub": "sub", "fmul": "mul"}.get(op, op)
            if op in ("fadd", "fsub", "fmul"):
                if c.get("rnd"):
                    kw["rounding"] = rnd = c["rnd"]
                if c["mode"] == "prec":
                    kw["prec"] = ep = c["kp"]
                elif c["mode"] == "exact":
                    kw["exact"] = True
                    ep = 0
            a, b = (w, zz) if c["swap"] else (zz, w)
            ar, br = (wr, z) if c["swap"] else (z, wr)
            what = "%s(%s, %s) %s prec %d" % (op, _fmt(ar), _fmt(br), kw, p)
            bucket = "mp:%s:%s:%s" % (op, wty, rnd)
            import operator
            try:
                if op in ("fadd", "fsub", "fmul"):
                    r = getattr(mp, op)(a, b, **kw)
                else:
                    r = {"add": operator.add, "sub": operator.sub, "mul": operator.mul, "div": operator.truediv}[op](a, b)
            except ZeroDivisionError:
                if op == "div" and br[0] == fzero and br[1] == fzero:
                    return res
                raise
            got = r._mpc_ if hasattr(r, "_mpc_") else (r._mpf_, fzero)
            res.nontrivial = _longbits(ar, br, p)
            if bop == "div":
                if br[0] == fzero and br[1] == fzero:
                    return res.bad(bucket, what + ": division by zero did not raise")
                if not _check_canon(res, bucket, got, what):
                    return res
                aa, bb = cfrac(ar)
                cc, dd = cfrac(br)
                den = cc * cc + dd * dd
                if p >= 4 and not modulus_ok(got, (aa * cc + bb * dd) / den, (bb * cc - aa * dd) / den, p):
                    res.bad(bucket, "%s = %s: modulus error above 8 ulp" % (what, _fmt(got)))
                return res
            if ep == 0:
                if bop == "add":
                    want = tuple(_mk(exact.add_exact(ar[i], br[i])) for i in (0, 1))
                elif bop == "sub":
                    want = tuple(_mk(exact.add_exact(ar[i], _neg(br[i]))) for i in (0, 1))
                else:
                    want = (_mk(exact.add_exact(_prod(ar[0], br[0]), _neg(_prod(ar[1], br[1])))),
                            _mk(exact.add_exact(_prod(ar[0], br[1]), _prod(ar[1], br[0]))))
            elif bop == "add":
                want = (exact.add_round(ar[0], br[0], ep, rnd), exact.add_round(ar[1], br[1], ep, rnd))
            elif bop == "sub":
                want = (exact.add_round(ar[0], br[0], ep, rnd, sub=True), exact.add_round(ar[1], br[1], ep, rnd, sub=True))
            else:
                want = mul_round(ar, br, ep, rnd)
            pt = None
            if bop in ("add", "sub") and wty not in ("mpc", "complex") and ep:
                pt = z[1] if not (c["swap"] and bop == "sub") else _neg(z[1])
            _cmp_exact(res, bucket, got, want, what, passthrough=pt)
            return res
        finally:
            mp.prec = 53

    if layer == "eq":
        oty = c["oty"]
        mp.prec = p
        try:
            zz = mp.make_mpc(z)
            if oty in ("complex", "float"):
                g1, g2 = float.fromhex(c["w"][0]), float.fromhex(c["w"][1])
                w = complex(g1, g2) if oty == "complex" else g1
                wr = (helpers.float_raw(g1), helpers.float_raw(g2) if oty == "complex" else fzero)
            elif oty == "int":
                w = int(c["w"])
                wr = (exact.from_int(w), fzero)
            else:
                wr = helpers.mpc_unjson(c["w"])
                w = mp.make_mpc(wr) if oty == "mpc" else mp.make_mpf(wr[0])
            if fnan in wr or fnan in z:
                want = False
            else:
                want = tuple(z[0]) == tuple(wr[0]) and tuple(z[1]) == tuple(wr[1])
            res.nontrivial = True
            for name, val in (("z==w", zz == w), ("w==z", w == zz), ("not z!=w", not (zz != w)), ("not w!=z", not (w != zz))):
                if bool(val) != want:
                    res.bad("eq:%s" % oty, "%s is %r but exact equality is %r for z=%s w=%r" % (name, val, want, _fmt(z), w))
            return res
        finally:
            mp.prec = 53
    raise ValueError(layer)


def _mk(me):
    m, e = me
    return exact.mk(1 if m < 0 else 0, abs(m), e)


def _check_pow(res, bucket, call, z, n, p, rnd, what):
    zero = z[0] == fzero and z[1] == fzero
    try:
        got = call()
    except ZeroDivisionError:
        if zero and n < 0:
            return res
        return res.bad(bucket + ":exc", what + " raised ZeroDivisionError")
    if not _check_canon(res, bucket, got, what):
        return res
    if zero:
        return res
    res.nontrivial = all(t[1] for t in z) and abs(n) >= 2
    (a, b) = z
    de = abs(a[2] - b[2]) if a[1] and b[1] else 0
    size = abs(n) * (de + max(a[3], b[3]))
    re, im, e = pow_exact(z, abs(n))
    if n >= 0:
        if size <= 8000:
            want = (exact.round_dyadic(re, e, p, rnd), exact.round_dyadic(im, e, p, rnd))
            if tuple(got[0]) != tuple(want[0]) or tuple(got[1]) != tuple(want[1]):
                if (a == fzero or b == fzero) and max(a[3], b[3]) * n >= 1000:
                    # recorded finding C04-pure-axis-pow: on the axes z**n goes through the real power, which is
                    # only within 1 ulp once the exact mantissa exceeds 1000 bits.  Dedicated bucket only if the
                    # result is one of the two neighbours of the exact value.
                    ok = True
                    for g, v in ((got[0], re), (got[1], im)):
                        if tuple(g) not in (tuple(exact.round_dyadic(v, e, p, "f")), tuple(exact.round_dyadic(v, e, p, "c"))):
                            ok = False
                    if ok:
                        bucket = "known-shape:axis-pow-1ulp"
                res.bad(bucket, "%s: got %s, correctly rounded is %s" % (what, _fmt(got), _fmt(want)))
        return res
    if size > 8000 or p < 4:
        return res
    sc = Fraction(2) ** e
    er, ei = Fraction(re) * sc, Fraction(im) * sc
    den = er * er + ei * ei
    if not modulus_ok(got, er / den, -ei / den, p):
        res.bad(bucket + ":neg", "%s = %s: modulus error above 8 ulp" % (what, _fmt(got)))
    return res
