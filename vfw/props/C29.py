"""C29 -- root finders return genuine roots, in the documented order."""
import math
from fractions import Fraction as Fr

from .. import exact
from ..core import R

ID = "C29"
LEVEL = "exploration"
CASE_TIMEOUT = 15.0
RULE = ("Four generated sub-domains, precisions 30..300 bits. "
        "(1) findroot with verify=True for every solver name (secant, newton, mnewton, halley, muller, anewton, bisect, "
        "illinois, pegasus, anderson, ridder; mdnewton for systems): scalar f = polynomials with planted dyadic roots "
        "(multiplicities 1..5, quadratic factors without real roots, linear functions, factored or Horner form, exact "
        "constants), exp(ax)-c, cos(x)-ax-b, x exp(x)-c, exp(-x^2)+c, 1/(1+x^2)-c, tanh(x)-c, sin(x)-c, constants (with and "
        "without real roots, flat tails; the transcendental ones raise OverflowError for |x| > 2^40 like a user function "
        "with a bounded domain, such calls are rejected); starting points near / far / at a root, short dyadics and "
        "generic 53-bit values, brackets with and without a sign change, reversed brackets; options tol, maxsteps, "
        "df/d1f/d2f; 2-3 unknown polynomial systems (also overdetermined, also degenerate) with a planted solution, norms "
        "inf/1/2, optional exact Jacobian. Oracle: a call either raises the documented ValueError/ZeroDivisionError or "
        "returns x with |f(x)|^2 <= tol, tol = 2^(11-(p+20)) unless given, where f(x) is re-evaluated (a) at the working "
        "precision p+20 exactly as findroot does and (b) with the frozen reference mpmath at 3p+100 bits (exact rational "
        "arithmetic for systems) allowing the rounding error of one evaluation of f at p+20 bits; with a strict sign "
        "change the bracketing solvers return a real point of [min(a,b), max(a,b)] (4 ulp slack); bisection, whose "
        "convergence is guaranteed, must not give up when maxsteps halvings provably suffice, and illinois / pegasus / "
        "anderson / ridder must not give up on a linear function (default tol, >= 30 steps); a TypeError of a bracketing "
        "solver without sign change is outside its documented domain (rejected); mp.prec is unchanged after every call, "
        "failing or not. "
        "(2) mnewton on f = (x-r)^m g(x), m = 1..5, g(r) != 0 with the roots of g at distance >= 2 (one third pure powers), "
        "start within 0.1..0.3 of r (10..100 significant bits), numerical derivatives or user-supplied df / df+d2f / "
        "d1f+d2f / d2f alone, factored or expanded (polyval) form: the call must return x with |x-r| <= 2^(4-p/m) "
        "max(1,|r|) (exact comparison) and not raise; cases where the modified Newton iteration carried out with exact "
        "derivatives at (m+1)(p+30)+100 bits does not converge within 18 steps are rejected. "
        "(3) polyroots on degree 0..20 polynomials with planted roots (rational reals, Gaussian rationals, conjugate pairs "
        "for real coefficients, near-unit-circle configurations, multiplicity 2..3 at raised extraprec/maxsteps, pairs with "
        "equal or nearly equal |Im|, equal real parts, tiny imaginary parts), integer / exact mpf / float / complex "
        "coefficients, options maxsteps, cleanup, extraprec, error, roots_init: exactly deg roots of type mpf/mpc (and the "
        "documented tuple with error=True); |P(root)| (exact integer arithmetic) <= 8 err sum k|c_k||root|^(k-1) + (deg+4) "
        "2^(1-p) sum |c_k||root|^k; every simple planted root whose condition number allows it (S(r)/|P'(r)| 2^-extraprec "
        "<= 64 max(1,|r|)) has a distinct computed root within 8 max(err, 2^(10-p) max(1,|r|)); with real coefficients "
        "and cleanup=True the exactly real outputs come first in ascending order and the remaining outputs (matched to "
        "the planted roots when every output lies within a third of the root separation of exactly one planted root) form "
        "adjacent conjugate pairs; cleanup leaves no component below 2^(1-p) and makes well-conditioned real roots real; "
        "polyval (with derivative) agrees with exact evaluation within the Horner bound. NoConvergence is documented: "
        "inconclusive. The docstring's further remark that complex roots are sorted by real part is not part of the "
        "statement and is not checked (the sort key is (|Im|, Re)). "
        "(4) multiplicity(f, r) for f = 2^-s (x-r)^m g(x), m = 1..6, s <= 0.6p, real and complex r, with and without supplied "
        "dkf (Leibniz form for the factored f, Horner form otherwise; Horner evaluations whose rounding noise at the root "
        "reaches the threshold eps^0.8 are rejected): returns m. "
        "Non-trivial = multiplicity >= 2, or degree >= 4, or a start that does not converge, or a system.")
ASSUMPTIONS = ["the frozen reference mpmath 1.3.0 evaluates exp, cos, sin, tanh and polynomials to within 2^-(3p+90) at 3p+100 bits",
               "one evaluation of the generated f at p+20 bits is accurate to the stated multiple of 2^-(p+20) times the sum of "
               "the magnitudes of its terms (elementary functions of the tree under test are accurate to a few ulps: C12)",
               "CPython integer / Fraction arithmetic"]
TECHNIQUE = "property-based testing (Hypothesis) with planted roots, exact rational residuals and a high-precision reference"

ONEPT = ["secant", "newton", "mnewton", "halley", "muller", "anewton"]
BRACKET = ["bisect", "illinois", "pegasus", "anderson", "ridder"]


def shards(tier):
    k = 1 if tier == "quick" else 25
    return ([("scalar", 2500 * k)] * 5 + [("md", 1500 * k)] + [("mnewton", 2000 * k)] * 3 + [("polyroots", 500 * k)] * 4
            + [("polyorder", 400 * k)] * 2 + [("mult", 2500 * k)])


# ----------------------------------------------------------------------------------------------- exact helpers

def _s(q):
    return str(Fr(q))


def _raw(q):
    """raw mpf tuple of a dyadic Fraction"""
    q = Fr(q)
    n, dd = q.numerator, q.denominator
    if dd & (dd - 1):
        raise ValueError("not dyadic: %s" % q)
    return exact.mk(1 if n < 0 else 0, abs(n), -(dd.bit_length() - 1))


def _num(ctx, q):
    return ctx.make_mpf(_raw(q))


def _cnum(ctx, re, im):
    return ctx.make_mpc((_raw(re), _raw(im)))


def _fr_of(x):
    """exact (re, im) Fractions of an mpf / mpc / python number"""
    if hasattr(x, "_mpf_"):
        return exact.to_fraction(x._mpf_), Fr(0)
    if hasattr(x, "_mpc_"):
        return exact.to_fraction(x._mpc_[0]), exact.to_fraction(x._mpc_[1])
    if isinstance(x, complex):
        return Fr(x.real), Fr(x.imag)
    return Fr(x), Fr(0)


def _finite(x):
    for t in (x._mpc_ if hasattr(x, "_mpc_") else (x._mpf_,)):
        if t[1] == 0 and t != exact.fzero:
            return False
    return True


def _cmul(a, b):
    return (a[0] * b[0] - a[1] * b[1], a[0] * b[1] + a[1] * b[0])


def _poly_from_roots(roots):
    """monic polynomial with the given (re, im) Fraction roots; coefficients high -> low as (re, im)"""
    c = [(Fr(1), Fr(0))]
    for r in roots:
        new = [(Fr(0), Fr(0))] * (len(c) + 1)
        new = list(new)
        for k in range(len(c) + 1):
            a = c[k] if k < len(c) else (Fr(0), Fr(0))
            b = _cmul(r, c[k - 1]) if k >= 1 else (Fr(0), Fr(0))
            new[k] = (a[0] - b[0], a[1] - b[1])
        c = new
    return c


def _rpoly_mul(a, b):
    out = [Fr(0)] * (len(a) + len(b) - 1)
    for i, x in enumerate(a):
        for j, y in enumerate(b):
            out[i + j] += x * y
    return out


def _rpoly_deriv(c):
    n = len(c) - 1
    return [c[i] * (n - i) for i in range(n)]


def _rpoly_eval(c, x):
    v = Fr(0)
    for a in c:
        v = v * x + a
    return v


def _abs_fr(re, im):
    """float modulus of an exact complex number (no overflow / underflow for the magnitudes used here)"""
    try:
        if im == 0:
            return abs(float(re))
        return math.hypot(float(re), float(im))
    except OverflowError:
        return float("inf")


def _zs(re, im):
    return "%s" % re if im == 0 else "(%s%s%sj)" % (re, "+" if im > 0 else "-", abs(im))


def _lcm(a, b):
    return a * b // math.gcd(a, b)


class _IntPoly:
    """polynomial with exact complex rational coefficients, stored as integers over a common denominator;
    exact evaluation at dyadic complex points with integer arithmetic"""

    def __init__(self, coeffs):
        den = 1
        for re, im in coeffs:
            den = _lcm(den, re.denominator)
            den = _lcm(den, im.denominator)
        self.den = den
        self.C = [(int(re * den), int(im * den)) for re, im in coeffs]
        self.n = len(coeffs) - 1
        self.absc = [_abs_fr(re, im) for re, im in coeffs]

    def eval(self, x, deriv=False):
        """exact value (re, im) Fractions at the mpf/mpc point x; with deriv also the derivative"""
        if hasattr(x, "_mpc_"):
            tr, ti = x._mpc_
        else:
            tr, ti = x._mpf_, exact.fzero
        mr, er = exact.to_man_exp(tr) if tr[1] else (0, 0)
        mi, ei = exact.to_man_exp(ti) if ti[1] else (0, 0)
        e = min(er if mr else ei, ei if mi else er)
        if not mr and not mi:
            e = 0
        Xr = mr << (er - e) if mr else 0
        Xi = mi << (ei - e) if mi else 0
        if e > 0:
            Xr <<= e
            Xi <<= e
            e = 0
        E = -e
        n = self.n
        ar, ai = self.C[0]
        for k in range(1, n + 1):
            cr, ci = self.C[k]
            sh = k * E
            ar, ai = ar * Xr - ai * Xi + (cr << sh), ar * Xi + ai * Xr + (ci << sh)
        den = self.den << (n * E)
        val = (Fr(ar, den), Fr(ai, den))
        if deriv:
            return val, self._deriv_exact(x)
        return val

    def _deriv_exact(self, x):
        dc = [(Fr(c[0] * (self.n - i), self.den), Fr(c[1] * (self.n - i), self.den)) for i, c in enumerate(self.C[:-1])]
        if not dc:
            return (Fr(0), Fr(0))
        return _IntPoly(dc).eval(x)

    def S(self, rho):
        """sum |c_k| rho^k (float)"""
        v = 0.0
        for a in self.absc:
            v = v * rho + a
        return v

    def D1(self, rho):
        """sum k |c_k| rho^(k-1) (float)"""
        v = 0.0
        n = self.n
        for i, a in enumerate(self.absc[:-1]):
            v = v * rho + a * (n - i)
        return v


# ----------------------------------------------------------------------------------------------- generators

def _prec(d):
    k = d.weighted([(3, "std"), (4, "low"), (2, "mid"), (1, "high")])
    if k == "std":
        return d.choice([30, 53, 56, 64, 100, 113, 200, 300])
    if k == "low":
        return d.int(30, 80)
    if k == "mid":
        return d.int(80, 160)
    return d.int(160, 300)


def _dy(d, lo, hi, bits):
    return Fr(d.int(lo << bits, hi << bits), 1 << bits)


def _gen_fspec(d):
    fam = d.weighted([(10, "poly"), (2, "linear"), (2, "expc"), (2, "cosx"), (2, "xexp"), (1, "gauss"), (1, "const"), (1, "rat"),
                      (1, "tanh"), (1, "sin")])
    if fam == "linear":
        sc = d.weighted([(4, Fr(1)), (2, Fr(-1)), (2, Fr(2)), (1, Fr(1, 4)), (1, Fr(1, 1 << 20)), (1, Fr(-3))])
        return {"fam": "poly", "rr": [[_s(_dy(d, -4, 4, d.choice([0, 1, 2, 4, 6]))), 1]], "qq": [], "scale": _s(sc),
                "form": d.choice(["fact", "horner"])}
    if fam == "poly":
        rr = []
        for _ in range(d.weighted([(2, 0), (4, 1), (3, 2), (2, 3), (1, 4)])):
            rr.append([_s(_dy(d, -4, 4, d.choice([0, 1, 2, 4, 6]))), d.weighted([(7, 1), (3, 2), (2, 3), (1, 5)])])
        qq = []
        for _ in range(d.weighted([(5, 0), (3, 1), (1, 2)]) if rr else d.int(1, 2)):
            b = _dy(d, 0, 3, 2)
            if b == 0:
                b = Fr(1)
            qq.append([_s(_dy(d, -3, 3, 2)), _s(b), d.weighted([(5, 1), (1, 2)])])
        sc = d.weighted([(6, Fr(1)), (2, Fr(-1)), (2, Fr(2)), (1, Fr(1, 4)), (1, Fr(1, 1 << 20)), (1, Fr(-3))])
        return {"fam": "poly", "rr": rr, "qq": qq, "scale": _s(sc), "form": d.choice(["fact", "horner"])}
    if fam == "expc":
        return {"fam": fam, "a": _s(d.choice([Fr(1), Fr(-1), Fr(2), Fr(1, 2)])),
                "c": _s(d.weighted([(6, _dy(d, 0, 8, 3) + Fr(1, 8)), (1, Fr(0)), (2, -_dy(d, 0, 4, 2))]))}
    if fam == "cosx":
        return {"fam": fam, "a": _s(d.weighted([(4, Fr(1)), (3, _dy(d, -2, 2, 2)), (1, Fr(0))])),
                "b": _s(d.weighted([(4, Fr(0)), (2, _dy(d, -1, 1, 2)), (2, d.choice([Fr(2), Fr(-3), Fr(5, 4)]))]))}
    if fam == "xexp":
        return {"fam": fam, "c": _s(d.weighted([(6, _dy(d, 0, 20, 2)), (2, -Fr(d.int(0, 11), 32)),
                                                 (2, -Fr(1, 2) - _dy(d, 0, 3, 2))]))}
    if fam == "gauss":
        return {"fam": fam, "c": _s(d.weighted([(3, Fr(0)), (3, _dy(d, 0, 1, 6)), (4, -_dy(d, 0, 1, 4) - Fr(1, 64))]))}
    if fam == "const":
        return {"fam": fam, "c": _s(d.choice([Fr(1), Fr(-2), Fr(1, 1 << 10), Fr(1, 1 << 40), Fr(1, 1 << 200)]))}
    if fam == "rat":
        return {"fam": fam, "c": _s(d.weighted([(6, _dy(d, 0, 1, 5) + Fr(1, 64)), (2, -_dy(d, 0, 2, 2)), (2, Fr(1) + _dy(d, 0, 2, 3))]))}
    if fam == "tanh":
        return {"fam": fam, "c": _s(d.weighted([(6, _dy(d, -1, 1, 5)), (2, Fr(1)), (2, d.choice([Fr(2), Fr(-5, 4)]))]))}
    return {"fam": "sin", "c": _s(d.weighted([(6, _dy(d, -1, 1, 4)), (2, Fr(1)), (2, d.choice([Fr(2), Fr(-5, 4)]))]))}


def _poly_real_coeffs(spec):
    """exact real coefficients (high -> low) of a 'poly' spec"""
    c = [Fr(spec["scale"])]
    for q, m in spec["rr"]:
        for _ in range(m):
            c = _rpoly_mul(c, [Fr(1), -Fr(q)])
    for a, b, m in spec["qq"]:
        a, b = Fr(a), Fr(b)
        for _ in range(m):
            c = _rpoly_mul(c, [Fr(1), -2 * a, a * a + b * b])
    return c


def _ffloat(spec):
    """double-precision version of f (only used by the generator to place starting points)"""
    fam = spec["fam"]
    if fam == "expc":
        a, c = float(Fr(spec["a"])), float(Fr(spec["c"]))
        return lambda x: math.exp(a * x) - c
    if fam == "cosx":
        a, b = float(Fr(spec["a"])), float(Fr(spec["b"]))
        return lambda x: math.cos(x) - a * x - b
    if fam == "xexp":
        c = float(Fr(spec["c"]))
        return lambda x: x * math.exp(x) - c
    if fam == "gauss":
        c = float(Fr(spec["c"]))
        return lambda x: math.exp(-x * x) + c
    if fam == "const":
        c = float(Fr(spec["c"]))
        return lambda x: c
    if fam == "rat":
        c = float(Fr(spec["c"]))
        return lambda x: 1.0 / (1.0 + x * x) - c
    if fam == "tanh":
        c = float(Fr(spec["c"]))
        return lambda x: math.tanh(x) - c
    c = float(Fr(spec["c"]))
    return lambda x: math.sin(x) - c


def _anchor(d, spec):
    """a point near which a real root lies (exact planted root for polynomials), or 0 when there is none"""
    if spec["fam"] == "poly":
        if spec["rr"]:
            return Fr(d.choice(spec["rr"])[0]), True
        return _dy(d, -2, 2, 2), False
    f = _ffloat(spec)
    xs = [-8 + i / 8.0 for i in range(129)]
    ys = [f(x) for x in xs]
    iv = [(xs[i], xs[i + 1]) for i in range(128) if ys[i] * ys[i + 1] < 0]
    if not iv:
        return _dy(d, -2, 2, 2), False
    lo, hi = iv[d.int(0, 7) % len(iv)]
    flo = f(lo)
    for _ in range(45):
        mid = 0.5 * (lo + hi)
        fm = f(mid)
        if fm == 0:
            lo = hi = mid
            break
        if fm * flo < 0:
            hi = mid
        else:
            lo, flo = mid, fm
    return Fr(0.5 * (lo + hi)), True


def _gen_scalar(d, tier):
    p = _prec(d)
    solver = d.choice(ONEPT + BRACKET)
    spec = _gen_fspec(d)
    anchor, has = _anchor(d, spec)
    sgn = d.choice([-1, 1])
    if solver in BRACKET:
        kind = d.weighted([(6, "around"), (2, "rand"), (1, "wide"), (1, "oneside")])
        if kind == "around":
            d1 = Fr(1, 1 << d.int(0, 12)) if d.bool() else Fr(d.int(1, 256), 128)
            d2 = Fr(1, 1 << d.int(0, 12)) if d.bool() else Fr(d.int(1, 256), 128)
            a, b = anchor - d1, anchor + d2
        elif kind == "rand":
            a = _dy(d, -6, 6, 4)
            b = a + Fr(d.int(1, 128), 16)
        elif kind == "wide":
            a, b = anchor - d.int(2, 40), anchor + d.int(2, 40)
        else:
            a = anchor + Fr(d.int(1, 64), 64)
            b = a + Fr(d.int(1, 128), 32)
        if d.int(0, 3) == 0:
            a, b = b, a
        x0 = [a, b]
    else:
        kind = d.weighted([(4, "near"), (4, "mid"), (2, "far"), (1, "exact"), (2, "rand")])
        if kind == "near":
            x = anchor + sgn * Fr(1, 1 << d.int(1, 12))
        elif kind == "mid":
            x = anchor + sgn * Fr(d.int(26, 256), 256)
        elif kind == "far":
            x = anchor + sgn * d.int(2, 50)
        elif kind == "exact":
            x = anchor
        else:
            x = _dy(d, -10, 10, 6)
        if d.bool():
            x += Fr(d.bits(43), 1 << 53)          # generic starting points are not short dyadics
        x0 = [x]
        extra = 0
        if solver == "secant":
            extra = d.weighted([(3, 0), (2, 1)])
        elif solver == "muller":
            extra = d.weighted([(2, 0), (1, 1), (2, 2)])
        for _ in range(extra):
            x0.append(x0[-1] + d.choice([-1, 1]) * Fr(d.int(1, 64), 64))
    c = {"sub": "scalar", "p": p, "solver": solver, "f": spec, "x0": [_s(x) for x in x0], "kind": kind,
         "xtype": d.weighted([(3, "mpf"), (1, "float")]),
         "tol": d.weighted([(6, None), (2, d.int(8, p + 30)), (1, p // 2)]),
         "maxsteps": d.weighted([(7, None), (3, d.choice([1, 2, 3, 5, 10, 40, 150]))]),
         "deriv": "none"}
    if solver == "anewton" and (c["maxsteps"] or 0) > 20:
        c["maxsteps"] = None      # anewton nests its Steffensen wrapper every third slow step: 4^(maxsteps/3) evaluations
    if solver in ("newton", "mnewton", "halley", "anewton"):
        c["deriv"] = d.weighted([(4, "none"), (4, "df"), (2, "df_d2f"), (1, "d1f"), (1, "d2f")])
    return c


def _gen_md(d, tier):
    p = _prec(d)
    n = d.weighted([(3, 2), (2, 3)])
    neq = n + d.weighted([(4, 0), (1, 1)])
    sol = [_dy(d, -3, 3, d.choice([0, 1, 3])) for _ in range(n)]
    eqs = []
    for _ in range(neq):
        quad = []
        for j in range(n):
            for k in range(j, n):
                if d.int(0, 2) == 0:
                    quad.append([j, k, d.int(-3, 3)])
        lin = [d.int(-4, 4) for _ in range(n)]
        if d.int(0, 9) == 0:
            cub = [d.int(0, n - 1), d.int(-2, 2)]
        else:
            cub = None
        eqs.append({"quad": quad, "lin": lin, "cub": cub})
    kind = d.weighted([(5, "near"), (3, "mid"), (2, "far"), (1, "exact")])
    x0 = []
    for s in sol:
        if kind == "near":
            x0.append(s + d.choice([-1, 1]) * Fr(d.int(0, 64), 1024))
        elif kind == "mid":
            x0.append(s + Fr(d.int(-256, 256), 256))
        elif kind == "far":
            x0.append(s + d.int(-30, 30))
        else:
            x0.append(s)
    return {"sub": "md", "p": p, "n": n, "sol": [_s(s) for s in sol], "eqs": eqs, "x0": [_s(x) for x in x0],
            "kind": kind, "norm": d.weighted([(5, "default"), (2, "inf"), (2, "2"), (1, "1")]), "J": d.int(0, 2) == 0,
            "ftype": d.choice(["list", "tuple_fn", "matrix_fn"]),
            "tol": d.weighted([(6, None), (2, d.int(8, p + 30))]),
            "maxsteps": d.weighted([(7, None), (2, d.choice([1, 3, 30]))])}


def _gen_g(d, r, maxreal=2, ri=Fr(0)):
    """cofactor g with its roots at distance >= 2 from r: real roots and quadratic factors"""
    gr = []
    for _ in range(d.int(0, maxreal)):
        gr.append(_s(r + d.choice([-1, 1]) * (2 + _dy(d, 0, 3, 2))))
    gq = []
    if d.int(0, 2) == 0:
        gq.append([_s(r + _dy(d, -2, 2, 2)), _s(abs(ri) + 2 + _dy(d, 0, 2, 2))])
    return gr, gq


def _gen_mnewton(d, tier):
    p = _prec(d)
    m = d.weighted([(2, 1), (3, 2), (3, 3), (2, 4), (2, 5)])
    r = _dy(d, -3, 3, d.choice([0, 0, 1, 3, 4, 12]))
    gr, gq = _gen_g(d, r)
    if d.int(0, 2) == 0:
        gr, gq = [], []          # pure power (x-r)^m, the shape of the repository's own test
    # distance 0.1 .. 0.3 from the root; mostly with many significant bits (a start such as -0.9 is not a short dyadic)
    b = d.choice([10, 30, 53, 53, 64, 100])
    x0 = r + d.choice([-1, 1]) * Fr(d.int((103 << b) >> 10, (307 << b) >> 10), 1 << b)
    return {"sub": "mnewton", "p": p, "m": m, "r": _s(r), "gr": gr, "gq": gq, "x0": _s(x0),
            "form": d.choice(["fact", "polyval"]),
            "deriv": d.weighted([(5, "num"), (3, "df"), (3, "df_d2f"), (1, "d1f_d2f"), (1, "d2f")]),
            "xtype": d.weighted([(3, "mpf"), (1, "float")])}


def _gen_mult(d, tier):
    p = _prec(d)
    m = d.int(1, 6)
    cplx = d.int(0, 3) == 0
    r = _dy(d, -3, 3, d.choice([0, 1, 3, 4]))
    ri = _dy(d, -2, 2, d.choice([0, 2])) if cplx else Fr(0)
    gr, gq = _gen_g(d, r, ri=ri)
    sup = d.weighted([(4, "none"), (2, "all"), (2, "some")])
    orders = []
    if sup == "all":
        orders = list(range(1, m + 1))
    elif sup == "some":
        orders = [k for k in range(1, m + 1) if d.bool()]
    return {"sub": "mult", "p": p, "m": m, "r": [_s(r), _s(ri)], "gr": gr, "gq": gq,
            "form": d.choice(["fact", "fact", "horner"]) if p >= 80 else "fact",
            "orders": orders, "rtype": d.weighted([(3, "mp"), (1, "py")]), "sk": d.weighted([(3, 0), (2, d.int(1, (3 * p) // 5))]),
            "maxsteps": d.weighted([(6, None), (1, 8), (1, 20)])}


def _gen_roots_real(d, n, bits, span):
    """n distinct real rationals"""
    seen = set()
    out = []
    while len(out) < n:
        k = d.int(-span << bits, span << bits)
        while k in seen:
            k += 1
        seen.add(k)
        out.append(Fr(k, 1 << bits))
    return out


_CIRCLE_CACHE = {}


def _circle_points(n, bits=10):
    """Gaussian dyadic approximations of the n-th roots of unity (pure function)"""
    key = (n, bits)
    if key not in _CIRCLE_CACHE:
        pts = []
        for k in range(n):
            t = 2 * math.pi * k / n
            pts.append((Fr(round(math.cos(t) * (1 << bits)), 1 << bits), Fr(round(math.sin(t) * (1 << bits)), 1 << bits)))
        _CIRCLE_CACHE[key] = pts
    return _CIRCLE_CACHE[key]


def _gen_polyroots(d, tier, hard=False):
    p = _prec(d)
    if hard:
        cls = d.weighted([(4, "eq_im"), (3, "near_im"), (2, "eq_re"), (2, "tiny_im"), (2, "mixed")])
    else:
        cls = d.weighted([(3, "real"), (4, "conj"), (3, "complex"), (3, "circle"), (2, "repeated"), (1, "rational"), (1, "trivial")])
    roots = []          # [re, im, mult]
    realcoef = True
    if cls == "real":
        n = d.weighted([(4, d.int(1, 4)), (3, d.int(5, 8)), (1, d.int(9, 14))])
        for r in _gen_roots_real(d, n, d.choice([0, 1, 2, 3]), d.choice([2, 4, 8])):
            roots.append([r, Fr(0), 1])
    elif cls == "rational":
        n = d.int(1, 5)
        seen = set()
        for _ in range(n):
            q = Fr(d.int(-12, 12), d.choice([1, 3, 5, 6, 7]))
            while q in seen:
                q += Fr(1, 3)
            seen.add(q)
            roots.append([q, Fr(0), 1])
    elif cls in ("conj", "complex"):
        realcoef = cls == "conj"
        n = d.weighted([(4, d.int(1, 4)), (3, d.int(5, 8)), (2, d.int(9, 14)), (1, d.int(15, 20))])
        bits = d.choice([0, 1, 2, 3])
        seen = set()
        deg = 0
        while deg < n:
            re = _dy(d, -3, 3, bits)
            im = _dy(d, -3, 3, bits)
            if realcoef and (deg + 2 > n or d.int(0, 2) == 0):
                im = Fr(0)
            while (re, im) in seen or (re, -im) in seen:
                re += Fr(1, 1 << bits)
            seen.add((re, im))
            roots.append([re, im, 1])
            deg += 1
            if realcoef and im != 0:
                roots.append([re, -im, 1])
                deg += 1
    elif cls == "circle":
        n = d.weighted([(2, d.int(3, 8)), (3, d.int(9, 16)), (2, d.int(17, 20))])
        pts = _circle_points(n)
        sc = d.choice([Fr(1), Fr(1), Fr(2), Fr(1, 2), Fr(3, 4)])
        realcoef = d.bool()
        shift = (Fr(0), Fr(0)) if realcoef else (_dy(d, -1, 1, 2), _dy(d, -1, 1, 2))
        if realcoef and d.bool():
            shift = (_dy(d, -1, 1, 2), Fr(0))
        # conj-symmetric: the rounded roots of unity are symmetric under conjugation by construction (cos even, sin odd)
        for (re, im) in pts:
            roots.append([re * sc + shift[0], im * sc + shift[1], 1])
    elif cls == "repeated":
        realcoef = d.bool()
        n = d.int(1, 3)
        seen = set()
        for _ in range(n):
            re = _dy(d, -2, 2, 1)
            im = Fr(0) if (realcoef and d.bool()) else _dy(d, -2, 2, 1)
            while (re, im) in seen or (re, -im) in seen:
                re += Fr(1, 2)
            seen.add((re, im))
            m = d.weighted([(2, 1), (3, 2), (1, 3)])
            roots.append([re, im, m])
            if realcoef and im != 0:
                roots.append([re, -im, m])
    elif cls == "trivial":
        for r in _gen_roots_real(d, d.int(0, 1), 0, 3):
            roots.append([r, Fr(0), 1])
    else:
        # hard ordering cases: real coefficients, several conjugate pairs
        npairs = d.int(2, 5)
        b0 = _dy(d, 0, 3, 3) + Fr(1, 8)
        a0 = _dy(d, -3, 3, 2)
        seen = set()
        for i in range(npairs):
            if cls == "eq_im":
                a, b = _dy(d, -4, 4, 2), b0
            elif cls == "near_im":
                a, b = _dy(d, -4, 4, 2), b0 * (1 + Fr(d.int(-3, 3), 1 << d.int(12, min(p + 4, 120))))
            elif cls == "eq_re":
                a, b = a0, _dy(d, 0, 3, 3) + Fr(1, 8)
            elif cls == "tiny_im":
                a, b = _dy(d, -4, 4, 2), Fr(d.int(1, 3), 1 << d.int(4, p + 6))
            else:
                a, b = _dy(d, -4, 4, 2), d.choice([b0, b0, _dy(d, 0, 3, 3) + Fr(1, 8)])
            while (a, b) in seen or (cls != "eq_re" and a in seen):
                if cls == "eq_re":
                    b += Fr(1, 8)
                else:
                    a += Fr(1, 4)
            seen.add((a, b))
            seen.add(a)
            roots.append([a, b, 1])
            roots.append([a, -b, 1])
        for r in _gen_roots_real(d, d.int(0, 3), 2, 4):
            roots.append([r, Fr(0), 1])
    deg = sum(m for _, _, m in roots)
    dyadic = all((re.denominator & (re.denominator - 1)) == 0 and (im.denominator & (im.denominator - 1)) == 0
                 for re, im, _ in roots)
    forms = [(3, "int"), (1, "intscaled")]
    if cls in ("near_im", "tiny_im"):
        forms = []          # the common denominator of these roots has hundreds of bits: exact mpf coefficients only
    if dyadic:
        forms += [(3, "mpf"), (1, "float"), (1, "mpfscaled")]
    cform = d.weighted(forms)
    maxm = max([m for _, _, m in roots] or [1])
    if maxm > 1 or cls == "tiny_im":
        extraprec = d.choice([p, 2 * p, 3 * p])
        maxsteps = d.choice([200, 500])
    else:
        extraprec = d.weighted([(6, None), (1, 0), (2, 20), (1, 50), (1, p)])
        maxsteps = d.weighted([(5, None), (1, d.choice([1, 3, 10, 20])), (3, 100), (2, 300)])
    init = d.weighted([(8, None), (1, "near"), (1, "partial")])
    # order of the factors is immaterial; a generated scale for non-monic input
    return {"sub": "polyroots", "p": p, "cls": cls, "roots": [[_s(re), _s(im), m] for re, im, m in roots], "deg": deg,
            "realcoef": realcoef, "cform": cform, "lead": d.choice([2, 3, -5, 7, 10]),
            "cleanup": d.weighted([(5, None), (2, True), (2, False)]),
            "extraprec": extraprec, "maxsteps": maxsteps, "error": d.weighted([(1, None), (1, True), (1, False)]),
            "init": init, "pt": [_s(_dy(d, -3, 3, 4)), _s(_dy(d, -3, 3, 4))]}


def gen_case(d, shard, tier):
    if shard == "scalar":
        return _gen_scalar(d, tier)
    if shard == "md":
        return _gen_md(d, tier)
    if shard == "mnewton":
        return _gen_mnewton(d, tier)
    if shard == "polyroots":
        return _gen_polyroots(d, tier)
    if shard == "polyorder":
        return _gen_polyroots(d, tier, hard=True)
    if shard == "mult":
        return _gen_mult(d, tier)
    raise ValueError(shard)


# ----------------------------------------------------------------------------------------------- function builders

def _horner(ctx, coeffs):
    cs = [_num(ctx, c) for c in coeffs]
    zero = ctx.zero

    def f(x):
        if not cs:
            return zero * x
        v = cs[0]
        for c in cs[1:]:
            v = c + x * v
        return v + zero * x if len(cs) == 1 else v
    return f


def _build(ctx, spec, order=0, guard=False):
    """the order-th derivative of the generated function as a callable working in the context ctx; all constants
    are converted exactly, so the same mathematical function is evaluated by the tree under test and by the reference.
    guard=True (the callables handed to findroot): the transcendental families are defined for |x| <= 2^40 only and
    raise OverflowError outside, as a user function with a bounded domain would; run-away iterates of a rootless
    exponential otherwise reach arguments whose exponential cannot be evaluated in any reasonable time"""
    fn = _build0(ctx, spec, order)
    if not guard or spec["fam"] == "poly":
        return fn
    lim = 2 ** 40

    def guarded(x):
        if abs(x) > lim:
            raise OverflowError("argument outside the domain of the generated function")
        return fn(x)
    return guarded


def _build0(ctx, spec, order=0):
    fam = spec["fam"]
    if fam == "poly":
        if order == 0 and spec["form"] == "fact":
            rr = [(_num(ctx, Fr(q)), m) for q, m in spec["rr"]]
            qq = [(_num(ctx, Fr(a)), _num(ctx, Fr(b) * Fr(b)), m) for a, b, m in spec["qq"]]
            sc = _num(ctx, Fr(spec["scale"]))

            def f(x):
                v = sc
                for r, m in rr:
                    v = v * (x - r) ** m
                for a, b2, m in qq:
                    v = v * ((x - a) ** 2 + b2) ** m
                return v
            return f
        co = _poly_real_coeffs(spec)
        for _ in range(order):
            co = _rpoly_deriv(co)
        return _horner(ctx, co)
    g = lambda k: _num(ctx, Fr(spec[k]))
    if fam == "expc":
        a, c = g("a"), g("c")
        if order == 0:
            return lambda x: ctx.exp(a * x) - c
        if order == 1:
            return lambda x: a * ctx.exp(a * x)
        return lambda x: a * a * ctx.exp(a * x)
    if fam == "cosx":
        a, b = g("a"), g("b")
        if order == 0:
            return lambda x: ctx.cos(x) - a * x - b
        if order == 1:
            return lambda x: -ctx.sin(x) - a
        return lambda x: -ctx.cos(x)
    if fam == "xexp":
        c = g("c")
        if order == 0:
            return lambda x: x * ctx.exp(x) - c
        if order == 1:
            return lambda x: (1 + x) * ctx.exp(x)
        return lambda x: (2 + x) * ctx.exp(x)
    if fam == "gauss":
        c = g("c")
        if order == 0:
            return lambda x: ctx.exp(-x * x) + c
        if order == 1:
            return lambda x: -2 * x * ctx.exp(-x * x)
        return lambda x: (4 * x * x - 2) * ctx.exp(-x * x)
    if fam == "const":
        c = g("c")
        if order == 0:
            return lambda x: c + 0 * x
        return lambda x: 0 * x
    if fam == "rat":
        c = g("c")
        if order == 0:
            return lambda x: 1 / (1 + x * x) - c
        if order == 1:
            return lambda x: -2 * x / (1 + x * x) ** 2
        return lambda x: (6 * x * x - 2) / (1 + x * x) ** 3
    if fam == "tanh":
        c = g("c")
        if order == 0:
            return lambda x: ctx.tanh(x) - c
        if order == 1:
            return lambda x: 1 - ctx.tanh(x) ** 2
        return lambda x: -2 * ctx.tanh(x) * (1 - ctx.tanh(x) ** 2)
    c = g("c")
    if order == 0:
        return lambda x: ctx.sin(x) - c
    if order == 1:
        return lambda x: ctx.cos(x)
    return lambda x: -ctx.sin(x)


def _allow(ctx, spec, x):
    """A with |fl_wp(f)(x) - f(x)| <= 2^-wp * A  (sum of the magnitudes of the terms, generous constants)"""
    fam = spec["fam"]
    ax = abs(x)
    if fam == "poly":
        if spec["form"] == "fact":
            v = abs(_num(ctx, Fr(spec["scale"])))
            n = 2
            for q, m in spec["rr"]:
                v = v * abs(x - _num(ctx, Fr(q))) ** m
                n += m
            for a, b, m in spec["qq"]:
                v = v * (abs(x - _num(ctx, Fr(a))) ** 2 + _num(ctx, Fr(b) * Fr(b))) ** m
                n += 2 * m
            return 8 * n * v
        co = _poly_real_coeffs(spec)
        v = ctx.zero
        for c in co:
            v = v * ax + abs(_num(ctx, c))
        return 8 * (len(co) + 1) * v
    g = lambda k: abs(_num(ctx, Fr(spec[k])))
    if fam == "expc":
        a = _num(ctx, Fr(spec["a"]))
        return 8 * ((abs(a * x) + 4) * abs(ctx.exp(a * x)) + g("c"))
    if fam == "cosx":
        return 16 * (abs(ctx.cos(x)) + g("a") * ax + g("b") + 1)
    if fam == "xexp":
        return 16 * ((ax + 1) * abs(ctx.exp(x)) + g("c"))
    if fam == "gauss":
        return 8 * ((ax * ax + 4) * abs(ctx.exp(-x * x)) + g("c"))
    if fam == "const":
        return ctx.zero
    if fam == "rat":
        w = abs(1 / (1 + x * x))
        return 16 * (w * (1 + (1 + ax * ax) * w) + g("c"))
    if fam == "tanh":
        return 16 * (abs(ctx.tanh(x)) + g("c") + 1)
    return 16 * (abs(ctx.sin(x)) + g("c") + 1)


def _lipschitz(spec, M):
    """float bounds (L, S) on [-M, M]: |f'| <= L and the sum of the magnitudes of the terms of f <= S"""
    fam = spec["fam"]
    if fam == "poly":
        co = _poly_real_coeffs(spec)
        v = 0.0
        for c in _rpoly_deriv(co):
            v = v * M + abs(float(c))
        s = 0.0
        for c in co:
            s = s * M + abs(float(c))
        return v, s
    c = abs(float(Fr(spec["c"]))) if "c" in spec else 0.0
    if fam == "expc":
        a = abs(float(Fr(spec["a"])))
        e = math.exp(min(a * M, 600))
        return a * e, (a * M + 2) * e + c
    if fam == "cosx":
        a = abs(float(Fr(spec["a"])))
        return 1 + a, 1 + a * M + abs(float(Fr(spec["b"])))
    if fam == "xexp":
        e = math.exp(min(M, 600))
        return (1 + M) * e, (M + 1) * e + c
    if fam == "const":
        return 0.0, c
    return 2.0, M * M + 4 + c


def _pt(ctx, q, xtype):
    q = Fr(q)
    if xtype == "float":
        return float(q)
    return _num(ctx, q)


# ----------------------------------------------------------------------------------------------- checks

def _desc_f(spec):
    if spec["fam"] == "poly":
        s = "%s" % spec["scale"]
        for q, m in spec["rr"]:
            s += "*(x-(%s))^%d" % (q, m)
        for a, b, m in spec["qq"]:
            s += "*((x-(%s))^2+(%s)^2)^%d" % (a, b, m)
        return s + " [%s form]" % spec["form"]
    return {"expc": "exp({a}*x)-({c})", "cosx": "cos(x)-({a})*x-({b})", "xexp": "x*exp(x)-({c})", "gauss": "exp(-x^2)+({c})",
            "const": "{c}", "rat": "1/(1+x^2)-({c})", "tanh": "tanh(x)-({c})", "sin": "sin(x)-({c})"}[spec["fam"]].format(**spec)


def _check_scalar(c, res):
    import mpmath
    from mpmath import mp
    import mpref
    p = c["p"]
    wp = p + 20
    spec = c["f"]
    solver = c["solver"]
    res.cls = "findroot:%s:%s:%s" % (solver, spec["fam"], c["kind"])
    tolk = c["tol"]
    tol_fr = Fr(2) ** (11 - wp) if tolk is None else Fr(1, 1 << tolk)
    maxmult = max([m for _, m in spec["rr"]] + [m for _, _, m in spec["qq"]] + [1]) if spec["fam"] == "poly" else 1
    deg = (sum(m for _, m in spec["rr"]) + 2 * sum(m for _, _, m in spec["qq"])) if spec["fam"] == "poly" else 0
    res.nontrivial = maxmult >= 2 or deg >= 4
    what = "findroot(%s, %s, solver=%r%s%s%s) at prec %d" % (
        _desc_f(spec), c["x0"], solver, "" if tolk is None else ", tol=2^-%d" % tolk,
        "" if c["maxsteps"] is None else ", maxsteps=%d" % c["maxsteps"],
        "" if c["deriv"] == "none" else ", derivatives=%s" % c["deriv"], p)
    mp.prec = p
    try:
        f = _build(mp, spec, 0)
        fg = _build(mp, spec, 0, guard=True)
        kw = {}
        if tolk is not None:
            kw["tol"] = _num(mp, tol_fr)
        if c["maxsteps"] is not None:
            kw["maxsteps"] = c["maxsteps"]
        dv = c["deriv"]
        if dv in ("df", "df_d2f"):
            kw["df"] = _build(mp, spec, 1, guard=True)
        if dv == "d1f":
            kw["d1f"] = _build(mp, spec, 1, guard=True)
        if dv in ("df_d2f", "d2f"):
            kw["d2f"] = _build(mp, spec, 2, guard=True)
        x0 = [_pt(mp, q, c["xtype"]) for q in c["x0"]]
        arg = tuple(x0) if len(x0) > 1 else x0[0]
        outcome = None
        x = None
        try:
            x = mp.findroot(fg, arg, solver=solver, **kw)
        except ValueError as e:
            outcome = "ValueError"
            if "expected" in str(e) or "recognize" in str(e):
                raise
        except ZeroDivisionError:
            outcome = "ZeroDivisionError"
        except KeyError as e:
            if dv == "d2f" and solver in ("mnewton", "halley"):
                res.bad("findroot:d2f_only:keyerror", "%s raised KeyError(%s): a d2f keyword without df is looked up as "
                        "kwargs['df']" % (what, e))
                return res
            raise
        except (TypeError, OverflowError, MemoryError) as e:
            outcome = type(e).__name__
        after = mp.prec
        if after != p:
            res.bad("prec_leak:findroot", "%s left mp.prec = %d (outcome %s)" % (what, after, outcome or "returned"))
        # exact / high-precision sign information for brackets
        strict = False
        lo = hi = None
        if solver in BRACKET:
            a, b = Fr(c["x0"][0]), Fr(c["x0"][1])
            lo, hi = min(a, b), max(a, b)
            if spec["fam"] == "poly":
                co = _poly_real_coeffs(spec)
                strict = _rpoly_eval(co, a) * _rpoly_eval(co, b) < 0
            else:
                mpref.mp.prec = 3 * p + 100
                try:
                    fh = _build(mpref.mp, spec, 0)
                    fa, fb = fh(_num(mpref.mp, a)), fh(_num(mpref.mp, b))
                    thr = mpref.mpf(2) ** (-wp + 8) * (1 + abs(fa) + abs(fb))
                    strict = (fa * fb < 0) and abs(fa) > thr and abs(fb) > thr
                finally:
                    mpref.mp.prec = 53
        if outcome in ("TypeError", "OverflowError", "MemoryError"):
            if solver in BRACKET and not strict:
                res.rejected = True          # the bracketing solvers document that they need a sign change
                return res
            if outcome != "TypeError":
                res.rejected = True          # the iterates left the range where f can be evaluated
                return res
            res.bad("findroot:exception:%s" % outcome, "%s raised an undocumented %s" % (what, outcome))
            return res
        if outcome is not None:
            res.nontrivial = True            # a start that does not converge
            res.cls += ":raised"
            if (solver in ("illinois", "pegasus", "anderson", "ridder") and strict and deg == 1 and tolk is None
                    and (c["maxsteps"] is None or c["maxsteps"] >= 30) and outcome in ("ValueError", "ZeroDivisionError")):
                # regula falsi with any of the three scalings hits the zero of a linear function in its first step and
                # Ridder's method converges superlinearly on it: 30 steps are ample at every precision up to 300 bits
                res.bad("findroot:bracket:linear_noconv", "%s raised %s on a linear function with a sign-changing bracket" % (what, outcome))
            if solver == "bisect" and strict:
                # bisection halves a sign-changing bracket: after N steps |x - root| <= w/2^(N+1); it may only fail
                # the verification when that is not enough for |f(x)|^2 <= tol
                N = c["maxsteps"] if c["maxsteps"] is not None else 100
                w = float(hi - lo)
                M = float(max(abs(lo), abs(hi)))
                L, S = _lipschitz(spec, M)
                st = math.sqrt(float(tol_fr))
                d1 = w / 2.0 ** min(N + 1, 1000)
                d2 = float(tol_fr) * max(1.0, M)
                noise = 2.0 ** (-wp + 6) * (1.0 + S)
                if L * max(d1, d2) * 4 <= st and noise * 64 <= st and outcome == "ValueError":
                    res.bad("findroot:bisect:noconv", "%s raised ValueError although the bracket has a strict sign change and "
                            "%d halvings of a bracket of width %g bring |f| below sqrt(tol)=%.3g (|f'| <= %.3g)" % (what, N, w, st, L))
            return res
        # ---- a value was returned: it must be a genuine root in the documented sense
        if not (hasattr(x, "_mpf_") or hasattr(x, "_mpc_")):
            res.bad("findroot:type", "%s returned %r" % (what, type(x)))
            return res
        if not _finite(x):
            res.bad("findroot:verify", "%s returned the non-finite value %s" % (what, x))
            return res
        # (a) as findroot does, at the working precision
        mp.prec = wp
        tolm = _num(mp, tol_fr)
        va = abs(f(x)) ** 2
        bad_a = va > tolm
        mp.prec = p
        # (b) reference value
        mpref.mp.prec = 3 * p + 100
        try:
            rm = mpref.mp
            xh = rm.make_mpc(x._mpc_) if hasattr(x, "_mpc_") else rm.make_mpf(x._mpf_)
            fh = _build(rm, spec, 0)
            vh = abs(fh(xh))
            A = _allow(rm, spec, xh)
            bound = rm.sqrt(_num(rm, tol_fr)) * (1 + rm.mpf(2) ** -16) + rm.mpf(2) ** (-wp) * A
            bad_b = vh > bound
            ratio = float(vh / bound) if bound else float("inf")
            vhs = rm.nstr(vh, 8)
        finally:
            mpref.mp.prec = 53
        res.metrics["verify_ratio"] = min(ratio, 1e30)
        if bad_a or bad_b:
            res.bad("findroot:verify", "%s returned x = %s although |f(x)|^2 > tol: |f(x)| = %s (reference), "
                    "|f(x)|^2 at the working precision = %s, tol = 2^%s" % (
                        what, mp.nstr(x, 20), vhs, mp.nstr(va, 8), math.log2(float(tol_fr))))
        if solver in BRACKET and strict:
            res.cls += ":signchange"
            if hasattr(x, "_mpc_") and x._mpc_[1] != exact.fzero:
                res.bad("findroot:bracket", "%s returned the non-real value %s for a sign-changing real bracket" % (what, x))
            else:
                xr = _fr_of(x)[0]
                slack = Fr(4, 1 << wp) * max(abs(lo), abs(hi), Fr(1, 1 << 30))
                if not (lo - slack <= xr <= hi + slack):
                    res.bad("findroot:bracket", "%s returned x = %s outside the sign-changing bracket [%s, %s]" % (
                        what, mp.nstr(x, 20), lo, hi))
        return res
    finally:
        mp.prec = 53


def _md_eval(c, xs):
    """exact values F_i(xs) and the sums of term magnitudes, xs Fractions"""
    sol = [Fr(s) for s in c["sol"]]
    vals, mags = [], []
    for eq in c["eqs"]:
        v = Fr(0)
        mg = Fr(0)
        for j, k, a in eq["quad"]:
            v += a * (xs[j] * xs[k] - sol[j] * sol[k])
            mg += abs(a) * (abs(xs[j] * xs[k]) + abs(sol[j] * sol[k]))
        for j, b in enumerate(eq["lin"]):
            v += b * (xs[j] - sol[j])
            mg += abs(b) * (abs(xs[j]) + abs(sol[j]))
        if eq["cub"]:
            j, a = eq["cub"]
            v += a * (xs[j] ** 3 - sol[j] ** 3)
            mg += abs(a) * (abs(xs[j]) ** 3 + abs(sol[j]) ** 3)
        vals.append(v)
        mags.append(mg)
    return vals, mags


def _check_md(c, res):
    import mpmath
    from mpmath import mp
    p = c["p"]
    wp = p + 20
    n = c["n"]
    res.cls = "findroot:mdnewton:%dx%d:%s" % (len(c["eqs"]), n, c["kind"])
    res.nontrivial = True
    tolk = c["tol"]
    tol_fr = Fr(2) ** (11 - wp) if tolk is None else Fr(1, 1 << tolk)
    sol = [Fr(s) for s in c["sol"]]
    what = "findroot(system %s with solution %s, x0=%s, norm=%s, J=%s%s%s) at prec %d" % (
        c["eqs"], c["sol"], c["x0"], c["norm"], c["J"], "" if tolk is None else ", tol=2^-%d" % tolk,
        "" if c["maxsteps"] is None else ", maxsteps=%d" % c["maxsteps"], p)
    mp.prec = p
    try:
        consts = []
        for eq in c["eqs"]:
            k0 = Fr(0)
            for j, k, a in eq["quad"]:
                k0 += a * sol[j] * sol[k]
            for j, b in enumerate(eq["lin"]):
                k0 += b * sol[j]
            if eq["cub"]:
                k0 += eq["cub"][1] * sol[eq["cub"][0]] ** 3
            consts.append(_num(mp, k0))

        def mkeq(eq, k0):
            def fi(*xs):
                v = -k0
                for j, k, a in eq["quad"]:
                    v = v + a * xs[j] * xs[k]
                for j, b in enumerate(eq["lin"]):
                    v = v + b * xs[j]
                if eq["cub"]:
                    v = v + eq["cub"][1] * xs[eq["cub"][0]] ** 3
                return v
            return fi
        fis = [mkeq(eq, k0) for eq, k0 in zip(c["eqs"], consts)]
        if c["ftype"] == "list":
            f = fis
        elif c["ftype"] == "tuple_fn":
            f = lambda *xs: tuple(fi(*xs) for fi in fis)
        else:
            f = lambda *xs: mp.matrix([fi(*xs) for fi in fis])
        kw = {}
        if tolk is not None:
            kw["tol"] = _num(mp, tol_fr)
        if c["maxsteps"] is not None:
            kw["maxsteps"] = c["maxsteps"]
        if c["norm"] != "default":
            nk = {"inf": mp.inf, "2": 2, "1": 1}[c["norm"]]
            kw["norm"] = lambda v: mp.norm(v, nk)
        if c["J"]:
            def J(*xs):
                M = mp.matrix(len(c["eqs"]), n)
                for i, eq in enumerate(c["eqs"]):
                    for j, k, a in eq["quad"]:
                        M[i, j] += a * xs[k]
                        M[i, k] += a * xs[j]
                    for j, b in enumerate(eq["lin"]):
                        M[i, j] += b
                    if eq["cub"]:
                        M[i, eq["cub"][0]] += 3 * eq["cub"][1] * xs[eq["cub"][0]] ** 2
                return M
            kw["J"] = J
        x0 = tuple(_num(mp, Fr(q)) for q in c["x0"])
        outcome = None
        try:
            x = mp.findroot(f, x0, **kw)
        except ValueError:
            outcome = "ValueError"
        except ZeroDivisionError:
            outcome = "ZeroDivisionError"
        except TypeError as e:
            if "NoneType" not in str(e):
                raise
            # LU_decomp (linalg.py) leaves the pivot index None when a whole column of the Jacobian is zero and then
            # swaps row j with row None instead of raising its "matrix is numerically singular" ZeroDivisionError
            res.bad("mdnewton:singular_jacobian:typeerror", "%s raised TypeError(%s) for a singular Jacobian instead of the "
                    "documented ZeroDivisionError" % (what, e))
            outcome = "TypeError"
        if mp.prec != p:
            res.bad("prec_leak:findroot", "%s left mp.prec = %d" % (what, mp.prec))
        if outcome:
            res.cls += ":raised"
            return res
        if not (hasattr(x, "rows") and x.rows == n and x.cols == 1):
            res.bad("findroot:type", "%s returned %r" % (what, x))
            return res
        if not all(hasattr(x[i], "_mpf_") and _finite(x[i]) for i in range(n)):
            res.bad("findroot:verify:md", "%s returned %s" % (what, [str(x[i]) for i in range(n)]))
            return res
        xs = [_fr_of(x[i])[0] for i in range(n)]
        vals, mags = _md_eval(c, xs)
        fv = [abs(float(v)) + 2.0 ** (-wp + 4) * float(m) * 0 for v, m in zip(vals, mags)]
        al = [2.0 ** (-wp + 4) * float(m) for m in mags]
        nm = c["norm"]
        if nm in ("default", "inf"):
            nv, na = max(fv), max(al)
        elif nm == "1":
            nv, na = sum(fv), sum(al)
        else:
            nv, na = math.sqrt(sum(v * v for v in fv)), math.sqrt(sum(v * v for v in al))
        bound = math.sqrt(float(tol_fr)) * (1 + 2.0 ** -16) + na
        # as findroot does
        mp.prec = wp
        norm = kw.get("norm", lambda v: mp.norm(v, "inf"))
        va = norm(mp.matrix([fi(*[x[i] for i in range(n)]) for fi in fis])) ** 2
        bad_a = va > _num(mp, tol_fr)
        mp.prec = p
        if nv > bound or bad_a:
            res.bad("findroot:verify:md", "%s returned x = %s although |F(x)|^2 > tol: |F(x)| = %.6g exactly, tol = 2^%s" % (
                what, [mp.nstr(x[i], 20) for i in range(n)], nv, math.log2(float(tol_fr))))
        return res
    finally:
        mp.prec = 53


def _fg_coeffs(c, r, m):
    """exact coefficients of g and of f = (x-r)^m g for real r"""
    g = [Fr(1)]
    for q in c["gr"]:
        g = _rpoly_mul(g, [Fr(1), -Fr(q)])
    for a, b in c["gq"]:
        a, b = Fr(a), Fr(b)
        g = _rpoly_mul(g, [Fr(1), -2 * a, a * a + b * b])
    f = g
    for _ in range(m):
        f = _rpoly_mul(f, [Fr(1), -r])
    return g, f


def _check_mnewton(c, res):
    import mpmath
    from mpmath import mp
    import mpref
    p, m = c["p"], c["m"]
    r = Fr(c["r"])
    x0q = Fr(c["x0"])
    mode = c["deriv"]
    form = c["form"]
    res.cls = "mnewton:m%d:%s:%s" % (m, form, mode)
    res.nontrivial = m >= 2 or len(c["gr"]) + 2 * len(c["gq"]) + m >= 4
    gco, fco = _fg_coeffs(c, r, m)
    d1co = _rpoly_deriv(fco)
    d2co = _rpoly_deriv(d1co)
    what = "findroot((x-(%s))^%d*g(x), %s, solver='mnewton', derivatives=%s) with g roots %s, quadratic factors %s, %s form, prec %d (dps %d)" % (
        c["r"], m, c["x0"], mode, c["gr"], c["gq"], form, p, int(p / 3.3219280948873626 - 1 + 0.5))
    # reference: the modified Newton iteration with exact derivatives at (m+1)(p+30)+100 bits (the expanded polynomial
    # resolves an m-fold root only to 1/m of the working bits) must converge within 18 steps
    mpref.mp.prec = max(3 * p + 100, (m + 1) * (p + 30) + 100)
    try:
        rm = mpref.mp
        F, D1, D2 = _horner(rm, fco), _horner(rm, d1co), _horner(rm, d2co)
        x = _num(rm, x0q)
        rr = _num(rm, r)
        ok = False
        thr = rm.mpf(2) ** (-p - 12)
        for _ in range(18):
            fx = F(x)
            if fx == 0:
                ok = True
                break
            dfx = D1(x)
            try:
                x = x - fx / (dfx - fx * D2(x) / dfx)
            except ZeroDivisionError:
                break
            if abs(x - rr) <= thr:
                ok = True
                break
        conv = ok
    finally:
        mpref.mp.prec = 53
    if not conv:
        res.rejected = True
        return res
    mp.prec = p
    try:
        if form == "fact":
            rmp = _num(mp, r)
            G = _horner(mp, gco)
            f = lambda x: (x - rmp) ** m * G(x)
        else:
            cs = [_num(mp, q) for q in fco]
            f = lambda x: mp.polyval(cs, x)
        kw = {}
        if mode in ("df", "df_d2f"):
            kw["df"] = _horner(mp, d1co)
        if mode == "d1f_d2f":
            kw["d1f"] = _horner(mp, d1co)
        if mode in ("df_d2f", "d1f_d2f", "d2f"):
            kw["d2f"] = _horner(mp, d2co)
        x0 = _pt(mp, x0q, c["xtype"])
        try:
            x = mp.findroot(f, x0, solver="mnewton", **kw)
        except ZeroDivisionError:
            res.bad("mnewton:zerodiv:" + mode, "%s raised ZeroDivisionError" % what)
            return res
        except ValueError as e:
            res.bad("mnewton:noconv:" + mode, "%s raised ValueError (%s)" % (what, str(e).split("\n")[0][:160]))
            return res
        except KeyError as e:
            if mode == "d2f":
                res.bad("mnewton:d2f_only:keyerror", "%s raised KeyError(%s)" % (what, e))
                return res
            raise
        finally:
            if mp.prec != p:
                res.bad("prec_leak:findroot", "%s left mp.prec = %d" % (what, mp.prec))
                mp.prec = p
        if not (hasattr(x, "_mpf_") or hasattr(x, "_mpc_")) or not _finite(x):
            res.bad("mnewton:accuracy:" + mode, "%s returned %r" % (what, x))
            return res
        xr, xi = _fr_of(x)
        # |x - r|^m <= 2^(4m-p) max(1,|r|)^m, exactly (squared for complex values)
        lhs = ((xr - r) ** 2 + xi ** 2) ** m
        sc = max(Fr(1), abs(r))
        e2 = 2 * (4 * m - p)
        rhs = (Fr(2) ** e2) * sc ** (2 * m)
        err = _abs_fr(xr - r, xi)
        res.metrics["mnewton_err_bits_over_bound"] = (math.log2(err) if err else -1e9) - (4 - p / float(m))
        if lhs > rhs:
            res.bad("mnewton:accuracy:" + mode, "%s returned %s: |x - r| = %.4g exceeds 2^(4-p/m) = %.4g" % (
                what, mp.nstr(x, 25), err, 2.0 ** (4 - p / float(m))))
        return res
    finally:
        mp.prec = 53


def _check_mult(c, res):
    import mpmath
    from mpmath import mp
    p, m = c["p"], c["m"]
    r, ri = Fr(c["r"][0]), Fr(c["r"][1])
    form = c["form"]
    res.cls = "multiplicity:m%d:%s:%s:%s" % (m, form, "complex" if ri else "real", "dnf" if c["orders"] else "numdiff")
    res.nontrivial = m >= 2
    # coefficients of g (real) and of f (complex if r is complex)
    g = [Fr(1)]
    for q in c["gr"]:
        g = _rpoly_mul(g, [Fr(1), -Fr(q)])
    for a, b in c["gq"]:
        a, b = Fr(a), Fr(b)
        g = _rpoly_mul(g, [Fr(1), -2 * a, a * a + b * b])
    fco = [(q, Fr(0)) for q in g]
    for _ in range(m):
        new = []
        for k in range(len(fco) + 1):
            a = fco[k] if k < len(fco) else (Fr(0), Fr(0))
            b = _cmul((r, ri), fco[k - 1]) if k >= 1 else (Fr(0), Fr(0))
            new.append((a[0] - b[0], a[1] - b[1]))
        fco = new
    what = "multiplicity((x-(%s+%sj))^%d*g(x), root) with g roots %s, quadratic factors %s, %s form, supplied derivatives %s, scaled by 2^-%d, prec %d" % (
        c["r"][0], c["r"][1], m, c["gr"], c["gq"], form, c["orders"], c.get("sk", 0), p)
    mp.prec = p
    try:
        def cn(z):
            return _cnum(mp, z[0], z[1]) if ri else _num(mp, z[0])

        def horner(co):
            cs = [cn(z) for z in co]

            def h(x):
                v = cs[0]
                for q in cs[1:]:
                    v = q + x * v
                return v
            return h
        root = cn((r, ri))
        sk = c.get("sk", 0)
        scm = mp.ldexp(mp.one, -sk)          # exact power of two: the whole polynomial is scaled by 2^-sk

        def scaled(fn):
            return (lambda x: scm * fn(x)) if sk else fn
        if form == "fact":
            G = horner([(q, Fr(0)) for q in g])
            f = scaled(lambda x: (x - root) ** m * G(x))
        else:
            f = scaled(horner(fco))
        kw = {}
        dco = fco
        rho = _abs_fr(r, ri)
        noisy = form == "horner" and _IntPoly(fco).S(rho) or 0.0
        gders = [[(q, Fr(0)) for q in g]]
        for k in range(1, max(c["orders"] or [0]) + 1):
            n = len(dco) - 1
            dco = [(z[0] * (n - i), z[1] * (n - i)) for i, z in enumerate(dco[:-1])]
            gl = gders[-1]
            gders.append([(z[0] * (len(gl) - 1 - i), Fr(0)) for i, z in enumerate(gl[:-1])] or [(Fr(0), Fr(0))])
            if k not in c["orders"]:
                continue
            if form == "horner":
                kw["d%df" % k] = scaled(horner(dco))
                if k < m:
                    noisy = max(noisy, _IntPoly(dco).S(rho))
            else:
                # Leibniz: sum_j C(k,j) m!/(m-j)! (x-r)^(m-j) g^(k-j)(x), accurate near the root
                terms = []
                for j in range(0, min(k, m) + 1):
                    terms.append((math.comb(k, j) * math.factorial(m) // math.factorial(m - j), m - j, horner(gders[k - j])))

                def dk(x, terms=terms):
                    v = 0
                    for cf, e, G in terms:
                        v = v + cf * (x - root) ** e * G(x)
                    return v
                kw["d%df" % k] = scaled(dk)
        # a Horner evaluation at p bits of a derivative that vanishes at the root returns rounding noise of size
        # 2^-p sum|c_k||r|^k; multiplicity compares it with eps^0.8, so the noise has to stay below that
        if noisy * 2.0 ** -sk * (len(fco) + 2) * 2.0 ** (3 - p) >= 2.0 ** (-0.8 * (p - 1)):
            res.rejected = True
            return res
        # the m-th derivative at the root, m! g(r) 2^-sk, must stand clear of multiplicity's threshold eps^0.8
        gv = (Fr(0), Fr(0))
        for q in g:
            gv = _cmul(gv, (r, ri))
            gv = (gv[0] + q, gv[1])
        if math.factorial(m) * _abs_fr(gv[0], gv[1]) * 2.0 ** -sk < 8 * 2.0 ** (-0.8 * (p - 1)):
            res.rejected = True
            return res
        if c["maxsteps"] is not None:
            kw["maxsteps"] = c["maxsteps"]
        arg = root
        if c["rtype"] == "py":
            arg = complex(float(r), float(ri)) if ri else float(r)
        got = mp.multiplicity(f, arg, **kw)
        if mp.prec != p:
            res.bad("prec_leak:multiplicity", "%s left mp.prec = %d" % (what, mp.prec))
        if got != m:
            res.bad("multiplicity:%s" % ("dnf" if c["orders"] else "numdiff"), "%s returned %r, expected %d" % (what, got, m))
        return res
    finally:
        mp.prec = 53


def _check_polyroots(c, res):
    import mpmath
    from mpmath import mp
    p = c["p"]
    deg = c["deg"]
    planted = []          # (re, im, mult)
    flat = []
    for re, im, m in c["roots"]:
        re, im = Fr(re), Fr(im)
        planted.append((re, im, m))
        flat += [(re, im)] * m
    maxm = max([m for _, _, m in planted] or [1])
    realcoef = c["realcoef"]
    res.cls = "polyroots:%s:deg%s:%s" % (c["cls"], deg if deg < 5 else "5-8" if deg <= 8 else "9-14" if deg <= 14 else "15-20", c["cform"])
    res.nontrivial = maxm >= 2 or deg >= 4
    monic = _poly_from_roots(flat)
    if realcoef and any(z[1] != 0 for z in monic):
        raise AssertionError("generator: real-coefficient case with complex coefficients")
    cform = c["cform"]
    lead = Fr(1)
    if cform in ("intscaled", "mpfscaled"):
        lead = Fr(c["lead"])
    if cform in ("int", "intscaled"):
        den = 1
        for z in monic:
            den = _lcm(_lcm(den, z[0].denominator), z[1].denominator)
        lead = lead * den
    co = [(z[0] * lead, z[1] * lead) for z in monic]
    P = _IntPoly(co)
    mp.prec = p
    try:
        def conv(z):
            if cform in ("int", "intscaled"):
                return int(z[0]) if z[1] == 0 else _cnum(mp, z[0], z[1])
            if cform == "float" and abs(z[0].numerator) < 2 ** 53 and abs(z[1].numerator) < 2 ** 53:
                return float(z[0]) if z[1] == 0 else complex(float(z[0]), float(z[1]))
            return _num(mp, z[0]) if z[1] == 0 else _cnum(mp, z[0], z[1])
        coeffs = [conv(z) for z in co]
        kw = {}
        for k in ("cleanup", "extraprec", "maxsteps", "error"):
            if c[k] is not None:
                kw[k] = c[k]
        cleanup = c["cleanup"] is not False
        extraprec = 10 if c["extraprec"] is None else c["extraprec"]
        if c["init"] and deg:
            ini = []
            for i, (re, im) in enumerate(flat):
                if c["init"] == "partial" and i >= (deg + 1) // 2:
                    break
                ini.append(mp.mpc(float(re) + 0.01 * ((i * 7) % 5 - 2), float(im) + 0.01 * ((i * 3) % 7 - 3) + 0.003))
            kw["roots_init"] = ini
        what = "polyroots(%s%s) at prec %d [planted roots %s]" % (
            [str(q) for q in coeffs] if deg <= 8 else "<degree %d, %s coefficients>" % (deg, cform),
            "".join(", %s=%s" % (k, v if k != "roots_init" else "<%d guesses>" % len(v)) for k, v in sorted(kw.items())), p,
            [(str(a), str(b), m) for a, b, m in planted])
        try:
            out = mp.polyroots(coeffs, **kw)
        except mp.NoConvergence:
            if mp.prec != p:
                res.bad("prec_leak:polyroots", "%s left mp.prec = %d after NoConvergence" % (what, mp.prec))
            res.inconclusive = True
            res.cls += ":noconv"
            return res
        if mp.prec != p:
            res.bad("prec_leak:polyroots", "%s left mp.prec = %d" % (what, mp.prec))
            mp.prec = p
        eps1 = 2.0 ** (1 - p)
        err = eps1
        if c["error"]:
            if deg == 0 and out == []:
                res.bad("polyroots:error_option:constant", "%s returned [] instead of the documented tuple (roots, err)" % what)
                return res
            if not (isinstance(out, tuple) and len(out) == 2):
                res.bad("polyroots:error_option", "%s returned %r instead of (roots, err)" % (what, type(out)))
                return res
            out, e = out
            if not (hasattr(e, "_mpf_") and _finite(e) and (e > 0 or (deg == 0 and e == 0))):
                res.bad("polyroots:error_option", "%s returned the error estimate %r" % (what, e))
                return res
            err = float(e)
        if not isinstance(out, list) or len(out) != deg:
            res.bad("polyroots:count", "%s returned %s roots, expected %d" % (what, len(out) if isinstance(out, list) else type(out), deg))
            return res
        if deg == 0:
            return res
        if not all((hasattr(z, "_mpf_") or hasattr(z, "_mpc_")) and _finite(z) for z in out):
            res.bad("polyroots:type", "%s returned %r" % (what, out))
            return res
        Z = [_fr_of(z) for z in out]
        shown = [mp.nstr(z, 12) for z in out]
        # ---- residuals (exact)
        worst = 0.0
        # polyroots' documented cleanup chops components below the working tolerance to zero (an ABSOLUTE change of the
        # root); a planted root with a nonzero component of that size makes the first-order residual bound meaningless
        from fractions import Fraction as _Fr
        chop = _Fr(1, 1 << max(p - 3, 1))
        tiny_planted = any(0 < abs(_Fr(t)) < chop for r_ in c.get("roots", []) for t in r_[:2])
        for z, (zr, zi) in zip(out, Z):
            if tiny_planted and c.get("cleanup") is not False:
                break
            v = P.eval(z)
            rho = _abs_fr(zr, zi)
            bound = 8 * max(err, eps1) * P.D1(rho) + (deg + 4) * eps1 * P.S(rho)
            av = _abs_fr(v[0], v[1])
            if bound > 0:
                worst = max(worst, av / bound)
            if av > bound:
                res.bad("polyroots:residual", "%s returned %s: |P(%s)| = %.4g exceeds the bound %.4g implied by err = %.3g" % (
                    what, shown, mp.nstr(z, 20), av, bound, err))
                break
        res.metrics["polyroots_residual_ratio"] = worst
        # ---- distance to the planted roots
        fl = [(float(a), float(b)) for a, b in flat]
        cond = {}
        Sabs = _IntPoly(monic)
        used = {}
        worst = 0.0
        nearest = []      # for each output the index of the nearest planted (distinct) root
        dist = [(planted[i][0], planted[i][1]) for i in range(len(planted))]
        sep = None
        for i in range(len(dist)):
            for j in range(i + 1, len(dist)):
                dd = _abs_fr(dist[i][0] - dist[j][0], dist[i][1] - dist[j][1])
                sep = dd if sep is None else min(sep, dd)
        for i, (re, im, m) in enumerate(planted):
            if m != 1:
                continue
            rho = _abs_fr(re, im)
            dp = 1.0
            for j, (re2, im2, m2) in enumerate(planted):
                if j != i:
                    dp *= _abs_fr(re - re2, im - im2) ** m2
            cabs = Sabs.S(rho) / dp if dp > 0 else float("inf")       # absolute condition number of the root
            cond[i] = cabs
            scale = max(1.0, rho)
            if cabs / scale * 2.0 ** (-extraprec) > 64:
                continue
            tolr = 8 * max(err, 2.0 ** (10 - p) * scale)
            if sep is not None and sep < 4 * tolr:
                continue
            best, bi = None, None
            for k, (zr, zi) in enumerate(Z):
                dd = _abs_fr(zr - re, zi - im)
                if best is None or dd < best:
                    best, bi = dd, k
            worst = max(worst, best / tolr)
            if best > tolr:
                res.bad("polyroots:accuracy", "%s returned %s: no computed root within %.3g of the simple planted root %s "
                        "(nearest is %.3g away, condition number %.3g, err = %.3g)" % (what, shown, tolr, _zs(re, im), best, cabs, err))
                break
            if bi in used:
                res.bad("polyroots:count", "%s returned %s: the planted roots #%d and #%d are represented by the same computed root" % (
                    what, shown, used[bi], i))
                break
            used[bi] = i
        res.metrics["polyroots_error_ratio"] = worst
        # ---- cleanup: no component below the tolerance survives
        tol_fr = Fr(2) ** (1 - p)
        if cleanup:
            for z, (zr, zi) in zip(out, Z):
                for part in (zr, zi):
                    if part != 0 and abs(part) < tol_fr:
                        res.bad("polyroots:cleanup", "%s returned %s with a component of size %.3g < eps although cleanup=True" % (
                            what, mp.nstr(z, 20), float(part)))
                        break
        # ---- ordering for real coefficients
        if realcoef and cleanup:
            isreal = [zi == 0 for zr, zi in Z]
            nreal = sum(isreal)
            if any(isreal[k] for k in range(nreal, deg)) or not all(isreal[:nreal]):
                res.bad("polyroots:order:real_first", "%s returned %s: real roots are not listed first" % (what, shown))
            else:
                for k in range(1, nreal):
                    if Z[k][0] < Z[k - 1][0]:
                        res.bad("polyroots:order:real_sorted", "%s returned %s: real roots not in ascending order" % (what, shown))
                        break
            # matching of the outputs to the planted roots, possible when all planted roots are simple and every
            # output lies within a third of the separation of exactly one of them
            if maxm == 1 and sep is not None or (maxm == 1 and deg == 1):
                match = []
                okm = True
                for (zr, zi) in Z:
                    best, bi = None, None
                    for i, (re, im, m) in enumerate(planted):
                        dd = _abs_fr(zr - re, zi - im)
                        if best is None or dd < best:
                            best, bi = dd, i
                    if sep is not None and best > sep / 3.0:
                        okm = False
                        break
                    match.append(bi)
                if okm and len(set(match)) == deg:
                    res.cls += ":ordered"
                    # well-conditioned planted real roots must have been made real
                    for k, i in enumerate(match):
                        re, im, m = planted[i]
                        if im == 0 and not isreal[k] and cond.get(i, float("inf")) * 2.0 ** (-extraprec) < 2.0 ** -4:
                            res.bad("polyroots:cleanup:real_not_chopped", "%s returned %s: the planted real root %s came out as %s" % (
                                what, shown, re, mp.nstr(out[k], 20)))
                    # the outputs belonging to non-real planted roots form adjacent conjugate pairs
                    seq = [i for k, i in enumerate(match) if planted[i][1] != 0 and not isreal[k]]
                    chopped = [i for k, i in enumerate(match) if planted[i][1] != 0 and isreal[k]]
                    if not chopped:
                        for k in range(0, len(seq) - 1, 2):
                            a, b = planted[seq[k]], planted[seq[k + 1]]
                            if not (a[0] == b[0] and a[1] == -b[1]):
                                res.bad("polyroots:order:conj_adjacent", "%s returned %s: conjugate roots are not adjacent "
                                        "(position %d holds %s, position %d holds %s)" % (
                                            what, shown, nreal + k, _zs(a[0], a[1]), nreal + k + 1, _zs(b[0], b[1])))
                                break
        # ---- polyval consistency (at the first computed root and at a generated point)
        pts = [out[0], _cnum(mp, Fr(c["pt"][0]), Fr(c["pt"][1])) if not realcoef else _num(mp, Fr(c["pt"][0]))]
        for x in pts:
            v, dv = mp.polyval(coeffs, x, derivative=True)
            v0 = mp.polyval(coeffs, x)
            (er, ei), (dr, di) = P.eval(x, deriv=True)
            xr, xi = _fr_of(x)
            rho = _abs_fr(xr, xi)
            gr, gi = _fr_of(v)
            hr, hi_ = _fr_of(dv)
            g0r, g0i = _fr_of(v0)
            b0 = 16 * (deg + 1) * 2.0 ** -p * P.S(rho)
            b1 = 16 * (deg + 1) * 2.0 ** -p * P.D1(rho)
            if _abs_fr(gr - er, gi - ei) > b0 or _abs_fr(g0r - er, g0i - ei) > b0:
                res.bad("polyval:value", "polyval(%s, %s) = %s at prec %d, exact value %.17g%+.17gj (allowed error %.3g)" % (
                    [str(q) for q in coeffs], mp.nstr(x, 20), mp.nstr(v, 20), p, float(er), float(ei), b0))
            if _abs_fr(hr - dr, hi_ - di) > b1:
                res.bad("polyval:derivative", "polyval(%s, %s, derivative=True)[1] = %s at prec %d, exact value %.17g%+.17gj (allowed error %.3g)" % (
                    [str(q) for q in coeffs], mp.nstr(x, 20), mp.nstr(dv, 20), p, float(dr), float(di), b1))
        return res
    finally:
        mp.prec = 53


def check_case(c):
    res = R()
    sub = c["sub"]
    if sub == "scalar":
        return _check_scalar(c, res)
    if sub == "md":
        return _check_md(c, res)
    if sub == "mnewton":
        return _check_mnewton(c, res)
    if sub == "mult":
        return _check_mult(c, res)
    if sub == "polyroots":
        return _check_polyroots(c, res)
    raise ValueError(sub)


def _equal_absim(case):
    """real-coefficient polynomial with two different conjugate pairs whose |Im| are exactly equal (the sort key
    (|Im|, Re) then decides by rounding noise) -- region of known finding C29-polyroots-conj-order"""
    from fractions import Fraction as _F
    seen = {}
    for re_, im_, _m in case.get("roots", []):
        im = abs(_F(im_))
        if im:
            seen.setdefault(im, set()).add(_F(re_))
    return any(len(v) > 1 for v in seen.values())


REGIONS = {"equal_absim": _equal_absim}
