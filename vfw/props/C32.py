"""C32 -- matrix functions (expm, logm, sqrtm, powm, cosm, sinm) are mutually consistent."""
from .. import exact
from ..core import R, HarnessError, time_limit, CaseTimeout, in_repo_frame

ID = "C32"
LEVEL = "exploration"
CASE_TIMEOUT = 120.0
FAIL_TIME = 1.0    # seconds granted to a call on a singular matrix before it is interrupted (then only mp.prec is checked)
KMAX = 64          # bound on cond_inf(S) = ||S||_inf * ||S^-1||_inf of the generated similarity
RULE = ("Cases = (operation, precision p in 30..200, matrix A = S B S^-1 of size 1..6) constructed, never filtered: S is an "
        "integer unimodular matrix (signed permutation followed by up to 2n elementary row operations with multipliers "
        "+-1, +-2, kept at cond_inf(S) <= 64; identity for the diagonal class, upper triangular for the triangular class), "
        "S^-1 is its exact integer inverse; B is diagonal with dyadic entries m/2^e (e <= 6, up to 24 with numerators <= 64 "
        "in the class small; real, complex, or real 2x2 blocks [[a,-b],[b,a]] carrying a conjugate pair), |Re|,|Im| <= 8, "
        "spectrum classes generic / repeated / clustered / scalar / small / large / zero matrix / exactly negative-real "
        "determinant with every eigenvalue off the cut (the det < 0 rotation path of sqrtm); for logm, sqrtm and "
        "non-integer powm every eigenvalue has |arg| <= 135 degrees and modulus >= 1/16 (away from the branch cut and "
        "zero). So A has exactly representable entries at every p and f(A) = S f(B) S^-1 is known in closed form. "
        "Operations: expm with method taylor and pade, cosm+sinm, logm (+expm of the result), sqrtm, powm with integer "
        "exponents -4..8 (incl. 0), half-integers and general real/complex dyadic exponents, and failing calls (logm, "
        "sqrtm, powm of singular or nilpotent matrices). Oracle 1 (closed form): f evaluated at the eigenvalues with the "
        "frozen mpmath 1.3.0 at 3p+100 bits (principal branches), multiplied out with the exact integer S, S^-1 at that "
        "precision; ||got - f(A)||_inf <= 2^(10-p) * max(cond(S), ||A||, 1) * max(1, ||f(A)||) (times cond(A^|k|) for "
        "negative integer powers, which mpmath computes by inverting A^|k|; times max(1, |r| ||log A||) for general "
        "powers). Oracle 2 (identities of the statement, residuals formed at 3p+100 bits): expm(logm(A)) = A, "
        "sqrtm(A)^2 = A, powm(A,k) = A**k, cosm(A)^2 + sinm(A)^2 = I, each relative to the norms of the quantities "
        "entering the comparison with the same amplification factor; expm(diag d) = diag(exp d) is oracle 1 on the "
        "diagonal class. A result of logm/sqrtm/powm that is a valid other branch (S^-1 X S diagonal with x_i^2 = d_i "
        "resp. exp(x_i) = d_i) is what the docstrings allow ('not unique') and is only counted (class branch). A case "
        "whose tolerance would exceed 2^-6 relative is inconclusive. After every call, also a failing one, mp.prec must be "
        "p, the input matrix must be unchanged and the entries of the result finite. Failing calls (size <= 4) may only "
        "raise ZeroDivisionError or NoConvergence; they are interrupted after 1 s (mp.prec is then checked all the same), "
        "and only for the zero matrix, where logm's reduction loop provably never ends, the interruption is reported "
        "(bucket hang:logm:zero-matrix). Non-trivial = size >= 2 and S is not the identity (non-normal A), or a failing "
        "call.")
ASSUMPTIONS = ["exp, log, sqrt, cos, sin and complex powers of mpmath 1.3.0 scalars are accurate at 3p+100 bits",
               "the amplification of rounding errors by the similarity S is bounded by cond_inf(S) (first order)"]
TECHNIQUE = "property-based testing (Hypothesis) with a constructed closed-form oracle plus the identities of the statement"


def shards(tier):
    q = tier == "quick"
    plan = [("exp", 700), ("exp", 700), ("exp", 700), ("trig", 500), ("trig", 500), ("log", 260), ("log", 260), ("log", 260),
            ("log", 260), ("sqrt", 700), ("sqrt", 700), ("sqrt", 700), ("pow_int", 1500), ("pow_frac", 350), ("pow_frac", 350),
            ("fail", 160)]
    return [(s, n if q else n * 25) for s, n in plan]


# ------------------------------------------------------------------------------------------------------ generation

def _norm_int(M):
    return max(sum(abs(v) for v in row) for row in M)


def _gen_S(d, n, struct):
    S = [[1 if i == j else 0 for j in range(n)] for i in range(n)]
    T = [[1 if i == j else 0 for j in range(n)] for i in range(n)]      # inverse
    if struct in ("diag", "1x1") or n == 1:
        return S, T
    if struct == "full" and d.bool():
        # signed permutation: S = P, S^-1 = P^T
        perm = list(range(n))
        for i in range(n - 1, 0, -1):
            j = d.int(0, i)
            perm[i], perm[j] = perm[j], perm[i]
        sg = [d.choice([1, 1, -1]) for _ in range(n)]
        S = [[sg[i] if perm[i] == j else 0 for j in range(n)] for i in range(n)]
        T = [[S[j][i] for j in range(n)] for i in range(n)]
    nops = d.int(1, 2 * n)
    for _ in range(nops):
        i = d.int(0, n - 1)
        j = d.int(0, n - 2)
        if j >= i:
            j += 1
        if struct == "tri" and i > j:
            i, j = j, i
        c = d.choice([1, -1, 1, -1, 2, -2])
        # S <- E S with E = I + c e_i e_j^T (row_i += c row_j);  S^-1 <- S^-1 E^-1 (col_j -= c col_i)
        for k in range(n):
            S[i][k] += c * S[j][k]
        for k in range(n):
            T[k][j] -= c * T[k][i]
        if _norm_int(S) * _norm_int(T) > KMAX:
            for k in range(n):
                S[i][k] -= c * S[j][k]
            for k in range(n):
                T[k][j] += c * T[k][i]
    return S, T


def _val(d, field, dom, e):
    """one eigenvalue (x, y) in units of 2^-e, inside the domain `dom`"""
    one = 1 << e
    lo = max(1, one // 16)
    if field == "real":
        if dom == "any":
            return d.int(-8 * one, 8 * one), 0
        x = d.int(lo, 8 * one)
        if dom == "nonzero" and d.bool():
            x = -x
        return x, 0
    if dom == "any":
        return d.int(-6 * one, 6 * one), d.int(-6 * one, 6 * one)
    if d.bool():       # right half plane
        x, y = d.int(lo, 8 * one), d.int(-8 * one, 8 * one)
    else:              # wedge |y| >= |x|
        y = d.int(lo, 8 * one)
        x = d.int(-y, y)
        if d.bool():
            y = -y
    if dom == "nonzero" and d.bool():
        x, y = -x, -y
    return x, y


def _spectrum(d, n, field, dom, op):
    """list of blocks ['r', x] / ['z', x, y] / ['b', x, y] (2x2 real block of the pair x +- iy), common exponent e"""
    e = d.int(0, 6)
    one = 1 << e
    # slots
    kinds = []
    left = n
    while left > 0:
        if field == "realblocks" and left >= 2 and d.int(0, 2) > 0:
            kinds.append("b")
            left -= 2
        else:
            kinds.append("z" if field == "complex" else "r")
            left -= 1
    if field == "realblocks" and "b" not in kinds and n >= 2:
        kinds[-2:] = ["b"]
    m = len(kinds)
    classes = [(6, "generic"), (3, "repeated"), (3, "clustered"), (1, "scalar"), (2, "large")]
    if dom == "any":
        classes += [(2, "small"), (1, "zero")]
    if op == "sqrt":
        classes += [(1, "zero")]
    if field == "complex" and dom == "cut" and n >= 2:
        classes = [(5, "negdet")] + classes
    sc = d.weighted(classes)
    cplx = field != "real"

    def vfield(k):
        return "real" if k == "r" else "complex"

    vals = []
    if sc == "generic":
        vals = [_val(d, vfield(k), dom, e) for k in kinds]
    elif sc == "repeated":
        pool_r = [_val(d, "real", dom, e) for _ in range(d.int(1, 2))]
        pool_c = [_val(d, "complex", dom, e) for _ in range(d.int(1, 2))]
        vals = [d.choice(pool_r) if k == "r" else d.choice(pool_c) for k in kinds]
    elif sc == "clustered":
        bx = d.int(one, 7 * one)
        by = d.int(-6 * one, 6 * one)
        if dom != "cut" and d.bool():
            bx = -bx
        w = d.choice([1, 1, 3, max(1, one // 4)])
        vals = [(bx + d.int(-w, w), (by + d.int(-w, w)) if k != "r" else 0) for k in kinds]
        lo = max(1, one // 16)
        if dom == "cut" or (dom == "nonzero" and bx > 0):
            vals = [(max(x, lo), y) for x, y in vals]
        elif dom == "nonzero":
            vals = [(min(x, -lo), y) for x, y in vals]
    elif sc == "scalar":
        v = _val(d, "complex" if (cplx and "r" not in kinds) else "real", dom, e)
        vals = [v if k != "r" else (v[0], 0) for k in kinds]
        if "r" in kinds and any(k != "r" for k in kinds):
            vals = [(v[0], v[1] if k != "r" else 0) for k in kinds]
    elif sc == "large":
        for k in kinds:
            x, y = _val(d, vfield(k), dom, e)
            if k == "r":
                x = (8 * one - d.int(0, one)) * (-1 if x < 0 else 1)
            elif abs(y) >= abs(x):
                y = (6 * one - d.int(0, one)) * (-1 if y < 0 else 1)
                x = max(-abs(y), min(abs(y), x))
            else:
                x = (6 * one - d.int(0, one)) * (-1 if x < 0 else 1)
            vals.append((x, y))
    elif sc == "small":
        e = d.int(2, 24)          # only the numerators have to fit the precision
        one = 1 << e
        w = max(1, min(64, one // 4))
        vals = [(d.int(-w, w), d.int(-w, w) if k != "r" else 0) for k in kinds]
    elif sc == "zero":
        vals = [(0, 0) for k in kinds]
    elif sc == "negdet":
        # pairs z, -conj(z) with |Im z| >= |Re z|: product -|z|^2, every factor inside the domain; det(A) < 0 real
        if d.bool():
            e = d.int(0, 1)       # small Gaussian integers / halves: det(A) is computed without rounding error, so
            one = 1 << e          # that sqrtm's test "det is a negative real number" fires
        lo = max(1, one // 16)
        hi = 8 * one if e > 1 else 2 * one
        vals = []
        while len(vals) + 2 <= m:
            y = d.int(lo, hi) * d.choice([1, -1])
            x = d.int(-abs(y), abs(y))
            vals += [(x, y), (-x, y)]
        if len(vals) < m:
            vals.append((d.int(lo, hi), 0))
    blocks = []
    for k, (x, y) in zip(kinds, vals):
        if k == "r":
            blocks.append(["r", x])
        else:
            if k == "b" and y == 0 and sc not in ("zero",):
                y = max(1, one // 16) if not (dom == "cut" and x <= 0) else abs(x) + max(1, one // 16)
            blocks.append([k, x, y])
    return e, blocks, sc


def gen_case(d, shard, tier):
    op = shard
    field = d.weighted([(4, "real"), (4, "complex"), (2, "realblocks")])
    heavy = op in ("log", "pow_frac", "fail")
    n = d.weighted([(4, 3), (4, 2), (3, 4), (2, 5), (2, 6), (2, 1)] if not heavy else
                   [(5, 3), (5, 2), (3, 4), (1, 5), (1, 6), (2, 1)])
    if op == "fail":
        n = d.weighted([(5, 2), (4, 3), (3, 4), (1, 1)])
    if n == 1 and field == "realblocks":
        field = "real"
    p = d.choice([30, 31, 32, 53, 64, 100, 113, 128, 200]) if d.int(0, 2) == 0 else d.int(30, 200)
    struct = "1x1" if n == 1 else d.weighted([(2, "diag"), (3, "tri"), (7, "full")])
    S, T = _gen_S(d, n, struct)
    c = {"op": op, "n": n, "p": p, "field": field, "struct": struct, "S": S, "T": T, "allmpc": d.int(0, 5) == 0}
    dom = "cut" if op in ("log", "sqrt", "pow_frac") else "any"
    if op == "pow_int":
        k = d.choice([0, 1, 2, 3, -1, -2]) if d.bool() else d.int(-4, 8)
        c["r"] = ["int", k, d.choice(["int", "mpf", "float"])]
        if k < 0:
            dom = "nonzero"
    elif op == "pow_frac":
        kind = d.weighted([(3, "half"), (4, "real"), (3, "complex")])
        if kind == "half":
            c["r"] = ["dy", 2 * d.int(-3, 3) + 1, 0, 1]
        elif kind == "real":
            num = 2 * d.int(-24, 24) + 1
            c["r"] = ["dy", num, 0, d.int(2, 4)]
        else:
            c["r"] = ["dy", d.int(-12, 12), 2 * d.int(-6, 5) + 1, d.int(1, 3)]
    elif op == "log":
        c["method"] = d.choice(["taylor", "pade"])
    elif op == "fail":
        c["call"] = d.choice(["logm", "logm", "sqrtm", "powm-1", "powm-2", "powm1/3", "powm-1/2"])
        c["jordan"] = n >= 2 and d.int(0, 2) == 0
    e, blocks, sc = _spectrum(d, n, field, dom, op)
    if op == "fail":
        # force a zero eigenvalue (singular matrix); a nilpotent 2x2 Jordan block for the jordan variant
        k = d.int(0, len(blocks) - 1)
        blocks[k] = ["r", 0] if blocks[k][0] == "r" else [blocks[k][0], 0, 0]
        if c["jordan"]:
            sc = "jordan"
    c["e"] = e
    c["blocks"] = blocks
    c["sc"] = sc
    c["cls"] = "%s:%s:%s:%s" % (op, field, struct, sc)
    return c


# ------------------------------------------------------------------------------------------------------ helpers (oracle side)

def _blockdiag(blocks, e, conv, jordan=False):
    """n x n list of lists holding B, every entry conv(xnum, ynum) for (xnum + i ynum)/2^e"""
    n = sum(2 if b[0] == "b" else 1 for b in blocks)
    B = [[conv(0, 0) for _ in range(n)] for _ in range(n)]
    i = 0
    for b in blocks:
        if b[0] == "r":
            B[i][i] = conv(b[1], 0)
            i += 1
        elif b[0] == "z":
            B[i][i] = conv(b[1], b[2])
            i += 1
        else:
            B[i][i] = conv(b[1], 0)
            B[i + 1][i + 1] = conv(b[1], 0)
            B[i][i + 1] = conv(-b[2], 0)
            B[i + 1][i] = conv(b[2], 0)
            i += 2
    if jordan:
        # put a 1 next to a zero diagonal entry so that the matrix has a nilpotent part
        for i in range(n):
            if B[i][i] == conv(0, 0):
                j = i + 1 if i + 1 < n else i - 1
                B[i][j] = conv(1 << e, 0)
                break
    return B


def _mm(X, Y, zero):
    n, m, q = len(X), len(Y), len(Y[0])
    out = []
    for i in range(n):
        row = []
        Xi = X[i]
        for j in range(q):
            s = zero
            for k in range(m):
                a = Xi[k]
                if a == 0:
                    continue
                b = Y[k][j]
                if b == 0:
                    continue
                s = s + a * b
            row.append(s)
        out.append(row)
    return out


def _sub(X, Y):
    return [[a - b for a, b in zip(r, s)] for r, s in zip(X, Y)]


def _add(X, Y):
    return [[a + b for a, b in zip(r, s)] for r, s in zip(X, Y)]


def _norm(X):
    return max(sum(abs(v) for v in row) for row in X)


def _sim(S, M, T, zero):
    return _mm(_mm(S, M, zero), T, zero)


def _raw_of_dyadic(num, e):
    return exact.mk(1 if num < 0 else 0, abs(num), -e)


def _log2(x):
    import math
    x = float(x)
    return math.log2(x) if x > 0 else -9999.0


def _fmt_case(c):
    return "n=%d p=%d field=%s S=%s blocks=%s/2^%d" % (c["n"], c["p"], c["field"], c["S"], c["blocks"], c["e"])


# ------------------------------------------------------------------------------------------------------ the check

def check_case(c):
    import mpmath
    from mpmath import mp
    import mpref
    rm = mpref.mp
    res = R()
    res.cls = c["cls"]
    n, p, op, e = c["n"], c["p"], c["op"], c["e"]
    S, T = c["S"], c["T"]
    blocks = c["blocks"]
    I_int = [[1 if i == j else 0 for j in range(n)] for i in range(n)]
    if _mm(S, T, 0) != I_int:
        raise HarnessError("S*T != I in generated case")
    kappa = _norm_int(S) * _norm_int(T)
    res.nontrivial = (n >= 2 and S != I_int) or op == "fail"
    res.n = 0
    jordan = bool(c.get("jordan"))
    # exact A (pairs of integers in units of 2^-e)
    Bx = _blockdiag(blocks, e, lambda x, y: (x, y), jordan)
    Are = _sim(S, [[v[0] for v in row] for row in Bx], T, 0)
    Aim = _sim(S, [[v[1] for v in row] for row in Bx], T, 0)
    old_ref = rm.prec
    mp.prec = p
    try:
        wp = 3 * p + 100
        rm.prec = wp
        # ---- input matrix at precision p (exactly representable by construction) and its reference copy
        A = mp.matrix(n, n)
        allmpc = c.get("allmpc") and True
        for i in range(n):
            for j in range(n):
                xr, xi = _raw_of_dyadic(Are[i][j], e), _raw_of_dyadic(Aim[i][j], e)
                if xr[3] > p or xi[3] > p:
                    raise HarnessError("entry of A not representable at p=%d" % p)
                if xi[1] or allmpc or c["field"] == "complex":
                    A[i, j] = mp.make_mpc((xr, xi))
                else:
                    A[i, j] = mp.make_mpf(xr)
        A_raws = _raws(A)
        den = rm.mpf(1 << e)
        cz = rm.mpc(0)

        def conv(x, y):
            return rm.mpc(rm.mpf(x) / den, rm.mpf(y) / den)

        Aref = [[conv(Are[i][j], Aim[i][j]) for j in range(n)] for i in range(n)]
        nA = _norm(Aref)
        eps = rm.mpf(2) ** (10 - p)
        amp = max(rm.mpf(kappa), nA, rm.mpf(1))
        ctxinfo = _fmt_case(c)

        def fB(f):
            """f applied to the block diagonal B (through the eigenvalues of the 2x2 blocks)"""
            F = [[cz for _ in range(n)] for _ in range(n)]
            i = 0
            for b in blocks:
                if b[0] == "b":
                    z = conv(b[1], b[2])
                    w1, w2 = f(z), f(z.conjugate())
                    h, g = (w1 + w2) / 2, rm.mpc(0, 1) * (w1 - w2) / 2
                    F[i][i] = h
                    F[i + 1][i + 1] = h
                    F[i][i + 1] = g
                    F[i + 1][i] = -g
                    i += 2
                else:
                    z = conv(b[1], b[2] if b[0] == "z" else 0)
                    F[i][i] = f(z)
                    i += 1
            return F

        def oracle(f):
            return _sim(S, fB(f), T, cz)

        def to_ref(M, what):
            """entries of an mpmath matrix as mpref numbers (exact); None + violation if not finite / wrong shape"""
            if not hasattr(M, "rows") or (M.rows, M.cols) != (n, n):
                res.bad("shape:" + what, "%s returned %r for %s" % (what, type(M), ctxinfo))
                return None
            out = []
            for i in range(n):
                row = []
                for j in range(n):
                    x = M[i, j]
                    if hasattr(x, "_mpf_"):
                        t = x._mpf_
                        if t[1] == 0 and t != exact.fzero:
                            res.bad("nonfinite:" + what, "%s has a non-finite entry [%d,%d]=%s for %s" % (what, i, j, x, ctxinfo))
                            return None
                        v = rm.mpc(rm.make_mpf((int(t[0]), int(t[1]), int(t[2]), int(t[3]))))
                    elif hasattr(x, "_mpc_"):
                        a, b = x._mpc_
                        for t in (a, b):
                            if t[1] == 0 and t != exact.fzero:
                                res.bad("nonfinite:" + what, "%s has a non-finite entry [%d,%d]=%s for %s" % (what, i, j, x, ctxinfo))
                                return None
                        v = rm.make_mpc(((int(a[0]), int(a[1]), int(a[2]), int(a[3])), (int(b[0]), int(b[1]), int(b[2]), int(b[3]))))
                    else:
                        v = rm.mpc(x)
                    row.append(v)
                out.append(row)
            return out

        def after(what):
            res.n += 1
            ok = True
            if mp.prec != p:
                res.bad("prec-leak:" + what, "mp.prec = %d after %s at prec %d (%s)" % (mp.prec, what, p, ctxinfo))
                mp.prec = p
                ok = False
            if _raws(A) != A_raws:
                res.bad("input-mutated:" + what, "%s changed its argument (%s)" % (what, ctxinfo))
                ok = False
            return ok

        def judge(bucket, what, err, tol, extra=""):
            """err, tol: mpref numbers"""
            ratio = err / tol if tol else (rm.mpf(0) if err == 0 else rm.inf)
            lr = _log2(ratio) if ratio else -9999.0
            key = "log2ratio:" + bucket
            if key not in res.metrics or lr > res.metrics[key]:
                res.metrics[key] = round(lr, 2)
            if err > tol:
                res.bad(bucket, "%s: error %s exceeds the tolerance %s (2^%.1f times; cond(S)=%d, ||A||=%s) for %s%s" % (
                    what, rm.nstr(err, 5), rm.nstr(tol, 5), lr, kappa, rm.nstr(nA, 5), ctxinfo, extra))
                return False
            return True

        def too_loose(factor):
            """tolerance eps*factor relative: meaningless above 2^-6"""
            if eps * factor > rm.mpf(2) ** -6:
                res.inconclusive = True
                return True
            return False

        def other_branch(G, inv):
            """is G = got a function of A on another branch?  X = S^-1 G S must be (block) diagonal like B and
            inv(X) must reproduce B."""
            X = _sim(T, G, S, cz)
            Bref = _blockdiag(blocks, e, conv)
            back = inv(X)
            return _norm(_sub(back, Bref)) <= eps * amp * max(1, _norm(Bref)) * 4

        Iref = [[rm.mpc(1 if i == j else 0) for j in range(n)] for i in range(n)]

        # ------------------------------------------------------------------------------------------ operations
        if op == "exp":
            F = oracle(rm.exp)
            nF = _norm(F)
            for method in ("taylor", "pade"):
                what = "expm(A, method=%r)" % method
                G = mp.expm(A, method=method)
                after(what)
                G = to_ref(G, what)
                if G is None:
                    continue
                judge("expm:%s" % method, what, _norm(_sub(G, F)), eps * amp * max(1, nF))
        elif op == "trig":
            FC, FS = oracle(rm.cos), oracle(rm.sin)
            GC = mp.cosm(A)
            after("cosm(A)")
            GS = mp.sinm(A)
            after("sinm(A)")
            GC, GS = to_ref(GC, "cosm(A)"), to_ref(GS, "sinm(A)")
            if GC is not None:
                judge("cosm", "cosm(A)", _norm(_sub(GC, FC)), eps * amp * max(1, _norm(FC)))
            if GS is not None:
                judge("sinm", "sinm(A)", _norm(_sub(GS, FS)), eps * amp * max(1, _norm(FS)))
            if GC is not None and GS is not None:
                resid = _sub(_add(_mm(GC, GC, cz), _mm(GS, GS, cz)), Iref)
                scale = _norm(GC) ** 2 + _norm(GS) ** 2 + 1
                judge("identity:cos2+sin2", "cosm(A)^2 + sinm(A)^2 - I", _norm(resid), 2 * eps * amp * scale)
        elif op == "sqrt":
            F = oracle(rm.sqrt)
            G = mp.sqrtm(A)
            after("sqrtm(A)")
            G = to_ref(G, "sqrtm(A)")
            if G is not None:
                nG = _norm(G)
                judge("identity:sqrtm^2", "sqrtm(A)^2 - A", _norm(_sub(_mm(G, G, cz), Aref)), 2 * eps * amp * max(1, nG * nG, nA))
                err = _norm(_sub(G, F))
                tol = eps * amp * max(1, _norm(F))
                if err > tol and other_branch(G, lambda X: _mm(X, X, cz)):
                    res.cls += ":branch"
                    res.metrics["other_branch:sqrtm"] = 1
                else:
                    judge("sqrtm", "sqrtm(A)", err, tol)
        elif op == "log":
            F = oracle(rm.log)
            G0 = mp.logm(A)
            after("logm(A)")
            G = to_ref(G0, "logm(A)")
            if G is not None:
                what = "expm(logm(A), method=%r)" % c["method"]
                E = mp.expm(G0, method=c["method"])
                after(what)
                E = to_ref(E, what)
                if E is not None:
                    judge("identity:expm(logm)", what + " - A", _norm(_sub(E, Aref)),
                          eps * amp * max(1, nA) * max(1, _norm(G)))
                err = _norm(_sub(G, F))
                tol = eps * amp * max(1, _norm(F))
                if err > tol and other_branch(G, lambda X: _expm_ref(rm, X)):
                    res.cls += ":branch"
                    res.metrics["other_branch:logm"] = 1
                else:
                    judge("logm", "logm(A)", err, tol)
        elif op == "pow_int":
            k = c["r"][1]
            rarg = k if c["r"][2] == "int" else (mp.mpf(k) if c["r"][2] == "mpf" else float(k))
            F = oracle(lambda z: z ** k if k else rm.mpc(1))
            nF = _norm(F)
            factor = amp * abs(k) if k else rm.mpf(1)
            scale = max(1, nF, nA ** k if k > 0 else 1)
            if k < 0:
                Fpos = oracle(lambda z: z ** (-k))
                factor = factor * _norm(Fpos) * nF          # cond(A^|k|): mpmath inverts A^|k|
            what = "powm(A, %r)" % (rarg,)
            if not too_loose(factor):
                G = mp.powm(A, rarg)
                after(what)
                G = to_ref(G, what)
                H = A ** k
                after("A**%d" % k)
                H = to_ref(H, "A**%d" % k)
                if G is not None:
                    judge("powm:int" + (":neg" if k < 0 else ""), what, _norm(_sub(G, F)), eps * factor * scale)
                if G is not None and H is not None:
                    judge("identity:powm=A**k" + (":neg" if k < 0 else ""), what + " - A**%d" % k, _norm(_sub(G, H)),
                          eps * factor * max(scale, _norm(H)))
        elif op == "pow_frac":
            _, rn, ri, re_ = c["r"]
            rr = rm.mpc(rm.mpf(rn) / (1 << re_), rm.mpf(ri) / (1 << re_))
            if ri:
                rarg = mp.mpc(mp.mpf(rn) / (1 << re_), mp.mpf(ri) / (1 << re_))
            else:
                rarg = mp.mpf(rn) / (1 << re_)
            F = oracle(lambda z: rm.exp(rr * rm.log(z)))
            L = oracle(rm.log)
            nF = _norm(F)
            half = re_ == 1 and not ri
            factor = amp * (abs(rn) if half else max(1, abs(rr) * _norm(L)))
            what = "powm(A, %s)" % rarg
            if not too_loose(factor):
                G = mp.powm(A, rarg)
                after(what)
                G = to_ref(G, what)
                if G is not None:
                    err = _norm(_sub(G, F))
                    tol = eps * factor * max(1, nF)
                    if err > tol and _is_branch_pow(rm, G, S, T, blocks, e, conv, rr, eps * factor * 4, cz):
                        res.cls += ":branch"
                        res.metrics["other_branch:powm"] = 1
                    else:
                        judge("powm:half" if half else "powm:frac", what, err, tol)
        elif op == "fail":
            call = c["call"]
            try:
                with time_limit(FAIL_TIME):
                    if call == "logm":
                        mp.logm(A)
                    elif call == "sqrtm":
                        mp.sqrtm(A)
                    elif call == "powm-1":
                        mp.powm(A, -1)
                    elif call == "powm-2":
                        mp.powm(A, -2)
                    elif call == "powm1/3":
                        mp.powm(A, mp.mpf(1) / 3)
                    else:
                        mp.powm(A, -0.5)
                res.cls += ":returned"
            except ZeroDivisionError:
                res.cls += ":ZeroDivisionError"
            except mp.NoConvergence:
                res.cls += ":NoConvergence"
            except CaseTimeout:
                # interrupted in the middle of the computation: the precision must be restored all the same
                res.cls += ":interrupted"
                if not any(any(row) for row in Are) and not any(any(row) for row in Aim):
                    # the zero matrix: sqrtm returns it unchanged at once, so logm's reduction loop "until
                    # ||B - I|| < 1/8" can never end -- not a slow case but a provably endless one
                    res.bad("hang:logm:zero-matrix", "%s of the %dx%d zero matrix did not return within %.1f s (endless "
                            "square-root loop in logm; the docstring promises ZeroDivisionError for matrices without a "
                            "logarithm) at prec %d" % (call, n, n, FAIL_TIME, p))
            except Exception as ex:
                where = _frame(ex.__traceback__)
                res.cls += ":" + type(ex).__name__
                res.bad("singular:%s@%s" % (type(ex).__name__, where), "%s of a singular matrix raised the undocumented %s: %s (%s)" % (
                    call, type(ex).__name__, ex, ctxinfo))
            after(call + " of a singular matrix")
        else:
            raise HarnessError("unknown op %r" % op)
        return res
    finally:
        mp.prec = 53
        rm.prec = old_ref


def _frame(tb):
    """innermost frame inside mpmath/matrices/{calculus,linalg}.py"""
    import traceback
    hit = in_repo_frame(tb)
    for fs in traceback.extract_tb(tb):
        fn = fs.filename.replace("\\", "/")
        if fn.endswith("/matrices/calculus.py") or fn.endswith("/matrices/linalg.py"):
            hit = "%s:%s" % (fn.rsplit("/", 1)[1], fs.name)
    return hit


def _raws(M):
    out = []
    for i in range(M.rows):
        for j in range(M.cols):
            x = M[i, j]
            out.append(x._mpf_ if hasattr(x, "_mpf_") else x._mpc_ if hasattr(x, "_mpc_") else x)
    return out


def _expm_ref(rm, X):
    """exp of a (numerically) block diagonal matrix with 1x1 / 2x2 blocks, evaluated naively by its Taylor series at the
    reference precision (only used to recognise a non-principal logarithm)"""
    n = len(X)
    cz = rm.mpc(0)
    nrm = _norm(X)
    j = max(0, int(rm.mag(nrm)) + 2) if nrm else 0
    Y = [[v / (1 << j) for v in row] for row in X]
    I = [[rm.mpc(1 if a == b else 0) for b in range(n)] for a in range(n)]
    out = I
    term = I
    k = 1
    tol = rm.mpf(2) ** (-rm.prec)
    while True:
        term = [[v / k for v in row] for row in _mm(term, Y, cz)]
        out = _add(out, term)
        if _norm(term) < tol or k > 10000:
            break
        k += 1
    for _ in range(j):
        out = _mm(out, out, cz)
    return out


def _is_branch_pow(rm, G, S, T, blocks, e, conv, rr, tolrel, cz):
    """G = A^r on another branch of the logarithm?  X = S^-1 G S must be diagonal with entries d_i^r exp(2 pi i k r) --
    only decided for diagonal B (no 2x2 blocks)"""
    if any(b[0] == "b" for b in blocks):
        return False
    X = _sim(T, G, S, cz)
    n = len(X)
    off = max(sum(abs(X[i][j]) for j in range(n) if j != i) for i in range(n))
    nX = _norm(X)
    if off > tolrel * max(1, nX):
        return False
    i = 0
    for b in blocks:
        z = conv(b[1], b[2] if b[0] == "z" else 0)
        ok = False
        for k in range(-3, 4):
            w = rm.exp(rr * (rm.log(z) + 2 * rm.pi * rm.mpc(0, 1) * k))
            if abs(X[i][i] - w) <= tolrel * max(1, nX):
                ok = True
                break
        if not ok:
            return False
        i += 1
    return True
