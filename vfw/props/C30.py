"""C30 -- linear algebra results are accurate and factorizations are consistent."""
from fractions import Fraction as Fr
from math import isqrt

from .. import exact
from ..core import R
from ..exact import fzero

ID = "C30"
LEVEL = "exploration"
CASE_TIMEOUT = 60.0
RULE = ("Cases = (kind, precision p in 30..300, matrix data). Matrices are 1..8 x 1..8, real or complex, with entries given "
        "as Python ints, exact dyadic mpf values or decimal strings (converted by the matrix constructor at precision p; the "
        "oracle always reads back the binary values the matrix holds). Classes: independent random entries, sparse, zero "
        "leading entries (forced pivoting), rows scaled by different powers of two, triangular, diagonal, permutation-like, "
        "rank-deficient by construction (integer product X*Y of inner dimension < n, duplicated/combined rows, zero row or "
        "column), near-singular (S*2^k + E with S singular: condition about 2^k), symmetric / Hermitian positive definite "
        "B^H B + c I from integer B, indefinite B^H B - c I, overdetermined m > n, and the same matrices scaled by 2^(+-s) "
        "with s up to 2p. Kinds: solve (lu_solve, qr_solve with its residual norm, inverse, det on square systems), "
        "ls (lu_solve and qr_solve on overdetermined systems), spd (cholesky, cholesky_solve), lu (lu, LU_decomp incl. "
        "overwrite and the first pivot choice), qr (full and skinny), arith (+, -, *, scalar forms, ** with exponents "
        "-3..6, transpose, transpose_conj/H, conjugate, mnorm 1/inf/'f', norm 1/2/3/inf). Oracle: exact rational arithmetic "
        "(fractions.Fraction, complex numbers as pairs of Fractions): Gauss-Jordan inverse, determinant, normal equations "
        "for least squares, exact products and sums, integer square roots for moduli. Accuracy claims: Frobenius/2-norm "
        "relative error <= cond * 2^(10-p) with cond = ||A||_inf ||A^-1||_inf computed exactly (for least squares the "
        "condition number of A^H A); cases with cond * 2^(10-p) >= 1 are rejected, as are least-squares cases whose exact "
        "solution is more than 2^6 below its natural magnitude ||A^+|| ||b||. Exactly singular square matrices must make "
        "inverse and lu_solve raise ZeroDivisionError. Factorizations: structure is checked exactly (zeros, unit diagonal, "
        "permutation, real positive Cholesky diagonal), identities elementwise within 2^(10-p) times the natural magnitude "
        "(|L||U|, |L||L^H|, ||A||_F). Arithmetic and norms: exact equality whenever every evaluation order of the "
        "elementwise definition is exact in p bits (all terms multiples of 2^e with sum of moduli < 2^(p+e)); otherwise "
        "within (number of rounded operations) * 2^-p of the natural magnitude. The working precision must be unchanged "
        "after every call. Non-trivial = matrix of size >= 2 that is not diagonal.")
ASSUMPTIONS = ["CPython integers and fractions.Fraction are exact",
               "the raw (sign, man, exp, bc) tuple of an mpf denotes (-1)^sign * man * 2^exp",
               "for complex matrices the condition number uses rational upper bounds of the moduli (relative excess < 2^-60)"]
TECHNIQUE = "property-based testing (Hypothesis) against an exact rational oracle"

SHARDS = ["solve", "solve", "solve", "singular", "ls", "ls", "spd", "spd", "lu", "lu", "qr", "qr",
          "arith", "arith", "arith", "arith"]


def shards(tier):
    n = {"solve": 1800, "singular": 1500, "ls": 1200, "spd": 2000, "lu": 2000, "qr": 1400, "arith": 2400}
    k = 1 if tier == "quick" else 25
    return [(s, n[s] * k) for s in SHARDS]


# ======================================================================================== exact arithmetic

class NonFinite(Exception):
    pass


class CQ(object):
    """exact complex rational"""
    __slots__ = ("re", "im")

    def __init__(self, re, im=Fr(0)):
        self.re = re
        self.im = im

    def __add__(s, o):
        if type(o) is not CQ:
            return CQ(s.re + o, s.im)
        return CQ(s.re + o.re, s.im + o.im)
    __radd__ = __add__

    def __sub__(s, o):
        if type(o) is not CQ:
            return CQ(s.re - o, s.im)
        return CQ(s.re - o.re, s.im - o.im)

    def __rsub__(s, o):
        return CQ(o - s.re, -s.im)

    def __neg__(s):
        return CQ(-s.re, -s.im)

    def __mul__(s, o):
        if type(o) is not CQ:
            return CQ(s.re * o, s.im * o)
        return CQ(s.re * o.re - s.im * o.im, s.re * o.im + s.im * o.re)
    __rmul__ = __mul__

    def __truediv__(s, o):
        if type(o) is not CQ:
            return CQ(s.re / o, s.im / o)
        dd = o.re * o.re + o.im * o.im
        return CQ((s.re * o.re + s.im * o.im) / dd, (s.im * o.re - s.re * o.im) / dd)

    def __rtruediv__(s, o):
        dd = s.re * s.re + s.im * s.im
        return CQ(o * s.re / dd, -o * s.im / dd)

    def __eq__(s, o):
        if type(o) is not CQ:
            return s.im == 0 and s.re == o
        return s.re == o.re and s.im == o.im

    def __ne__(s, o):
        return not s.__eq__(o)

    __hash__ = None

    def __repr__(s):
        return "(%s + %s i)" % (s.re, s.im)


def conj(x):
    return CQ(x.re, -x.im) if type(x) is CQ else x


def abs2(x):
    return x.re * x.re + x.im * x.im if type(x) is CQ else x * x


def sqrt_bounds(q, bits):
    """(lo, hi) rational bounds of sqrt(q), hi - lo <= 2^-bits * lo; lo == hi iff q is a rational square"""
    if q == 0:
        return Fr(0), Fr(0)
    n, dd = q.numerator, q.denominator
    v = n * dd
    k = max(0, bits + 2 - v.bit_length() // 2)
    s = isqrt(v << (2 * k))
    den = dd << k
    if s * s == v << (2 * k):
        r = Fr(s, den)
        return r, r
    return Fr(s, den), Fr(s + 1, den)


def modb(x, bits=64):
    """(lo, hi) bounds of |x|"""
    if type(x) is not CQ:
        a = abs(x)
        return a, a
    if x.im == 0:
        a = abs(x.re)
        return a, a
    if x.re == 0:
        a = abs(x.im)
        return a, a
    return sqrt_bounds(x.re * x.re + x.im * x.im, bits)


def modup(x):
    return modb(x, 64)[1]


def mat_mul(A, B):
    Bt = list(zip(*B))
    return [[sum((a * b for a, b in zip(row, col)), Fr(0)) for col in Bt] for row in A]


def mat_vec(A, v):
    return [sum((a * b for a, b in zip(row, v)), Fr(0)) for row in A]


def mat_H(A):
    return [[conj(x) for x in col] for col in zip(*A)]


def inv_exact(A):
    """(inverse, determinant) by Gauss-Jordan over the rationals; (None, 0) when singular"""
    n = len(A)
    one, zero = Fr(1), Fr(0)
    M = [list(A[i]) + [one if i == j else zero for j in range(n)] for i in range(n)]
    det = Fr(1)
    for c in range(n):
        piv = None
        for r in range(c, n):
            if M[r][c] != 0:
                piv = r
                break
        if piv is None:
            return None, Fr(0)
        if piv != c:
            M[c], M[piv] = M[piv], M[c]
            det = -det
        pv = M[c][c]
        det = det * pv
        iv = 1 / pv
        rowc = [x * iv for x in M[c]]
        M[c] = rowc
        for r in range(n):
            if r != c:
                f = M[r][c]
                if f != 0:
                    M[r] = [x - f * y if y != 0 else x for x, y in zip(M[r], rowc)]
    return [row[n:] for row in M], det


def norm_inf_up(A):
    return max(sum((modup(x) for x in row), Fr(0)) for row in A)


def fro2(A):
    return sum((abs2(x) for row in A for x in row), Fr(0))


def diff2(G, X):
    return sum((abs2(g - x) for gr, xr in zip(G, X) for g, x in zip(gr, xr)), Fr(0))


def fits(v, p):
    """is the rational v exactly representable with a p-bit mantissa"""
    dd = v.denominator
    if dd & (dd - 1):
        return False
    n = abs(v.numerator)
    if n == 0:
        return True
    n >>= (n & -n).bit_length() - 1
    return n.bit_length() <= p


def val2(v):
    """2-adic valuation of a nonzero dyadic rational"""
    n, dd = v.numerator, v.denominator
    return ((n & -n).bit_length() - 1) - (dd.bit_length() - 1)


def window_exact(terms, p):
    """True when every term is dyadic and, with e the smallest 2-adic valuation, sum |t| < 2^(p+e): then every partial
    sum in every order is representable in p bits, i.e. any evaluation of the sum is exact"""
    nz = [t for t in terms if t != 0]
    if not nz:
        return True
    for t in nz:
        dd = t.denominator
        if dd & (dd - 1):
            return False
    e = min(val2(t) for t in nz)
    tot = sum((abs(t) for t in nz), Fr(0))
    return tot < Fr(2) ** (p + e)


def f2(x):
    try:
        return float(x)
    except OverflowError:
        return float("inf")


def ratio(num2, den2, B):
    """sqrt(num2/den2)/B as a float for the metrics"""
    if den2 == 0 or B == 0:
        return 0.0 if num2 == 0 else float("inf")
    q = num2 / (den2 * B * B)
    lo, hi = sqrt_bounds(q, 20)
    return f2(hi)


# ======================================================================================== generation

SIZES = [(1, 1), (5, 2), (6, 3), (5, 4), (3, 5), (2, 6), (1, 7), (1, 8)]
PRECS = [30, 31, 32, 33, 52, 53, 54, 63, 64, 65, 100, 113, 128, 200, 256, 300]


def _prec(d):
    return d.choice(PRECS) if d.int(0, 2) else d.int(30, 300)


def _ekind(d):
    return d.weighted([(4, "int9"), (2, "int100"), (1, "int1e6"), (3, "dyadic"), (3, "dec"), (2, "mixed")])


def _rent(d, kind):
    if kind == "mixed":
        kind = d.choice(["int9", "int100", "dyadic", "dec"])
    if kind == "int9":
        return ["i", d.int(-9, 9)]
    if kind == "int100":
        return ["i", d.int(-100, 100)]
    if kind == "int1e6":
        return ["i", d.int(-10 ** 6, 10 ** 6)]
    if kind == "dyadic":
        b = d.int(1, 24)
        return ["d", d.int(-(1 << b), 1 << b), d.int(-12, 12)]
    k = d.int(1, 4)
    a = d.int(-(10 ** (k + 1)), 10 ** (k + 1))
    s = "%s%d.%0*d" % ("-" if a < 0 else "", abs(a) // 10 ** k, k, abs(a) % 10 ** k)
    if d.int(0, 5) == 0:
        s += "e%d" % d.int(-3, 3)
    return ["s", s]


def _ent(d, kind, cplx):
    if not cplx:
        return _rent(d, kind)
    k = d.int(0, 7)
    if k == 0:
        return _rent(d, kind)
    if k == 1:
        return ["c", ["i", 0], _rent(d, kind)]
    return ["c", _rent(d, kind), _rent(d, kind)]


ZERO = ["i", 0]


def _gi(d, cplx, lo, hi):
    return (d.int(lo, hi), d.int(lo, hi) if cplx and d.int(0, 3) else 0)


def _gmul(X, Y):
    """product of Gaussian-integer matrices given as lists of lists of (re, im)"""
    Yt = list(zip(*Y))
    out = []
    for row in X:
        r = []
        for col in Yt:
            a = b = 0
            for (xr, xi), (yr, yi) in zip(row, col):
                a += xr * yr - xi * yi
                b += xr * yi + xi * yr
            r.append((a, b))
        out.append(r)
    return out


def _gH(X):
    return [[(a, -b) for (a, b) in col] for col in zip(*X)]


def _spec_int(z, s):
    def one(v):
        return ["i", v] if s == 0 or v == 0 else ["d", v, s]
    a, b = z
    if b == 0:
        return one(a)
    return ["c", one(a), one(b)]


def _specs(G, s=0):
    return [[_spec_int(z, s) for z in row] for row in G]


def _singular_int(d, n, cplx):
    """exactly rank-deficient n x n Gaussian-integer matrix"""
    how = d.weighted([(5, "product"), (3, "comb_row"), (2, "comb_col"), (1, "zero_row"), (1, "zero_col"), (1, "zero")])
    if n == 1 or how == "zero":
        return [[(0, 0)] * n for _ in range(n)], "zero"
    if how == "product":
        r = d.int(1, n - 1) if d.int(0, 2) else n - 1
        X = [[_gi(d, cplx, -3, 3) for _ in range(r)] for _ in range(n)]
        Y = [[_gi(d, cplx, -3, 3) for _ in range(n)] for _ in range(r)]
        return _gmul(X, Y), "product"
    G = [[_gi(d, cplx, -9, 9) for _ in range(n)] for _ in range(n)]
    i = d.int(0, n - 1)
    if how == "zero_row":
        G[i] = [(0, 0)] * n
    elif how == "zero_col":
        for row in G:
            row[i] = (0, 0)
    else:
        j = (i + d.int(1, n - 1)) % n
        k = d.int(0, n - 1)
        al, be = d.int(-3, 3), d.int(-2, 2)
        if k == i:
            be = 0
        if how == "comb_col":
            G = [list(r) for r in zip(*G)]
        G[i] = [(al * a1 + be * a2, al * b1 + be * b2) for (a1, b1), (a2, b2) in zip(G[j], G[k])]
        if how == "comb_col":
            G = [list(r) for r in zip(*G)]
    return G, how


def _square(d, n, cplx, cls, p):
    """entry specs of an n x n matrix of class cls"""
    if cls in ("rand", "sparse", "zero_lead", "rowscaled", "tri", "diag", "perm"):
        ek = _ekind(d)
        A = [[_ent(d, ek, cplx) for _ in range(n)] for _ in range(n)]
        if cls == "sparse":
            for i in range(n):
                for j in range(n):
                    if d.int(0, 2) == 0:
                        A[i][j] = ZERO
        elif cls == "zero_lead":
            A[0][0] = ZERO
            for i in range(1, n):
                if d.bool():
                    A[i][min(i, n - 1)] = ZERO
        elif cls == "rowscaled":
            ek = "int100"
            A = []
            for i in range(n):
                s = d.int(-16, 16)
                row = []
                for j in range(n):
                    z = _gi(d, cplx, -100, 100)
                    row.append(_spec_int(z, s))
                A.append(row)
        elif cls == "tri":
            up = d.bool()
            for i in range(n):
                for j in range(n):
                    if (j < i) if up else (j > i):
                        A[i][j] = ZERO
        elif cls == "diag":
            for i in range(n):
                for j in range(n):
                    if i != j:
                        A[i][j] = ZERO
        elif cls == "perm":
            perm = list(range(n))
            for i in range(n - 1, 0, -1):
                j = d.int(0, i)
                perm[i], perm[j] = perm[j], perm[i]
            keep = d.int(0, 3)
            for i in range(n):
                for j in range(n):
                    if perm[i] != j and (keep or d.int(0, 3)):
                        A[i][j] = ZERO
        return A, ek
    if cls == "singular":
        G, how = _singular_int(d, n, cplx)
        s = d.int(-10, 10) if d.int(0, 3) == 0 else 0
        return _specs(G, s), how
    if cls == "near_singular":
        G, how = _singular_int(d, n, cplx)
        k = d.int(3, max(3, p - 22))
        E = [[_gi(d, cplx, -3, 3) for _ in range(n)] for _ in range(n)]
        G = [[((a << k) + e1, (b << k) + e2) for (a, b), (e1, e2) in zip(gr, er)] for gr, er in zip(G, E)]
        s = -k if d.bool() else 0
        return _specs(G, s), "k%d" % (k // 16 * 16)
    if cls == "scaled":
        G = [[_gi(d, cplx, -9, 9) for _ in range(n)] for _ in range(n)]
        for i in range(n):
            a, b = G[i][i]
            G[i][i] = (a + (20 if a >= 0 else -20), b)
        s = d.choice([-1, 1]) * d.int(p // 2, 2 * p)
        return _specs(G, s), "s"
    raise ValueError(cls)


def _vec(d, m, cplx, ek=None):
    ek = ek or _ekind(d)
    return [_ent(d, ek, cplx) for _ in range(m)]


def gen_case(d, shard, tier):
    p = _prec(d)
    n = d.weighted(SIZES)
    cplx = d.int(0, 2) == 0
    c = {"kind": shard, "p": p, "cplx": cplx}
    if shard in ("solve", "singular", "lu"):
        if shard == "singular":
            cls = "singular"
        else:
            cls = d.weighted([(6, "rand"), (3, "sparse"), (2, "zero_lead"), (2, "rowscaled"), (1, "tri"), (1, "diag"),
                              (2, "perm"), (2, "singular"), (4, "near_singular"), (1, "scaled")])
        if shard == "singular":
            c["kind"] = "solve"
        c["cls"] = cls
        c["A"], sub = _square(d, n, cplx, cls, p)
        c["sub"] = sub
        if c["kind"] == "solve":
            c["b"] = _vec(d, n, cplx if d.int(0, 5) else not cplx)
        return c
    if shard == "ls":
        n = min(n, 7)
        m = d.int(n + 1, 8)
        cls = d.weighted([(6, "rand"), (2, "sparse"), (1, "near_dep")])
        ek = _ekind(d)
        if cls == "near_dep" and n >= 2:
            G = [[_gi(d, cplx, -9, 9) for _ in range(n)] for _ in range(m)]
            k = d.int(2, max(2, (p - 24) // 2))
            j = d.int(1, n - 1)
            for row in G:
                a, b = row[0]
                e = _gi(d, cplx, -2, 2)
                row[j] = ((a << k) + e[0], (b << k) + e[1])
            A = _specs(G, 0)
        else:
            A = [[_ent(d, ek, cplx) for _ in range(n)] for _ in range(m)]
            if cls == "sparse":
                for i in range(m):
                    for j in range(n):
                        if d.int(0, 2) == 0:
                            A[i][j] = ZERO
        c.update({"cls": cls, "sub": ek, "A": A, "b": _vec(d, m, cplx if d.int(0, 4) else True)})
        return c
    if shard == "spd":
        cls = d.weighted([(8, "pd"), (2, "indef"), (1, "pd_scaled")])
        k = d.int(n, n + 2) if d.int(0, 3) else d.int(max(1, n - 1), n)
        B = [[_gi(d, cplx, -4, 4) for _ in range(n)] for _ in range(k)]
        G = _gmul(_gH(B), B)
        sh = d.int(1, 20) if cls != "indef" else -d.int(1, 50)
        if cls == "pd" and d.int(0, 9) == 0:
            sh = 0
        for i in range(n):
            G[i][i] = (G[i][i][0] + sh, 0)
        s = 0
        if cls == "pd_scaled":
            s = d.choice([-1, 1]) * d.int(p // 2, 2 * p)
        elif d.int(0, 3) == 0:
            s = d.int(-8, 8)
        c.update({"cls": cls, "sub": "", "A": _specs(G, s), "b": _vec(d, n, cplx if d.int(0, 4) else not cplx)})
        return c
    if shard == "qr":
        n = max(2, n)
        m = n if d.bool() else d.int(n, 8)
        cls = d.weighted([(6, "rand"), (3, "sparse"), (2, "rankdef"), (1, "tri")])
        ek = _ekind(d)
        A = [[_ent(d, ek, cplx) for _ in range(n)] for _ in range(m)]
        if cls == "sparse":
            for i in range(m):
                for j in range(n):
                    if d.int(0, 2) == 0:
                        A[i][j] = ZERO
        elif cls == "tri":
            for i in range(m):
                for j in range(n):
                    if i > j:
                        A[i][j] = ZERO
        elif cls == "rankdef":
            r = d.int(0, n - 1)
            X = [[_gi(d, cplx, -3, 3) for _ in range(r)] for _ in range(m)]
            Y = [[_gi(d, cplx, -3, 3) for _ in range(n)] for _ in range(r)]
            A = _specs(_gmul(X, Y) if r else [[(0, 0)] * n for _ in range(m)])
        c.update({"cls": cls, "sub": ek, "A": A, "mode": d.choice(["full", "skinny", "full", "skinny", "FULL", "SKINNY"])})
        return c
    # arith
    op = d.weighted([(3, "add"), (3, "sub"), (5, "mul"), (2, "smul"), (1, "sadd"), (5, "pow"), (2, "transpose"),
                     (3, "mnorm"), (3, "norm")])
    ek = _ekind(d)
    m = d.weighted(SIZES) if d.bool() else n
    c.update({"op": op, "cls": op, "sub": ek})
    if op in ("add", "sub"):
        c["A"] = [[_ent(d, ek, cplx) for _ in range(n)] for _ in range(m)]
        ek2 = ek if d.bool() else _ekind(d)
        c["B"] = [[_ent(d, ek2, cplx if d.bool() else not cplx) for _ in range(n)] for _ in range(m)]
    elif op == "mul":
        k = d.weighted(SIZES)
        c["A"] = [[_ent(d, ek, cplx) for _ in range(k)] for _ in range(m)]
        ek2 = ek if d.bool() else _ekind(d)
        c["B"] = [[_ent(d, ek2, cplx if d.bool() else not cplx) for _ in range(n)] for _ in range(k)]
    elif op in ("smul", "sadd"):
        c["A"] = [[_ent(d, ek, cplx) for _ in range(n)] for _ in range(m)]
        c["s"] = _ent(d, d.choice(["int9", "int100", "dyadic"]), d.int(0, 3) == 0)
        c["side"] = d.choice(["l", "r"])
    elif op == "pow":
        e = d.int(-3, 6)
        cls = d.weighted([(5, "rand"), (2, "sparse"), (1, "singular"), (1, "perm"), (1, "tri")])
        if e >= 0 and cls == "singular":
            cls = "rand"
        if n > 5 and d.bool():
            n -= 3
        ekp = d.weighted([(6, "int9"), (1, "int100"), (2, "dyadic"), (2, "dec")])
        if cls == "singular":
            c["A"] = _specs(_singular_int(d, n, cplx)[0])
        else:
            A = [[_ent(d, ekp, cplx) for _ in range(n)] for _ in range(n)]
            if cls == "sparse":
                for i in range(n):
                    for j in range(n):
                        if d.int(0, 2) == 0:
                            A[i][j] = ZERO
            elif cls == "tri":
                for i in range(n):
                    for j in range(i):
                        A[i][j] = ZERO
            elif cls == "perm":
                for i in range(n):
                    for j in range(n):
                        if (i + 1) % n != j and d.int(0, 4):
                            A[i][j] = ZERO
            c["A"] = A
        c["e"] = e
        c["cls"] = "pow:%s" % ("neg" if e < 0 else "zero" if e == 0 else "pos")
        c["sub"] = ekp
    elif op == "transpose":
        c["A"] = [[_ent(d, ek, cplx) for _ in range(n)] for _ in range(m)]
        c["how"] = d.choice(["T", "transpose", "H", "transpose_conj", "conjugate"])
    elif op == "mnorm":
        if d.int(0, 3) == 0:
            # Pythagorean complex entries / integer data: exactly representable norms
            c["A"] = [[_pyth(d, cplx) for _ in range(n)] for _ in range(m)]
            c["sub"] = "pyth"
        else:
            c["A"] = [[_ent(d, ek, cplx) for _ in range(n)] for _ in range(m)]
        c["which"] = d.choice(["1", "inf", "f", "1", "infstr", "F", "fro", "frobenius"])
    else:
        vec = d.bool()
        if vec:
            n = 1
        if d.int(0, 3) == 0:
            c["A"] = [[_pyth(d, cplx) for _ in range(n)] for _ in range(m)]
            c["sub"] = "pyth"
        else:
            c["A"] = [[_ent(d, ek, cplx) for _ in range(n)] for _ in range(m)]
        c["which"] = d.choice(["1", "2", "inf", "infstr", "3", "2"])
        c["aslist"] = vec and d.int(0, 3) == 0
    return c


TRIPLES = [(3, 4), (4, 3), (5, 12), (12, 5), (8, 15), (15, 8), (7, 24), (20, 21), (0, 5), (6, 0), (0, 0), (1, 0)]


def _pyth(d, cplx):
    a, b = d.choice(TRIPLES)
    if d.bool():
        a = -a
    if d.bool():
        b = -b
    if not cplx:
        return ["i", a + b]
    return _spec_int((a, b), 0)


# ======================================================================================== realisation

def _real_obj(mp, e):
    t = e[0]
    if t == "i":
        return e[1]
    if t == "d":
        return mp.make_mpf(exact.mk(1 if e[1] < 0 else 0, abs(e[1]), e[2]))
    if t == "s":
        return e[1]
    raise ValueError(e)


def _obj(mp, e):
    if e[0] == "c":
        return mp.mpc(_real_obj(mp, e[1]), _real_obj(mp, e[2]))
    return _real_obj(mp, e)


def build(mp, spec):
    return mp.matrix([[_obj(mp, e) for e in row] for row in spec])


def build_vec(mp, spec):
    return mp.matrix([_obj(mp, e) for e in spec])


def raw_fr(t):
    if t[1] == 0 and t != fzero:
        raise NonFinite(str(t))
    return exact.to_fraction(t)


def tofr(x):
    if isinstance(x, int):
        return Fr(x)
    t = getattr(x, "_mpf_", None)
    if t is not None:
        return raw_fr(t)
    t = getattr(x, "_mpc_", None)
    if t is not None:
        return CQ(raw_fr(t[0]), raw_fr(t[1]))
    raise TypeError("unexpected entry type %r" % type(x))


def exmat(M):
    return [[tofr(M[i, j]) for j in range(M.cols)] for i in range(M.rows)]


def is_cq(A):
    return any(type(x) is CQ for row in A for x in row)


def raws(M):
    out = []
    for i in range(M.rows):
        for j in range(M.cols):
            x = M[i, j]
            out.append(getattr(x, "_mpf_", None) or getattr(x, "_mpc_", None) or x)
    return out


def show(M, limit=700):
    try:
        rows = []
        for i in range(M.rows):
            rows.append("[" + ", ".join(_s(M[i, j]) for j in range(M.cols)) + "]")
        s = "[" + ", ".join(rows) + "]"
    except Exception:
        s = repr(M)
    return s if len(s) <= limit else s[:limit] + "..."


def _s(x):
    t = getattr(x, "_mpf_", None)
    if t is not None:
        v = raw_fr(t) if (t[1] or t == fzero) else None
        if v is not None and v.denominator == 1 and abs(v) < 10 ** 12:
            return str(v.numerator)
        return "mpf(%s)" % exact.raw_str(t)
    t = getattr(x, "_mpc_", None)
    if t is not None:
        return "mpc(%s,%s)" % (exact.raw_str(t[0]), exact.raw_str(t[1]))
    return repr(x)


class Ctx(object):
    """per-case bookkeeping: calls into mpmath with the documented exceptions caught and the precision verified"""

    def __init__(self, mp, res, p):
        self.mp, self.res, self.p = mp, res, p
        self.desc = ""

    def call(self, name, f, *a, **k):
        mp = self.mp
        self.res.n += 1
        try:
            v = f(*a, **k)
            st = "ok"
        except ZeroDivisionError as e:
            v, st = e, "zde"
        except ValueError as e:
            v, st = e, "ve"
        except NonFinite:
            raise
        except Exception as e:
            from ..core import in_repo_frame
            where = in_repo_frame(e.__traceback__)
            if where is None:
                raise
            v, st = e, "exc"
            bucket = "exception:%s:%s" % (type(e).__name__, name)
            if isinstance(e, TypeError) and "NoneType" in str(e) and where == "matrices.py:__getitem__":
                # LU_decomp found no pivot candidate (all-zero column): p[j] stays None and swap_row(A, j, None) fails;
                # one root cause whatever the entry point
                bucket = "LU_decomp:no_pivot:TypeError"
            self.res.bad(bucket,
                         "%s raised the undocumented %s(%s) at %s: %s" % (name, type(e).__name__, e, where, self.desc))
        finally:
            if mp.prec != self.p:
                self.res.bad("prec_leak:" + name, "%s left mp.prec = %d instead of %d" % (name, mp.prec, self.p))
                mp.prec = self.p
        return st, v

    def unexpected(self, st, bucket, msg):
        """report an outcome other than "ok" unless call() has reported it already (undocumented exception)"""
        if st != "exc":
            self.res.bad(bucket, msg)


def colvec(M):
    """exact entries of a vector result (matrix n x 1, or list)"""
    if isinstance(M, (list, tuple)):
        return [tofr(x) for x in M]
    if M.cols == 1:
        return [tofr(M[i, 0]) for i in range(M.rows)]
    if M.rows == 1:
        return [tofr(M[0, j]) for j in range(M.cols)]
    raise TypeError("vector expected, got %dx%d" % (M.rows, M.cols))


def vec_err(res, bucket, what, got, ref, B, metric):
    """2-norm relative error of a vector/matrix (given as flat lists) against the exact one"""
    if len(got) != len(ref):
        res.bad(bucket + ":shape", "%s: result has %d entries, expected %d" % (what, len(got), len(ref)))
        return
    num = sum((abs2(g - r) for g, r in zip(got, ref)), Fr(0))
    den = sum((abs2(r) for r in ref), Fr(0))
    rt = ratio(num, den, B)
    res.metrics[metric] = max(res.metrics.get(metric, 0.0), min(rt, 1e30))
    if num > B * B * den:
        res.bad(bucket, "%s: relative error is %.3g times the allowed cond*2^(10-p) = %.3g" % (what, rt, f2(B)))


def flat(A):
    return [x for row in A for x in row]


# ======================================================================================== checks

def check_case(c):
    import mpmath
    from mpmath import mp
    res = R()
    res.n = 0
    p = c["p"]
    mp.prec = p
    try:
        try:
            kind = c["kind"]
            if kind == "solve":
                _check_solve(mp, c, res, p)
            elif kind == "ls":
                _check_ls(mp, c, res, p)
            elif kind == "spd":
                _check_spd(mp, c, res, p)
            elif kind == "lu":
                _check_lu(mp, c, res, p)
            elif kind == "qr":
                _check_qr(mp, c, res, p)
            else:
                _check_arith(mp, c, res, p)
        except NonFinite as e:
            res.bad("nonfinite:" + c["kind"], "a result contains inf/nan (%s) for %s" % (e, str(c)[:600]))
        res.n = max(res.n, 1)
        return res
    finally:
        mp.prec = 53


def _nontrivial(A):
    """size >= 2 and not diagonal"""
    return max(len(A), len(A[0])) >= 2 and any(x != 0 for i, row in enumerate(A) for j, x in enumerate(row) if i != j)


def _label(c, A, extra=""):
    return "%s:%s:%s%s" % (c["kind"], c.get("cls", ""), "complex" if is_cq(A) else "real", extra)


def _check_solve(mp, c, res, p):
    M = build(mp, c["A"])
    bv = build_vec(mp, c["b"])
    A = exmat(M)
    b = colvec(bv)
    n = len(A)
    cq = is_cq(A) or any(type(x) is CQ for x in b)
    tag = "complex" if cq else "real"
    K = Ctx(mp, res, p)
    Ainv, det = inv_exact(A)
    res.nontrivial = _nontrivial(A) and n >= 2
    desc = "p=%d A=%s b=%s" % (p, show(M), show(bv, 200))
    K.desc = desc
    if Ainv is None:
        res.cls = _label(c, A, ":singular")
        st, v = K.call("inverse", mp.inverse, M)
        if st not in ("zde", "exc"):
            res.bad("singular:not_detected", "inverse of an exactly singular matrix %s: %s" % (
                "returned " + show(v, 300) if st == "ok" else "raised ValueError %s" % v, desc))
        st, v = K.call("lu_solve", mp.lu_solve, M, bv)
        if st not in ("zde", "exc"):
            res.bad("singular:not_detected", "lu_solve with an exactly singular matrix %s: %s" % (
                "returned " + show(v, 300) if st == "ok" else "raised ValueError %s" % v, desc))
        return
    cond = norm_inf_up(A) * norm_inf_up(Ainv)
    B = cond * Fr(1024, 1 << p)
    res.metrics["log2cond"] = f2(cond.numerator.bit_length() - cond.denominator.bit_length())
    indomain = B < 1
    scaled = c.get("cls") == "scaled"
    res.cls = _label(c, A, "" if indomain else ":illcond")
    x = mat_vec(Ainv, b)
    # every function is called also outside the accuracy domain: documented exceptions only
    st, v = K.call("lu_solve", mp.lu_solve, M, bv)
    if indomain:
        if st == "zde":
            res.bad("false_singular:lu_solve", "lu_solve raised ZeroDivisionError, cond = %.3g: %s" % (f2(cond), desc))
        elif st == "ve":
            K.unexpected(st, "exception:lu_solve", "lu_solve raised ValueError(%s): %s" % (v, desc))
        elif st == "ok":
            vec_err(res, "solve:lu:" + tag, "lu_solve " + desc, colvec(v), x, B, "ratio:lu_solve")
    st, v = K.call("qr_solve", mp.qr_solve, M, bv)
    if indomain:
        if st in ("ve", "zde"):
            _qr_failure(res, st, v, norm_inf_up(Ainv), n, p, "cond = %.3g: %s" % (f2(cond), desc))
        elif st == "ok":
            xs, rn = v
            vec_err(res, "solve:qr:" + tag, "qr_solve " + desc, colvec(xs), x, B, "ratio:qr_solve")
            bn = sqrt_bounds(sum((abs2(t) for t in b), Fr(0)), 30)[1]
            rnv = tofr(rn)
            if type(rnv) is CQ or rnv < 0 or rnv > B * bn:
                res.bad("solve:qr:residual", "qr_solve residual norm %s for a square system exceeds cond*2^(10-p)*|b| = %.3g: %s" % (
                    _s(rn), f2(B * bn), desc))
    st, v = K.call("inverse", mp.inverse, M)
    if indomain:
        if st == "zde":
            res.bad("false_singular:inverse", "inverse raised ZeroDivisionError, cond = %.3g: %s" % (f2(cond), desc))
        elif st == "ve":
            K.unexpected(st, "exception:inverse", "inverse raised ValueError(%s): %s" % (v, desc))
        elif st != "ok":
            pass
        elif (v.rows, v.cols) != (n, n):
            res.bad("inverse:shape", "inverse has shape %dx%d: %s" % (v.rows, v.cols, desc))
        else:
            vec_err(res, "inverse:" + tag, "inverse " + desc, flat(exmat(v)), flat(Ainv), B, "ratio:inverse")
    st, v = K.call("det", mp.det, M)
    if indomain:
        if st != "ok":
            K.unexpected(st, "exception:det", "det raised %s(%s): %s" % (type(v).__name__, v, desc))
        else:
            vec_err(res, "det:" + ("complex" if is_cq(A) else "real"), "det (exact %.6g) %s" % (f2(det.re if type(det) is CQ else det), desc), [tofr(v)], [det], B, "ratio:det")
    # the inputs must be untouched
    if exmat(M) != A or colvec(bv) != b:
        res.bad("input_modified:solve", "a solver modified its arguments: " + desc)


def _qr_failure(res, st, v, ainv_norm, n, p, desc):
    """qr_solve raised for a system inside the accuracy domain.  householder() rejects a column whose SQUARED norm is
    <= eps (an absolute test): that can only happen when 1/(n |A^-1|^2) <= 2^-(p+9).  Every other failure is the
    Householder step itself (it takes sign(re(pivot)), which is 0 for a pivot with zero real part)."""
    if st == "ve" and ainv_norm * ainv_norm * n >= Fr(1 << (p + 9)):
        res.bad("qr_solve:abs_threshold", "qr_solve raised ValueError(%s) although %s" % (v, desc))
    else:
        res.bad("qr_solve:zero_real_pivot", "qr_solve raised %s(%s) although %s" % (type(v).__name__, v, desc))


def _check_ls(mp, c, res, p):
    M = build(mp, c["A"])
    bv = build_vec(mp, c["b"])
    A = exmat(M)
    b = colvec(bv)
    m, n = len(A), len(A[0])
    cq = is_cq(A) or any(type(x) is CQ for x in b)
    tag = "complex" if cq else "real"
    K = Ctx(mp, res, p)
    AH = mat_H(A)
    N = mat_mul(AH, A)
    Ninv, _ = inv_exact(N)
    res.cls = _label(c, A)
    res.nontrivial = True          # m >= 2 and a matrix with more rows than columns is never diagonal-trivial
    if all(x == 0 for i, row in enumerate(A) for j, x in enumerate(row) if i != j):
        res.nontrivial = False
    desc = "p=%d A=%s b=%s" % (p, show(M), show(bv, 200))
    K.desc = desc
    if Ninv is None:
        res.rejected = True        # rank-deficient least squares: outside the statement
        res.cls += ":rankdef"
        K.call("lu_solve", mp.lu_solve, M, bv)
        return
    cond = norm_inf_up(N) * norm_inf_up(Ninv)
    B = cond * Fr(1024, 1 << p)
    res.metrics["log2cond_ls"] = f2(cond.numerator.bit_length() - cond.denominator.bit_length())
    Aplus = mat_mul(Ninv, AH)
    x = mat_vec(Aplus, b)
    b2 = sum((abs2(t) for t in b), Fr(0))
    x2 = sum((abs2(t) for t in x), Fr(0))
    indomain = B < 1 and x2 * 4096 >= fro2(Aplus) * b2
    if not indomain:
        res.rejected = True
        res.cls += ":illcond"
    st, v = K.call("lu_solve", mp.lu_solve, M, bv)
    if indomain:
        if st == "ve" and "positive-definite" in str(v):
            res.bad("cholesky:abs_tol", "lu_solve (normal equations) raised ValueError(%s), cond(A^H A) = %.3g: %s" % (v, f2(cond), desc))
        elif st == "exc":
            pass
        elif st != "ok":
            res.bad("false_singular:lu_solve:ls", "lu_solve raised %s(%s), cond(A^H A) = %.3g: %s" % (type(v).__name__, v, f2(cond), desc))
        else:
            vec_err(res, "ls:lu:" + tag, "lu_solve (overdetermined) " + desc, colvec(v), x, B, "ratio:lu_solve_ls")
    st, v = K.call("qr_solve", mp.qr_solve, M, bv)
    if indomain:
        if st in ("ve", "zde"):
            li, hi_ = sqrt_bounds(norm_inf_up(Ninv), 20)
            _qr_failure(res, st, v, hi_, n, p, "cond(A^H A) = %.3g: %s" % (f2(cond), desc))
        elif st == "ok":
            xs, rn = v
            vec_err(res, "ls:qr:" + tag, "qr_solve (overdetermined) " + desc, colvec(xs), x, B, "ratio:qr_solve_ls")
            r = [s - t for s, t in zip(mat_vec(A, x), b)]
            lo, hi = sqrt_bounds(sum((abs2(t) for t in r), Fr(0)), p + 20)
            bn = sqrt_bounds(b2, 30)[1]
            rnv = tofr(rn)
            if type(rnv) is CQ or rnv < lo - B * bn or rnv > hi + B * bn:
                res.bad("ls:qr:residual", "qr_solve residual norm %s, exact %.17g (allowed deviation %.3g): %s" % (
                    _s(rn), f2(lo), f2(B * bn), desc))
    if exmat(M) != A or colvec(bv) != b:
        res.bad("input_modified:ls", "a solver modified its arguments: " + desc)


def _exact_ldl(A):
    """pivots d_j of the exact LDL^H factorization without pivoting, stopping at the first non-positive pivot"""
    n = len(A)
    S = [list(r) for r in A]
    piv = []
    for j in range(n):
        dj = S[j][j]
        dj = dj.re if type(dj) is CQ else dj
        piv.append(dj)
        if dj <= 0:
            break
        for i in range(j + 1, n):
            f = S[i][j] / dj
            if f != 0:
                for k in range(j + 1, n):
                    S[i][k] = S[i][k] - f * S[j][k]
    return piv


def _check_spd(mp, c, res, p):
    M = build(mp, c["A"])
    bv = build_vec(mp, c["b"])
    A = exmat(M)
    b = colvec(bv)
    n = len(A)
    cq = is_cq(A)
    tag = "hermitian" if cq else "symmetric"
    K = Ctx(mp, res, p)
    res.cls = "spd:%s:%s" % (c["cls"], tag)
    res.nontrivial = _nontrivial(A)
    desc = "p=%d A=%s" % (p, show(M))
    K.desc = desc
    piv = _exact_ldl(A)
    diag = [a.re if type(a) is CQ else a for a in (A[i][i] for i in range(n))]
    pd = len(piv) == n and piv[-1] > 0
    if not pd:
        res.cls += ":notpd"
        j = len(piv) - 1
        clear = piv[j] < 0 and all(piv[i] * (1 << 20) > diag[i] for i in range(j)) and -piv[j] * (1 << 20) > abs(diag[j])
        st, v = K.call("cholesky", mp.cholesky, M)
        if clear and st not in ("ve", "exc"):
            res.bad("cholesky:indefinite", "cholesky of a matrix whose exact pivot %d is %.3g %s: %s" % (
                j, f2(piv[j]), "returned " + show(v, 300) if st == "ok" else "raised %r" % v, desc))
        elif not clear:
            res.rejected = True
        return
    Ainv, det = inv_exact(A)
    cond = norm_inf_up(A) * norm_inf_up(Ainv)
    B = cond * Fr(1024, 1 << p)
    E = Fr(1024, 1 << p)
    indomain = B < 1
    if not indomain:
        res.rejected = True
        res.cls += ":illcond"
    st, L = K.call("cholesky", mp.cholesky, M)
    if st == "ve":
        if indomain:
            res.bad("cholesky:abs_tol", "cholesky raised ValueError(%s) for a positive definite matrix, cond = %.3g: %s" % (L, f2(cond), desc))
    elif st == "zde":
        K.unexpected(st, "exception:cholesky", "cholesky raised ZeroDivisionError: " + desc)
    elif st == "ok":
        ok = True
        if (L.rows, L.cols) != (n, n):
            res.bad("cholesky:shape", "L is %dx%d: %s" % (L.rows, L.cols, desc))
            ok = False
        if ok:
            Lx = exmat(L)
            for i in range(n):
                for j in range(i + 1, n):
                    if Lx[i][j] != 0:
                        res.bad("cholesky:structure", "L[%d,%d] = %s is not zero: %s" % (i, j, _s(L[i, j]), desc))
                        ok = False
                dd = Lx[i][i]
                if type(dd) is CQ and dd.im != 0 or (dd.re if type(dd) is CQ else dd) <= 0:
                    res.bad("cholesky:diagonal", "L[%d,%d] = %s is not a positive real: %s" % (i, i, _s(L[i, i]), desc))
                    ok = False
        if ok and indomain:
            LH = mat_H(Lx)
            P = mat_mul(Lx, LH)
            absL = [[modup(x) for x in row] for row in Lx]
            S = mat_mul(absL, [list(r) for r in zip(*absL)])
            for i in range(n):
                for j in range(n):
                    e2 = abs2(P[i][j] - A[i][j])
                    bd = E * S[i][j]
                    if e2 > bd * bd:
                        res.bad("cholesky:identity", "(L L^H - A)[%d,%d] is %.3g times 2^(10-p) (|L||L^H|)[%d,%d], L=%s: %s" % (
                            i, j, ratio(e2, S[i][j] ** 2, E), i, j, show(L, 300), desc))
                        ok = False
                        break
                if not ok:
                    break
    st, v = K.call("cholesky_solve", mp.cholesky_solve, M, bv)
    if indomain:
        x = mat_vec(Ainv, b)
        if st == "ve":
            res.bad("cholesky:abs_tol", "cholesky_solve raised ValueError(%s), cond = %.3g: %s b=%s" % (v, f2(cond), desc, show(bv, 200)))
        elif st == "zde":
            K.unexpected(st, "exception:cholesky_solve", "cholesky_solve raised ZeroDivisionError: " + desc)
        elif st == "ok":
            offdiag_cplx = any(type(A[i][j]) is CQ and A[i][j].im != 0 for i in range(n) for j in range(n) if i != j)
            # cholesky_solve back-substitutes with L.T: right for symmetric matrices; for Hermitian matrices with
            # non-real off-diagonal entries it would have to be L.H -- its own bucket
            bucket = "cholesky_solve:hermitian" if offdiag_cplx else "cholesky_solve:" + tag
            vec_err(res, bucket, "cholesky_solve %s b=%s" % (desc, show(bv, 200)), colvec(v), x, B, "ratio:cholesky_solve")
    if exmat(M) != A or colvec(bv) != b:
        res.bad("input_modified:spd", "cholesky/cholesky_solve modified its arguments: " + desc)


def _check_lu(mp, c, res, p):
    M = build(mp, c["A"])
    A = exmat(M)
    n = len(A)
    cq = is_cq(A)
    K = Ctx(mp, res, p)
    res.nontrivial = _nontrivial(A)
    desc = "p=%d A=%s" % (p, show(M))
    K.desc = desc
    Ainv, det = inv_exact(A)
    E = Fr(1024, 1 << p)
    if Ainv is None:
        res.cls = _label(c, A, ":singular")
        indomain = False
    else:
        cond = norm_inf_up(A) * norm_inf_up(Ainv)
        indomain = cond * E < 1
        res.cls = _label(c, A, "" if indomain else ":illcond")
    M1 = build(mp, c["A"])
    st, v = K.call("LU_decomp", mp.LU_decomp, M1)
    if st in ("ve", "exc"):
        K.unexpected(st, "exception:LU_decomp", "LU_decomp raised ValueError(%s): %s" % (v, desc))
        return
    if st == "zde":
        if indomain:
            res.bad("false_singular:LU_decomp", "LU_decomp raised ZeroDivisionError, cond = %.3g: %s" % (f2(cond), desc))
        st2, v2 = K.call("lu", mp.lu, M)
        if st2 not in ("zde", "exc"):
            res.bad("lu:inconsistent", "LU_decomp raised ZeroDivisionError but lu did not: " + desc)
        return
    LUm, piv = v
    if exmat(M1) != A:
        res.bad("LU_decomp:overwrite", "LU_decomp(A) without overwrite changed A: " + desc)
    if (LUm.rows, LUm.cols) != (n, n) or len(piv) != max(0, n - 1) or any(
            not isinstance(q, int) or not (k <= q < n) for k, q in enumerate(piv)):
        res.bad("LU_decomp:shape", "LU_decomp returned shape %dx%d, pivots %r: %s" % (LUm.rows, LUm.cols, piv, desc))
        return
    st, v = K.call("lu", mp.lu, M)
    if st != "ok":
        K.unexpected(st, "lu:inconsistent", "LU_decomp succeeded but lu raised %r: %s" % (v, desc))
        return
    P, L, U = v
    for nm, X in (("P", P), ("L", L), ("U", U)):
        if (X.rows, X.cols) != (n, n):
            res.bad("lu:shape", "%s is %dx%d: %s" % (nm, X.rows, X.cols, desc))
            return
    Px, Lx, Ux, LUx = exmat(P), exmat(L), exmat(U), exmat(LUm)
    # structure
    ok = True
    for i in range(n):
        for j in range(n):
            if Px[i][j] != 0 and Px[i][j] != 1:
                ok = False
    if ok:
        ok = all(sum(row) == 1 for row in Px) and all(sum(col) == 1 for col in zip(*Px))
    if not ok:
        res.bad("lu:permutation", "P = %s is not a permutation matrix: %s" % (show(P, 300), desc))
        return
    for i in range(n):
        if Lx[i][i] != 1:
            res.bad("lu:structure", "L[%d,%d] = %s is not 1: %s" % (i, i, _s(L[i, i]), desc))
            ok = False
        for j in range(n):
            if j > i and Lx[i][j] != 0:
                res.bad("lu:structure", "L[%d,%d] = %s is not 0: %s" % (i, j, _s(L[i, j]), desc))
                ok = False
            if j < i and Ux[i][j] != 0:
                res.bad("lu:structure", "U[%d,%d] = %s is not 0: %s" % (i, j, _s(U[i, j]), desc))
                ok = False
    # consistency of lu with LU_decomp
    perm = list(range(n))
    for k, q in enumerate(piv):
        perm[k], perm[q] = perm[q], perm[k]
    for i in range(n):
        for j in range(n):
            want = LUx[i][j]
            got = Lx[i][j] if i > j else Ux[i][j]
            if got != want:
                res.bad("lu:inconsistent", "lu and LU_decomp disagree at [%d,%d]: %s" % (i, j, desc))
                ok = False
        if Px[i][perm[i]] != 1:
            res.bad("lu:inconsistent", "P of lu does not encode the pivots %r of LU_decomp: %s" % (piv, desc))
            ok = False
    if not ok:
        return
    # identity P A = L U, elementwise backward error bound
    PA = [A[perm[i]] for i in range(n)]
    LUp = mat_mul(Lx, Ux)
    absL = [[modup(x) for x in row] for row in Lx]
    absU = [[modup(x) for x in row] for row in Ux]
    S = mat_mul(absL, absU)
    for i in range(n):
        for j in range(n):
            e2 = abs2(PA[i][j] - LUp[i][j])
            bd = E * S[i][j]
            if e2 > bd * bd:
                res.bad("lu:identity", "(P A - L U)[%d,%d] is %.3g times 2^(10-p) (|L||U|)[%d,%d]; L=%s U=%s: %s" % (
                    i, j, ratio(e2, S[i][j] ** 2, E), i, j, show(L, 250), show(U, 250), desc))
                ok = False
                break
        if not ok:
            break
    # first pivot: the row maximising |a_k0| / sum_l |a_kl|  (the values of step 0 are the exact inputs)
    if n >= 2:
        bits = p + 24
        sc = []
        for k in range(n):
            rs_lo = sum((modb(x, bits)[0] for x in A[k]), Fr(0))
            rs_hi = sum((modb(x, bits)[1] for x in A[k]), Fr(0))
            lo, hi = modb(A[k][0], bits)
            sc.append((lo / rs_hi, hi / rs_lo))
        best_lo = max(s[0] for s in sc)
        chosen = piv[0]
        if sc[chosen][1] * (1 + Fr(64, 1 << p)) < best_lo:
            k0 = max(range(n), key=lambda k: sc[k][0])
            res.bad("lu:pivot_rule", "first pivot row %d has |a_k0|/rowsum = %.6g but row %d has %.6g: %s" % (
                chosen, f2(sc[chosen][0]), k0, f2(sc[k0][0]), desc))
    # overwrite=True gives the same factorization in place
    M3 = build(mp, c["A"])
    st, v = K.call("LU_decomp(overwrite)", mp.LU_decomp, M3, overwrite=True)
    if st == "exc":
        pass
    elif st != "ok" or exmat(v[0]) != LUx or list(v[1]) != list(piv) or exmat(M3) != LUx:
        res.bad("LU_decomp:overwrite", "LU_decomp(A, overwrite=True) differs from LU_decomp(A) or did not work in place: " + desc)


def _check_qr(mp, c, res, p):
    M = build(mp, c["A"])
    A = exmat(M)
    m, n = len(A), len(A[0])
    cq = is_cq(A)
    K = Ctx(mp, res, p)
    res.cls = _label(c, A, ":" + c["mode"].lower())
    res.nontrivial = _nontrivial(A)
    desc = "p=%d mode=%s A=%s" % (p, c["mode"], show(M))
    K.desc = desc
    st, v = K.call("qr", mp.qr, M, mode=c["mode"])
    if st != "ok":
        K.unexpected(st, "exception:qr", "qr raised %s(%s): %s" % (type(v).__name__, v, desc))
        return
    Q, Rm = v
    skinny = c["mode"].lower() == "skinny"
    qshape = (m, n) if skinny else (m, m)
    rshape = (n, n) if skinny else (m, n)
    if (Q.rows, Q.cols) != qshape or (Rm.rows, Rm.cols) != rshape:
        res.bad("qr:shape", "Q is %dx%d, R is %dx%d, expected %r and %r: %s" % (Q.rows, Q.cols, Rm.rows, Rm.cols, qshape, rshape, desc))
        return
    Qx, Rx = exmat(Q), exmat(Rm)
    if not cq and (is_cq(Qx) or is_cq(Rx)):
        res.bad("qr:type", "complex Q or R for a real matrix: " + desc)
    for i in range(rshape[0]):
        for j in range(min(i, n)):
            if Rx[i][j] != 0:
                res.bad("qr:structure", "R[%d,%d] = %s is not zero: %s" % (i, j, _s(Rm[i, j]), desc))
                return
    E = Fr(1024, 1 << p)
    a2 = fro2(A)
    QR = mat_mul(Qx, Rx)
    for i in range(m):
        for j in range(n):
            e2 = abs2(QR[i][j] - A[i][j])
            if e2 > E * E * a2:
                res.bad("qr:identity", "(Q R - A)[%d,%d] is %.3g times 2^(10-p) |A|_F; Q=%s R=%s: %s" % (
                    i, j, ratio(e2, a2, E), show(Q, 250), show(Rm, 250), desc))
                return
    G = mat_mul(mat_H(Qx), Qx)
    for i in range(len(G)):
        for j in range(len(G)):
            e2 = abs2(G[i][j] - (1 if i == j else 0))
            if e2 > E * E:
                res.bad("qr:orthonormal", "(Q^H Q - I)[%d,%d] is %.3g times 2^(10-p); Q=%s: %s" % (
                    i, j, ratio(e2, Fr(1), E), show(Q, 300), desc))
                return
    if exmat(M) != A:
        res.bad("input_modified:qr", "qr modified its argument: " + desc)


# ---------------------------------------------------------------------------------------- arithmetic

def _parts(x):
    return (x.re, x.im) if type(x) is CQ else (x, Fr(0))


def _prod_terms(a, b):
    """terms of the real and the imaginary part of a*b in the elementwise definition"""
    ar, ai = _parts(a)
    br, bi = _parts(b)
    return [ar * br, -(ai * bi)], [ar * bi, ai * br]


def _cmp_sum(res, bucket, what, got, terms, p, nops):
    """got (a rational) against the sum of exact terms"""
    S = sum(terms, Fr(0))
    if got == S:
        return True
    if window_exact(terms, p):
        res.bad(bucket + ":exact", "%s = %s but the exact value %s is representable and every evaluation order is exact" % (what, got, S))
        return False
    T = sum((abs(t) for t in terms), Fr(0))
    if abs(got - S) > nops * T / (1 << p):
        res.bad(bucket, "%s = %.17g, exact %.17g, allowed %d * 2^-p * %.3g" % (what, f2(got), f2(S), nops, f2(T)))
        return False
    return True


def _cmp_entry(res, bucket, what, got, re_terms, im_terms, p, nops):
    gr, gi = _parts(got)
    a = _cmp_sum(res, bucket, what + " (real part)" if im_terms else what, gr, re_terms, p, nops)
    b = _cmp_sum(res, bucket, what + " (imaginary part)", gi, im_terms, p, nops)
    return a and b


def _check_arith(mp, c, res, p):
    op = c["op"]
    M = build(mp, c["A"])
    A = exmat(M)
    m, n = len(A), len(A[0])
    K = Ctx(mp, res, p)
    res.cls = "arith:%s:%s" % (c["cls"], "complex" if is_cq(A) else "real")
    res.nontrivial = _nontrivial(A)
    desc = "p=%d A=%s" % (p, show(M, 500))
    K.desc = desc
    snapshot = raws(M)
    if op in ("add", "sub", "mul"):
        N = build(mp, c["B"])
        Bx = exmat(N)
        desc += " B=%s" % show(N, 500)
        if op == "add":
            st, G = K.call("add", lambda: M + N)
        elif op == "sub":
            st, G = K.call("sub", lambda: M - N)
        else:
            st, G = K.call("mul", lambda: M * N)
        if st != "ok":
            K.unexpected(st, "exception:" + op, "%s raised %r: %s" % (op, G, desc))
            return
        rows, cols = (m, n) if op != "mul" else (m, len(Bx[0]))
        if (G.rows, G.cols) != (rows, cols):
            res.bad("arith:%s:shape" % op, "result is %dx%d: %s" % (G.rows, G.cols, desc))
            return
        Gx = exmat(G)
        for i in range(rows):
            for j in range(cols):
                if op == "mul":
                    rt, it = [], []
                    for k in range(n):
                        r1, i1 = _prod_terms(A[i][k], Bx[k][j])
                        rt += r1
                        it += i1
                    nops = 4 * n
                else:
                    sg = 1 if op == "add" else -1
                    ar, ai = _parts(A[i][j])
                    br, bi = _parts(Bx[i][j])
                    rt, it = [ar, sg * br], [ai, sg * bi]
                    nops = 2
                if not _cmp_entry(res, "arith:" + op, "(A %s B)[%d,%d]" % ({"add": "+", "sub": "-", "mul": "*"}[op], i, j),
                                  Gx[i][j], rt, it, p, nops):
                    res.violations[-1] = (res.violations[-1][0], (res.violations[-1][1] + " :: " + desc)[:1500])
                    return
        if raws(N) != raws(build(mp, c["B"])):
            res.bad("input_modified:arith", "operand B changed: " + desc)
    elif op in ("smul", "sadd"):
        s = _obj(mp, c["s"])
        if isinstance(s, str):
            s = mp.mpf(s)
        sx = tofr(s)
        desc += " s=%s side=%s" % (_s(s) if not isinstance(s, int) else s, c["side"])
        if op == "smul":
            st, G = K.call("smul", (lambda: s * M) if c["side"] == "l" else (lambda: M * s))
        else:
            st, G = K.call("sadd", (lambda: s + M) if c["side"] == "l" else (lambda: M + s))
        if st != "ok":
            K.unexpected(st, "exception:" + op, "%s raised %r: %s" % (op, G, desc))
            return
        if (G.rows, G.cols) != (m, n):
            res.bad("arith:%s:shape" % op, "result is %dx%d: %s" % (G.rows, G.cols, desc))
            return
        Gx = exmat(G)
        for i in range(m):
            for j in range(n):
                if op == "smul":
                    rt, it = _prod_terms(sx, A[i][j])
                    nops = 4
                else:
                    ar, ai = _parts(A[i][j])
                    sr, si = _parts(sx)
                    rt, it = [ar, sr], [ai, si]
                    nops = 3
                if not _cmp_entry(res, "arith:" + op, "(%s)[%d,%d]" % (op, i, j), Gx[i][j], rt, it, p, nops):
                    res.violations[-1] = (res.violations[-1][0], (res.violations[-1][1] + " :: " + desc)[:1500])
                    return
    elif op == "pow":
        _check_pow(mp, c, res, p, M, A, K, desc)
    elif op == "transpose":
        how = c["how"]
        desc += " how=" + how
        f = {"T": lambda: M.T, "transpose": lambda: M.transpose(), "H": lambda: M.H,
             "transpose_conj": lambda: M.transpose_conj(), "conjugate": lambda: M.conjugate()}[how]
        st, G = K.call(how, f)
        if st != "ok":
            K.unexpected(st, "exception:transpose", "%s raised %r: %s" % (how, G, desc))
            return
        tr = how != "conjugate"
        cj = how in ("H", "transpose_conj", "conjugate")
        if (G.rows, G.cols) != ((n, m) if tr else (m, n)):
            res.bad("arith:transpose:shape", "%s result is %dx%d: %s" % (how, G.rows, G.cols, desc))
            return
        Gx = exmat(G)
        for i in range(m):
            for j in range(n):
                want = conj(A[i][j]) if cj else A[i][j]
                got = Gx[j][i] if tr else Gx[i][j]
                if not (got == want):
                    res.bad("arith:" + ("transpose_conj" if cj else "transpose"), "%s: entry from A[%d,%d] = %s is %s: %s" % (
                        how, i, j, _s(M[i, j]), _s(G[j, i] if tr else G[i, j]), desc))
                    return
    elif op == "mnorm":
        _check_mnorm(mp, c, res, p, M, A, K, desc)
    else:
        _check_norm(mp, c, res, p, M, A, K, desc)
    if raws(M) != snapshot:
        res.bad("input_modified:arith", "operand A changed: " + desc)


def _check_pow(mp, c, res, p, M, A, K, desc):
    e = c["e"]
    n = len(A)
    desc += " exponent=%d" % e
    cq = is_cq(A)
    tag = "complex" if cq else "real"
    k = abs(e)
    # exact power and the power of the modulus matrix
    X = [[Fr(int(i == j)) for j in range(n)] for i in range(n)]
    absA = [[modup(x) for x in row] for row in A]
    absP = [[Fr(int(i == j)) for j in range(n)] for i in range(n)]
    allexact = True
    vals = [val2(t) for x in flat(A) for t in _parts(x) if t != 0]
    e0 = min(vals) if vals else 0
    absC = [[sum((abs(t) for t in _parts(x)), Fr(0)) for x in row] for row in A]      # |re|+|im| >= every partial term
    absCP = [[Fr(int(i == j)) for j in range(n)] for i in range(n)]
    for q in range(1, k + 1):
        X = mat_mul(X, A)
        absP = mat_mul(absP, absA)
        absCP = mat_mul(absCP, absC)
        if max(flat(absCP)) >= Fr(2) ** (p + q * e0):
            allexact = False
    Ainv = None
    if e < 0:
        Ainv, det = inv_exact(X)
    st, G = K.call("pow", lambda: M ** e)
    if e < 0 and Ainv is None:
        res.cls += ":singular"
        if st not in ("zde", "exc"):
            res.bad("singular:not_detected", "A**%d of an exactly singular matrix %s: %s" % (
                e, "returned " + show(G, 300) if st == "ok" else "raised %r" % G, desc))
        return
    if e < 0:
        cond = norm_inf_up(X) * norm_inf_up(Ainv)
        B = cond * Fr(1024, 1 << p)
        if B >= 1:
            res.rejected = True
            res.cls += ":illcond"
            return
        if st == "zde":
            res.bad("false_singular:pow", "A**%d raised ZeroDivisionError, cond(A^%d) = %.3g: %s" % (e, k, f2(cond), desc))
            return
    if st != "ok":
        K.unexpected(st, "exception:pow", "A**%d raised %r: %s" % (e, G, desc))
        return
    if (G.rows, G.cols) != (n, n):
        res.bad("arith:pow:shape", "result is %dx%d: %s" % (G.rows, G.cols, desc))
        return
    Gx = exmat(G)
    if e < 0:
        vec_err(res, "pow:neg:" + tag, "A**%d %s" % (e, desc), flat(Gx), flat(Ainv), B, "ratio:pow_neg")
        return
    if e == 0:
        if Gx != [[Fr(int(i == j)) for j in range(n)] for i in range(n)]:
            res.bad("arith:pow:zero", "A**0 = %s is not the identity: %s" % (show(G, 300), desc))
        return
    nops = 4 * n * k
    for i in range(n):
        for j in range(n):
            g, x = Gx[i][j], X[i][j]
            if g == x:
                continue
            if allexact:
                res.bad("arith:pow:exact", "(A**%d)[%d,%d] = %s but the exact value %s is representable and so is every intermediate: %s" % (
                    e, i, j, _s(G[i, j]), x, desc))
                return
            if abs2(g - x) > (nops * absP[i][j] / (1 << p)) ** 2:
                res.bad("arith:pow", "(A**%d)[%d,%d] = %s deviates by %.3g times 2^-p (|A|^%d)[%d,%d] (allowed %d): %s" % (
                    e, i, j, _s(G[i, j]), ratio(abs2(g - x), absP[i][j] ** 2, Fr(1, 1 << p)), e, i, j, nops, desc))
                return


def _interval_sum(items, bits):
    lo = hi = Fr(0)
    ex = True
    for x in items:
        a, b = modb(x, bits)
        lo += a
        hi += b
        if a != b:
            ex = False
    return lo, hi, ex


def _cmp_interval(res, bucket, what, got, lo, hi, exact_ok, nops, p, desc):
    """got against a value known to lie in [lo, hi]; exact_ok: the value is lo == hi and every evaluation order is exact"""
    g = tofr(got)
    if type(g) is CQ:
        if g.im != 0:
            res.bad(bucket + ":type", "%s = %s is not real: %s" % (what, _s(got), desc))
            return
        g = g.re
    if lo == hi and g == lo:
        return
    if exact_ok:
        res.bad(bucket + ":exact", "%s = %s but the exact value %s is representable and every evaluation order is exact: %s" % (
            what, _s(got), lo, desc))
        return
    tol = nops * hi / (1 << p)
    if g < lo - tol or g > hi + tol:
        res.bad(bucket, "%s = %s (%.17g), exact %.17g, allowed %d * 2^-p relative: %s" % (what, _s(got), f2(g), f2(lo), nops, desc))


def _mod_exact(x, p):
    """|x| is rational, representable, and its elementwise evaluation sqrt(re^2 + im^2) is exact in every step"""
    a, b = modb(x, 8)
    if a != b or not fits(a, p):
        return False
    if type(x) is CQ and x.re != 0 and x.im != 0:
        return window_exact([x.re * x.re, x.im * x.im], p)
    return True


def _sum_window(items, p):
    """all moduli rational and exactly computable, and their sum exact in every order"""
    if not all(_mod_exact(x, p) for x in items):
        return False
    return window_exact([modb(x, 8)[0] for x in items], p)


def _frobenius(items, p, bits):
    q = sum((abs2(x) for x in items), Fr(0))
    lo, hi = sqrt_bounds(q, bits)
    sq_terms = [t * t for x in items for t in _parts(x)]
    ex = lo == hi and window_exact(sq_terms, p) and fits(lo, p)
    return lo, hi, ex


def _check_mnorm(mp, c, res, p, M, A, K, desc):
    which = c["which"]
    desc += " mnorm %s" % which
    m, n = len(A), len(A[0])
    bits = p + 24
    arg = {"1": 1, "inf": mp.inf, "infstr": "inf"}.get(which, which)
    st, g = K.call("mnorm", mp.mnorm, M, arg)
    if st != "ok":
        K.unexpected(st, "exception:mnorm", "mnorm raised %r: %s" % (g, desc))
        return
    if which in ("1", "inf", "infstr"):
        lines = list(zip(*A)) if which == "1" else A
        sums = [_interval_sum(line, bits) for line in lines]
        lo = max(s[0] for s in sums)
        hi = max(s[1] for s in sums)
        ex = all(s[2] for s in sums) and all(_sum_window(line, p) for line in lines)
        _cmp_interval(res, "norm:mnorm%s" % ("1" if which == "1" else "inf"), "mnorm(A, %s)" % which, g, lo, hi, ex,
                      2 * len(lines[0]) + 1, p, desc)
    else:
        lo, hi, ex = _frobenius(flat(A), p, bits)
        _cmp_interval(res, "norm:mnormf", "mnorm(A, %r)" % which, g, lo, hi, ex, 2 * m * n + 2, p, desc)


def _iroot_bounds(q, k, bits):
    """(lo, hi) bounds of q^(1/k) for a rational q > 0"""
    n, dd = q.numerator, q.denominator
    # q^(1/k) = (n * dd^(k-1))^(1/k) / dd
    v = n * dd ** (k - 1)
    sh = max(0, bits + 2 - v.bit_length() // k)
    v <<= k * sh
    # integer k-th root by Newton
    x = 1 << -(-v.bit_length() // k)
    while True:
        y = ((k - 1) * x + v // x ** (k - 1)) // k
        if y >= x:
            break
        x = y
    den = dd << sh
    if x ** k == v:
        return Fr(x, den), Fr(x, den)
    return Fr(x, den), Fr(x + 1, den)


def _check_norm(mp, c, res, p, M, A, K, desc):
    which = c["which"]
    desc += " norm %s%s" % (which, " (list)" if c.get("aslist") else "")
    items = flat(A)
    bits = p + 24
    arg = {"1": 1, "2": 2, "3": 3, "inf": mp.inf, "infstr": "inf"}[which]
    X = [M[i, 0] for i in range(M.rows)] if c.get("aslist") else M
    st, g = K.call("norm", mp.norm, X, arg)
    if st != "ok":
        K.unexpected(st, "exception:norm", "norm raised %r: %s" % (g, desc))
        return
    if which == "1":
        lo, hi, ex = _interval_sum(items, bits)
        _cmp_interval(res, "norm:1", "norm(x, 1)", g, lo, hi, ex and _sum_window(items, p), 2 * len(items) + 1, p, desc)
    elif which == "2":
        lo, hi, ex = _frobenius(items, p, bits)
        _cmp_interval(res, "norm:2", "norm(x, 2)", g, lo, hi, ex, 2 * len(items) + 2, p, desc)
    elif which in ("inf", "infstr"):
        bs = [modb(x, bits) for x in items]
        lo = max(b[0] for b in bs)
        hi = max(b[1] for b in bs)
        ex = all(_mod_exact(x, p) for x in items)
        _cmp_interval(res, "norm:inf", "norm(x, inf)", g, lo, hi, ex, 3, p, desc)
    else:
        if is_cq(A):
            res.rejected = True
            return
        q = sum((abs(x) ** 3 for x in items), Fr(0))
        if q == 0:
            lo = hi = Fr(0)
        else:
            lo, hi = _iroot_bounds(q, 3, bits)
        _cmp_interval(res, "norm:3", "norm(x, 3)", g, lo, hi, q == 0, 3 * len(items) + 4, p, desc)
