"""C10 -- rounded operations never return more bits than the working precision."""
import operator

from .. import exact, gen, helpers, catalogue as cat
from ..core import R, time_limit, CaseTimeout
from ..exact import fzero, finf, fninf, fnan, raw_json as J, raw_unjson as U

ID = "C10"
LEVEL = "exploration"
RULE = ("Cases = (public entry point, arguments that deliberately carry more bits than the working precision "
        "[p+1, 2p, 10p bits], precision p, optional prec=/dps= keyword). Entry points: binary operators between "
        "mpf/mpc/int/float (incl. reflected), unary +,-,abs, mpf()/mpc() construction, % and **, and every function "
        "of the catalogue (elementary, gamma, zeta, error/exponential integrals, Bessel, hypergeometric, elliptic, "
        "number-theoretic; ~230 names) with real and complex arguments; for cache-backed functions the same call is "
        "made twice (cache-fill path and cache-hit path). Oracle (validity predicate): every real component of the "
        "result has bit length <= the effective precision and is canonical. Calls raising a documented exception are "
        "counted as rejected. Non-trivial = some argument component has more bits than the effective precision.")
ASSUMPTIONS = ["only the operations the statement lists as exact (ldexp, frexp, convert/mpmathify, exact=True/prec=inf, "
               ".real/.imag/re/im) are exempt"]
TECHNIQUE = "property-based testing (Hypothesis), validity predicate on the result representation"

KW_FUNCS = ["sqrt", "cbrt", "ln", "atan", "exp", "expj", "expjpi", "sin", "cos", "tan", "sinh", "cosh", "tanh", "asin",
            "acos", "asinh", "acosh", "atanh", "sinpi", "cospi", "floor", "ceil", "nint", "frac", "fib", "gamma",
            "rgamma", "loggamma", "fac", "digamma", "harmonic", "ei", "e1", "ellipk"]
EXEMPT = {"re", "im", "conj"}     # component access / no arithmetic: not in the statement's list
TLIM = 4.0      # seconds; a call that exceeds it is inconclusive (never a violation)
TWICE = {"bernoulli", "zeta", "gamma", "loggamma", "digamma", "log", "ln", "exp", "cos", "sin", "atan", "psi", "harmonic",
         "bernpoly", "eulernum", "stieltjes"}


def shards(tier):
    if tier == "quick":
        return [("op", 5000)] * 4 + [("fun_f", 2500)] * 4 + [("fun_m", 500)] * 5 + [("fun_s", 40)] * 2 + [("kw", 2500)]
    return [("op", 60000)] * 4 + [("fun_f", 30000)] * 4 + [("fun_m", 6000)] * 5 + [("fun_s", 600)] * 2 + [("kw", 30000)]


def _long(d, p, cplx=False):
    bc = d.choice([p + 1, p + 2, 2 * p, 2 * p + 1, 10 * p, 75, 101])
    m = (1 << (bc - 1)) | (d.bits(min(bc - 1, 64)) << max(0, bc - 65)) | d.bits(min(bc - 1, 50)) | 1
    return exact.mk(d.int(0, 1), m, d.int(-8, 6) - bc)


def gen_case(d, shard, tier):
    p = gen.prec(d, 1, 400) if shard in ("op", "kw", "fun_f") else d.choice([10, 24, 53, 64, 100, 150])
    if shard == "op":
        op = d.choice(["add", "sub", "mul", "div", "mod", "pow_int", "pow", "neg", "pos", "abs", "mpf", "mpc", "radd",
                       "rsub", "rmul", "rdiv", "rpow", "fabs", "sign_mul", "mpf_str", "sqrt_op"])
        c = {"kind": "op", "op": op, "p": p}
        def operand():
            ty = d.choice(["mpf", "mpf", "mpc", "int", "float"])
            if ty == "mpf":
                return ["mpf", J(_long(d, p))]
            if ty == "mpc":
                return ["mpc", [J(_long(d, p)), J(_long(d, p) if d.int(0, 3) else fzero)]]
            if ty == "int":
                return ["int", d.int(-10**6, 10**6) if d.bool() else d.int(-2**200, 2**200)]
            return ["float", gen.pyfloat(d).hex()]
        c["a"] = operand()
        c["b"] = operand()
        if c["a"][0] in ("int", "float") and c["b"][0] in ("int", "float"):
            c["a"] = ["mpf", J(_long(d, p))]
        c["n"] = d.int(-30, 60)
        c["cls"] = "op:%s:%s,%s" % (op, c["a"][0], c["b"][0])
        return c
    if shard == "kw":
        name = d.choice(KW_FUNCS)
        c = {"kind": "kw", "name": name, "p": p, "args": cat.gen_args(d, name if name in cat.FUNCS else "exp", p, long_bits=d.choice([p + 1, 2 * p, 10 * p, 400]))}
        if d.bool():
            c["kp"] = gen.prec(d, 1, 300)
        else:
            c["kd"] = d.int(1, 90)
        c["cls"] = "kw:" + name
        return c
    cost = shard[-1]
    name = d.choice(cat.names(cost))
    lb = d.choice([p + 1, 2 * p, 10 * p, 0])
    return {"kind": "fun", "name": name, "p": p, "args": cat.gen_args(d, name, p, long_bits=lb),
            "twice": name in TWICE or d.int(0, 3) == 0, "cls": "fun:" + name}


def _operand(mp, spec):
    ty, v = spec
    if ty == "mpf":
        return mp.make_mpf(U(v))
    if ty == "mpc":
        return mp.make_mpc((U(v[0]), U(v[1])))
    if ty == "int":
        return int(v)
    return float.fromhex(v)


def _check_result(res, bucket, r, ep, what):
    raws = helpers.raws_of(r)
    for t in raws:
        prob = exact.canonical_problem(t)
        if prob:
            res.bad(bucket + ":noncanonical", "%s: %s" % (what, prob))
            return
        if t[1] and t[3] > ep:
            res.bad(bucket, "%s: a result component has %d bits at effective precision %d: %s" % (what, t[3], ep, exact.raw_str(t)))
            return


def check_case(c):
    import mpmath
    from mpmath import mp
    res = R()
    res.cls = c["cls"]
    p = c["p"]
    DOC = cat.documented_exceptions()
    mp.prec = p
    try:
        if c["kind"] == "op":
            a, b = _operand(mp, c["a"]), _operand(mp, c["b"])
            op = c["op"]
            n = c["n"]
            res.nontrivial = True
            try:
                if op in ("add", "radd"):
                    r = a + b
                elif op in ("sub", "rsub"):
                    r = a - b
                elif op in ("mul", "rmul"):
                    r = a * b
                elif op in ("div", "rdiv"):
                    r = a / b
                elif op == "mod":
                    if hasattr(a, "_mpc_") or hasattr(b, "_mpc_") or isinstance(a, complex) or isinstance(b, complex):
                        res.rejected = True
                        return res
                    r = a % b
                elif op == "pow_int":
                    r = a ** n if not isinstance(a, (int, float)) else mp.mpf(a) ** n
                elif op in ("pow", "rpow"):
                    r = a ** (b if not isinstance(b, int) else mp.mpf(b) / 7)
                elif op == "neg":
                    r = -a if not isinstance(a, (int, float)) else -mp.make_mpf(exact.from_int(3))
                elif op == "pos":
                    r = +a if not isinstance(a, (int, float)) else +b
                elif op == "abs":
                    r = abs(a) if not isinstance(a, (int, float)) else abs(b)
                elif op == "mpf":
                    r = mp.mpf(a) if not hasattr(a, "_mpc_") else mp.mpf(a.real)
                elif op == "mpc":
                    r = mp.mpc(a, b) if not (hasattr(a, "_mpc_") or hasattr(b, "_mpc_")) else mp.mpc(a)
                elif op == "conj":
                    r = mp.conj(a)
                elif op == "fabs":
                    r = mp.fabs(a)
                elif op == "sign_mul":
                    r = mp.sign(a) * b
                elif op == "mpf_str":
                    r = mp.mpf("0.1" + "7" * d_len(n)) + 0
                elif op == "sqrt_op":
                    r = mp.sqrt(a)
                else:
                    raise ValueError(op)
            except DOC:
                res.rejected = True
                return res
            bucket = "op:" + op
            if op in ("add", "sub", "radd", "rsub") and hasattr(r, "_mpc_"):
                # recorded finding C04-add-real-unrounded-imag: mpc +- real passes Im through unrounded.
                # Dedicated bucket only for exactly that shape (real part fine, Im identical to the input's).
                zs = [x for x in (a, b) if hasattr(x, "_mpc_")]
                if len(zs) == 1 and r._mpc_[0][3] <= p and r._mpc_[1][1:] == zs[0]._mpc_[1][1:]:
                    bucket = "known-shape:real-addend-imag-unrounded"
            _check_result(res, bucket, r, p, "%s(%r, %r) at prec %d" % (op, c["a"], c["b"], p))
            return res
        if c["kind"] == "kw":
            name = c["name"]
            args = cat.build_args(mp, c["args"])[:1]
            kw = {}
            if "kp" in c:
                kw["prec"] = ep = c["kp"]
            else:
                kw["dps"] = c["kd"]
                ep = helpers.dps_to_prec(c["kd"])
            res.nontrivial = cat.arg_maxbits(c["args"]) > ep
            try:
                with time_limit(TLIM):
                    r = getattr(mp, name)(*args, **kw)
            except DOC:
                res.rejected = True
                return res
            except CaseTimeout:
                res.inconclusive = True
                return res
            _check_result(res, "kw:" + name, r, ep, "%s(%r, %r) ctx prec %d" % (name, c["args"][:1], kw, p))
            return res
        name = c["name"]
        args = cat.build_args(mp, c["args"])
        res.nontrivial = cat.arg_maxbits(c["args"]) > p
        if name in EXEMPT:
            res.nontrivial = False
        f = getattr(mp, name)
        for rep in range(2 if c.get("twice") else 1):
            try:
                with time_limit(TLIM):
                    r = f(*args)
            except DOC:
                res.rejected = True
                return res
            except CaseTimeout:
                res.inconclusive = True
                return res
            if name not in EXEMPT:
                _check_result(res, "fun:%s%s" % (name, ":2nd" if rep else ""), r, p, "%s(%r) at prec %d (call %d)" % (name, c["args"], p, rep + 1))
            if mp.prec != p:
                mp.prec = p     # precision leaks are C11's business
        return res
    finally:
        mp.prec = 53


def _region_complex_root(case):
    """root/cbrt whose result is complex (complex argument or negative real radicand), order <= 20:
    the Newton branch of mpc_nthroot (recorded finding C10-complex-nthroot)"""
    if case.get("name") not in ("root", "cbrt"):
        return False
    a0 = case["args"][0]
    cplx = a0[0] == "mpc" or (a0[0] == "mpf" and a0[1][0] == 1)
    n = case["args"][1][1] if len(case["args"]) > 1 and case["name"] == "root" else 3
    return cplx and 2 <= n <= 20


REGIONS = {"complex_root_newton": _region_complex_root}


def d_len(n):
    return abs(n) % 40 + 1
