"""C33 -- cached state never leaks stale or wrong results into later calls."""
import sys

from .. import exact, gen, accuracy as acc
from ..core import R, time_limit, CaseTimeout
from ..exact import fzero, finf, fninf, fnan, raw_json as J, raw_unjson as U

ID = "C33"
LEVEL = "exploration"
CASE_TIMEOUT = 300.0
RULE = ("Histories of 8..30 steps executed in one long-lived (dirty) process whose caches also persist across histories. "
        "Steps: set mp.prec (biased to cache thresholds and bucket edges: multiples of 32 +-1, 400, 600, 2500/3000, "
        "int(1.05p+10)); evaluate a cache-touching call (13 constants; bernoulli(n); log of integers <= 2100; zeta(n); "
        "gamma/digamma/loggamma; exp/log/atan/cos/sin; quad on a small set of intervals with both rules and several "
        "degrees; hypergeometric functions with real and complex z; zetazero/siegelz; a memoized user function); "
        "abort such a call by a fault injected at a generated internal call event; evaluate in a clone of mp at another "
        "precision; mutate a shared matrix object (element and slice assignment, resize, LU_decomp, lu_solve, det, "
        "inverse); probe: evaluate in the dirty process and in a pristine forked child (python -m vfw.zygote: mpmath "
        "imported, nothing computed) and compare. Oracle: exact equality for constants, bernoulli and correctly rounded "
        "operations; within the accuracy class otherwise (2^(5-p) elementary, 2^(9-p) special, 2^(11-p) quad and linear "
        "solves, relative to the fresh value); LU probes additionally compare with the solution of the matrix' "
        "current entries. Non-trivial = a probe preceded in the same history by an evaluation sharing a cache at a "
        "different precision, an aborted evaluation, or a matrix mutation after a factorization.")
ASSUMPTIONS = ["a forked child of an interpreter that only imported mpmath has the caches of a fresh process"]
TECHNIQUE = "stateful property-based testing (generated histories) with a fresh-process differential oracle and fault injection"

CONSTS = ["pi", "e", "ln2", "ln10", "phi", "degree", "euler", "catalan", "apery", "khinchin", "glaisher", "twinprime", "mertens"]
_fresh = None
_memo = {}
_matrix = {}


def shards(tier):
    n = 40 if tier == "quick" else 2500
    return [("hist", n)] * 16


# ------------------------------------------------------------------------------------------ programs (also run by the zygote)

def _integrand(mp, name):
    return {"exp": lambda x: mp.exp(-x), "poly": lambda x: x ** 3 - x + 1, "sin": lambda x: mp.sin(3 * x), "rat": lambda x: 1 / (1 + x * x)}[name]


def run_program(mpmath, ctx, prog, args):
    mp = ctx
    if prog == "const":
        return +getattr(mp, args[0])
    if prog == "bernoulli":
        return mp.bernoulli(args[0])
    if prog == "logint":
        return mp.log(args[0])
    if prog == "zetaint":
        return mp.zeta(args[0])
    if prog == "fn":
        x = mp.mpf(args[1]) / args[2]
        if len(args) > 3:
            x = mp.mpc(x, mp.mpf(args[3]) / args[2])
        return getattr(mp, args[0])(x)
    if prog == "quad":
        name, a, b, method = args[:4]
        kw = {"method": method}
        if len(args) > 4 and args[4]:
            kw["maxdegree"] = args[4]
        return mp.quad(_integrand(mp, name), [mp.mpf(a) / 4, mp.mpf(b) / 4], **kw)
    if prog == "hyp":
        name, ps, z = args
        zz = mp.mpf(z[0]) / 16 if len(z) == 1 else mp.mpc(mp.mpf(z[0]) / 16, mp.mpf(z[1]) / 16)
        return getattr(mp, name)(*[mp.mpf(q) / 4 for q in ps], zz)
    if prog == "zetazero":
        return mp.zetazero(args[0])
    if prog == "siegelz":
        return mp.siegelz(mp.mpf(args[0]) / 4)
    if prog == "memo":
        # fresh process: the plain function; the dirty process overrides this with its memoized wrapper
        return getattr(mp, args[0])(mp.mpf(args[1]) / 8)
    if prog == "lu":
        n, ents, b = args
        A = mp.matrix(n, n)
        for i in range(n):
            for j in range(n):
                A[i, j] = mp.mpf(ents[i][j]) / 8
        return _lu_solve_direct(mp, A, [mp.mpf(v) / 8 for v in b])
    if prog == "lu_api":
        n, ents, b, which = args
        A = mp.matrix(n, n)
        for i in range(n):
            for j in range(n):
                A[i, j] = mp.mpf(ents[i][j]) / 8
        return _lu_api(mp, A, [mp.mpf(v) / 8 for v in b], which)
    raise ValueError(prog)


def _lu_solve_direct(mp, A, b):
    """solve through a direct LU_decomp call (the path that reads the matrix' cached factorization)"""
    LU, p = mp.LU_decomp(A)
    bb = mp.matrix([b[i] for i in p])
    y = mp.L_solve(LU, bb, p=None) if False else mp.L_solve(LU, mp.matrix(b), p)
    return mp.U_solve(LU, y)


def _lu_api(mp, A, b, which):
    if which == "lu_solve":
        return mp.lu_solve(A, mp.matrix(b))
    if which == "det":
        return mp.det(A)
    return mp.inverse(A)


# ------------------------------------------------------------------------------------------ generation

PRECS = [31, 32, 33, 53, 63, 64, 65, 95, 96, 97, 127, 128, 129, 200, 399, 400, 401, 599, 600, 601]


def _prog(d, tier):
    k = d.weighted([(5, "const"), (3, "bernoulli"), (2, "logint"), (2, "zetaint"), (5, "fn"), (3, "quad"), (3, "hyp"), (1, "rs"), (2, "memo")])
    if k == "const":
        name = d.choice(CONSTS)
        return ["const", [name]], ("exact", "const:" + name)
    if k == "bernoulli":
        return ["bernoulli", [d.choice([2, 4, 8, 10, 12, 20, 30, 50, 100, 200]) if d.bool() else 2 * d.int(1, 150)]], ("exact1", "bernoulli")
    if k == "logint":
        return ["logint", [d.choice([2, 3, 5, 7, 10, 1999, 2000, 2001, 2100]) if d.bool() else d.int(2, 2100)]], (5, "logint")
    if k == "zetaint":
        return ["zetaint", [d.int(2, 40)]], (9, "zetaint")
    if k == "fn":
        name = d.choice(["exp", "log", "atan", "cos", "sin", "gamma", "loggamma", "digamma", "erf", "sqrt", "cosh"])
        a = ["fn", [name, d.int(1, 400), d.choice([1, 4, 16, 64])]]
        if d.int(0, 3) == 0 and name not in ("erf",):
            a[1].append(d.int(-50, 50))
        return a, (9 if name in ("gamma", "loggamma", "digamma", "erf") else 5, "fn:" + name)
    if k == "quad":
        return ["quad", [d.choice(["exp", "poly", "sin", "rat"]), d.choice([0, -4, 1]), d.choice([4, 8, 3]), d.choice(["tanh-sinh", "gauss-legendre"]),
                         d.choice([0, 0, 5, 6, 7])]], (11, "quad")
    if k == "hyp":
        name, npar = d.choice([("hyp1f1", 2), ("hyp2f1", 3), ("hyp0f1", 1), ("hyp1f2", 3), ("besselj", 1), ("besseli", 1)])
        z = [d.int(-14, 14)] if d.bool() else [d.int(-12, 12), d.int(-12, 12)]
        if name == "hyp2f1":
            z = [max(-12, min(12, v)) for v in z]
        return ["hyp", [name, [d.int(1, 30) for _ in range(npar)], z]], (9, "hyp:" + name)
    if k == "rs":
        if d.bool():
            return ["zetazero", [d.int(1, 40)]], (9, "zetazero")
        return ["siegelz", [d.int(40, 4000)]], (9, "siegelz")
    return ["memo", [d.choice(["sin", "exp", "gamma"]), d.int(1, 40)]], (9, "memo")


def gen_case(d, shard, tier):
    steps = []
    pmax = 650 if tier == "quick" else 3100
    recent = []
    for _ in range(d.int(8, 30)):
        k = d.weighted([(5, "prec"), (7, "eval"), (3, "abort"), (6, "probe"), (2, "clone"), (5, "matrix"), (5, "pattern")])
        if k == "pattern":
            # evaluate X, move the precision by a small amount (up or down), probe X: caches keyed or tagged by
            # precision plus guard bits are the target
            (prog, args), (tol, tag) = _prog(d, tier)
            p0 = d.choice(PRECS) if d.bool() else d.int(15, pmax - 60)
            p1 = max(15, min(pmax, p0 + d.choice([1, 1, -1]) * d.int(1, 40)))
            steps += [["prec", p0], [d.choice(["eval", "eval", "abort"]), prog, args, tol, tag, d.int(0, 1000)][:6 if False else 6], ["prec", p1],
                      ["probe", prog, args, tol, tag]]
            if steps[-3][0] == "eval":
                steps[-3] = steps[-3][:5]
            recent.append(p1)
            continue
        if k == "prec":
            p = d.choice(PRECS) if d.bool() else d.int(15, pmax)
            if d.int(0, 5) == 0 and recent:
                p = int(recent[-1] * 1.05 + 10) + d.int(-2, 2)
            elif d.int(0, 2) == 0 and recent:
                # a small step up or down from the previous precision (caches tagged with guard bits: prec+10, +20)
                p = recent[-1] + d.choice([1, -1]) * d.int(1, 40)
            p = max(15, min(pmax, p))
            recent.append(p)
            steps.append(["prec", p])
        elif k in ("eval", "abort", "probe", "clone"):
            (prog, args), (tol, tag) = _prog(d, tier)
            if k == "probe" and steps and d.int(0, 2) == 0:
                # probe something evaluated earlier in this history (same cache)
                prev = [s for s in steps if s[0] in ("eval", "abort")]
                if prev:
                    s0 = d.choice(prev)
                    prog, args, tol, tag = s0[1], s0[2], s0[3], s0[4]
            if k == "abort" and prog in ("zetazero", "siegelz"):
                prog, args, tol, tag = "zetaint", [d.int(2, 40)], 9, "zetaint"     # tracing makes these too slow
            st = [k, prog, args, tol, tag]
            if k == "abort":
                st.append(d.int(0, 1000))
            if k == "clone":
                st.append(d.choice(PRECS))
            steps.append(st)
        else:
            mk = d.weighted([(3, "set"), (2, "slice"), (1, "resize"), (3, "lu"), (4, "probe"), (2, "api")])
            if mk == "set":
                steps.append(["m_set", d.int(0, 3), d.int(0, 3), d.int(-40, 40)])
            elif mk == "slice":
                steps.append(["m_slice", d.choice(["row", "col", "block"]), d.int(0, 3), [d.int(-40, 40) for _ in range(4)]])
            elif mk == "resize":
                steps.append(["m_resize", d.int(2, 4)])
            elif mk == "lu":
                steps.append(["m_lu"])
            elif mk == "probe":
                steps.append(["m_probe", [d.int(-20, 20) for _ in range(4)]])
            else:
                steps.append(["m_api", d.choice(["lu_solve", "det", "inverse"]), [d.int(-20, 20) for _ in range(4)]])
    return {"steps": steps, "cls": "hist"}


# ------------------------------------------------------------------------------------------ execution

def _fresh_value(req):
    global _fresh
    from .. import zygote
    if _fresh is None:
        _fresh = zygote.Fresh()
    return _fresh.call(req)


def _flatten(j):
    """list of raw tuples in a jsonable result"""
    ty = j[0]
    if ty == "mpf":
        return [U(j[1])]
    if ty in ("mpc", "mpi"):
        return [U(j[1][0]), U(j[1][1])]
    if ty == "matrix":
        out = []
        for x in j[3]:
            out += _flatten(x)
        return out
    if ty == "list":
        out = []
        for x in j[1]:
            out += _flatten(x)
        return out
    return []


def _compare(res, bucket, dirty, fresh, p, tol, what):
    a, b = _flatten(dirty), _flatten(fresh)
    if len(a) != len(b):
        return res.bad(bucket + ":shape", "%s: dirty %r vs fresh %r" % (what, dirty[0], fresh[0]))
    if not a and dirty != fresh:
        return res.bad(bucket, "%s: dirty %r vs fresh %r" % (what, dirty, fresh))
    scale = None
    for t in b:
        if t[1] and (scale is None or t[2] + t[3] > scale[2] + scale[3]):
            scale = t
    for x, y in zip(a, b):
        if tol in ("exact", "exact1"):
            if tuple(x) != tuple(y):
                return res.bad(bucket, "%s: value in this process %s differs from the fresh-process value %s" % (what, exact.raw_str(x), exact.raw_str(y)))
            continue
        if not (acc.finite(x) and acc.finite(y)):
            if tuple(x) != tuple(y):
                return res.bad(bucket, "%s: %s vs fresh %s" % (what, exact.raw_str(x), exact.raw_str(y)))
            continue
        d = acc.sub_raw(x, y)
        ref = y if len(a) == 1 or scale is None else scale
        if acc.exceeds(d, ref if ref[1] else (x if x[1] else exact.from_int(1)), p, tol):
            return res.bad(bucket, "%s: value in this process %s differs from the fresh-process value %s by more than 2^(%d-p)" % (
                what, exact.raw_str(x), exact.raw_str(y), tol))


def check_case(c):
    import mpmath
    from mpmath import mp
    from .C11 import Injector, InjectedFault
    from ..zygote import _jsonable
    res = R()
    res.cls = c["cls"]
    DOC = (ValueError, ZeroDivisionError, mpmath.libmp.NoConvergence, NotImplementedError, OverflowError, TypeError)
    mp.prec = 53
    # the shared matrix object lives for one history (numeric caches persist across histories, the matrix does not:
    # a history interrupted by the safety timeout in the middle of a resize would leave it inconsistent)
    _matrix["model"] = [[8, 1, 2, 3], [1, 9, 0, 1], [2, 0, 7, 1], [3, 1, 1, 10]]
    _matrix["A"] = mp.matrix(_matrix["model"]) / 8
    A, model = _matrix["A"], _matrix["model"]
    seen = {}          # tag -> set of precisions at which something sharing the cache ran
    dirty_matrix = False
    nprobe = 0
    try:
        for stp in c["steps"]:
            op = stp[0]
            p = mp.prec
            if op == "prec":
                mp.prec = stp[1]
                continue
            if op in ("eval", "abort", "probe", "clone"):
                prog, args, tol, tag = stp[1], stp[2], stp[3], stp[4]
                def run(ctx=mp):
                    if prog == "memo":
                        key = args[0]
                        if key not in _memo:
                            _memo[key] = mp.memoize(getattr(mp, key))
                        return _memo[key](mp.mpf(args[1]) / 8)
                    return run_program(mpmath, ctx, prog, args)
                try:
                    with time_limit(60.0):
                        if op == "eval":
                            try:
                                run()
                            except DOC:       # e.g. hypsum's documented ValueError where the value is exactly zero
                                pass
                            seen.setdefault(tag, set()).add(p)
                        elif op == "abort":
                            cnt = Injector()
                            try:
                                cnt.run(run)
                            except DOC:
                                pass
                            if cnt.n:
                                inj = Injector(1 + stp[5] * (cnt.n - 1) // 1000, InjectedFault("x"))
                                try:
                                    inj.run(run)
                                except InjectedFault:
                                    pass
                                except DOC:
                                    pass
                            mp.prec = p
                            seen.setdefault(tag, set()).add(-1)
                        elif op == "clone":
                            cl = mp.clone()
                            cl.prec = stp[5]
                            try:
                                run_program(mpmath, cl, prog, args)
                            except DOC:
                                pass
                            seen.setdefault(tag, set()).add(stp[5])
                        else:
                            try:
                                r = run()
                            except DOC:
                                continue
                            fresh = _fresh_value({"ctx": "mp", "prec": p, "prog": prog, "args": args})
                            nprobe += 1
                            if "ok" not in fresh:
                                continue
                            if seen.get(tag, set()) - {p}:
                                res.nontrivial = True
                            _compare(res, "stale:%s" % tag.split(":")[0], _jsonable(r), fresh["ok"], p, tol,
                                     "%s%r at prec %d after %d earlier steps" % (prog, args, p, c["steps"].index(stp)))
                            seen.setdefault(tag, set()).add(p)
                except CaseTimeout:
                    res.inconclusive = True
                    mp.prec = p
                continue
            # matrix rules
            n = A.rows
            if op == "m_set":
                i, j = stp[1] % n, stp[2] % n
                A[i, j] = mp.mpf(stp[3]) / 8
                model[i][j] = stp[3]
                dirty_matrix = True
            elif op == "m_slice":
                kind, i, vals = stp[1], stp[2] % n, stp[3]
                if kind == "row":
                    A[i, :] = mp.matrix([[mp.mpf(v) / 8 for v in vals[:n]]])
                    for j in range(n):
                        model[i][j] = vals[j]
                elif kind == "col":
                    A[:, i] = mp.matrix([mp.mpf(v) / 8 for v in vals[:n]])
                    for j in range(n):
                        model[j][i] = vals[j]
                else:
                    A[0:2, 0:2] = mp.matrix([[mp.mpf(vals[0]) / 8, mp.mpf(vals[1]) / 8], [mp.mpf(vals[2]) / 8, mp.mpf(vals[3]) / 8]])
                    model[0][0], model[0][1], model[1][0], model[1][1] = vals
                dirty_matrix = True
            elif op == "m_resize":
                nn = stp[1]
                A.rows = nn
                A.cols = nn
                newm = [[(model[i][j] if i < n and j < n else 0) for j in range(nn)] for i in range(nn)]
                # make the new rows/columns nonsingular
                for i in range(n, nn):
                    A[i, i] = mp.mpf(16) / 8
                    newm[i][i] = 16
                model[:] = newm
                _matrix["model"] = model
                dirty_matrix = True
            elif op == "m_lu":
                try:
                    mp.LU_decomp(A)
                except ZeroDivisionError:
                    pass
            elif op in ("m_probe", "m_api"):
                b = stp[-1][:A.rows]
                n = A.rows
                ents = [row[:n] for row in model[:n]]
                try:
                    if op == "m_probe":
                        r = _lu_solve_direct(mp, A, [mp.mpf(v) / 8 for v in b])
                        req = {"ctx": "mp", "prec": p, "prog": "lu", "args": [n, ents, b]}
                    else:
                        r = _lu_api(mp, A, [mp.mpf(v) / 8 for v in b], stp[1])
                        req = {"ctx": "mp", "prec": p, "prog": "lu_api", "args": [n, ents, b, stp[1]]}
                except ZeroDivisionError:
                    continue
                fresh = _fresh_value(req)
                nprobe += 1
                if "ok" not in fresh:
                    continue
                res.nontrivial = res.nontrivial or dirty_matrix
                _compare(res, "stale:matrix:%s" % op, _jsonable(r), fresh["ok"], p, 11 + 12,
                         "%s on the shared matrix (model entries/8 = %r) at prec %d" % (op, ents, p))
        res.n = max(1, nprobe)
        return res
    finally:
        sys.settrace(None)
        mp.prec = 53
