"""Accuracy comparison of mpmath results with reference values (exact integer comparisons).

All values are raw mpf tuples; complex values are pairs.  `tol` is the log2 of the allowed
relative error numerator, i.e. the allowed relative error is 2^(tol - p)."""
from . import exact
from .exact import fzero, finf, fninf, fnan


def _abs(t):
    return (0,) + tuple(t[1:]) if t[1] else t


def sub_raw(a, b):
    """exact a - b of finite raws as raw, or None if the exponent gap is absurd (=> huge error)"""
    if a[1] == 0:
        return (1 - b[0],) + tuple(b[1:]) if b[1] else fzero
    if b[1] == 0:
        return a
    if abs(a[2] - b[2]) > 200000:
        return None
    m, e = exact.add_exact(a, (1 - b[0],) + tuple(b[1:]))
    return exact.mk(1 if m < 0 else 0, abs(m), e)


def exceeds(diff, scale, p, tol):
    """True iff |diff| > 2^(tol-p) * (1 + 2^-20) * |scale|   (exact)"""
    if diff is None:
        return True
    if diff[1] == 0:
        return False
    if scale[1] == 0:
        return True
    # |diff| * 2^(p - tol) * 2^20  >  |scale| * (2^20 + 1)
    lhs = (0, diff[1], diff[2] + p - tol + 20, diff[3])
    sm = scale[1] * ((1 << 20) + 1)
    rhs = exact.mk(0, sm, scale[2])
    return exact.cmp_exact(lhs, rhs) > 0


def err_log2(diff, scale):
    """approximate log2(|diff|/|scale|) (for metrics), -inf -> -99999"""
    if diff is None:
        return 99999
    if diff[1] == 0:
        return -99999
    if scale[1] == 0:
        return 99999
    return (diff[2] + diff[3]) - (scale[2] + scale[3])


def finite(t):
    return t[1] != 0 or t == fzero


def check_real(got, ref, p, tol):
    """returns (ok, errlog2 + p) for real values; specials must match exactly"""
    if not finite(ref) or not finite(got):
        return (tuple(got) == tuple(ref)), 0
    if ref == fzero:
        return (got == fzero), 0
    d = sub_raw(got, ref)
    return (not exceeds(d, ref, p, tol)), err_log2(d, ref) + p


def max_abs(a, b):
    a, b = _abs(a), _abs(b)
    return a if exact.cmp_exact(a, b) >= 0 else b


def check_complex(got, ref, p, tol, metric):
    """metric 'parts': each part relative to itself; 'max': each part's error relative to the larger reference
    part; 'modulus': |got-ref| <= 2^(tol-p) |ref|.  Returns (ok, worst errlog2 + p, which)"""
    (gr, gi), (rr, ri) = got, ref
    for t in (gr, gi, rr, ri):
        if not finite(t):
            same = tuple(gr) == tuple(rr) and tuple(gi) == tuple(ri)
            return same, 0, "special"
    if metric == "parts":
        worst = -99999
        ok = True
        which = ""
        for g, r, name in ((gr, rr, "re"), (gi, ri, "im")):
            if r == fzero:
                if g != fzero:
                    return False, 99999, name + " must be exactly zero"
                continue
            d = sub_raw(g, r)
            if exceeds(d, r, p, tol):
                ok = False
                which = name
            worst = max(worst, err_log2(d, r) + p)
        return ok, worst, which
    if metric == "max":
        scale = max_abs(rr, ri)
        if scale == fzero:
            return (gr == fzero and gi == fzero), 0, "zero"
        worst = -99999
        ok = True
        which = ""
        for g, r, name in ((gr, rr, "re"), (gi, ri, "im")):
            d = sub_raw(g, r)
            if exceeds(d, scale, p, tol):
                ok = False
                which = name
            worst = max(worst, err_log2(d, scale) + p)
        return ok, worst, which
    # modulus: |d|^2 <= 4^(tol-p) |ref|^2 (1+2^-19)
    dr, di = sub_raw(gr, rr), sub_raw(gi, ri)
    if dr is None or di is None:
        return False, 99999, "modulus"
    if rr == fzero and ri == fzero:
        return (gr == fzero and gi == fzero), 0, "zero"
    def sq(t):
        return (t[1] * t[1], 2 * t[2]) if t[1] else (0, 0)
    def addsq(a, b):
        (ma, ea), (mb, eb) = sq(a), sq(b)
        if ma == 0:
            return exact.mk(0, mb, eb)
        if mb == 0:
            return exact.mk(0, ma, ea)
        if abs(ea - eb) > 400000:
            return exact.mk(0, ma, ea) if ea + ma.bit_length() > eb + mb.bit_length() else exact.mk(0, mb, eb)
        e = min(ea, eb)
        return exact.mk(0, (ma << (ea - e)) + (mb << (eb - e)), e)
    d2 = addsq(dr, di)
    r2 = addsq(rr, ri)
    if d2 == fzero:
        return True, -99999, ""
    # d2 * 4^(p - tol) * 2^19 > r2 * (2^19 + 1) ?
    lhs = (0, d2[1], d2[2] + 2 * (p - tol) + 19, d2[3])
    rhs = exact.mk(0, r2[1] * ((1 << 19) + 1), r2[2])
    bad = exact.cmp_exact(lhs, rhs) > 0
    el = ((d2[2] + d2[3]) - (r2[2] + r2[3])) // 2 + p
    return (not bad), el, "modulus"
